//go:build verif

// Stage "foreign": blocks the node's own worker would never build. The worker
// and the pool only spend committed outputs, so the "worker" stage never sees a
// block in which one Qi transaction spends an output created by an earlier
// transaction of the same block. hnet's foreign miner adds such transactions to
// the worker's pending block, takes the execution commitments from the real
// state processor of a twin node, re-seals and delivers the block:
//   - valid shapes (tx2 spends tx1; a chain of three; tx2 spending an output of
//     tx1 together with a committed output) must be accepted end to end and the
//     reference ledger, advanced transaction by transaction, must equal the
//     zone's UTXO key space afterwards;
//   - a block in which two transactions spend the same in-block output, and a
//     block in which the spender precedes the creator, must not be accepted,
//     whatever commitments the header carries.
package c01

import (
	"errors"
	"fmt"
	"math/rand"
	"os"
	"strings"
	"testing"

	"github.com/dominant-strategies/go-quai/common"
	"github.com/dominant-strategies/go-quai/core/types"

	"verif/checks/c01/model"
	"verif/internal/hnet"
	"verif/internal/mon"
)

func utxoKeySpace(n *hnet.Net) map[model.OutPoint]model.Entry {
	db := map[model.OutPoint]model.Entry{}
	for _, u := range hnet.AllUTXOs(n.Zone().DB) {
		c := utxoToCreated(u)
		db[c.Out] = c.Entry
	}
	return db
}

// foreignHistory runs one history on a storage backend: prefix until the wallet holds spendable outputs, then
// rounds x shapes foreign blocks with ordinary blocks in between. sfx is appended to the coverage classes.
func foreignHistory(m *mon.M, r *rand.Rand, backend string, rounds int, shapes []string) {
	sfx := ""
	opts := hnet.Options{}
	if backend != "memory" {
		sfx = ":" + backend
		dir, err := os.MkdirTemp(".", "c01-foreign-"+backend+"-")
		if err != nil {
			m.Inconclusive("temp dir: " + err.Error())
			return
		}
		defer os.RemoveAll(dir)
		opts.Backend, opts.Dir = backend, dir
	}
	a, err := hnet.NewActivity(r, opts)
	if err != nil {
		m.Inconclusive("hnet start failed (" + backend + "): " + err.Error())
		return
	}
	defer a.N.Close()
	a.QiPerStep, a.ConvEvery = 2, 3
	w := &workerRun{m: m, a: a, led: model.New(hnet.ZoneLoc.BytePrefix(), types.Denominations), signer: types.NewSigner(a.W.ChainID, hnet.ZoneLoc),
		sent: map[common.Hash]string{}, sentRaw: map[common.Hash]string{}, poolLog: map[string]int{}, lastErr: map[string]string{}}
	for _, u := range hnet.AllUTXOs(a.N.Zone().DB) {
		c := utxoToCreated(u)
		w.led.Mint(c.Out, c.Entry)
	}
	ordinary := func(mm *hnet.Mined) error {
		w.origin = ""
		w.replayBlock(mm)
		return nil
	}
	if _, err := a.GrowQi(12, 90, 10, 3, ordinary); err != nil {
		m.Extra("prefix_error"+sfx, err.Error())
		if !errors.Is(err, hnet.ErrNotFunded) {
			// (whether the node's own blocks append is the worker stage's question)
			m.Inconclusive("prefix (" + backend + "): " + err.Error())
			return
		}
	}
	filler := func() bool {
		a.FundQi(int64(4e8))
		mm, err := a.Step(hnet.MineOpts{WantOrder: -1})
		if err == nil {
			err = a.N.Settle()
		}
		if err != nil {
			m.Inconclusive("ordinary block failed (" + backend + "): " + err.Error())
			return false
		}
		ordinary(mm)
		return true
	}
	for round := 0; round < rounds && m.Violations() < 10; round++ {
		for _, shape := range shapes {
			decided := false
			for attempt := 0; attempt < 7 && !decided; attempt++ {
				before := utxoKeySpace(a.N)
				f, plan, err := a.StepForeign(hnet.MineOpts{WantOrder: -1}, shape, nil)
				if f == nil || f.Mined == nil {
					// nothing was delivered: no suitable output yet, or (valid shapes) the processor refused the body
					m.AddExtra("foreign_block_not_built:"+shape+sfx, 1)
					m.Extra("last_build_error:"+shape+sfx, normErr(fmt.Sprint(err)))
					if f != nil && f.TwinErr != nil && hnet.ShapeValid(shape) {
						m.AddExtra("valid_shape_refused_by_twin:"+shape+sfx, 1)
					}
					if !filler() {
						return
					}
					continue
				}
				decided = true
				wit := map[string]any{"backend": backend, "round": round, "shape": shape, "plan": plan.Describe(), "zone_block_hash": f.Hash.Hex(), "zone_block_number": f.Number[2], "order": f.Order,
					"zone_block_wire": mon.Hex(f.Wire[2]), "header_fields_recomputed": f.Fixed, "positions_of_the_extra_txs": f.Positions, "results_from_live_processor": f.OnLive,
					"twin_process_error": fmt.Sprint(f.TwinErr), "append_error": fmt.Sprint(f.DeliverErr), "execute_error": fmt.Sprint(f.ExecErr)}
				// the statement's verdict on the block: the reference ledger, transaction by transaction
				ref := w.led.Clone()
				var forbidden []string
				for ti, tx := range f.Blocks[2].Transactions() {
					if tx.Type() != types.QiTxType {
						continue
					}
					eff, reasons := ref.Check(toModelTx(tx, w.signer), f.Number[2])
					if len(reasons) > 0 {
						forbidden = append(forbidden, fmt.Sprintf("tx %d: %s", ti, strings.Join(reasons, ",")))
						continue
					}
					ref.Commit(eff)
				}
				wit["reference_ledger_verdict"] = forbidden
				if hnet.ShapeValid(shape) {
					if err != nil || !f.Accepted {
						// (MineForeignOpts only delivers what the twin's / its own processor accepted)
						m.Violation("live-node-refuses-block-its-twin-accepted:"+shape+sfx, fmt.Sprint(err), wit)
						break
					}
					if len(forbidden) > 0 {
						m.Violation("foreign-block-accepted-that-the-ledger-forbids:"+shape+sfx, strings.Join(forbidden, "; "), wit)
					}
					w.origin = "foreign"
					w.replayBlock(f.Mined)
					w.origin = ""
					m.Eval(shape+":accepted"+sfx, f.Hash.Hex())
					if f.Order < 2 {
						m.Eval("foreign-block-of-dominant-order", f.Hash.Hex())
					}
					if bad, _, cerr := a.N.CheckHeadCommitment(); cerr == nil && len(bad) > 0 {
						m.Violation("head-commitment-differs-from-database-after-foreign-block:"+shape+sfx, fmt.Sprint(bad), wit)
					}
					continue
				}
				// invalid shapes
				if len(forbidden) == 0 {
					m.Inconclusive("the reference ledger does not forbid the " + shape + " block that was built")
					continue
				}
				if f.TwinErr == nil {
					m.Violation("processor-accepts-block:"+shape+sfx, "StateProcessor.Process returned no error for a body the reference ledger forbids: "+strings.Join(forbidden, "; "), wit)
				}
				if f.Accepted {
					m.Violation("block-accepted:"+shape+sfx, "the live node executed the block and made it its head; the reference ledger forbids it: "+strings.Join(forbidden, "; "), wit)
					w.origin = "foreign"
					w.replayBlock(f.Mined)
					w.origin = ""
					continue
				}
				if f.RestoreErr != nil {
					m.Violation("node-stuck-after-refused-block:"+shape+sfx, f.RestoreErr.Error(), wit)
					return
				}
				after := utxoKeySpace(a.N)
				diff := 0
				for o, e := range before {
					if ae, ok := after[o]; !ok || ae != e {
						diff++
					}
				}
				for o := range after {
					if _, ok := before[o]; !ok {
						diff++
					}
				}
				if diff > 0 {
					m.Violation("refused-block-changed-utxo-key-space:"+shape+sfx, fmt.Sprintf("%d outpoints differ before/after the refused block", diff), wit)
				}
				m.Eval(shape+":rejected"+sfx, f.Hash.Hex())
				if round == 0 && backend == "memory" {
					m.Sample(wit)
				}
			}
			// an ordinary block between the foreign ones (also shows the node goes on after a refused block)
			if !filler() {
				return
			}
		}
	}
	if backend == "memory" {
		for k, v := range a.Submitted {
			m.Extra("activity-submitted:"+k, int64(v))
		}
		m.Extra("reference_ledger_size_at_end", int64(w.led.Len()))
	}
}

func TestC01Foreign(t *testing.T) {
	m := mon.New(t, "C01", "foreign")
	defer m.Finish()
	m.Rule("hnet histories whose zone blocks include FOREIGN blocks (the worker's pending block plus dependent Qi transactions the worker never produces, execution commitments from the real state processor - a twin node on the memory backend, the node's own processor on leveldb / pebble -, re-sealed, delivered over the wire codec and the normal append path): blocks with a chained spend, a chain of three, and a spend of an in-block output together with a committed output must be accepted and executed, and the reference ledger advanced transaction by transaction (an input may be an output created earlier in the same block, never one created later, never one already consumed) must equal the zone's UTXO key space afterwards; a block in which two transactions spend the same in-block output, a block in which two transactions spend the same COMMITTED output, and a block whose spender precedes the creator are forbidden by the reference ledger and must be refused by the processor and by the live node, leaving the UTXO key space unchanged; the double-spend shapes and the chained spend also on leveldb and pebble; distinct = block hashes")
	m.Assume("chains are not reproducible from the seed (pending headers carry wall-clock time): every run attempts the same list of shapes and adds filler blocks until each was decided; witnesses are the recorded block bytes",
		"outputs of trimmable denominations that disappear are treated as trimming")
	rounds := m.N(4, 40)
	all := []string{hnet.ShapeChain2, hnet.ShapeDoubleSpend, hnet.ShapeChain3, hnet.ShapeSpendBeforeCreate, hnet.ShapeMixed, hnet.ShapeDoubleSpendCommitted}
	foreignHistory(m, m.Rand("foreign"), "memory", rounds, all)
	need := []string{hnet.ShapeChain2 + ":accepted", hnet.ShapeChain3 + ":accepted", hnet.ShapeMixed + ":accepted", hnet.ShapeDoubleSpend + ":rejected", hnet.ShapeSpendBeforeCreate + ":rejected",
		hnet.ShapeDoubleSpendCommitted + ":rejected", "foreign:qi-tx-in-block:regular-spend", "foreign:block-with-qi-txs"}
	disk := []string{hnet.ShapeDoubleSpendCommitted, hnet.ShapeDoubleSpend, hnet.ShapeChain2}
	for _, be := range []string{"pebble", "leveldb"} {
		if m.Violations() >= 10 {
			break
		}
		foreignHistory(m, m.Rand("foreign-"+be), be, m.N(1, 10), disk)
		need = append(need, hnet.ShapeDoubleSpendCommitted+":rejected:"+be, hnet.ShapeDoubleSpend+":rejected:"+be, hnet.ShapeChain2+":accepted:"+be)
	}
	m.Need(need...)
	m.Floor(int64(6*rounds), 10)
}
