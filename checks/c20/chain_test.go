//go:build verif

// Stage "chain": conversions in both directions over live three-level
// histories, judged per conversion id by a three-way join (origin block,
// the repriced inbound list handed down by prime, destination execution).
package c20

import (
	"encoding/binary"
	"encoding/hex"
	"fmt"
	"math/big"
	"math/rand"
	"os"
	"sort"
	"testing"
	"time"

	"github.com/dominant-strategies/go-quai/common"
	"github.com/dominant-strategies/go-quai/consensus/misc"
	"github.com/dominant-strategies/go-quai/core/types"
	"github.com/dominant-strategies/go-quai/params"

	"verif/internal/hnet"
	"verif/internal/mon"
)

// slipForkAt is the prime height of ConversionSlipChangeBlock in this process
// (the var is global: one setting per OS process, chosen by the stage's env).
var slipForkMode = "post"

func init() {
	switch v := os.Getenv("C20_SLIPFORK"); v {
	case "cross":
		// prime blocks 3..9 reprice with the pre-fork rule, 10.. with the post-fork rule
		params.ConversionSlipChangeBlock = 9
		slipForkMode = "cross"
	case "pre":
		slipForkMode = "pre" // the production value (285000): the whole history is pre-fork
	default:
		params.ConversionSlipChangeBlock = 0
		slipForkMode = "post"
	}
}

var dbg = os.Getenv("C20_DEBUG") != ""

func dlog(t testing.TB, f string, a ...any) {
	if dbg {
		t.Logf(f, a...)
	}
}

const (
	dirQuaiToQi = "quai->qi"
	dirQiToQuai = "qi->quai"
)

// conv is one conversion the workload submitted.
type conv struct {
	Dir         string
	Tx          *types.Transaction
	Amount      *big.Int // origin units (its or qits)
	SlipField   int      // -1: no slip bytes in the data
	SlipEff     int64    // the statement's clamp applied
	Sender      *hnet.QuaiKey
	Inputs      []hnet.Utxo
	Recipient   common.Address // Qi address (quai->qi) / Quai address (qi->quai)
	Refund      []byte         // Qi refund address (qi->quai)
	TxGas       uint64
	Price       *big.Int
	ExpectNoEtx bool // below the minimum: must fail at the origin
	AmountClass string
	SlipClass   string
	Scenario    string
	// observations on the canonical chain (reset by every walk)
	origin   *obsOrigin
	prime    *obsPrime
	dest     *obsDest
	credited bool
}

type obsOrigin struct {
	Block  *types.WorkObject
	Index  int
	Etx    *types.Transaction
	Status uint64
	Gas    uint64
}
type obsPrime struct {
	Block *types.WorkObject // the prime-coincident zone block that received it
	Etx   *types.Transaction
	R     *big.Int
	Next  common.Hash
}
type obsDest struct {
	Block  *types.WorkObject
	Etx    *types.Transaction
	Gas    uint64
	Status uint64
}

func clampSlip(field int) int64 {
	if field < 0 {
		return params.MaxSlip.Int64()
	}
	s := int64(field)
	if s > params.MaxSlip.Int64() {
		s = params.MaxSlip.Int64()
	}
	if s < params.MinSlip.Int64() {
		s = params.MinSlip.Int64()
	}
	return s
}

func slipClass(field int) string {
	switch {
	case field < 0:
		return "absent"
	case field == 0:
		return "zero"
	case int64(field) < params.MinSlip.Int64():
		return "below-min"
	case int64(field) == params.MinSlip.Int64():
		return "min"
	case int64(field) == params.MaxSlip.Int64():
		return "max"
	case int64(field) > params.MaxSlip.Int64():
		return "above-max"
	default:
		return "mid"
	}
}

type utxoSnap map[string]hnet.Utxo

func opKey(h common.Hash, i uint16) string { return fmt.Sprintf("%x:%d", h[:], i) }

type hist struct {
	t     testing.TB
	m     *mon.M
	idx   int
	n     *hnet.Net
	w     *hnet.Wallet
	r     *rand.Rand
	convs map[common.Hash]*conv
	order []*conv
	// tracked Quai accounts (conversion senders and Qi->Quai recipients): no other traffic touches them
	tracked map[common.AddressBytes]string
	// tracked Qi addresses (recipients, refund addresses)
	trackedQi  map[string]bool
	snaps      map[common.Hash]utxoSnap
	wire       map[common.Hash][3][]byte
	inFlight   map[string]bool
	senderBusy map[common.AddressBytes]uint64 // sender -> zone height at which its last tx was submitted
	recipSeq   int
	sincePrime int
	pref       float64
	orders     []int
	submitErr  map[string]int
}

func (h *hist) wit(extra map[string]any) map[string]any {
	w := map[string]any{"history": h.idx, "slip_fork_mode": slipForkMode, "ConversionSlipChangeBlock": params.ConversionSlipChangeBlock, "miner_preference": h.pref, "orders": h.orders}
	for k, v := range extra {
		w[k] = v
	}
	return w
}

func (h *hist) convWit(c *conv) map[string]any {
	w := map[string]any{"direction": c.Dir, "amount": c.Amount.String(), "slip_field": c.SlipField, "slip_effective_bp": c.SlipEff, "scenario": c.Scenario,
		"amount_class": c.AmountClass, "originating_tx": c.Tx.Hash().Hex(), "recipient": c.Recipient.Hex()}
	if c.origin != nil {
		w["origin_block"] = c.origin.Block.Hash().Hex()
		w["origin_height"] = c.origin.Block.NumberU64(common.ZONE_CTX)
		w["origin_block_wire"] = hex.EncodeToString(h.wire[c.origin.Block.Hash()][2])
		if c.origin.Etx != nil {
			w["etx_index"] = c.origin.Etx.ETXIndex()
			w["etx_gas"] = c.origin.Etx.Gas()
		}
	}
	if c.prime != nil {
		w["prime_block"] = c.prime.Block.Hash().Hex()
		w["prime_number"] = c.prime.Block.NumberU64(common.PRIME_CTX)
		w["prime_block_wire"] = hex.EncodeToString(h.wire[c.prime.Block.Hash()][0])
		w["repriced_type"] = c.prime.Etx.EtxType()
		w["repriced_value"] = c.prime.Etx.Value().String()
		if c.prime.R != nil {
			w["rate_R"] = c.prime.R.String()
			w["rate_R_from_prime_header"] = c.prime.Next.Hex()
		}
		w["prime_header_exchange_rate"] = c.prime.Block.ExchangeRate().String()
		w["prime_header_miner_difficulty"] = c.prime.Block.MinerDifficulty().String()
		w["prime_header_conversion_flow_amount"] = c.prime.Block.ConversionFlowAmount().String()
		w["prime_header_kquai_discount"] = c.prime.Block.KQuaiDiscount().String()
	}
	if c.dest != nil {
		w["destination_block"] = c.dest.Block.Hash().Hex()
		w["destination_height"] = c.dest.Block.NumberU64(common.ZONE_CTX)
		w["destination_block_wire"] = hex.EncodeToString(h.wire[c.dest.Block.Hash()][2])
	}
	return h.wit(w)
}

// ---------------------------------------------------------------- workload

func (h *hist) price() *big.Int {
	head := h.n.Heads()[2]
	p := new(big.Int).Mul(head.BaseFee(), big.NewInt(3))
	if p.Sign() == 0 {
		p = big.NewInt(1e15)
	}
	return p
}

func (h *hist) stateNonce(k *hnet.QuaiKey) (uint64, bool) {
	st, err := h.n.ZoneStateAt(h.n.Heads()[2])
	if err != nil {
		return 0, false
	}
	ia, err := k.Addr.InternalAndQuaiAddress()
	if err != nil {
		return 0, false
	}
	return st.GetNonce(ia), true
}

// freeSender returns a sender key that has no transaction pending.
func (h *hist) freeSender() *hnet.QuaiKey {
	height := h.n.Heads()[2].NumberU64(common.ZONE_CTX)
	for _, i := range h.r.Perm(len(h.w.Quai) - 1) {
		k := h.w.Quai[1+i]
		if at, used := h.senderBusy[k.Addr.Bytes20()]; used && at >= height {
			continue // submitted on this very head: not yet included
		}
		ia, err := k.Addr.InternalAndQuaiAddress()
		if err != nil {
			continue
		}
		if p, q := h.n.Zone().Core.TxPool().ContentFrom(ia); len(p)+len(q) > 0 {
			continue
		}
		return k
	}
	return nil
}

func (h *hist) submit(c *conv, kind string) bool {
	if err := h.n.Zone().Core.TxPool().AddLocal(c.Tx); err != nil {
		h.submitErr[kind+": "+trimErr(err)]++
		dlog(h.t, "submit %s refused: %v", kind, err)
		return false
	}
	h.convs[c.Tx.Hash()] = c
	h.order = append(h.order, c)
	return true
}

func trimErr(err error) string {
	s := err.Error()
	if len(s) > 60 {
		s = s[:60]
	}
	return s
}

func slipBytes(field int) []byte {
	if field < 0 {
		return nil
	}
	b := make([]byte, 2)
	binary.BigEndian.PutUint16(b, uint16(field))
	return b
}

// quaiToQi submits a Quai transaction to an in-zone Qi address.
func (h *hist) quaiToQi(amount *big.Int, slipField int, gas uint64, amountClass, scenario string) *conv {
	k := h.freeSender()
	if k == nil {
		return nil
	}
	nonce, ok := h.stateNonce(k)
	if !ok {
		return nil
	}
	to := h.w.Qi[1+h.r.Intn(len(h.w.Qi)-1)].Addr
	price := h.price()
	tx, err := h.w.QuaiTx(k, nonce, &to, amount, gas, price, slipBytes(slipField), nil)
	if err != nil {
		return nil
	}
	c := &conv{Dir: dirQuaiToQi, Tx: tx, Amount: new(big.Int).Set(amount), SlipField: slipField, SlipEff: clampSlip(slipField), Sender: k, Recipient: to,
		TxGas: gas, Price: price, ExpectNoEtx: amount.Cmp(params.MinQuaiConversionAmount) < 0, AmountClass: amountClass, SlipClass: slipClass(slipField), Scenario: scenario}
	if !h.submit(c, "quai->qi") {
		return nil
	}
	h.senderBusy[k.Addr.Bytes20()] = h.n.Heads()[2].NumberU64(common.ZONE_CTX)
	h.trackedQi[string(to.Bytes())] = true
	return c
}

func (h *hist) freshQuaiRecipient() common.Address {
	h.recipSeq++
	b := make([]byte, 20)
	h.r.Read(b)
	b[0] = hnet.ZoneLoc.BytePrefix()
	b[1] &= 0x7f
	a := common.BytesToAddress(b, hnet.ZoneLoc)
	h.tracked[a.Bytes20()] = "qi->quai recipient"
	return a
}

// usableUtxos lists matured wallet outputs not yet handed to the pool.
func (h *hist) usableUtxos(minDenom uint8) []hnet.Utxo {
	height := h.n.Heads()[2].NumberU64(common.ZONE_CTX)
	var out []hnet.Utxo
	for _, u := range h.w.OwnedUTXOs(h.n) {
		if u.Lock != nil && u.Lock.Sign() > 0 && u.Lock.Uint64() > height {
			continue // the pool validates against the current head
		}
		if h.inFlight[opKey(u.Hash, u.Index)] || u.Denom < minDenom {
			continue
		}
		out = append(out, u)
	}
	sort.Slice(out, func(i, j int) bool {
		if out[i].Denom != out[j].Denom {
			return out[i].Denom < out[j].Denom
		}
		return opKey(out[i].Hash, out[i].Index) < opKey(out[j].Hash, out[j].Index)
	})
	return out
}

// minQiFee is the smallest fee (qits) the origin accepts for a conversion tx
// with nIn inputs and nOut outputs on top of the current head, and what one
// qit of fee is worth there (its).
func (h *hist) minQiFee(nIn, nOut, nConv int) (int64, *big.Int) {
	head := h.n.Heads()[2]
	intrinsic := uint64(nIn)*params.SloadGas + uint64(nOut)*params.CallValueTransferGas + params.EcrecoverGas
	gas := intrinsic + params.QiToQuaiConversionGas
	// the block is only valid if fee / (intrinsic + ETXGas per conversion output) reaches the base fee
	if g := intrinsic + uint64(nConv)*params.ETXGas; g > gas {
		gas = g
	}
	base := new(big.Int).Mul(head.BaseFee(), big.NewInt(102)) // the next blocks' base fee drifts a little
	base.Div(base, big.NewInt(100))
	wei := new(big.Int).Mul(new(big.Int).SetUint64(gas), base)
	pt := h.n.Heads()[0]
	qit := misc.QiToQuai(head, pt.ExchangeRate(), head.Difficulty(), big.NewInt(1))
	if qit.Sign() == 0 {
		qit = big.NewInt(1)
	}
	f := new(big.Int).Div(wei, qit)
	return f.Int64() + 1, qit
}

// qiToQuai spends one wallet output: conversion outputs of the given
// denominations to one fresh Quai address, change back to wallet keys, the
// rest is the fee. extraGas is the gas the ETX should carry for the refund
// branch (paid for by fee above the minimum).
func (h *hist) qiToQuai(convDenoms []uint8, slipField int, extraGas uint64, amountClass, scenario string) *conv {
	amount := new(big.Int)
	maxD := uint8(0)
	for _, d := range convDenoms {
		amount.Add(amount, types.Denominations[d])
		if d > maxD {
			maxD = d
		}
	}
	minFee, qit := h.minQiFee(1, len(convDenoms)+7, len(convDenoms))
	extra := new(big.Int).Mul(new(big.Int).SetUint64(extraGas), h.n.Heads()[2].BaseFee())
	extra.Div(extra, qit)
	feeTarget := minFee + extra.Int64()
	need := new(big.Int).Add(amount, big.NewInt(feeTarget))
	var in *hnet.Utxo
	for _, u := range h.usableUtxos(0) {
		if types.Denominations[u.Denom].Cmp(need) >= 0 && u.Denom > maxD {
			u := u
			in = &u
			break
		}
	}
	if in == nil {
		h.submitErr["qi->quai: no input covering the amount and fee"]++
		return nil
	}
	change := new(big.Int).Sub(types.Denominations[in.Denom], need)
	var changeDenoms []uint8
	for d := int(in.Denom) - 1; d >= 0 && change.Sign() > 0 && len(changeDenoms) < 7; d-- {
		for change.Cmp(types.Denominations[uint8(d)]) >= 0 && len(changeDenoms) < 7 {
			changeDenoms = append(changeDenoms, uint8(d))
			change.Sub(change, types.Denominations[uint8(d)])
		}
	}
	return h.qiToQuaiRaw(*in, convDenoms, changeDenoms, slipField, amountClass, scenario)
}

// splitCount returns the greedy split of v (qits) into denominations below maxDenom.
func splitBelow(v int64, maxDenom uint8) []uint8 {
	var out []uint8
	for d := int(maxDenom) - 1; d >= 0 && v > 0; d-- {
		dv := types.Denominations[uint8(d)].Int64()
		for v >= dv {
			out = append(out, uint8(d))
			v -= dv
		}
	}
	return out
}

// qiToQuaiTight builds a conversion whose fee exceeds the origin's minimum by
// at most a few qits, so that the ETX carries (almost) no gas for the refund
// branch: the change must split into exactly the number of outputs the fee
// was computed for.
func (h *hist) qiToQuaiTight(convDenoms []uint8, slipField int, amountClass, scenario string) *conv {
	amount := int64(0)
	maxD := uint8(0)
	for _, d := range convDenoms {
		amount += types.Denominations[d].Int64()
		if d > maxD {
			maxD = d
		}
	}
	for _, u := range h.usableUtxos(0) {
		D := types.Denominations[u.Denom].Int64()
		if u.Denom <= maxD || D < amount || D-amount > 5000 {
			continue
		}
		for e := int64(0); e <= 3; e++ {
			for k := 0; k <= 8; k++ {
				minFee, _ := h.minQiFee(1, len(convDenoms)+k, len(convDenoms))
				change := D - amount - minFee - e
				if change < 0 {
					continue
				}
				if sp := splitBelow(change, u.Denom); len(sp) == k {
					return h.qiToQuaiRaw(u, convDenoms, sp, slipField, amountClass, scenario)
				}
			}
		}
	}
	h.submitErr["qi->quai tight: no input/change combination"]++
	return nil
}

func (h *hist) qiToQuaiRaw(in hnet.Utxo, convDenoms, changeDenoms []uint8, slipField int, amountClass, scenario string) *conv {
	amount := new(big.Int)
	for _, d := range convDenoms {
		amount.Add(amount, types.Denominations[d])
	}
	recipient := h.freshQuaiRecipient()
	used := map[string]bool{string(in.Addr): true}
	pick := func() []byte {
		for _, i := range h.r.Perm(len(h.w.Qi) - 1) {
			a := h.w.Qi[1+i].Addr.Bytes()
			if !used[string(a)] {
				used[string(a)] = true
				return a
			}
		}
		return nil
	}
	refund := pick()
	var outs []hnet.QiOut
	// conversion outputs must share one To address (the origin aggregates them into one ETX)
	for _, d := range convDenoms {
		outs = append(outs, hnet.QiOut{Denom: d, Addr: recipient.Bytes()})
	}
	for _, d := range changeDenoms {
		a := pick()
		if a == nil {
			// no further distinct wallet address: more change than the tx can place, the rest becomes fee
			break
		}
		outs = append(outs, hnet.QiOut{Denom: d, Addr: a})
	}
	sf := slipField
	if sf < 0 {
		sf = 0 // the 22-byte data always carries a slip field
	}
	data := append(slipBytes(sf), refund...)
	tx, err := h.w.QiTx([]hnet.Utxo{in}, outs, data)
	if err != nil {
		h.submitErr["qi->quai build: "+trimErr(err)]++
		delete(h.tracked, recipient.Bytes20())
		return nil
	}
	c := &conv{Dir: dirQiToQuai, Tx: tx, Amount: amount, SlipField: sf, SlipEff: clampSlip(sf), Inputs: []hnet.Utxo{in}, Recipient: recipient, Refund: refund,
		AmountClass: amountClass, SlipClass: slipClass(sf), Scenario: scenario}
	if !h.submit(c, "qi->quai") {
		delete(h.tracked, recipient.Bytes20())
		return nil
	}
	h.inFlight[opKey(in.Hash, in.Index)] = true
	h.trackedQi[string(refund)] = true
	return c
}

// refundGas picks the gas a Qi->Quai ETX should carry: often too little to
// refund every denomination, otherwise plenty.
func (h *hist) refundGas() uint64 {
	switch h.r.Intn(3) {
	case 0:
		return uint64(h.r.Intn(30000))
	default:
		return uint64(300000 + h.r.Intn(300000))
	}
}

func max(a, b int) int {
	if a > b {
		return a
	}
	return b
}

func quai(n int64) *big.Int { return new(big.Int).Mul(big.NewInt(n), big.NewInt(params.Ether)) }

var slipChoices = []int{-1, 0, 10, 30, 31, 50, 100, 500, 2500, 5000, 8999, 9000, 9001, 20000, 65535}

func (h *hist) pickSlip() int { return slipChoices[h.r.Intn(len(slipChoices))] }

// flow returns the running conversion flow amount of the current prime head (in its).
func (h *hist) flow() *big.Int {
	return h.n.Heads()[0].ConversionFlowAmount()
}

// qitValue is what one qit is worth in its at the current prime head's rate.
func (h *hist) qitValue() *big.Int {
	p := h.n.Heads()[0]
	return misc.QiToQuai(p, p.ExchangeRate(), p.MinerDifficulty(), big.NewInt(1))
}

func (h *hist) randomQuaiToQi(scenario string) {
	flow := h.flow()
	var amt *big.Int
	var cls string
	switch x := h.r.Intn(12); {
	case x == 0:
		amt, cls = new(big.Int).Set(params.MinQuaiConversionAmount), "minimum"
	case x == 1:
		amt, cls = new(big.Int).Sub(params.MinQuaiConversionAmount, big.NewInt(1)), "below-minimum"
	case x == 2:
		amt, cls = new(big.Int).Add(params.MinQuaiConversionAmount, big.NewInt(int64(1+h.r.Intn(1000)))), "minimum"
	case x < 5:
		amt, cls = new(big.Int).Add(quai(int64(11+h.r.Intn(200))), big.NewInt(h.r.Int63n(1e18))), "small"
	case x < 8:
		// a fraction of the running flow
		amt, cls = new(big.Int).Div(new(big.Int).Mul(flow, big.NewInt(int64(1+h.r.Intn(99)))), big.NewInt(100)), "below-flow"
	case x < 10:
		amt, cls = new(big.Int).Div(new(big.Int).Mul(flow, big.NewInt(int64(100+h.r.Intn(900)))), big.NewInt(100)), "flow-to-10x"
	default:
		amt, cls = new(big.Int).Div(new(big.Int).Mul(flow, big.NewInt(int64(1001+h.r.Intn(3000)))), big.NewInt(100)), "beyond-10x-flow"
	}
	gas := uint64(600000)
	if h.r.Intn(4) == 0 {
		// too little for every denomination: 21000 intrinsic (+data) + 21000 ETX + 21000 at the destination + k*9000
		gas = uint64(63100 + 9000*h.r.Intn(5) + h.r.Intn(9000))
	}
	h.quaiToQi(amt, h.pickSlip(), gas, cls, scenario)
}

func (h *hist) randomQiToQuai(scenario string) {
	us := h.usableUtxos(1)
	if len(us) == 0 {
		return
	}
	u := us[h.r.Intn(len(us))]
	// conversion output strictly below the input's denomination
	d := uint8(h.r.Intn(int(u.Denom)))
	denoms := []uint8{d}
	if d > 0 && h.r.Intn(3) == 0 {
		denoms = append(denoms, uint8(h.r.Intn(int(d)+1)))
	}
	amt := new(big.Int)
	for _, x := range denoms {
		amt.Add(amt, types.Denominations[x])
	}
	inQuai := new(big.Int).Mul(amt, h.qitValue())
	cls := "below-flow"
	switch {
	case inQuai.Cmp(new(big.Int).Mul(h.flow(), big.NewInt(10))) > 0:
		cls = "beyond-10x-flow"
	case inQuai.Cmp(h.flow()) > 0:
		cls = "flow-to-10x"
	case amt.Cmp(big.NewInt(1000)) < 0:
		cls = "dust"
	}
	h.qiToQuai(denoms, h.pickSlip(), h.refundGas(), cls, scenario)
}

// step submits nothing itself: mines one block of the wanted order, settles
// it, records the artefacts.
func (h *hist) step(want int) bool {
	// a prime-order seal right after a prime block can take minutes of grinding: keep a few blocks in between
	for want == 0 && h.sincePrime < 3 {
		if !h.step(2) {
			return false
		}
	}
	h.n.Zone().Core.TxPool().VerifQuiesce()
	t0 := time.Now()
	mm, err := h.n.Mine(hnet.MineOpts{WantOrder: want, Fill: true})
	tMine := time.Since(t0)
	if err != nil {
		h.m.Violation("own-block-rejected", err.Error(), h.wit(nil))
		return false
	}
	if err := h.n.Settle(); err != nil {
		h.m.Violation("own-block-not-executable", err.Error(), h.wit(nil))
		return false
	}
	h.orders = append(h.orders, mm.Order)
	if mm.Order == 0 {
		h.sincePrime = 0
	} else {
		h.sincePrime++
	}
	h.wire[mm.Hash] = mm.Wire
	snap := utxoSnap{}
	for _, u := range hnet.AllUTXOs(h.n.Zone().DB) {
		snap[opKey(u.Hash, u.Index)] = u
	}
	h.snaps[mm.Hash] = snap
	if dbg {
		kinds := map[string]int{}
		for _, tx := range mm.Blocks[2].Transactions() {
			switch tx.Type() {
			case types.QuaiTxType:
				kinds["quai"]++
			case types.QiTxType:
				kinds["qi"]++
			case types.ExternalTxType:
				kinds[fmt.Sprintf("etx%d", tx.EtxType())]++
			}
		}
		p := h.n.Heads()[0]
		dlog(h.t, "mine %v total %v", tMine, time.Since(t0))
		dlog(h.t, "h%d block %v order %d basefee %v txs %v out %d utxos %d | prime %d rate %v flow %v kqd %v mdiff %v", h.idx, mm.Number, mm.Order, mm.Blocks[2].BaseFee(), kinds, len(mm.Etxs), len(snap),
			p.NumberU64(0), p.ExchangeRate(), p.ConversionFlowAmount(), p.KQuaiDiscount(), p.MinerDifficulty())
	}
	return true
}

// ---------------------------------------------------------------- histories

// fixedSet is the same set of conversions submitted inside one prime period
// in every history, in an order permuted by the history's PRNG.
type spec struct {
	dir    string
	flowPc int64 // quai->qi: amount as percent of the running flow amount
	denoms []uint8
	slip   int
}

var fixedSet = []spec{
	{dir: dirQuaiToQi, flowPc: 40, slip: 30},
	{dir: dirQuaiToQi, flowPc: 90, slip: 45},
	{dir: dirQuaiToQi, flowPc: 150, slip: 100},
	{dir: dirQuaiToQi, flowPc: 300, slip: 5000},
	{dir: dirQiToQuai, denoms: []uint8{4}, slip: 35},
	{dir: dirQiToQuai, denoms: []uint8{5, 3}, slip: 9000},
}

func pctOf(x *big.Int, pc int64) *big.Int {
	return new(big.Int).Div(new(big.Int).Mul(x, big.NewInt(pc)), big.NewInt(100))
}

func (h *hist) submitSpec(s spec, scenario string) {
	if s.dir == dirQuaiToQi {
		cls := "below-flow"
		if s.flowPc > 1000 {
			cls = "beyond-10x-flow"
		} else if s.flowPc > 100 {
			cls = "flow-to-10x"
		}
		h.quaiToQi(pctOf(h.flow(), s.flowPc), s.slip, 600000, cls, scenario)
		return
	}
	h.qiToQuai(s.denoms, s.slip, 400000, "dust", scenario)
}

// nearBound: a small Qi->Quai conversion (it takes the k-Quai discount while
// the rate is not rising) accepted early in the sorted pass with slip s+d, and
// a Quai->Qi conversion of a..b times the flow amount whose slip s is just
// enough for the cubic discount at the cumulative amount.
func (h *hist) nearBound() {
	flow := h.flow()
	pc := int64(105 + h.r.Intn(250))
	amt := pctOf(flow, pc)
	disc := misc.ApplyCubicDiscount(amt, flow)
	di, _ := disc.Int(nil)
	// smallest slip (bp) that still accepts: amt*(10000-s)/10000 <= discounted
	lost := new(big.Int).Sub(amt, di)
	s := new(big.Int).Div(new(big.Int).Mul(lost, big.NewInt(10000)), amt).Int64() + 1 + int64(h.r.Intn(3))
	h.qiToQuai([]uint8{uint8(h.r.Intn(5))}, int(s)+h.r.Intn(8), 400000, "dust", "near-bound")
	h.quaiToQi(amt, int(s), 600000, "flow-to-10x", "near-bound")
}

func (h *hist) period(scenario string, nonPrime int) bool {
	for i := 0; i < nonPrime; i++ {
		switch scenario {
		case "feed":
			// large conversions at the maximum slip: they are credited at the floor and give the wallet Qi to convert back
			if i == 0 {
				for k := 0; k < 3; k++ {
					h.quaiToQi(quai(int64(2_000_000+h.r.Intn(30_000_000))), -1, 900000, "beyond-10x-flow", scenario)
				}
				h.quaiToQi(pctOf(h.flow(), 50), 9000, 600000, "below-flow", scenario)
				h.quaiToQi(pctOf(h.flow(), 30), 100, 600000, "below-flow", scenario)
			}
		case "scripted-quai":
			if i == 0 {
				h.quaiToQi(new(big.Int).Set(params.MinQuaiConversionAmount), h.pickSlip(), 600000, "minimum", scenario)
				h.quaiToQi(new(big.Int).Sub(params.MinQuaiConversionAmount, big.NewInt(1)), h.pickSlip(), 600000, "below-minimum", scenario)
				h.quaiToQi(pctOf(h.flow(), 20), 500, uint64(63100+9000*(1+h.r.Intn(3))), "below-flow", scenario)
				h.quaiToQi(pctOf(h.flow(), 5), 40, 600000, "below-flow", scenario)
				h.quaiToQi(quai(int64(30+h.r.Intn(300))), 100, 600000, "small", scenario)
				h.quaiToQi(pctOf(h.flow(), 400), 30, 600000, "flow-to-10x", scenario)
			}
		case "huge":
			if i == 0 {
				h.quaiToQi(pctOf(h.flow(), 1500), 8999, 600000, "beyond-10x-flow", scenario)
				h.quaiToQi(pctOf(h.flow(), 1200), 9001, 600000, "beyond-10x-flow", scenario)
				h.quaiToQi(pctOf(h.flow(), 10), 9000, uint64(63100+9000*h.r.Intn(3)), "below-flow", scenario)
			}
		case "scripted-qi":
			if i == 0 {
				h.qiToQuai([]uint8{2}, 0, 400000, "dust", scenario)
				h.qiToQuai([]uint8{6}, 9000, 0, "below-flow", scenario)
				h.qiToQuai([]uint8{6, 4}, 200, 400000, "below-flow", scenario)
				// a large one with a tight slip: refused
				if us := h.usableUtxos(9); len(us) > 0 {
					h.qiToQuai([]uint8{us[len(us)-1].Denom - 1}, 30, h.refundGas(), "beyond-10x-flow", scenario)
				}
				if us := h.usableUtxos(8); len(us) > 0 {
					h.qiToQuai([]uint8{us[0].Denom - 1, 6}, 30, 0, "beyond-10x-flow", scenario)
				}
				if us := h.usableUtxos(10); len(us) > 0 {
					h.qiToQuai([]uint8{9, 9, 9, 9, 8, 7, 6, 6, 6, 6}, 30, 0, "beyond-10x-flow", scenario)
				}
			}
		case "poisoned":
			// one conversion beyond ten times the flow at the maximum slip comes first in the sorted pass: everything after it is refused
			if i == 0 {
				h.quaiToQi(pctOf(h.flow(), 1500), 9000, 600000, "beyond-10x-flow", scenario)
				h.quaiToQi(pctOf(h.flow(), 20), 2500, 600000, "below-flow", scenario)
				// refunds that need several outputs, carried by an ETX with (almost) no gas
				h.qiToQuaiTight([]uint8{6, 6, 6, 6}, 100, "below-flow", scenario)
				h.qiToQuaiTight([]uint8{7, 6, 6}, 5000, "below-flow", scenario)
				h.qiToQuaiTight([]uint8{8, 7, 6, 6}, 8999, "flow-to-10x", scenario)
				h.qiToQuai([]uint8{7}, 5000, 400000, "below-flow", scenario)
			}
		case "fixed-set":
			if i == 0 {
				for _, k := range h.r.Perm(len(fixedSet)) {
					h.submitSpec(fixedSet[k], scenario)
				}
			}
		case "near-bound":
			if i == 0 {
				h.nearBound()
			}
		case "mixed":
			for k := 1 + h.r.Intn(4); k > 0; k-- {
				if h.r.Intn(5) < 2 {
					h.randomQuaiToQi(scenario)
				} else {
					h.randomQiToQuai(scenario)
				}
			}
		}
		want := 2
		if h.r.Intn(3) == 0 {
			want = 1
		}
		if !h.step(want) {
			return false
		}
	}
	return h.step(0)
}

func runHistory(t testing.TB, m *mon.M, r *rand.Rand, idx, blocks int) {
	pref := []float64{0.5, 0.1, 0.9}[idx%3]
	w := hnet.NewWallet(r, 13, 12)
	fund := new(big.Int).Mul(big.NewInt(params.Ether), big.NewInt(1e12))
	n, err := hnet.New(hnet.Options{GenAllocs: w.GenAllocs(fund), QuaiCoinbase: w.Quai[0].Addr, QiCoinbase: w.Qi[0].Addr, MinerPreference: pref})
	if err != nil {
		m.Inconclusive("harness did not start: " + err.Error())
		return
	}
	defer n.Stop()
	// hnet.New returns once the zone holds the genesis pending header; the dominant levels store theirs a moment later
	for dl := time.Now().Add(20 * time.Second); time.Now().Before(dl); time.Sleep(2 * time.Millisecond) {
		if n.Prime().Core.Slice().ReadBestPh() != nil && n.Region().Core.Slice().ReadBestPh() != nil && n.Zone().Core.Slice().ReadBestPh() != nil {
			break
		}
	}
	h := &hist{t: t, m: m, idx: idx, n: n, w: w, r: r, convs: map[common.Hash]*conv{}, tracked: map[common.AddressBytes]string{}, trackedQi: map[string]bool{},
		snaps: map[common.Hash]utxoSnap{}, wire: map[common.Hash][3][]byte{}, inFlight: map[string]bool{}, senderBusy: map[common.AddressBytes]uint64{}, pref: pref, submitErr: map[string]int{}}
	for _, k := range w.Quai[1:] {
		h.tracked[k.Addr.Bytes20()] = "conversion sender"
	}
	h.snaps[n.GenHash] = utxoSnap{}
	// until the controller has kicked in (prime terminus number >= ControllerKickInBlock) conversions are refused at the origin
	for k := 0; n.Heads()[0].NumberU64(common.PRIME_CTX) < params.ControllerKickInBlock; k++ {
		// natural orders first: forcing a prime-order seal on the very first blocks can take minutes
		want := -1
		if k >= 6 {
			want = 0
		}
		if !h.step(want) {
			return
		}
	}
	if !h.step(2) {
		return
	}
	mined := func() int { return len(h.orders) }
	scen := []string{"feed", "scripted-quai", "huge", "feed", "fixed-set", "scripted-qi", "poisoned"}
	pool := []string{"mixed", "mixed", "mixed", "fixed-set", "near-bound", "scripted-quai", "scripted-qi", "huge", "poisoned"}
	reorgAt := -1
	if idx%2 == 1 {
		reorgAt = 7 + r.Intn(3)
	}
	for p := 0; mined() < blocks; p++ {
		s := pool[r.Intn(len(pool))]
		if p < len(scen) {
			s = scen[p]
		}
		if p == reorgAt {
			// a competing branch: the abandoned one carries conversions too
			anc := n.Heads()
			if !h.period("mixed", 1+r.Intn(3)) {
				return
			}
			n.SetTips(anc)
			if !h.period(s, 2+r.Intn(3)) || !h.step(2) {
				return
			}
			if !h.period("mixed", 2) {
				return
			}
			h.walk("after-reorg", false)
			continue
		}
		if !h.period(s, 1+r.Intn(5)) {
			return
		}
	}
	// drain: no new conversions; lock periods run out
	for k := 0; k < 3; k++ {
		if !h.period("idle", 1+int(params.ConversionLockPeriod)/2) {
			return
		}
	}
	h.walk("final", true)
	if dbg || idx == 0 {
		done := map[string]int{}
		for _, c := range h.order {
			k := c.Dir + ":"
			switch {
			case c.origin == nil:
				k += "never-included"
			case c.ExpectNoEtx:
				k += "failed-at-origin"
			case c.prime == nil:
				k += "not-confirmed"
			case c.prime.Etx.EtxType() == types.ConversionRevertType:
				k += "reverted"
			default:
				k += "credited"
			}
			done[k]++
		}
		m.Sample(map[string]any{"history": idx, "orders": fmt.Sprint(h.orders), "conversions": fmt.Sprint(done), "refused_by_pool": fmt.Sprint(h.submitErr)})
		dlog(t, "history %d: %v refused %v", idx, done, h.submitErr)
		for _, c := range h.order {
			l := fmt.Sprintf("  %s %s amt %s slip %d(%d) gas %d [%s/%s]", c.Scenario, c.Dir, c.Amount, c.SlipField, c.SlipEff, c.TxGas, c.AmountClass, c.SlipClass)
			if c.origin != nil {
				l += fmt.Sprintf(" origin@%d status %d gasUsed %d", c.origin.Block.NumberU64(2), c.origin.Status, c.origin.Gas)
				if c.origin.Etx != nil {
					l += fmt.Sprintf(" etxgas %d", c.origin.Etx.Gas())
				}
			}
			if c.prime != nil {
				l += fmt.Sprintf(" prime@%d(P%d) type %d value' %s", c.prime.Block.NumberU64(2), c.prime.Block.NumberU64(0), c.prime.Etx.EtxType(), c.prime.Etx.Value())
			}
			if c.dest != nil {
				l += fmt.Sprintf(" dest@%d status %d", c.dest.Block.NumberU64(2), c.dest.Status)
			}
			dlog(t, "%s", l)
		}
	}
	for _, c := range h.order {
		if c.origin == nil {
			m.Trivial()
		}
	}
}

func TestC20Chain(t *testing.T) {
	stage := "chain"
	if slipForkMode != "post" {
		stage = "chain-" + slipForkMode + "-fork"
	}
	m := mon.New(t, "C20", stage)
	defer m.Finish()
	m.Rule("hnet histories (prime block forced every <= 6 blocks; ConversionSlipChangeBlock " + fmt.Sprint(params.ConversionSlipChangeBlock) + ") with a wallet converting in both directions: amounts {minimum, minimum-1, small, fractions and multiples of the running flow amount, > 10x the flow}, slips {absent, 0, < min, min, mid, max, > max}, several conversions of both directions inside one prime period, a fixed set in permuted order, pairs placed just inside their slip bound, ETX gas too small for every denomination, miner preference 0.1/0.5/0.9, one reorg in every second history. Oracle per conversion id over the canonical zone chain: (origin) exactly one Conversion ETX with the stated amount, sender's Quai balance changes by exactly -(amount + gasUsed*price) / the Qi inputs are consumed, below-minimum emits nothing and costs only the fee; (prime) exactly one repriced copy in the inbound list of a prime-order block, either Conversion with value' or ConversionRevert with exactly the original amount, nothing else altered; (destination) executed once, equal to the inbound copy; Quai->Qi: outputs under the ETX hash locked to execution height + ConversionLockPeriod, owned by the recipient, sum <= value' and == value' when the ETX gas pays for every denomination; Qi->Quai: the recipient's balance changes by value' (minus the new-account fee of the redemption for a fresh account) exactly at execution height + lock period and at no other block; revert: the sender's balance +original at the executing block / Qi outputs of exactly the original amount to the refund address; every balance change of a tracked account and every output minted under a conversion ETX hash must be explained by exactly one such event. Envelope with R = ExchangeRate of the next prime header (what Slice.Append applies and verifyParentExchangeRateAndFlowAmount pins): value' <= convert(original,R), value' >= convert(original/10,R), value' >= convert(original*(10000-slip)/10000,R) with slip clamped to [MinSlip,MaxSlip] (default MaxSlip); a revert with slip == MaxSlip is a violation (bound equals the floor)")
	m.Assume("the unit-conversion helpers are monotonic and lossless on round trips (stage helpers)", "single live slice 0-0", "protocol timeline compressed (kick-in at prime 2, lock period 4)",
		"the exchange rate stays at the genesis value in every reachable history (CalculateBetaFromMiningChoiceAndConversions holds it for the first TokenChoiceSetSize=4000 prime blocks, a const): rising/falling trajectories are out of reach at chain level, only the miner-difficulty component of the conversion varies",
		"the discount pipeline (cubic, k-Quai) is not recomputed: for a reverted conversion only 'slip == MaxSlip can never be refused' is decidable from the statement")
	rc := m.Rand("chain")
	nh := m.N(6, 180)
	if slipForkMode != "post" {
		nh = m.N(3, 90) // the fork-crossing variation of the same workload
	}
	for hh := 0; hh < nh; hh++ {
		runHistory(t, m, rc, hh, m.N(70, 90))
	}
	m.Floor(200, 12)
	m.Need("outcome:quai->qi:credited:"+needSide(), "outcome:quai->qi:reverted:"+needSide(), "outcome:quai->qi:failed-at-origin:below-minimum", "outcome:quai->qi:out-of-gas-partial:"+needSide(),
		"outcome:qi->quai:credited:"+needSide(), "outcome:qi->quai:reverted:"+needSide(), "walk:final", "ledger:quai-delta-as-expected", "ledger:qi-created-outputs-attributed")
	if slipForkMode == "cross" {
		m.Need("outcome:quai->qi:credited:pre-slip-fork", "outcome:quai->qi:credited:post-slip-fork", "outcome:qi->quai:credited:pre-slip-fork", "outcome:quai->qi:reverted:pre-slip-fork")
	}
}

func needSide() string {
	if slipForkMode == "pre" {
		return "pre-slip-fork"
	}
	return "post-slip-fork"
}
