//go:build verif

package c20

import (
	"testing"

	"verif/internal/evmx"
	"verif/internal/mon"
)

// TestC20Origin: the origin side of Quai->Qi conversions made by contracts (CONVERT, ETX / value calls to a
// Qi address of the zone), including conversions inside call frames that fail afterwards.
func TestC20Origin(t *testing.T) {
	m := mon.New(t, "C20", "origin")
	defer m.Finish()
	m.Rule("generated contract universes executed through core.ApplyMessage on the real EVM (tracer + StateDB proxy): every conversion ETX a transaction returns must be backed by one successful, non-reverted conversion operation whose origin account was debited at least the converted amount; a failed transaction returns none; " +
		"class = fork regime of the execution; distinct = (case, class)")
	m.Assume("the prime-side outcome (credit or refund) of these conversions is decided by the chain stages", "the 256-bit wrap-around of opConvert before SelfDestructRefundForkBlock and the unreverted code-deposit failure are listed findings of C05 / C02")
	evmx.DigestDefault = false
	evmx.RunWorkload(m, "etx", m.N(5000, 100000), evmx.GenOpts{Focus: "etx"}, evmx.OracleC20Origin)
	evmx.RunWorkload(m, "revert", m.N(5000, 100000), evmx.GenOpts{Focus: "revert"}, evmx.OracleC20Origin)
	m.Floor(40, 3)
	m.Need("conversion-emitted:transaction-with-reverted-frames")
}
