//go:build verif

// C20 — Quai<->Qi conversions never credit more than the rate allows; refusals refund.
//
// Stage "helpers": the unit-conversion helpers the conversion pipeline is
// built from (consensus/misc/rewards.go), at function level, seed-reproducible.
package c20

import (
	"fmt"
	"math/big"
	"math/rand"
	"testing"

	"github.com/dominant-strategies/go-quai/common"
	"github.com/dominant-strategies/go-quai/consensus/misc"
	"github.com/dominant-strategies/go-quai/core/types"
	"github.com/dominant-strategies/go-quai/params"

	"verif/internal/mon"
)

func pow2(n uint) *big.Int { return new(big.Int).Lsh(big.NewInt(1), n) }

// randBits returns a uniformly random integer of at most `bits` bits.
func randBits(r *rand.Rand, bits int) *big.Int {
	if bits <= 0 {
		return big.NewInt(0)
	}
	b := make([]byte, (bits+7)/8)
	r.Read(b)
	x := new(big.Int).SetBytes(b)
	return x.Rsh(x, uint(len(b)*8-bits))
}

// randPos returns a random integer in [1, 2^maxBits] with a log-uniform magnitude.
func randPos(r *rand.Rand, maxBits int) *big.Int {
	x := randBits(r, 1+r.Intn(maxBits))
	if x.Sign() == 0 {
		x.SetInt64(1)
	}
	return x
}

type hdrCase struct {
	Number        uint64 `json:"zone_number"`
	PrimeTerminus uint64 `json:"prime_terminus_number"`
	Class         string `json:"class"`
}

// mkHeader builds the work object the helpers read their block-number dependent
// constants from (OneOverKqi(number), fork switches on the prime terminus number).
func mkHeader(h hdrCase) *types.WorkObject {
	wo := types.EmptyWorkObject(common.ZONE_CTX)
	wo.WorkObjectHeader().SetNumber(new(big.Int).SetUint64(h.Number))
	wo.WorkObjectHeader().SetPrimeTerminusNumber(new(big.Int).SetUint64(h.PrimeTerminus))
	return wo
}

func pickHeader(r *rand.Rand) hdrCase {
	doubling := (365 * params.BlocksPerDay * 269) / 100
	nums := []uint64{0, 1, 2, params.QiActivationBlock - 1, params.QiActivationBlock, params.QiActivationBlock + 1,
		doubling - 1, doubling, doubling + 1, 2 * doubling, 2*doubling + 1, 3 * doubling}
	var num uint64
	if r.Intn(3) == 0 {
		num = nums[r.Intn(len(nums))]
	} else {
		num = uint64(r.Int63n(int64(3 * doubling)))
	}
	// pre-KawPow prime terminus numbers (the regime every hnet history runs in);
	// the post-KawPow branches rescale the difficulty from header share counters
	// and are exercised separately with difficulties above KQuaiDifficultyDivisor
	pts := []uint64{0, 1, params.ControllerKickInBlock, params.ConversionSlipChangeBlock, params.KQuaiChangeBlock, params.KawPowForkBlock - 1}
	return hdrCase{Number: num, PrimeTerminus: pts[r.Intn(len(pts))], Class: "pre-kawpow"}
}

func pickX(r *rand.Rand) *big.Int {
	ext := []*big.Int{big.NewInt(0), big.NewInt(1),
		new(big.Int).Sub(params.MinQuaiConversionAmount, big.NewInt(1)), new(big.Int).Set(params.MinQuaiConversionAmount),
		new(big.Int).Add(params.MinQuaiConversionAmount, big.NewInt(1)), pow2(64), pow2(128), pow2(200),
		new(big.Int).Set(params.StartingConversionFlowAmount), new(big.Int).Set(params.MinConversionFlowAmount)}
	switch r.Intn(4) {
	case 0:
		return new(big.Int).Set(ext[r.Intn(len(ext))])
	case 1:
		// around an extreme
		x := new(big.Int).Set(ext[r.Intn(len(ext))])
		x.Add(x, big.NewInt(int64(r.Intn(2001)-1000)))
		if x.Sign() < 0 {
			x.SetInt64(0)
		}
		return x
	default:
		return randBits(r, 1+r.Intn(200))
	}
}

func pickRate(r *rand.Rand) *big.Int {
	switch r.Intn(5) {
	case 0:
		return new(big.Int).Set(params.ExchangeRate)
	case 1:
		return []*big.Int{big.NewInt(1), big.NewInt(2), pow2(100), new(big.Int).Mul(big.NewInt(30), params.ExchangeRate), new(big.Int).Mul(big.NewInt(60), params.ExchangeRate)}[r.Intn(5)]
	default:
		return randPos(r, 100)
	}
}

func pickDiff(r *rand.Rand) *big.Int {
	switch r.Intn(5) {
	case 0:
		return []*big.Int{big.NewInt(1), big.NewInt(2), big.NewInt(3), big.NewInt(4000), pow2(80), pow2(32), big.NewInt(26000000), big.NewInt(8000000000)}[r.Intn(8)]
	default:
		return randPos(r, 80)
	}
}

func TestC20Helpers(t *testing.T) {
	m := mon.New(t, "C20", "helpers")
	defer m.Finish()
	m.Rule("random (x, exchange rate, difficulty, header) tuples incl. extremes (x in {0,1,MinQuaiConversionAmount±1,2^64,2^128,2^200}, rates 1..2^100 and the genesis rate, difficulties 1..2^80, zone numbers around QiActivationBlock and the OneOverKqi doubling periods): QiToQuai(QuaiToQi(x)) <= x, QuaiToQi(QiToQuai(y)) <= y at the same rate/difficulty/header; x <= x' => convert(x) <= convert(x') in both directions; results never negative; ApplyCubicDiscount(v, mean) in [0, v] and == 0 for v > 10*mean; FindMinDenominations(v): sum(count_d*Denominations[d]) <= v and v - sum < Denominations[0] (= 1 qit: the code decomposes exactly; nothing may be lost by the split itself); no panic")
	m.Assume("negative inputs are never generated", "post-KawPow-fork header branches (difficulty rescaled from header share counters) only with difficulties >= 2*KQuaiDifficultyDivisor, below that the protocol's own reward formula is not defined (log difference negative)")
	r := m.Rand("helpers")
	n := m.N(100000, 3000000)
	smallest := types.Denominations[0]
	// a pool of headers (building a work object is by far the most expensive step of a case)
	type hdr struct {
		c  hdrCase
		wo *types.WorkObject
	}
	var pre, postH []hdr
	for i := 0; i < 400; i++ {
		c := pickHeader(r)
		pre = append(pre, hdr{c, mkHeader(c)})
	}
	for i := 0; i < 60; i++ {
		c := pickHeader(r)
		c.Class = "post-kawpow"
		c.PrimeTerminus = []uint64{params.KawPowForkBlock, params.KawPowForkBlock + 1, params.ShaEquivalentDifficultyForkBlock - 1, params.ShaEquivalentDifficultyForkBlock, params.ConversionStabilityForkBlock, params.ConversionStabilityForkBlock + 1000}[r.Intn(6)]
		postH = append(postH, hdr{c, mkHeader(c)})
	}
	for i := 0; i < n; i++ {
		x, rate, diff := pickX(r), pickRate(r), pickDiff(r)
		post := i%10 == 9
		hd := pre[r.Intn(len(pre))]
		if post {
			// a post-KawPow / post-SHA-anchoring header with a realistic difficulty
			hd = postH[r.Intn(len(postH))]
			diff = new(big.Int).Add(new(big.Int).Mul(big.NewInt(2), new(big.Int).SetUint64(params.KQuaiDifficultyDivisor)), randBits(r, 40+r.Intn(40)))
		}
		h, wo := hd.c, hd.wo
		wit := func() any {
			return map[string]any{"case": i, "x": x.String(), "rate": rate.String(), "difficulty": diff.String(), "header": h}
		}
		cls := "helpers:" + h.Class
		pan := m.Guard("helpers:panic:"+h.Class, wit, func() {
			// round trip Quai -> Qi -> Quai
			q := misc.QuaiToQi(wo, rate, diff, x)
			back := misc.QiToQuai(wo, rate, diff, q)
			if q.Sign() < 0 || back.Sign() < 0 {
				m.Violation("helpers:negative-result:"+h.Class, fmt.Sprintf("QuaiToQi(%s)=%s, back=%s", x, q, back), wit())
			}
			if back.Cmp(x) > 0 {
				m.Violation("helpers:round-trip-gains:quai-qi-quai:"+h.Class, fmt.Sprintf("x=%s -> %s qits -> %s", x, q, back), wit())
			}
			m.Eval(cls+":round-trip-quai", "")
			// round trip Qi -> Quai -> Qi
			u := misc.QiToQuai(wo, rate, diff, x)
			backQ := misc.QuaiToQi(wo, rate, diff, u)
			if u.Sign() < 0 || backQ.Sign() < 0 {
				m.Violation("helpers:negative-result:"+h.Class, fmt.Sprintf("QiToQuai(%s)=%s, back=%s", x, u, backQ), wit())
			}
			if backQ.Cmp(x) > 0 {
				m.Violation("helpers:round-trip-gains:qi-quai-qi:"+h.Class, fmt.Sprintf("y=%s -> %s its -> %s", x, u, backQ), wit())
			}
			m.Eval(cls+":round-trip-qi", "")
			// monotonicity
			var x2 *big.Int
			switch r.Intn(3) {
			case 0:
				x2 = new(big.Int).Add(x, big.NewInt(1))
			case 1:
				x2 = new(big.Int).Add(x, randBits(r, 1+r.Intn(64)))
			default:
				x2 = new(big.Int).Add(x, randBits(r, 1+r.Intn(200)))
			}
			if q2 := misc.QuaiToQi(wo, rate, diff, x2); q2.Cmp(q) < 0 {
				m.Violation("helpers:not-monotonic:QuaiToQi:"+h.Class, fmt.Sprintf("x=%s -> %s but x'=%s -> %s", x, q, x2, q2), wit())
			}
			if u2 := misc.QiToQuai(wo, rate, diff, x2); u2.Cmp(u) < 0 {
				m.Violation("helpers:not-monotonic:QiToQuai:"+h.Class, fmt.Sprintf("y=%s -> %s but y'=%s -> %s", x, u, x2, u2), wit())
			}
			m.Eval(cls+":monotonic", "")
		})
		if pan {
			continue
		}
		if post {
			continue
		}
		// cubic discount
		var mean *big.Int
		switch r.Intn(6) {
		case 0:
			mean = new(big.Int).Set(params.StartingConversionFlowAmount)
		case 1:
			mean = new(big.Int).Set(params.MinConversionFlowAmount)
		case 2:
			// so that x is close to mean or 10*mean
			mean = new(big.Int).Div(x, big.NewInt(int64(1+r.Intn(12))))
			mean.Add(mean, big.NewInt(int64(r.Intn(3))))
		default:
			mean = randBits(r, 1+r.Intn(200))
		}
		witC := func() any { return map[string]any{"case": i, "value": x.String(), "mean": mean.String()} }
		m.Guard("helpers:panic:ApplyCubicDiscount", witC, func() {
			d := misc.ApplyCubicDiscount(x, mean)
			xf := new(big.Float).SetInt(x)
			di, _ := d.Int(nil)
			if d.Sign() < 0 {
				m.Violation("helpers:cubic-discount-negative", fmt.Sprintf("ApplyCubicDiscount(%s,%s)=%s", x, mean, d.Text('f', 3)), witC())
			}
			if d.Cmp(xf) > 0 || di.Cmp(x) > 0 {
				m.Violation("helpers:cubic-discount-exceeds-value", fmt.Sprintf("ApplyCubicDiscount(%s,%s)=%s", x, mean, d.Text('f', 3)), witC())
			}
			ten := new(big.Int).Mul(mean, big.NewInt(10))
			c := "helpers:cubic:below-mean"
			if x.Cmp(ten) > 0 {
				c = "helpers:cubic:beyond-10x-mean"
				if d.Sign() != 0 {
					m.Violation("helpers:cubic-discount-nonzero-beyond-10x-mean", fmt.Sprintf("ApplyCubicDiscount(%s,%s)=%s", x, mean, d.Text('f', 3)), witC())
				}
			} else if x.Cmp(mean) > 0 {
				c = "helpers:cubic:between-mean-and-10x"
			}
			m.Eval(c, "")
		})
		// denominations
		witD := func() any { return map[string]any{"case": i, "value": x.String()} }
		m.Guard("helpers:panic:FindMinDenominations", witD, func() {
			den := misc.FindMinDenominations(x)
			sum := new(big.Int)
			for d, cnt := range den {
				v, ok := types.Denominations[d]
				if !ok {
					m.Violation("helpers:FindMinDenominations:unknown-denomination", fmt.Sprint(d), witD())
					return
				}
				sum.Add(sum, new(big.Int).Mul(v, new(big.Int).SetUint64(cnt)))
			}
			if sum.Cmp(x) > 0 {
				m.Violation("helpers:FindMinDenominations:sum-exceeds-value", fmt.Sprintf("value %s split sums to %s", x, sum), witD())
			}
			rem := new(big.Int).Sub(x, sum)
			if rem.Cmp(smallest) >= 0 {
				// the count of the largest denomination is returned as a uint64
				maxCount := new(big.Int).Div(x, types.Denominations[types.MaxDenomination])
				if !maxCount.IsUint64() {
					m.Violation("helpers:FindMinDenominations:remainder-exceeds-dust-rule:largest-denomination-count-overflows-uint64", fmt.Sprintf("value %s qits split sums to %s (remainder %s): value/10^9 = %s does not fit the uint64 count", x, sum, rem, maxCount), witD())
				} else {
					m.Violation("helpers:FindMinDenominations:remainder-exceeds-dust-rule", fmt.Sprintf("value %s split sums to %s (remainder %s >= smallest denomination %s)", x, sum, rem, smallest), witD())
				}
			}
			c := "helpers:denominations"
			if x.BitLen() > 93 {
				c = "helpers:denominations:huge"
			}
			m.Eval(c, "")
		})
		if i < 3 {
			m.Sample(map[string]any{"x": x.String(), "rate": rate.String(), "difficulty": diff.String(), "header": h,
				"QuaiToQi": misc.QuaiToQi(wo, rate, diff, x).String(), "QiToQuai": misc.QiToQuai(wo, rate, diff, x).String()})
		}
	}
	m.Floor(int64(n), 8)
	m.Need("helpers:pre-kawpow:round-trip-quai", "helpers:pre-kawpow:round-trip-qi", "helpers:pre-kawpow:monotonic", "helpers:cubic:beyond-10x-mean", "helpers:cubic:between-mean-and-10x", "helpers:denominations")
}
