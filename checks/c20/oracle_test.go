//go:build verif

package c20

import (
	"fmt"
	"math/big"
	"sort"

	"github.com/dominant-strategies/go-quai/common"
	"github.com/dominant-strategies/go-quai/consensus/misc"
	"github.com/dominant-strategies/go-quai/core/rawdb"
	"github.com/dominant-strategies/go-quai/core/types"
	"github.com/dominant-strategies/go-quai/params"

	"verif/internal/hnet"
)

func forkSide(primeNumber uint64) string {
	if primeNumber > params.ConversionSlipChangeBlock {
		return "post-slip-fork"
	}
	return "pre-slip-fork"
}

func sumDenoms(us []hnet.Utxo) *big.Int {
	s := new(big.Int)
	for _, u := range us {
		s.Add(s, types.Denominations[u.Denom])
	}
	return s
}

// delta is one expected change of a tracked Quai account in one block.
type delta struct {
	amt  *big.Int
	why  string
	c    *conv
	soft *big.Int // allowed shortfall (new-account fee rule of the redemption)
}

type walkState struct {
	h        *hist
	tag      string
	byHeight map[uint64]*types.WorkObject
	expect   map[common.Hash]map[common.AddressBytes][]delta
	due      map[uint64][]*conv // Quai credits falling due at a height
}

func (ws *walkState) addExpect(b *types.WorkObject, a common.Address, d delta) {
	if ws.expect[b.Hash()] == nil {
		ws.expect[b.Hash()] = map[common.AddressBytes][]delta{}
	}
	ws.expect[b.Hash()][a.Bytes20()] = append(ws.expect[b.Hash()][a.Bytes20()], d)
}

// createdIn lists the outputs that exist after block b but not after its parent.
func (h *hist) createdIn(b *types.WorkObject) (map[string]hnet.Utxo, bool) {
	after, ok := h.snaps[b.Hash()]
	if !ok {
		return nil, false
	}
	before, ok := h.snaps[b.ParentHash(common.ZONE_CTX)]
	if !ok {
		return nil, false
	}
	out := map[string]hnet.Utxo{}
	for k, u := range after {
		if _, was := before[k]; !was {
			out[k] = u
		}
	}
	return out, true
}

// walk judges the canonical zone chain ending at the current head. final:
// also demand that every conversion old enough reached its outcome.
func (h *hist) walk(tag string, final bool) {
	n, m := h.n, h.m
	db := n.Zone().DB
	zc := n.Zone().Core
	lock := params.ConversionLockPeriod
	head := n.Heads()[2]
	var chain []*types.WorkObject
	for b := head; b != nil && !zc.Slice().HeaderChain().IsGenesisHash(b.Hash()); b = zc.GetBlockByHash(b.ParentHash(common.ZONE_CTX)) {
		chain = append(chain, b)
	}
	for i, j := 0, len(chain)-1; i < j; i, j = i+1, j-1 {
		chain[i], chain[j] = chain[j], chain[i]
	}
	if len(chain) == 0 {
		return
	}
	for _, c := range h.convs {
		c.origin, c.prime, c.dest, c.credited = nil, nil, nil, false
	}
	ws := &walkState{h: h, tag: tag, byHeight: map[uint64]*types.WorkObject{}, expect: map[common.Hash]map[common.AddressBytes][]delta{}, due: map[uint64][]*conv{}}
	var primes []*types.WorkObject
	for _, b := range chain {
		num := b.NumberU64(common.ZONE_CTX)
		ws.byHeight[num] = b
		_, order, err := zc.CalcOrder(b)
		if err == nil && order == common.PRIME_CTX {
			primes = append(primes, b)
		}
		receipts := zc.GetReceiptsByHash(b.Hash())
		outByOrig := map[common.Hash][]*types.Transaction{}
		for _, e := range b.OutboundEtxs() {
			outByOrig[e.OriginatingTxHash()] = append(outByOrig[e.OriginatingTxHash()], e)
		}
		explainedQi := map[common.Hash]bool{} // ETX hashes whose outputs are judged by judgeDestination
		for i, tx := range b.Transactions() {
			switch tx.Type() {
			case types.QuaiTxType, types.QiTxType:
				c, mine := h.convs[tx.Hash()]
				if !mine {
					continue
				}
				if c.origin != nil {
					m.Violation("origin:conversion-tx-included-twice-on-canonical-chain", fmt.Sprintf("%s: tx %x in block %d and again in block %d", tag, tx.Hash().Bytes()[:6], c.origin.Block.NumberU64(2), num), h.convWit(c))
					continue
				}
				o := &obsOrigin{Block: b, Index: i}
				if i < len(receipts) {
					o.Status, o.Gas = receipts[i].Status, receipts[i].GasUsed
				}
				c.origin = o
				ws.judgeOrigin(c, b, outByOrig[tx.Hash()], i < len(receipts))
			case types.ExternalTxType:
				c, mine := h.convs[tx.OriginatingTxHash()]
				if !mine || !(tx.EtxType() == types.ConversionType || tx.EtxType() == types.ConversionRevertType) {
					continue
				}
				if c.dest != nil {
					m.Violation("destination:conversion-executed-twice", fmt.Sprintf("%s: (%x,%d) executed in block %d and again in %d", tag, tx.OriginatingTxHash().Bytes()[:6], tx.ETXIndex(), c.dest.Block.NumberU64(2), num), h.convWit(c))
					continue
				}
				d := &obsDest{Block: b, Etx: tx}
				if i < len(receipts) {
					d.Gas, d.Status = receipts[i].GasUsed, receipts[i].Status
				}
				c.dest = d
				if c.prime == nil {
					m.Violation("destination:executed-without-prime-confirmation", fmt.Sprintf("%s: block %d", tag, num), h.convWit(c))
					continue
				}
				if c.prime.Etx.Hash() != tx.Hash() {
					m.Violation("destination:executed-etx-differs-from-repriced-inbound-etx", fmt.Sprintf("%s: inbound type %d value %s, executed type %d value %s", tag, c.prime.Etx.EtxType(), c.prime.Etx.Value(), tx.EtxType(), tx.Value()), h.convWit(c))
				}
				explainedQi[tx.Hash()] = true
				ws.judgeDestination(c, b)
			}
		}
		// outbound conversion ETXs claiming one of our txs as origin without that tx being in this block
		for orig, es := range outByOrig {
			if c, mine := h.convs[orig]; mine && (c.origin == nil || c.origin.Block.Hash() != b.Hash()) {
				m.Violation("origin:conversion-etx-emitted-by-block-without-its-tx", fmt.Sprintf("%s: block %d emits %d ETXs for tx %x", tag, num, len(es), orig.Bytes()[:6]), h.convWit(c))
			}
		}
		// Quai credits falling due in this block (the redemption scan at execution height + lock period)
		for _, c := range ws.due[num] {
			v := c.prime.Etx.Value()
			fee := new(big.Int)
			if p := ws.byHeight[num-1]; p != nil {
				if st, err := n.ZoneStateAt(p); err == nil {
					if ia, err := c.Recipient.InternalAndQuaiAddress(); err == nil && !st.Exist(ia) {
						fee = new(big.Int).Mul(new(big.Int).SetUint64(params.CallNewAccountGas(p.QuaiStateSize())), big.NewInt(params.InitialBaseFee))
					}
				}
			}
			ws.addExpect(b, c.Recipient, delta{amt: new(big.Int).Set(v), why: "qi->quai credit at execution height + lock period", c: c, soft: fee})
			c.credited = true
		}
		// the inbound list the dominant chains handed down for this block
		for _, e := range rawdb.ReadInboundEtxs(db, b.Hash()) {
			c, mine := h.convs[e.OriginatingTxHash()]
			if !mine || !(e.EtxType() == types.ConversionType || e.EtxType() == types.ConversionRevertType) {
				continue
			}
			if c.prime != nil {
				m.Violation("prime:conversion-confirmed-twice", fmt.Sprintf("%s: (%x,%d) in the inbound lists of blocks %d and %d", tag, e.OriginatingTxHash().Bytes()[:6], e.ETXIndex(), c.prime.Block.NumberU64(2), num), h.convWit(c))
				continue
			}
			c.prime = &obsPrime{Block: b, Etx: e}
			if order != common.PRIME_CTX {
				m.Violation("prime:conversion-released-by-non-prime-block", fmt.Sprintf("%s: block %d order %d", tag, num, order), h.convWit(c))
			}
			if c.origin == nil || c.origin.Etx == nil {
				m.Violation("prime:confirmed-conversion-never-emitted-on-canonical-chain", fmt.Sprintf("%s: block %d", tag, num), h.convWit(c))
			}
		}
		ws.judgeQuaiLedger(b)
		// Qi ledger: outputs created in this block by an ETX of one of our conversions must belong to an outcome judged above
		if created, ok := h.createdIn(b); ok {
			etxInBlock := map[common.Hash]*types.Transaction{}
			for _, tx := range b.Transactions() {
				if tx.Type() == types.ExternalTxType {
					etxInBlock[tx.Hash()] = tx
				}
			}
			for k, u := range created {
				if e, fromEtx := etxInBlock[u.Hash]; fromEtx {
					if c, mine := h.convs[e.OriginatingTxHash()]; mine && !explainedQi[u.Hash] {
						m.Violation("ledger:qi-output-created-for-conversion-without-outcome", fmt.Sprintf("%s: block %d output %s", tag, num, k), h.convWit(c))
					}
				} else if c := h.etxHashOfConv(u.Hash); c != nil {
					// an output minted under the hash of a conversion ETX in a block that does not execute that ETX
					m.Violation("ledger:qi-output-minted-outside-the-executing-block", fmt.Sprintf("%s: block %d output %s", tag, num, k), h.convWit(c))
				}
			}
			m.Eval("ledger:qi-created-outputs-attributed", b.Hash().Hex())
		}
	}
	// the rate the protocol fixed for each prime block, and the envelope
	nextPrime := map[common.Hash]*types.WorkObject{}
	for i := 0; i+1 < len(primes); i++ {
		nextPrime[primes[i].Hash()] = primes[i+1]
	}
	headNum := head.NumberU64(common.ZONE_CTX)
	for _, c := range h.order {
		if c.origin == nil || c.ExpectNoEtx {
			continue
		}
		if c.prime != nil {
			h.judgeEnvelope(tag, c, nextPrime[c.prime.Block.Hash()])
		}
		if !final {
			continue
		}
		at := c.origin.Block.NumberU64(common.ZONE_CTX)
		primesAfter := 0
		for _, p := range primes {
			if p.NumberU64(common.ZONE_CTX) > at {
				primesAfter++
			}
		}
		if c.dest == nil && primesAfter >= 2 && at+20 <= headNum {
			m.Violation("outcome:conversion-debited-but-no-outcome", fmt.Sprintf("%s: %s emitted at %d, head %d, %d prime blocks since", tag, c.Dir, at, headNum, primesAfter), h.convWit(c))
		}
		if c.dest != nil && c.Dir == dirQiToQuai && c.dest.Etx.EtxType() == types.ConversionType {
			if dueAt := c.dest.Block.NumberU64(common.ZONE_CTX) + lock; dueAt <= headNum && !c.credited {
				m.Violation("outcome:qi-to-quai-credit-never-fell-due", fmt.Sprintf("%s: executed at %d", tag, c.dest.Block.NumberU64(2)), h.convWit(c))
			}
		}
	}
	m.Eval("walk:"+tag, head.Hash().Hex())
}

// etxHashOfConv finds the conversion whose (repriced) ETX has this hash.
func (h *hist) etxHashOfConv(x common.Hash) *conv {
	for _, c := range h.order {
		if c.prime != nil && c.prime.Etx.Hash() == x {
			return c
		}
	}
	return nil
}

// judgeOrigin: the block holding the originating tx emits exactly one
// conversion ETX carrying the stated amount, and debits exactly that.
func (ws *walkState) judgeOrigin(c *conv, b *types.WorkObject, etxs []*types.Transaction, haveReceipt bool) {
	h, m, tag := ws.h, ws.h.m, ws.tag
	o := c.origin
	var convEtxs []*types.Transaction
	for _, e := range etxs {
		if e.EtxType() == types.ConversionType || e.EtxType() == types.ConversionRevertType {
			convEtxs = append(convEtxs, e)
		}
	}
	fee := new(big.Int)
	if c.Dir == dirQuaiToQi {
		fee.Mul(new(big.Int).SetUint64(o.Gas), c.Price)
	}
	if c.ExpectNoEtx {
		if len(convEtxs) != 0 {
			m.Violation("origin:below-minimum-amount-emits-conversion-etx", fmt.Sprintf("%s: %s its < minimum %s emitted %d conversion ETX(s)", tag, c.Amount, params.MinQuaiConversionAmount, len(convEtxs)), h.convWit(c))
		}
		if haveReceipt {
			ws.addExpect(b, c.Sender.Addr, delta{amt: new(big.Int).Neg(fee), why: "fee of a refused conversion", c: c})
		}
		if c.AmountClass == "below-minimum" {
			m.Eval("outcome:quai->qi:failed-at-origin:below-minimum", c.Tx.Hash().Hex())
		} else {
			m.Eval("outcome:quai->qi:failed-at-origin:other", c.Tx.Hash().Hex())
		}
		return
	}
	if len(convEtxs) != 1 {
		if c.Dir == dirQuaiToQi && haveReceipt && o.Status == types.ReceiptStatusFailed && len(convEtxs) == 0 {
			// refused by the origin for another reason (gas too small for an ETX): no ETX, so no debit beyond the fee
			ws.addExpect(b, c.Sender.Addr, delta{amt: new(big.Int).Neg(fee), why: "fee of a failed conversion tx", c: c})
			c.ExpectNoEtx = true
			m.Eval("outcome:quai->qi:failed-at-origin:other", c.Tx.Hash().Hex())
			return
		}
		m.Violation("origin:not-exactly-one-conversion-etx:"+c.Dir, fmt.Sprintf("%s: tx %x (receipt status %d) emitted %d conversion ETXs", tag, c.Tx.Hash().Bytes()[:6], o.Status, len(convEtxs)), h.convWit(c))
		return
	}
	e := convEtxs[0]
	o.Etx = e
	if e.EtxType() != types.ConversionType {
		m.Violation("origin:etx-not-conversion-type", fmt.Sprintf("%s: type %d", tag, e.EtxType()), h.convWit(c))
	}
	if e.Value().Cmp(c.Amount) != 0 {
		m.Violation("origin:etx-value-differs-from-stated-amount:"+c.Dir, fmt.Sprintf("%s: stated %s, ETX carries %s", tag, c.Amount, e.Value()), h.convWit(c))
	}
	if e.To() == nil || !e.To().Equal(c.Recipient) {
		m.Violation("origin:etx-recipient-differs:"+c.Dir, fmt.Sprintf("%s: want %s got %v", tag, c.Recipient.Hex(), e.To()), h.convWit(c))
	}
	if c.Dir == dirQuaiToQi {
		if haveReceipt {
			ws.addExpect(b, c.Sender.Addr, delta{amt: new(big.Int).Neg(new(big.Int).Add(c.Amount, fee)), why: "origin debit (amount + gasUsed*price)", c: c})
		}
	} else if after, ok := h.snaps[b.Hash()]; ok {
		if before, ok := h.snaps[b.ParentHash(common.ZONE_CTX)]; ok {
			for _, in := range c.Inputs {
				k := opKey(in.Hash, in.Index)
				if _, was := before[k]; !was {
					m.Violation("origin:qi-input-not-present-before-origin-block", fmt.Sprintf("%s: %s", tag, k), h.convWit(c))
				}
				if _, still := after[k]; still {
					m.Violation("origin:qi-input-not-consumed", fmt.Sprintf("%s: %s still unspent after block %d", tag, k, b.NumberU64(2)), h.convWit(c))
				}
			}
			// the converted amount left the Qi ledger: what the tx kept on the Qi ledger plus the converted amount fits into its inputs
			kept := new(big.Int)
			for k, u := range after {
				if _, was := before[k]; !was && u.Hash == c.Tx.Hash() {
					kept.Add(kept, types.Denominations[u.Denom])
				}
			}
			if inSum := sumDenoms(c.Inputs); new(big.Int).Add(kept, c.Amount).Cmp(inSum) > 0 {
				m.Violation("origin:qi-conversion-not-debited", fmt.Sprintf("%s: inputs %s, outputs kept on the Qi ledger %s + converted %s", tag, inSum, kept, c.Amount), h.convWit(c))
			}
		}
	}
	m.Eval(fmt.Sprintf("origin:%s:%s", c.Dir, c.AmountClass), c.Tx.Hash().Hex())
	m.Eval(fmt.Sprintf("origin:slip:%s", c.SlipClass), "")
}

// judgeDestination: the block executing the (repriced or reverted) ETX.
func (ws *walkState) judgeDestination(c *conv, b *types.WorkObject) {
	h, m, tag := ws.h, ws.h.m, ws.tag
	e := c.dest.Etx
	num := b.NumberU64(common.ZONE_CTX)
	lock := params.ConversionLockPeriod
	side := forkSide(c.prime.Block.NumberU64(common.PRIME_CTX))
	created, haveSnap := h.createdIn(b)
	var outs []hnet.Utxo
	if haveSnap {
		var keys []string
		for k, u := range created {
			if u.Hash == e.Hash() {
				keys = append(keys, k)
			}
		}
		sort.Strings(keys)
		for _, k := range keys {
			outs = append(outs, created[k])
		}
	}
	minted := sumDenoms(outs)
	wit := func() map[string]any {
		w := h.convWit(c)
		var l []string
		for _, u := range outs {
			l = append(l, fmt.Sprintf("%x:%d denom %d lock %v owner %x", u.Hash.Bytes()[:6], u.Index, u.Denom, u.Lock, u.Addr))
		}
		w["minted_outputs"] = l
		w["minted_sum"] = minted.String()
		w["executed_etx_gas"] = e.Gas()
		w["receipt_status"] = c.dest.Status
		return w
	}
	checkLocks := func(owner []byte, sigPrefix string) {
		for _, u := range outs {
			if u.Lock == nil || u.Lock.Uint64() != num+lock {
				m.Violation(sigPrefix+":lock-differs-from-execution-height-plus-lock-period", fmt.Sprintf("%s: executed at %d, lock period %d, output lock %v", tag, num, lock, u.Lock), wit())
				break
			}
			if string(u.Addr) != string(owner) {
				m.Violation(sigPrefix+":output-owner-differs", fmt.Sprintf("%s: owner %x want %x", tag, u.Addr, owner), wit())
				break
			}
		}
	}
	switch {
	case e.EtxType() == types.ConversionType && c.Dir == dirQuaiToQi:
		// Qi minted, locked; sum of denominations <= value'
		if !haveSnap {
			m.Eval("destination:no-ledger-snapshot", "")
			return
		}
		v := e.Value()
		if minted.Cmp(v) > 0 {
			m.Violation("destination:quai->qi:minted-denominations-exceed-credited-value", fmt.Sprintf("%s: value' %s qits, minted %s", tag, v, minted), wit())
		}
		checkLocks(c.Recipient.Bytes(), "destination:quai->qi")
		// how many outputs the split needs against the gas the ETX carries
		needOutputs := uint64(0)
		for _, cnt := range misc.FindMinDenominations(v) {
			needOutputs += cnt
		}
		gasOK := e.Gas() >= params.TxGas && (e.Gas()-params.TxGas)/params.CallValueTransferGas >= needOutputs && needOutputs <= uint64(types.MaxOutputIndex)
		outcome := "credited"
		if gasOK {
			// the split itself may lose at most the dust rule: FindMinDenominations decomposes exactly (smallest denomination = 1 qit)
			if rem := new(big.Int).Sub(v, minted); rem.Cmp(types.Denominations[0]) >= 0 {
				m.Violation("destination:quai->qi:minted-less-than-value-although-gas-suffices", fmt.Sprintf("%s: value' %s qits needs %d outputs, ETX gas %d, minted %s", tag, v, needOutputs, e.Gas(), minted), wit())
			}
		} else {
			outcome = "out-of-gas-partial"
		}
		m.Eval(fmt.Sprintf("outcome:quai->qi:%s:%s", outcome, side), c.Tx.Hash().Hex())
		m.Eval(fmt.Sprintf("outcome:quai->qi:%s:slip-%s", outcome, c.SlipClass), "")
		m.SampleClass("quai->qi:"+outcome, map[string]any{"amount_its": c.Amount.String(), "slip_bp": c.SlipEff, "value_qits": v.String(), "minted": minted.String(), "outputs": len(outs), "etx_gas": e.Gas(), "executed_at": num})
	case e.EtxType() == types.ConversionType && c.Dir == dirQiToQuai:
		// nothing now; the credit falls due at execution height + lock period and never before
		if len(outs) != 0 {
			m.Violation("destination:qi->quai:credited-conversion-also-mints-qi", fmt.Sprintf("%s: %d outputs", tag, len(outs)), wit())
		}
		ws.due[num+lock] = append(ws.due[num+lock], c)
		m.Eval(fmt.Sprintf("outcome:qi->quai:credited:%s", side), c.Tx.Hash().Hex())
		m.Eval(fmt.Sprintf("outcome:qi->quai:credited:slip-%s", c.SlipClass), "")
		m.SampleClass("qi->quai:credited", map[string]any{"amount_qits": c.Amount.String(), "slip_bp": c.SlipEff, "value_its": e.Value().String(), "executed_at": num})
	case e.EtxType() == types.ConversionRevertType && c.Dir == dirQuaiToQi:
		// the original amount back to the original sender, now, exactly once
		if len(outs) != 0 {
			m.Violation("destination:quai->qi:reverted-conversion-also-mints-qi", fmt.Sprintf("%s: %d outputs", tag, len(outs)), wit())
		}
		ws.addExpect(b, c.Sender.Addr, delta{amt: new(big.Int).Set(c.Amount), why: "refund of the original amount", c: c})
		m.Eval(fmt.Sprintf("outcome:quai->qi:reverted:%s", side), c.Tx.Hash().Hex())
		m.Eval(fmt.Sprintf("outcome:quai->qi:reverted:slip-%s", c.SlipClass), "")
	case e.EtxType() == types.ConversionRevertType && c.Dir == dirQiToQuai:
		if !haveSnap {
			m.Eval("destination:no-ledger-snapshot", "")
			return
		}
		checkLocks(c.Refund, "destination:qi->quai:refund")
		switch cmp := minted.Cmp(c.Amount); {
		case cmp > 0:
			m.Violation("destination:qi->quai:refund-exceeds-original-amount", fmt.Sprintf("%s: original %s qits, refunded %s", tag, c.Amount, minted), wit())
		case cmp < 0:
			// which rule of the refund branch cut it short
			needOutputs, subQi := uint64(0), new(big.Int)
			for d, cnt := range misc.FindMinDenominations(c.Amount) {
				if int(d) > types.MaxTrimDenomination {
					needOutputs += cnt
				} else {
					subQi.Add(subQi, new(big.Int).Mul(types.Denominations[d], new(big.Int).SetUint64(cnt)))
				}
			}
			reason := "other"
			switch {
			case e.Gas()/params.CallValueTransferGas < needOutputs:
				reason = "etx-gas-too-small-for-every-denomination"
			case new(big.Int).Add(minted, subQi).Cmp(c.Amount) == 0:
				reason = "denominations-below-one-qi-dropped"
			}
			m.Violation("destination:qi->quai:refund-less-than-original-amount:"+reason, fmt.Sprintf("%s: original %s qits, refunded %s qits to %x (ETX gas %d, part below 1 Qi %s)", tag, c.Amount, minted, c.Refund, e.Gas(), subQi), wit())
		}
		m.Eval(fmt.Sprintf("outcome:qi->quai:reverted:%s", side), c.Tx.Hash().Hex())
		m.Eval(fmt.Sprintf("outcome:qi->quai:reverted:slip-%s", c.SlipClass), "")
	default:
		m.Violation("destination:unexpected-etx-type", fmt.Sprintf("%s: type %d", tag, e.EtxType()), wit())
	}
}

// judgeQuaiLedger: every tracked account changed in block b by exactly the
// sum of the conversion events of that block that concern it.
func (ws *walkState) judgeQuaiLedger(b *types.WorkObject) {
	h, m, tag := ws.h, ws.h.m, ws.tag
	num := b.NumberU64(common.ZONE_CTX)
	if num <= 1 {
		return // the genesis allocation lands in block 1
	}
	parent := ws.byHeight[num-1]
	if parent == nil {
		return
	}
	stParent, err1 := h.n.ZoneStateAt(parent)
	stHere, err2 := h.n.ZoneStateAt(b)
	if err1 != nil || err2 != nil {
		m.Eval("ledger:state-not-available", "")
		return
	}
	for a := range h.tracked {
		addr := common.BytesToAddress(a[:], hnet.ZoneLoc)
		ia, err := addr.InternalAndQuaiAddress()
		if err != nil {
			continue
		}
		got := new(big.Int).Sub(stHere.GetBalance(ia), stParent.GetBalance(ia))
		want, soft := new(big.Int), new(big.Int)
		var first *conv
		var whys []string
		for _, d := range ws.expect[b.Hash()][a] {
			want.Add(want, d.amt)
			if d.soft != nil {
				soft.Add(soft, d.soft)
			}
			if first == nil {
				first = d.c
			}
			whys = append(whys, d.why+" "+d.amt.String())
		}
		if got.Sign() == 0 && want.Sign() == 0 && len(whys) == 0 {
			continue
		}
		ok := got.Cmp(want) == 0
		if !ok && soft.Sign() > 0 {
			// the redemption keeps the new-account fee of a fresh account, or skips a credit smaller than that fee
			lo := new(big.Int).Sub(want, soft)
			ok = got.Cmp(want) <= 0 && (got.Cmp(lo) >= 0 || (got.Sign() == 0 && want.Cmp(soft) < 0))
		}
		w := map[string]any{}
		if first != nil {
			w = h.convWit(first)
		} else {
			w = h.wit(nil)
		}
		w["account"], w["role"], w["block"], w["height"] = addr.Hex(), h.tracked[a], b.Hash().Hex(), num
		w["expected_events"], w["observed_delta"], w["expected_delta"], w["allowed_new_account_fee"] = whys, got.String(), want.String(), soft.String()
		w["block_wire"] = fmt.Sprintf("%x", h.wire[b.Hash()][2])
		switch {
		case ok:
			m.Eval("ledger:quai-delta-as-expected", b.Hash().Hex()+addr.Hex())
		case len(whys) == 0:
			sig := "ledger:quai-balance-changes-without-conversion-event:" + h.tracked[a]
			// a recipient whose credit is still locked (or whose conversion was refused) must not change at all
			for _, c := range h.order {
				if c.Dir == dirQiToQuai && c.Recipient.Bytes20() == a && got.Sign() > 0 {
					switch {
					case c.dest == nil || c.dest.Block.NumberU64(common.ZONE_CTX) >= num:
						sig = "ledger:qi->quai-recipient-credited-before-the-conversion-executed"
					case c.dest.Etx.EtxType() == types.ConversionRevertType:
						sig = "ledger:qi->quai-recipient-credited-although-conversion-was-reverted"
					case num < c.dest.Block.NumberU64(common.ZONE_CTX)+params.ConversionLockPeriod:
						sig = "ledger:qi->quai-recipient-credited-before-execution-height-plus-lock-period"
					}
					for k, v := range h.convWit(c) {
						w[k] = v
					}
					break
				}
			}
			m.Violation(sig, fmt.Sprintf("%s: block %d account %s (%s) changed by %s", tag, num, addr.Hex(), h.tracked[a], got), w)
		case got.Cmp(want) > 0:
			m.Violation("ledger:quai-credited-more-than-expected:"+sigOf(whys), fmt.Sprintf("%s: block %d account %s: observed %s, expected %s (%v)", tag, num, addr.Hex(), got, want, whys), w)
		default:
			m.Violation("ledger:quai-credited-less-than-expected:"+sigOf(whys), fmt.Sprintf("%s: block %d account %s: observed %s, expected %s (%v)", tag, num, addr.Hex(), got, want, whys), w)
		}
	}
}

func sigOf(whys []string) string {
	if len(whys) == 0 {
		return "none"
	}
	s := whys[0]
	for i := len(s) - 1; i >= 0; i-- {
		if s[i] == ' ' {
			return s[:i]
		}
	}
	return s
}

// judgeEnvelope: the repriced value against the statement's envelope, with
// the rate R the protocol applied to conversions confirmed in that prime block
// (Slice.Append computes it from the block and its inbound conversions and the
// next prime header must carry it: verifyParentExchangeRateAndFlowAmount).
func (h *hist) judgeEnvelope(tag string, c *conv, next *types.WorkObject) {
	m := h.m
	p := c.prime.Block
	if pv := h.n.Block(0, p.Hash()); pv != nil {
		p = pv // prime's own view of the block (same header)
	}
	side := forkSide(p.NumberU64(common.PRIME_CTX))
	e := c.prime.Etx
	if c.origin != nil && c.origin.Etx != nil {
		o := c.origin.Etx
		if o.ETXIndex() != e.ETXIndex() || !o.To().Equal(*e.To()) || !o.ETXSender().Equal(e.ETXSender()) || string(o.Data()) != string(e.Data()) || o.Gas() != e.Gas() {
			m.Violation("prime:repricing-alters-more-than-value-and-type", fmt.Sprintf("%s: emitted %x, inbound %x", tag, o.Hash().Bytes()[:6], e.Hash().Bytes()[:6]), h.convWit(c))
		}
	}
	if e.EtxType() == types.ConversionRevertType {
		if e.Value().Cmp(c.Amount) != 0 {
			m.Violation("prime:revert-carries-other-than-original-amount:"+c.Dir, fmt.Sprintf("%s: original %s, revert carries %s", tag, c.Amount, e.Value()), h.convWit(c))
		}
		// the protocol floor (10 %% of the original) equals the bound of the maximum slip: such a conversion can never be refused
		if c.SlipEff >= params.MaxSlip.Int64() {
			sig := "prime:reverted-although-slip-bound-equals-protocol-floor:" + c.Dir + ":" + side
			det := fmt.Sprintf("%s: slip %d bp (field %d), amount %s", tag, c.SlipEff, c.SlipField, c.Amount)
			// the floor (10 %% of the original) can convert to zero units of the other ledger: the code then refunds instead of crediting zero
			tenPct := new(big.Int).Div(new(big.Int).Mul(c.Amount, big.NewInt(10)), big.NewInt(100))
			// (judged at the rate of this prime header and, when known, at the rate the protocol applied, carried by the next one)
			zero := false
			rates := []*big.Int{p.ExchangeRate()}
			if next != nil {
				rates = append(rates, next.ExchangeRate())
			}
			for _, R := range rates {
				var fl *big.Int
				if c.Dir == dirQuaiToQi {
					fl = misc.QuaiToQi(p, R, p.MinerDifficulty(), tenPct)
				} else {
					fl = misc.QiToQuai(p, R, p.MinerDifficulty(), tenPct)
				}
				zero = zero || fl.Sign() == 0
			}
			if zero {
				// the credit would be 0 units: the realised slippage is 100 %, above every admissible bound, and the
				// sender gets exactly the original amount back - an outcome the statement allows (not a deviation)
				m.Eval(fmt.Sprintf("envelope:%s:reverted-because-floor-converts-to-zero-units:%s", c.Dir, side), c.Tx.Hash().Hex())
			} else {
				m.Violation(sig, det, h.convWit(c))
			}
		}
		m.Eval(fmt.Sprintf("envelope:%s:reverted:%s:%s", c.Dir, c.AmountClass, side), c.Tx.Hash().Hex())
		return
	}
	if next == nil {
		m.Eval("envelope:no-later-prime-block-yet", "")
		return
	}
	R := next.ExchangeRate()
	c.prime.R, c.prime.Next = R, next.Hash()
	convert := func(x *big.Int) *big.Int {
		if c.Dir == dirQuaiToQi {
			return misc.QuaiToQi(p, R, p.MinerDifficulty(), x)
		}
		return misc.QiToQuai(p, R, p.MinerDifficulty(), x)
	}
	v := e.Value()
	upper := convert(c.Amount)
	tenPct := new(big.Int).Div(new(big.Int).Mul(c.Amount, big.NewInt(10)), big.NewInt(100))
	floor := convert(tenPct)
	afterSlip := new(big.Int).Div(new(big.Int).Mul(c.Amount, new(big.Int).Sub(params.SlipAmountRange, big.NewInt(c.SlipEff))), params.SlipAmountRange)
	bound := convert(afterSlip)
	det := fmt.Sprintf("%s: %s amount %s, slip %d bp, prime block %d (%s), R=%s, miner difficulty %s: value'=%s, rate-implied %s, slip bound %s, floor %s", tag, c.Dir, c.Amount, c.SlipEff,
		p.NumberU64(common.PRIME_CTX), side, R, p.MinerDifficulty(), v, upper, bound, floor)
	w := func() map[string]any {
		x := h.convWit(c)
		x["rate_implied_amount"], x["slip_bound"], x["floor"] = upper.String(), bound.String(), floor.String()
		return x
	}
	if v.Cmp(upper) > 0 {
		m.Violation("envelope:credit-exceeds-rate-implied-amount:"+c.Dir+":"+side, det, w())
	}
	if v.Cmp(floor) < 0 {
		m.Violation("envelope:credit-below-protocol-floor:"+c.Dir+":"+side, det, w())
	}
	if v.Cmp(bound) < 0 {
		sig := "envelope:credited-although-slip-bound-exceeded:" + c.Dir + ":" + side
		if afterSlip.Sign() > 0 && v.Cmp(convert(new(big.Int).Sub(afterSlip, big.NewInt(1)))) >= 0 {
			sig += ":within-one-origin-unit"
		}
		m.Violation(sig, det, w())
	}
	m.Eval(fmt.Sprintf("envelope:%s:credited:%s:%s", c.Dir, c.AmountClass, side), c.Tx.Hash().Hex())
	if v.Cmp(floor) == 0 {
		m.Eval("envelope:credited-at-the-floor", "")
	}
}
