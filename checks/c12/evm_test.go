//go:build verif

package c12

import (
	"testing"

	"verif/internal/evmx"
	"verif/internal/mon"
)

// TestC12EVM: every RevertToSnapshot the real EVM performs (failed CALL /
// CALLCODE / DELEGATECALL / STATICCALL / CREATE / CREATE2 frames, failed
// transactions) must restore the full-state digest recorded at the matching
// Snapshot: balances, nonces, code, storage, size counters, suicide marks,
// logs, refund, access list, transient storage, pending ETXs and the
// coinbase-lockup ledger as seen through the EVM's batch.
func TestC12EVM(t *testing.T) {
	m := mon.New(t, "C12", "evm")
	defer m.Finish()
	m.Rule("generated contract universes (frames that revert, run out of gas, hit INVALID, fail value transfer, emit ETXs, claim lockups, create and self-destruct) on the real EVM behind a vm.StateDB proxy; " +
		"one evaluation per reverted frame class; the digest covers every listed state component for the whole account universe plus created accounts; " +
		"class = kind of operation inside the reverted frame × fork regime")
	m.Assume("the digest enumerates a fixed slot universe per account (programs only write those slots)", "EVM-level components (ETX cache, lockup ledger) are compared after the EVM finished its own revert bookkeeping")
	evmx.DigestDefault = true
	evmx.RunWorkload(m, "revert", m.N(2500, 80000), evmx.GenOpts{Focus: "revert"}, evmx.OracleC12)
	evmx.RunWorkload(m, "balanced", m.N(1000, 40000), evmx.GenOpts{}, evmx.OracleC12)
	m.Floor(800, 10)
}
