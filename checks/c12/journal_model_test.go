//go:build verif

// C12 — a failed or reverted call frame leaves no trace.
// Stage "journal": direct journal workload on the real *state.StateDB.
//
// This file: the small universe, the op alphabet (every journaled mutator the
// StateDB exposes), op application with preconditions, and the full-state
// digest built from read-only getters only.
package c12

import (
	"bytes"
	"fmt"
	"math/big"
	"sort"
	"strconv"
	"strings"

	"github.com/dominant-strategies/go-quai/common"
	"github.com/dominant-strategies/go-quai/core/state"
	"github.com/dominant-strategies/go-quai/core/types"
	"github.com/dominant-strategies/go-quai/crypto"
)

var jLoc = common.Location{0, 0}

func jMkAddr(b1, last byte) common.InternalAddress {
	b := make([]byte, 20)
	b[0] = 0x00 // zone {0,0}
	b[1] = b1   // high bit clear: Quai ledger
	b[19] = last
	a, err := common.BytesToAddress(b, jLoc).InternalAndQuaiAddress()
	if err != nil {
		panic(err)
	}
	return a
}

// Universe. jAddrs[2] is the address state_object.touch special-cases
// (0x..03, the upstream RIPEMD consensus exception); it is only used by the
// random workload with low probability and by the informational probe.
var (
	jAddrs = []common.InternalAddress{jMkAddr(0x01, 0xa0), jMkAddr(0x02, 0xa1), jMkAddr(0x00, 0x03)}
	jSlots = []common.Hash{common.BytesToHash([]byte{0x01}), common.BytesToHash([]byte{0x02})}
	jCodes = [][]byte{{}, {0x60, 0x01, 0x00}, {0x60, 0x02, 0x60, 0x03, 0x55, 0x00}, {0xfe}}
	jPre   = [][]byte{[]byte("p0"), []byte("preimage-1")}
	jTxH   = func(i int) common.Hash { return crypto.Keccak256Hash([]byte(fmt.Sprintf("c12-tx-%d", i))) }
)

// Op kinds. The journaled ones (each appends at least one journal entry type
// of core/state/journal.go) may appear inside snapshots. The "level0" ones are
// not journaled in /repo and are only called by /repo at transaction / block
// level (outside any snapshot): they are generated only while no snapshot is
// open and serve the sibling clause (effects completed earlier are untouched).
const (
	kAddBalance     = "AddBalance"       // balanceChange (+createObjectChange on a fresh address)
	kAddBalanceZero = "AddBalanceZero"   // touchChange on an empty account (creates it when absent)
	kSubBalance     = "SubBalance"       // balanceChange
	kSubBalanceZero = "SubBalanceZero"   // createObjectChange only (no touch)
	kSetBalance     = "SetBalance"       // balanceChange
	kSetNonce       = "SetNonce"         // nonceChange
	kSetCode        = "SetCode"          // codeChange
	kSetState       = "SetState"         // storageChange (non-zero value)
	kSetStateZero   = "SetStateZero"     // storageChange (delete)
	kSetStateOrig   = "SetStateOrig"     // storageChange back to the committed value
	kSetTransient   = "SetTransient"     // transientStorageChange
	kSetTransient0  = "SetTransientZero" // transientStorageChange (delete)
	kObjAddSize     = "ObjAddSize"       // sizeChange via GetOrNewStateObject(a).AddSize()
	kObjSubSize     = "ObjSubSize"       // sizeChange via .SubSize()
	kObjSetSize     = "ObjSetSize"       // sizeChange via .SetSize(v)
	kSuicide        = "Suicide"          // suicideChange
	kCreateAccount  = "CreateAccount"    // createObjectChange / resetObjectChange
	kAddLog         = "AddLog"           // addLogChange
	kAddRefund      = "AddRefund"        // refundChange
	kSubRefund      = "SubRefund"        // refundChange
	kAccessAddr     = "AccessAddr"       // accessListAddAccountChange
	kAccessSlot     = "AccessSlot"       // accessListAddSlotChange (+account change)
	kAddPreimage    = "AddPreimage"      // addPreimageChange

	kTxBoundary   = "TxBoundary"       // Finalize(true) + Prepare(next tx)          (level0)
	kIRoot        = "IntermediateRoot" // IntermediateRoot(true)                     (level0)
	kPushETX      = "PushETX"          // etx trie, not journaled                    (level0)
	kPopETX       = "PopETX"           // etx trie, not journaled                    (level0)
	kUpdateKQuai  = "UpdateKQuai"      // etx trie, not journaled                    (level0)
	kFreezeKQuai  = "FreezeKQuai"      // etx trie, not journaled                    (level0)
	kUnfreezeKQua = "UnFreezeKQuai"    // etx trie, not journaled                    (level0)
)

var jJournaledKinds = []string{kAddBalance, kAddBalanceZero, kSubBalance, kSubBalanceZero, kSetBalance, kSetNonce, kSetCode,
	kSetState, kSetStateZero, kSetStateOrig, kSetTransient, kSetTransient0, kObjAddSize, kObjSubSize, kObjSetSize,
	kSuicide, kCreateAccount, kAddLog, kAddRefund, kSubRefund, kAccessAddr, kAccessSlot, kAddPreimage}

var jLevel0Kinds = map[string]bool{kTxBoundary: true, kIRoot: true, kPushETX: true, kPopETX: true,
	kUpdateKQuai: true, kFreezeKQuai: true, kUnfreezeKQua: true}

type jOp struct {
	K string `json:"k"`
	A int    `json:"a,omitempty"` // address index
	S int    `json:"s,omitempty"` // slot index
	V uint64 `json:"v,omitempty"` // value / code index / ...
}

func (o jOp) String() string { return fmt.Sprintf("%s(a%d,s%d,%d)", o.K, o.A, o.S, o.V) }

// jCtx carries the per-StateDB bookkeeping that is not state: the running tx
// counter used by TxBoundary.
type jCtx struct{ tx int }

func jHashOf(v uint64) common.Hash { return common.BigToHash(new(big.Int).SetUint64(v)) }

func jMkETX(n uint64) *types.Transaction {
	to := common.BytesToAddress([]byte{0x10, 0x01, 0, 0, 0, 0, 0, 0, 0, 0, 0, 0, 0, 0, 0, 0, 0, 0, 0, byte(n)}, jLoc)
	return types.NewTx(&types.ExternalTx{OriginatingTxHash: jTxH(int(n) + 1000), ETXIndex: uint16(n), Gas: 21000, To: &to,
		Value: new(big.Int).SetUint64(n + 1), Sender: common.BytesToAddress(jAddrs[0].Bytes(), jLoc)})
}

// jApply applies one op. Ops whose precondition does not hold (they would make
// a balance / size / refund negative, which the callers in /repo never do) are
// skipped; the decision is taken from the state itself through getters, so a
// subject and its twin take the same decision whenever their states agree.
// Returns whether the op was applied.
func jApply(s *state.StateDB, c *jCtx, o jOp) bool {
	a := jAddrs[o.A]
	switch o.K {
	case kAddBalance:
		s.AddBalance(a, new(big.Int).SetUint64(o.V))
	case kAddBalanceZero:
		s.AddBalance(a, new(big.Int))
	case kSubBalance:
		v := new(big.Int).SetUint64(o.V)
		if s.GetBalance(a).Cmp(v) < 0 {
			return false
		}
		s.SubBalance(a, v)
	case kSubBalanceZero:
		s.SubBalance(a, new(big.Int))
	case kSetBalance:
		s.SetBalance(a, new(big.Int).SetUint64(o.V))
	case kSetNonce:
		s.SetNonce(a, o.V)
	case kSetCode:
		s.SetCode(a, jCodes[int(o.V)%len(jCodes)])
	case kSetState, kSetStateOrig:
		s.SetState(a, jSlots[o.S], jHashOf(o.V))
	case kSetStateZero:
		s.SetState(a, jSlots[o.S], common.Hash{})
	case kSetTransient:
		s.SetTransientState(a, jSlots[o.S], jHashOf(o.V))
	case kSetTransient0:
		s.SetTransientState(a, jSlots[o.S], common.Hash{})
	case kObjAddSize:
		obj := s.GetOrNewStateObject(a)
		if obj == nil {
			return false
		}
		obj.AddSize()
	case kObjSubSize:
		if s.GetSize(a).Sign() <= 0 {
			return false
		}
		s.GetOrNewStateObject(a).SubSize()
	case kObjSetSize:
		obj := s.GetOrNewStateObject(a)
		if obj == nil {
			return false
		}
		obj.SetSize(new(big.Int).SetUint64(o.V))
	case kSuicide:
		return s.Suicide(a)
	case kCreateAccount:
		s.CreateAccount(a)
	case kAddLog:
		s.AddLog(&types.Log{Address: common.BytesToAddress(a.Bytes(), jLoc), Topics: []common.Hash{jHashOf(o.V)}, Data: []byte{byte(o.V), byte(o.S)}})
	case kAddRefund:
		s.AddRefund(o.V)
	case kSubRefund:
		if s.GetRefund() < o.V {
			return false
		}
		s.SubRefund(o.V)
	case kAccessAddr:
		s.AddAddressToAccessList(a.Bytes20())
	case kAccessSlot:
		s.AddSlotToAccessList(a.Bytes20(), jSlots[o.S])
	case kAddPreimage:
		p := jPre[int(o.V)%len(jPre)]
		s.AddPreimage(crypto.Keccak256Hash(p), p)
	case kTxBoundary:
		s.Finalize(true)
		c.tx++
		s.Prepare(jTxH(c.tx), c.tx)
	case kIRoot:
		s.IntermediateRoot(true)
	case kPushETX:
		if err := s.PushETX(jMkETX(o.V)); err != nil {
			panic(fmt.Errorf("PushETX: %v", err))
		}
	case kPopETX:
		if _, err := s.PopETX(); err != nil {
			panic(fmt.Errorf("PopETX: %v", err))
		}
	case kUpdateKQuai:
		s.UpdateKQuai(new(big.Int).SetUint64(o.V))
	case kFreezeKQuai:
		s.FreezeKQuai()
	case kUnfreezeKQua:
		s.UnFreezeKQuai()
	default:
		panic("unknown op kind " + o.K)
	}
	return true
}

// ---------------------------------------------------------------- digest

// A digest is one byte buffer holding the textual value of every field in a
// fixed order plus the field boundaries; class and name of field i are static
// (jMeta). Equal digests compare with one bytes.Equal.
type jDigest struct {
	buf []byte
	off []int32 // off[i] = start of field i; len(off) = number of fields
}

type jFieldMeta struct{ Class, Name string }

var jMeta = func() []jFieldMeta {
	var m []jFieldMeta
	for i := range jAddrs {
		p := fmt.Sprintf("a%d.", i)
		m = append(m, jFieldMeta{"exist", p + "Exist"}, jFieldMeta{"empty", p + "Empty"}, jFieldMeta{"balance", p + "Balance"},
			jFieldMeta{"nonce", p + "Nonce"}, jFieldMeta{"code", p + "CodeHash"}, jFieldMeta{"code", p + "Code"}, jFieldMeta{"code", p + "CodeSize"},
			jFieldMeta{"size", p + "Size"}, jFieldMeta{"suicided", p + "HasSuicided"})
		for j := range jSlots {
			m = append(m, jFieldMeta{"storage", fmt.Sprintf("%sState[s%d]", p, j)}, jFieldMeta{"committed-storage", fmt.Sprintf("%sCommittedState[s%d]", p, j)},
				jFieldMeta{"transient", fmt.Sprintf("%sTransient[s%d]", p, j)}, jFieldMeta{"access-list", fmt.Sprintf("%sSlotInAccessList[s%d]", p, j)})
		}
		m = append(m, jFieldMeta{"access-list", p + "AddressInAccessList"})
	}
	m = append(m, jFieldMeta{"refund", "Refund"}, jFieldMeta{"logs", "Logs"}, jFieldMeta{"preimages", "Preimages"},
		jFieldMeta{"trie-size", "QuaiTrieSize"}, jFieldMeta{"etx-trie", "ETXRoot"}, jFieldMeta{"etx-trie", "KQuai"}, jFieldMeta{"etx-trie", "UpdateBit"})
	return m
}()

func (d *jDigest) next()          { d.off = append(d.off, int32(len(d.buf))) }
func (d *jDigest) str(v string)   { d.next(); d.buf = append(d.buf, v...) }
func (d *jDigest) boolean(v bool) { d.next(); d.buf = strconv.AppendBool(d.buf, v) }
func (d *jDigest) uint(v uint64)  { d.next(); d.buf = strconv.AppendUint(d.buf, v, 10) }
func (d *jDigest) big(v *big.Int) { d.next(); d.buf = v.Append(d.buf, 10) }
func (d *jDigest) hex(v []byte)   { d.next(); d.buf = hexAppend(d.buf, v) }
func (d *jDigest) word(v common.Hash) {
	d.next()
	d.buf = hexAppend(append(d.buf, '0', 'x'), common.TrimLeftZeroes(v[:]))
}

const hexDigits = "0123456789abcdef"

func hexAppend(dst, v []byte) []byte {
	for _, c := range v {
		dst = append(dst, hexDigits[c>>4], hexDigits[c&15])
	}
	return dst
}

// jTake reads the whole observable state of the small universe through
// read-only getters (none of them goes through GetOrNewStateObject).
// Classes listed in the C12 statement: balance, nonce, code, storage, size,
// suicided, logs, refund, access-list, transient; plus exist/empty (account
// creation is an effect), preimages, trie-size (global counter) and the
// ETX-trie root / kquai words (only mutated at level 0: sibling clause).
//
// For an address on which Exist() answers false the remaining per-account
// getters are not called: each of them starts with the same getStateObject
// lookup and returns its zero value (this only saves trie lookups).
func jTake(s *state.StateDB) jDigest {
	d := jDigest{buf: make([]byte, 0, 1024), off: make([]int32, 0, len(jMeta))}
	for _, a := range jAddrs {
		ex := s.Exist(a)
		d.boolean(ex)
		if ex {
			d.boolean(s.Empty(a))
			d.big(s.GetBalance(a))
			d.uint(s.GetNonce(a))
			h := s.GetCodeHash(a)
			d.hex(h[:])
			d.hex(s.GetCode(a))
			d.uint(uint64(s.GetCodeSize(a)))
			d.big(s.GetSize(a))
			d.boolean(s.HasSuicided(a))
		} else {
			d.boolean(true)
			d.str("0")
			d.uint(0)
			d.hex(make([]byte, 32))
			d.str("")
			d.uint(0)
			d.str("0")
			d.boolean(false)
		}
		for _, k := range jSlots {
			if ex {
				d.word(s.GetState(a, k))
				d.word(s.GetCommittedState(a, k))
			} else {
				d.word(common.Hash{})
				d.word(common.Hash{})
			}
			d.word(s.GetTransientState(a, k))
			ap, sp := s.SlotInAccessList(a.Bytes20(), k)
			d.next()
			d.buf = strconv.AppendBool(d.buf, ap)
			d.buf = append(d.buf, '/')
			d.buf = strconv.AppendBool(d.buf, sp)
		}
		d.boolean(s.AddressInAccessList(a.Bytes20()))
	}
	d.uint(s.GetRefund())
	// logs: Logs() walks a map keyed by tx hash; order by the block-wide index.
	logs := s.Logs()
	sort.Slice(logs, func(i, j int) bool { return logs[i].Index < logs[j].Index })
	d.next()
	d.buf = strconv.AppendInt(d.buf, int64(len(logs)), 10)
	for _, l := range logs {
		d.buf = append(d.buf, " #"...)
		d.buf = strconv.AppendUint(d.buf, uint64(l.Index), 10)
		d.buf = append(d.buf, " tx="...)
		d.buf = hexAppend(d.buf, l.TxHash[:4])
		d.buf = append(d.buf, '/')
		d.buf = strconv.AppendUint(d.buf, uint64(l.TxIndex), 10)
		d.buf = append(d.buf, " addr="...)
		d.buf = hexAppend(d.buf, l.Address.Bytes())
		d.buf = append(d.buf, " topics="...)
		for _, t := range l.Topics {
			d.buf = hexAppend(d.buf, common.TrimLeftZeroes(t[:]))
			d.buf = append(d.buf, ',')
		}
		d.buf = append(d.buf, " data="...)
		d.buf = hexAppend(d.buf, l.Data)
		d.buf = append(d.buf, ';')
	}
	pre := s.Preimages()
	ps := make([]string, 0, len(pre))
	for h, p := range pre {
		ps = append(ps, fmt.Sprintf("%x=%x", h[:4], p))
	}
	sort.Strings(ps)
	d.str(strings.Join(ps, ","))
	d.big(s.GetQuaiTrieSize())
	er := s.ETXRoot()
	d.hex(er[:])
	if k, err := s.GetKQuai(); err == nil {
		d.big(k)
	} else {
		d.str("err:" + err.Error())
	}
	if b, err := s.GetUpdateBit(); err == nil {
		d.uint(uint64(b))
	} else {
		d.str("err:" + err.Error())
	}
	if len(d.off) != len(jMeta) {
		panic(fmt.Sprintf("digest has %d fields, meta %d", len(d.off), len(jMeta)))
	}
	return d
}

func (d jDigest) field(i int) string {
	end := len(d.buf)
	if i+1 < len(d.off) {
		end = int(d.off[i+1])
	}
	return string(d.buf[d.off[i]:end])
}

// jUnlisted reads public state that is neither in the commitment nor in the
// statement's list (block supply analytics counters). Residue here is
// recorded in the evidence as an observation, never as a violation.
func jUnlisted(s *state.StateDB) string {
	return fmt.Sprintf("SupplyAdded=%v SupplyRemoved=%v", s.SupplyAdded, s.SupplyRemoved)
}

type jDiff struct {
	Class string `json:"class"`
	Field string `json:"field"`
	Got   string `json:"got"`
	Want  string `json:"want"`
}

func jCompare(got, want jDigest) []jDiff {
	if bytes.Equal(got.buf, want.buf) {
		return nil
	}
	var out []jDiff
	for i := range jMeta {
		if g, w := got.field(i), want.field(i); g != w {
			out = append(out, jDiff{jMeta[i].Class, jMeta[i].Name, g, w})
		}
	}
	return out
}

func (d jDigest) Map() map[string]string {
	m := make(map[string]string, len(jMeta))
	for i := range jMeta {
		m[jMeta[i].Name] = d.field(i)
	}
	return m
}
