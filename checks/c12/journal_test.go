//go:build verif

// C12 stage "journal": workload generation (exhaustive short sequences,
// random long ones), reporting and coverage.
package c12

import (
	"fmt"
	"math/big"
	"math/rand"
	"os"
	"runtime/debug"
	"sort"
	"strconv"
	"strings"
	"sync"
	"testing"

	"github.com/dominant-strategies/go-quai/common"
	"github.com/dominant-strategies/go-quai/log"

	"verif/internal/mon"
)

// One representative per op kind for the exhaustive part. They are chosen to
// interact: a0/s0 is the funded contract's live slot (committed value 9),
// a1 does not exist in the fixed pre-state.
var jAlphabet = []jOp{
	{K: kAddBalance, A: 0, V: 3},
	{K: kAddBalanceZero, A: 1},
	{K: kSubBalance, A: 0, V: 1},
	{K: kSetBalance, A: 1, V: 7},
	{K: kSetNonce, A: 0, V: 5},
	{K: kSetCode, A: 0, V: 2},
	{K: kSetCode, A: 1, V: 2},
	{K: kSetState, A: 0, S: 0, V: 1},
	{K: kSetStateZero, A: 0, S: 0},
	{K: kSetStateOrig, A: 0, S: 0, V: 9},
	{K: kSetState, A: 1, S: 1, V: 2},
	{K: kSetTransient, A: 0, S: 0, V: 4},
	{K: kSetTransient0, A: 0, S: 0},
	{K: kObjAddSize, A: 0},
	{K: kObjSubSize, A: 0},
	{K: kSuicide, A: 0},
	{K: kCreateAccount, A: 0},
	{K: kCreateAccount, A: 1},
	{K: kAddLog, A: 0, V: 1},
	{K: kAddRefund, V: 5},
	{K: kSubRefund, V: 2},
	{K: kAccessAddr, A: 0},
	{K: kAccessSlot, A: 0, S: 0},
	{K: kAccessSlot, A: 1, S: 1},
	{K: kAddPreimage, V: 1},
	{K: kTxBoundary},
	{K: kIRoot},
}

// plan structures over n ops: tokens ≥0 = op index, -1 snap, -2 revert, -3 release.
func jStructures(n int) [][]int {
	var out [][]int
	ops := func(dst []int, from, to int) []int {
		for i := from; i < to; i++ {
			dst = append(dst, i)
		}
		return dst
	}
	// one snapshot at p, reverted after op q-1
	for p := 0; p < n; p++ {
		for q := p + 1; q <= n; q++ {
			var s []int
			s = ops(s, 0, p)
			s = append(s, -1)
			s = ops(s, p, q)
			s = append(s, -2)
			s = ops(s, q, n)
			out = append(out, s)
		}
	}
	// nested: A at pA, B at pB>=pA holding >=1 op, B closed at qB, A closed at qA>=qB
	for pA := 0; pA < n; pA++ {
		for pB := pA; pB < n; pB++ {
			for qB := pB + 1; qB <= n; qB++ {
				for qA := qB; qA <= n; qA++ {
					for _, mode := range [][2]int{{-2, -2}, {-3, -2}, {-2, -3}} { // (close B, close A)
						var s []int
						s = ops(s, 0, pA)
						s = append(s, -1)
						s = ops(s, pA, pB)
						s = append(s, -1)
						s = ops(s, pB, qB)
						s = append(s, mode[0])
						s = ops(s, qB, qA)
						s = append(s, mode[1])
						s = ops(s, qA, n)
						out = append(out, s)
					}
				}
			}
		}
	}
	return out
}

func jInstantiate(structure []int, seq []jOp) []jEvent {
	ev := make([]jEvent, 0, len(structure))
	for _, tok := range structure {
		switch tok {
		case -1:
			ev = append(ev, jEvent{T: evSnap})
		case -2:
			ev = append(ev, jEvent{T: evRevert})
		case -3:
			ev = append(ev, jEvent{T: evRelease})
		default:
			o := seq[tok]
			ev = append(ev, jEvent{T: evOp, Op: &o})
		}
	}
	return ev
}

// ---------------------------------------------------------------- random generation

func jRandOp(r *rand.Rand) jOp {
	a := r.Intn(2)
	if r.Intn(40) == 0 {
		a = 2
	}
	s := r.Intn(2)
	switch x := r.Intn(100); {
	case x < 7:
		return jOp{K: kAddBalance, A: a, V: uint64(1 + r.Intn(4))}
	case x < 11:
		return jOp{K: kAddBalanceZero, A: a}
	case x < 16:
		return jOp{K: kSubBalance, A: a, V: uint64(1 + r.Intn(4))}
	case x < 18:
		return jOp{K: kSubBalanceZero, A: a}
	case x < 22:
		return jOp{K: kSetBalance, A: a, V: uint64(r.Intn(3) * 7)}
	case x < 27:
		return jOp{K: kSetNonce, A: a, V: uint64(r.Intn(4))}
	case x < 33:
		return jOp{K: kSetCode, A: a, V: uint64(r.Intn(len(jCodes)))}
	case x < 42:
		return jOp{K: kSetState, A: a, S: s, V: uint64(1 + r.Intn(3))}
	case x < 47:
		return jOp{K: kSetStateZero, A: a, S: s}
	case x < 51:
		return jOp{K: kSetStateOrig, A: a, S: s, V: 9}
	case x < 56:
		return jOp{K: kSetTransient, A: a, S: s, V: uint64(4 + r.Intn(2))}
	case x < 59:
		return jOp{K: kSetTransient0, A: a, S: s}
	case x < 62:
		return jOp{K: kObjAddSize, A: a}
	case x < 64:
		return jOp{K: kObjSubSize, A: a}
	case x < 66:
		return jOp{K: kObjSetSize, A: a, V: uint64(r.Intn(4))}
	case x < 72:
		return jOp{K: kSuicide, A: a}
	case x < 78:
		return jOp{K: kCreateAccount, A: a}
	case x < 82:
		return jOp{K: kAddLog, A: a, S: s, V: uint64(r.Intn(3))}
	case x < 86:
		return jOp{K: kAddRefund, V: uint64(1 + r.Intn(5))}
	case x < 89:
		return jOp{K: kSubRefund, V: uint64(1 + r.Intn(3))}
	case x < 93:
		return jOp{K: kAccessAddr, A: a}
	case x < 97:
		return jOp{K: kAccessSlot, A: a, S: s}
	default:
		return jOp{K: kAddPreimage, V: uint64(r.Intn(len(jPre)))}
	}
}

func jRandLevel0(r *rand.Rand) jOp {
	switch x := r.Intn(100); {
	case x < 40:
		return jOp{K: kTxBoundary}
	case x < 55:
		return jOp{K: kIRoot}
	case x < 70:
		return jOp{K: kPushETX, V: uint64(r.Intn(4))}
	case x < 80:
		return jOp{K: kPopETX}
	case x < 90:
		return jOp{K: kUpdateKQuai, V: uint64(r.Intn(9))}
	case x < 95:
		return jOp{K: kFreezeKQuai}
	default:
		return jOp{K: kUnfreezeKQua}
	}
}

// Random cases rotate over four static op profiles so that one mutator whose
// revert leaves a trace cannot stop the frames of every long sequence from
// being checked for the others:
//
//	0: every op kind
//	1: without the hand-driven per-contract size mutators (Obj*Size)
//	2: also without Suicide
//	3: also without a mid-sequence IntermediateRoot
func jAllowed(profile int, k string) bool {
	switch k {
	case kObjAddSize, kObjSubSize, kObjSetSize:
		return profile < 1
	case kSuicide:
		return profile < 2
	case kIRoot:
		return profile < 3
	}
	return true
}

func jRandCase(r *rand.Rand, idx int) jCase {
	profile := idx % 4
	randOp := func() jOp {
		for {
			if o := jRandOp(r); jAllowed(profile, o.K) {
				return o
			}
		}
	}
	randLevel0 := func() jOp {
		for {
			if o := jRandLevel0(r); jAllowed(profile, o.K) {
				return o
			}
		}
	}
	c := jCase{Pre: jPreKinds[r.Intn(len(jPreKinds))], Quiet: (idx/4)%3 == 2}
	if r.Intn(2) == 0 {
		c.Setup = append([]jOp{}, jFixedSetup...)
	} else {
		for n := r.Intn(9); n > 0; n-- {
			if r.Intn(8) == 0 {
				c.Setup = append(c.Setup, randLevel0())
			} else {
				c.Setup = append(c.Setup, randOp())
			}
		}
	}
	nOps := 1 + r.Intn(60)
	if r.Intn(4) == 0 {
		nOps = 1 + r.Intn(8)
	}
	depth, reverts, ops := 0, 0, 0
	for ops < nOps {
		x := r.Intn(100)
		switch {
		case x < 12 && depth < 8:
			c.Ev = append(c.Ev, jEvent{T: evSnap})
			depth++
		case x < 22 && depth > 0:
			if r.Intn(10) < 7 {
				c.Ev = append(c.Ev, jEvent{T: evRevert})
				reverts++
			} else {
				c.Ev = append(c.Ev, jEvent{T: evRelease})
			}
			depth--
		case x < 27 && depth == 0:
			o := randLevel0()
			c.Ev = append(c.Ev, jEvent{T: evOp, Op: &o})
			ops++
		default:
			o := randOp()
			c.Ev = append(c.Ev, jEvent{T: evOp, Op: &o})
			ops++
		}
	}
	for depth > 0 {
		if r.Intn(10) < 7 || (reverts == 0 && depth == 1) {
			c.Ev = append(c.Ev, jEvent{T: evRevert})
			reverts++
		} else {
			c.Ev = append(c.Ev, jEvent{T: evRelease})
		}
		depth--
		if depth > 0 && r.Intn(3) == 0 {
			o := randOp()
			c.Ev = append(c.Ev, jEvent{T: evOp, Op: &o})
		}
	}
	if reverts == 0 {
		// wrap a suffix free of level-0 ops into one reverted frame
		cut := len(c.Ev)
		for cut > 0 && !(c.Ev[cut-1].T == evOp && jLevel0Kinds[c.Ev[cut-1].Op.K]) {
			cut--
		}
		// the suffix may hold balanced released frames; that is fine
		tail := append([]jEvent{{T: evSnap}}, c.Ev[cut:]...)
		if len(tail) == 1 {
			o := randOp()
			tail = append(tail, jEvent{T: evOp, Op: &o})
		}
		c.Ev = append(append(c.Ev[:cut:cut], tail...), jEvent{T: evRevert})
	}
	return c
}

// ---------------------------------------------------------------- reporting

type jKnown struct {
	check, class string
	kinds        []string // kinds inside reverted regions of the minimal case
	others       []string // kinds of its setup and non-reverted ops
	pre          string
}

type jReporter struct {
	mu        sync.Mutex
	m         *mon.M
	known     []jKnown
	presig    map[string]int
	shrinks   int
	failing   int64
	explained int64
	cov       map[string]int64
	unlisted  int64
}

func jSubset(sub, super []string) bool {
	set := map[string]bool{}
	for _, s := range super {
		set[s] = true
	}
	for _, s := range sub {
		if !set[s] {
			return false
		}
	}
	return true
}

// unexplained returns the first differing class of the failure that no
// already reported minimal case accounts for (same check and class, its
// reverted kinds among this case's reverted kinds, its other kinds among this
// case's other kinds). Such cases are counted, not shrunk and reported again.
func (rp *jReporter) unexplained(f *jFailure, kinds, others []string) string {
	for _, cl := range f.Classes {
		ok := false
		for _, k := range rp.known {
			if k.check == jGroup(f.Check) && k.class == cl && jSubset(k.kinds, kinds) && jSubset(k.others, others) {
				ok = true
				break
			}
		}
		if !ok {
			return cl
		}
	}
	return ""
}

type jWitness struct {
	Case        jCase     `json:"minimal_case"`
	Failure     *jFailure `json:"failure"`
	Original    *jCase    `json:"original_case,omitempty"`
	Universe    any       `json:"universe"`
	QuietOnly   bool      `json:"quiet_only,omitempty"`
	HowToReplay string    `json:"how_to_replay"`
}

func jUniverse() any {
	return map[string]any{
		"a0": jAddrs[0].Hex(), "a1": jAddrs[1].Hex(), "a2": jAddrs[2].Hex(),
		"s0": jSlots[0].Hex(), "s1": jSlots[1].Hex(),
		"codes": []string{mon.Hex(jCodes[0]), mon.Hex(jCodes[1]), mon.Hex(jCodes[2]), mon.Hex(jCodes[3])},
	}
}

func (rp *jReporter) handle(env *jEnv, c jCase, f *jFailure) {
	orig := c
	quietOnly := false
	if c.Quiet {
		c2 := c
		c2.Quiet = false
		if f2, _ := env.runCase(c2, nil); f2 != nil {
			c, f = c2, f2
		} else {
			quietOnly = true
		}
	}
	kinds, others := jRevertedKinds(c), jOtherKinds(c)
	rp.mu.Lock()
	rp.failing++
	target := rp.unexplained(f, kinds, others)
	if target == "" {
		rp.explained++
		rp.mu.Unlock()
		return
	}
	ps := jGroup(f.Check) + "|" + target + "|" + strings.Join(kinds, "+")
	rp.presig[ps]++
	if rp.presig[ps] > 1 || rp.shrinks >= 300 {
		rp.mu.Unlock()
		return
	}
	rp.shrinks++
	rp.mu.Unlock()

	mc, mf := env.shrink(c, f, target)
	if quietOnly {
		// does the minimal case also fail when digests are taken at the frames?
		c2 := mc
		c2.Quiet = false
		if f2, _ := env.runCase(c2, nil); f2 != nil {
			quietOnly = false
			target = f2.Classes[0]
			mc, mf = env.shrink(c2, f2, target)
		}
	}
	sig := jSignature(mc, mf, target) // quiet-only is recorded in the witness, not in the signature
	var evs []string
	for _, e := range mc.Ev {
		if e.T == evOp {
			evs = append(evs, e.Op.String())
		} else {
			evs = append(evs, e.T)
		}
	}
	var ds []string
	for _, d := range mf.Diffs {
		ds = append(ds, fmt.Sprintf("%s: observed %s, expected %s", d.Field, d.Got, d.Want))
	}
	detail := fmt.Sprintf("%s. pre-state=%s setup=%v; events: %s; differing: %s", mf.Detail, mc.Pre, mc.Setup, strings.Join(evs, " "), strings.Join(ds, " | "))
	rp.mu.Lock()
	mk, mo := jRevertedKinds(mc), jOtherKinds(mc)
	for _, cl := range mf.Classes {
		rp.known = append(rp.known, jKnown{jGroup(mf.Check), cl, mk, mo, mc.Pre})
	}
	rp.mu.Unlock()
	w := jWitness{Case: mc, Failure: mf, Universe: jUniverse(), QuietOnly: quietOnly,
		HowToReplay: "build the pre-state (setup ops on an empty StateDB, then pre kind), execute events with Snapshot/RevertToSnapshot, compare with a replay that skips the reverted ops"}
	if orig.key() != mc.key() {
		w.Original = &orig
	}
	rp.m.Violation(sig, detail, w)
}

// jFixedCases run first, synchronously, in every tier and for every seed: the
// minimal cases of the deviations the workload found on /repo (A: Suicide
// zeroes Size; C: storage residue of a reverted frame changes the later Size
// accounting, with its read-only and negative-Size-panic variants; D: the
// 0x..03 touch exception), so that the set of reported signatures does not
// depend on what the random part happens to reach. They are ordinary cases:
// once /repo no longer deviates on them they simply pass.
func jFixedCases() []jCase {
	op := func(k string, a, s int, v uint64) jEvent { return jEvent{T: evOp, Op: &jOp{K: k, A: a, S: s, V: v}} }
	snap, revert := jEvent{T: evSnap}, jEvent{T: evRevert}
	return []jCase{
		// A
		{Pre: preIRoot, Setup: []jOp{{K: kAddBalance, A: 0, V: 10}, {K: kSetState, A: 0, S: 0, V: 9}},
			Ev: []jEvent{snap, op(kSuicide, 0, 0, 0), revert}},
		{Pre: preCommitted, Setup: jFixedSetup, Ev: []jEvent{snap, op(kSuicide, 0, 0, 0), revert}},
		// C
		{Pre: preDirty, Ev: []jEvent{op(kAddBalance, 1, 0, 2), snap, op(kSetState, 1, 1, 1), revert, op(kIRoot, 0, 0, 0), op(kSetState, 1, 0, 1)}},
		{Pre: preDirty, Quiet: true, Ev: []jEvent{op(kSetState, 0, 0, 2), snap, op(kSetStateZero, 0, 1, 0), revert, op(kAddBalance, 0, 0, 4),
			op(kIRoot, 0, 0, 0), op(kSetState, 0, 1, 1)}},
		{Pre: preDirty, Ev: []jEvent{op(kSetBalance, 1, 0, 14), snap, op(kSetState, 1, 0, 2), revert, op(kIRoot, 0, 0, 0), op(kSetState, 1, 1, 2),
			op(kIRoot, 0, 0, 0), op(kSetStateZero, 1, 1, 0)}},
		// D
		{Pre: preIRoot, Setup: []jOp{{K: kCreateAccount, A: 2}}, Ev: []jEvent{snap, op(kAddBalanceZero, 2, 0, 0), revert}},
		{Pre: preDirty, Ev: []jEvent{op(kSetState, 2, 1, 2), op(kTxBoundary, 0, 0, 0), snap, op(kAddBalanceZero, 2, 0, 0), revert, op(kSetStateZero, 2, 0, 0)}},
		{Pre: preDirty, Ev: []jEvent{op(kAddBalanceZero, 2, 0, 0), op(kIRoot, 0, 0, 0), snap, op(kAddBalanceZero, 2, 0, 0), revert, op(kIRoot, 0, 0, 0)}},
	}
}

// ---------------------------------------------------------------- the check

// jProcess runs one case, records its coverage into cov and hands a failure
// to the reporter. It returns the unlisted-residue note of the case, if any.
func jProcess(m *mon.M, rp *jReporter, env *jEnv, phase string, c jCase, cov map[string]int64) string {
	info := &jInfo{revertedKinds: map[string]int{}, reverts: map[int]int{}}
	f, invalid := env.runCase(c, info)
	if invalid {
		m.Trivial()
		return ""
	}
	mode := "observed"
	if c.Quiet {
		mode = "quiet"
	}
	m.Eval("case:"+phase+":"+c.Pre+":"+mode, c.key())
	cov["pre:"+c.Pre]++
	for k, v := range info.revertedKinds {
		cov["reverted:"+k] += int64(v)
	}
	for d, v := range info.reverts {
		if d >= 3 {
			cov["depth:3+"] += int64(v)
		} else {
			cov[fmt.Sprintf("depth:%d", d)] += int64(v)
		}
	}
	if f != nil {
		rp.handle(env, c, f)
	}
	return info.unlisted
}

func TestC12Journal(t *testing.T) {
	m := mon.New(t, "C12", "journal")
	defer m.Finish()
	m.Rule("every journaled StateDB mutator × nested Snapshot/RevertToSnapshot/release structures × 4 pre-state kinds " +
		"(dirty in the same tx, finalised, written by IntermediateRoot, committed and reopened): exhaustive over a 27-op alphabet (25 journaled representatives + tx boundary + IntermediateRoot at level 0) for " +
		"sequences of length ≤2 (≤3 in thorough; sampled length 3 in quick) × every snapshot/revert placement incl. two nested frames, " +
		"plus random sequences of ≤60 ops with frames nested up to depth 8. distinct = distinct (pre-state, setup, event list, mode); " +
		"non-trivial = a revert-time digest comparison, a reverted applied op, or a final root comparison against the replay twin")
	m.Assume("the twin is a fresh replay of only the non-reverted ops on the same pre-state (no Snapshot/Revert calls); subject and twin take their digests at the same logical points",
		"ops that would drive a balance, size counter or refund negative are skipped (callers in /repo never do that)",
		"pre-states are produced with deleteEmptyObjects=true, as every Finalize/IntermediateRoot/Commit caller in /repo/core does",
		"ETX-trie / KQuai mutators (PushETX, PopETX, UpdateKQuai, FreezeKQuai, UnFreezeKQuai) are not journaled and are only called by /repo at tx/block level outside any snapshot: generated only while no snapshot is open",
		"StateDB.SupplyAdded/SupplyRemoved (block supply analytics, not in the commitment, not in the statement) are observed but residue there is only recorded under extra.unlisted_residue")
	logger := log.NewLogger("nodelogs/c12-journal.log", "error", 100)
	defer debug.SetGCPercent(debug.SetGCPercent(400)) // allocation-heavy, tiny live heap

	rp := &jReporter{m: m, presig: map[string]int{}, cov: map[string]int64{}}

	// fixed cases first, on this goroutine: deterministic order of reports
	{
		env0 := jNewEnv(logger)
		for _, c := range jFixedCases() {
			jProcess(m, rp, env0, "fixed", c, rp.cov)
		}
	}

	workers := 4
	if v, err := strconv.Atoi(os.Getenv("C12_WORKERS")); err == nil && v > 0 {
		workers = v
	}
	type job struct {
		c     jCase
		phase string
	}
	jobs := make(chan job, 1024)
	var wg sync.WaitGroup
	for w := 0; w < workers; w++ {
		wg.Add(1)
		go func() {
			defer wg.Done()
			env := jNewEnv(logger)
			cov := map[string]int64{}
			var unlisted int64
			var unlistedSample string
			n := 0
			for j := range jobs {
				if info := jProcess(m, rp, env, j.phase, j.c, cov); info != "" {
					unlisted++
					if unlistedSample == "" {
						unlistedSample = info + " in " + j.c.key()
					}
				}
				n++
				if n%4096 == 0 && len(env.committed) > 2048 {
					// bound memory of the shared trie database on long thorough runs
					*env = *jNewEnv(logger)
				}
			}
			rp.mu.Lock()
			for k, v := range cov {
				rp.cov[k] += v
			}
			rp.unlisted += unlisted
			if unlistedSample != "" {
				if _, ok := rp.cov["_"]; !ok {
					rp.cov["_"] = 0
					m.Extra("unlisted_residue_sample", unlistedSample)
				}
			}
			rp.mu.Unlock()
		}()
	}

	submitted := 0
	submit := func(phase string, c jCase) {
		if _, _, ok := jReverted(c.Ev); !ok {
			return // a level-0 op inside an open frame: not a plan /repo can produce
		}
		jobs <- job{c, phase}
		submitted++
		if submitted <= 4 || (phase == "random" && submitted%5000 == 0) {
			m.Sample(map[string]any{"phase": phase, "case": c})
		}
	}

	// (a) exhaustive
	maxFull := 2
	if m.Thorough() {
		maxFull = 3
	}
	var idx []int
	var rec func(n, depth int, f func(seq []jOp))
	rec = func(n, depth int, f func(seq []jOp)) {
		if depth == n {
			seq := make([]jOp, n)
			for i, k := range idx {
				seq[i] = jAlphabet[k]
			}
			f(seq)
			return
		}
		for k := range jAlphabet {
			idx = append(idx, k)
			rec(n, depth+1, f)
			idx = idx[:len(idx)-1]
		}
	}
	for n := 1; n <= maxFull; n++ {
		structs := jStructures(n)
		cnt := 0
		rec(n, 0, func(seq []jOp) {
			cnt++
			for si, st := range structs {
				ev := jInstantiate(st, seq)
				for pi, pk := range jPreKinds {
					if n < 3 {
						submit(fmt.Sprintf("exh%d", n), jCase{Pre: pk, Setup: jFixedSetup, Ev: ev, Quiet: false})
						submit(fmt.Sprintf("exh%d", n), jCase{Pre: pk, Setup: jFixedSetup, Ev: ev, Quiet: true})
					} else {
						submit("exh3", jCase{Pre: pk, Setup: jFixedSetup, Ev: ev, Quiet: (cnt+si+pi)%2 == 0})
					}
				}
			}
		})
	}
	if !m.Thorough() {
		// sampled length-3 sequences (the full set runs in the thorough tier)
		r3 := m.Rand("exh3-sample")
		structs := jStructures(3)
		for i, n := 0, m.N(30000, 0); i < n; i++ {
			seq := []jOp{jAlphabet[r3.Intn(len(jAlphabet))], jAlphabet[r3.Intn(len(jAlphabet))], jAlphabet[r3.Intn(len(jAlphabet))]}
			st := structs[r3.Intn(len(structs))]
			submit("exh3-sampled", jCase{Pre: jPreKinds[r3.Intn(len(jPreKinds))], Setup: jFixedSetup, Ev: jInstantiate(st, seq), Quiet: i%2 == 1})
		}
	}

	// (b) random long sequences
	rr := m.Rand("random")
	for i, n := 0, m.N(20000, 600000); i < n; i++ {
		submit("random", jRandCase(rr, i))
	}
	close(jobs)
	wg.Wait()

	delete(rp.cov, "_")
	keys := make([]string, 0, len(rp.cov))
	for k := range rp.cov {
		keys = append(keys, k)
	}
	sort.Strings(keys)
	for _, k := range keys {
		m.EvalN(k, rp.cov[k])
	}
	m.Extra("cases", int64(submitted))
	m.Extra("failing_cases", rp.failing)
	m.Extra("failing_cases_explained_by_reported_signature", rp.explained)
	m.Extra("unlisted_residue_cases", rp.unlisted)
	m.Extra("unlisted_residue", "StateDB.SupplyAdded/SupplyRemoved are not journaled: they keep amounts added/removed inside reverted frames (analytics only; not part of the commitment)")
	jRipemdProbe(m, logger)

	need := []string{"depth:1", "depth:2", "depth:3+"}
	for _, k := range jJournaledKinds {
		need = append(need, "reverted:"+k)
	}
	for _, pk := range jPreKinds {
		need = append(need, "pre:"+pk)
	}
	m.Need(need...)
	m.Floor(int64(submitted), len(need))
}

// jRipemdProbe records (evidence only) whether the upstream RIPEMD exception in
// stateObject.touch is live in its original form: a touch of the empty account
// 0x..03 (the zone-0-0 ripemd160 precompile address) inside a reverted frame
// stays dirty, so Finalize(true) deletes it. This form needs an empty account
// in the trie, which deleteEmptyObjects=true (always used by /repo) never
// leaves behind. The forms that ARE reachable with deleteEmptyObjects=true (a
// deleted object still cached in stateObjects) come out of the workload as
// violations named AddBalanceZero@0x03.
func jRipemdProbe(m *mon.M, logger *log.Logger) {
	defer func() {
		if r := recover(); r != nil {
			m.Extra("ripemd_touch_probe", fmt.Sprintf("probe panicked: %v", r))
		}
	}()
	env := jNewEnv(logger)
	run := func(withFrame bool) common.Hash {
		s := env.open(common.Hash{}, common.Hash{}, new(big.Int))
		s.AddBalance(jAddrs[2], new(big.Int))
		s.IntermediateRoot(false) // empty 0x..03 now lives in the trie
		if withFrame {
			id := s.Snapshot()
			s.AddBalance(jAddrs[2], new(big.Int))
			s.RevertToSnapshot(id)
		}
		return s.IntermediateRoot(true)
	}
	a, b := run(true), run(false)
	if a != b {
		m.Extra("ripemd_touch_probe", fmt.Sprintf("touch of empty 0x..03 inside a reverted frame survives the revert (root %x vs %x): upstream consensus exception kept in stateObject.touch (journal.dirty is not undone); this form needs a pre-state holding an empty account", a, b))
	} else {
		m.Extra("ripemd_touch_probe", "no residue")
	}
}
