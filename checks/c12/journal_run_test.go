//go:build verif

// C12 stage "journal": pre-states, plans (ops interleaved with nested
// snapshots / reverts / releases), subject and twin execution, the oracle and
// the witness shrinker.
package c12

import (
	"fmt"
	"math/big"
	"runtime/debug"
	"sort"
	"strings"

	"github.com/dominant-strategies/go-quai/common"
	"github.com/dominant-strategies/go-quai/core/rawdb"
	"github.com/dominant-strategies/go-quai/core/state"
	"github.com/dominant-strategies/go-quai/log"
)

// ---------------------------------------------------------------- cases

const (
	evOp      = "op"
	evSnap    = "snap"    // id := Snapshot()
	evRevert  = "revert"  // RevertToSnapshot(innermost open id)
	evRelease = "release" // innermost open frame completed successfully: nothing is called
)

type jEvent struct {
	T  string `json:"t"`
	Op *jOp   `json:"op,omitempty"`
}

const (
	preDirty     = "dirty"     // setup ops applied in the same transaction, journal still holds them
	preFinalised = "finalised" // setup ops, Finalize(true), Prepare(next tx): objects are "pending"
	preIRoot     = "introot"   // setup ops, IntermediateRoot(true), Prepare(next tx): written to the in-memory trie
	preCommitted = "committed" // setup ops, Commit(true), state.New at the committed root
)

var jPreKinds = []string{preDirty, preFinalised, preIRoot, preCommitted}

type jCase struct {
	Pre   string   `json:"pre"`
	Setup []jOp    `json:"setup"`
	Ev    []jEvent `json:"events"`
	Quiet bool     `json:"quiet"` // no digests before the end (reads must not be needed for a correct revert)
}

func (c jCase) key() string {
	var b strings.Builder
	b.WriteString(c.Pre)
	if c.Quiet {
		b.WriteString("/q")
	}
	for _, o := range c.Setup {
		b.WriteString("|" + o.String())
	}
	b.WriteString("||")
	for _, e := range c.Ev {
		if e.T == evOp {
			b.WriteString(e.Op.String())
		} else {
			b.WriteString(e.T)
		}
		b.WriteByte(';')
	}
	return b.String()
}

// jFixedSetup is the pre-state of the exhaustive workload: a0 is a funded
// contract with code, nonce and one storage slot (so that after a trie write
// its per-contract Size counter is 1); a1 does not exist.
var jFixedSetup = []jOp{
	{K: kAddBalance, A: 0, V: 10},
	{K: kSetNonce, A: 0, V: 1},
	{K: kSetCode, A: 0, V: 1},
	{K: kSetState, A: 0, S: 0, V: 9},
	{K: kPushETX, V: 1},
	{K: kUpdateKQuai, V: 5},
}

// ---------------------------------------------------------------- environment

type jCommitted struct {
	root, etxRoot common.Hash
	size          *big.Int
}

type jEnv struct {
	logger    *log.Logger
	db, etxDb state.Database
	committed map[string]jCommitted
}

func jNewEnv(logger *log.Logger) *jEnv {
	return &jEnv{logger: logger,
		db:        state.NewDatabase(rawdb.NewMemoryDatabase(logger)),
		etxDb:     state.NewDatabase(rawdb.NewMemoryDatabase(logger)),
		committed: map[string]jCommitted{}}
}

func (e *jEnv) open(root, etxRoot common.Hash, size *big.Int) *state.StateDB {
	s, err := state.New(root, etxRoot, new(big.Int).Set(size), e.db, e.etxDb, nil, jLoc, e.logger)
	if err != nil {
		panic(fmt.Errorf("state.New(%x): %v", root, err))
	}
	// access-list bypass mode off (bypassAccessListCheck=false), otherwise
	// AddressInAccessList / SlotInAccessList answer true unconditionally.
	s.ConfigureAccessListChecks(true)
	return s
}

// mkState builds a fresh StateDB holding the pre-state of the case.
func (e *jEnv) mkState(pre string, setup []jOp) (*state.StateDB, *jCtx) {
	ctx := &jCtx{}
	build := func() *state.StateDB {
		s := e.open(common.Hash{}, common.Hash{}, new(big.Int))
		s.Prepare(jTxH(0), 0)
		for _, o := range setup {
			jApply(s, ctx, o)
		}
		return s
	}
	switch pre {
	case preDirty:
		return build(), ctx
	case preFinalised:
		s := build()
		s.Finalize(true)
		ctx.tx++
		s.Prepare(jTxH(ctx.tx), ctx.tx)
		return s, ctx
	case preIRoot:
		s := build()
		s.IntermediateRoot(true)
		ctx.tx++
		s.Prepare(jTxH(ctx.tx), ctx.tx)
		return s, ctx
	case preCommitted:
		var kb strings.Builder
		for _, o := range setup {
			kb.WriteString(o.String())
		}
		cm, ok := e.committed[kb.String()]
		if !ok {
			s := build()
			root, err := s.Commit(true)
			if err != nil {
				panic(fmt.Errorf("pre-state Commit: %v", err))
			}
			etxRoot, err := s.CommitEtxs()
			if err != nil {
				panic(fmt.Errorf("pre-state CommitEtxs: %v", err))
			}
			cm = jCommitted{root, etxRoot, new(big.Int).Set(s.GetQuaiTrieSize())}
			if len(e.committed) > 4096 {
				e.committed = map[string]jCommitted{}
			}
			e.committed[kb.String()] = cm
		}
		ctx.tx = 1 << 20 // a later block: tx numbering restarts well away from the setup's
		s := e.open(cm.root, cm.etxRoot, cm.size)
		s.Prepare(jTxH(ctx.tx), ctx.tx)
		return s, ctx
	}
	panic("unknown pre-state kind " + pre)
}

// ---------------------------------------------------------------- plan analysis

// jReverted marks the op events that lie inside a region closed by a revert
// (directly or through an enclosing region) and returns, per revert event,
// its nesting depth.
func jReverted(ev []jEvent) (rev []bool, maxDepth int, ok bool) {
	rev = make([]bool, len(ev))
	var open []int
	for i, e := range ev {
		switch e.T {
		case evSnap:
			open = append(open, i)
			if len(open) > maxDepth {
				maxDepth = len(open)
			}
		case evRevert:
			if len(open) == 0 {
				return nil, 0, false
			}
			from := open[len(open)-1]
			open = open[:len(open)-1]
			for k := from; k < i; k++ {
				if ev[k].T == evOp {
					rev[k] = true
				}
			}
		case evRelease:
			if len(open) == 0 {
				return nil, 0, false
			}
			open = open[:len(open)-1]
		case evOp:
			if len(open) > 0 && jLevel0Kinds[e.Op.K] {
				return nil, 0, false
			}
		}
	}
	return rev, maxDepth, true
}

// ---------------------------------------------------------------- execution

type jFailure struct {
	Check        string            `json:"check"`                   // revert-digest | final-digest | root | panic
	Classes      []string          `json:"classes"`                 // revert-digest: differing field classes, highest priority first; downstream: the one coarse class
	FieldClasses []string          `json:"field_classes,omitempty"` // downstream: the differing field classes
	Diffs        []jDiff           `json:"diffs"`
	Detail       string            `json:"detail"`
	AtEvent      int               `json:"at_event"`
	RootGot      string            `json:"root_subject,omitempty"`
	RootWnt      string            `json:"root_twin,omitempty"`
	Before       map[string]string `json:"differing_expected,omitempty"`
	After        map[string]string `json:"differing_observed,omitempty"`
	FullBefore   map[string]string `json:"full_digest_expected,omitempty"`
	FullAfter    map[string]string `json:"full_digest_observed,omitempty"`
}

// listed-in-the-statement effects first, derived predicates last, so that the
// primary class of a failure names the effect and not its shadow.
var jClassPrio = map[string]int{"balance": 0, "nonce": 1, "code": 2, "storage": 3, "committed-storage": 4, "size": 5, "suicided": 6,
	"transient": 7, "refund": 8, "logs": 9, "access-list": 10, "preimages": 11, "trie-size": 12, "etx-trie": 13, "exist": 14, "empty": 15, "commitment": 16, "panic": 17}

func jClasses(d []jDiff) []string {
	seen := map[string]bool{}
	var out []string
	for _, x := range d {
		if !seen[x.Class] {
			seen[x.Class] = true
			out = append(out, x.Class)
		}
	}
	sort.Slice(out, func(i, j int) bool { return jClassPrio[out[i]] < jClassPrio[out[j]] })
	// Empty() is a function of balance, nonce, code hash and size: when one of
	// those differs too, it is only their shadow.
	if len(out) > 1 && out[len(out)-1] == "empty" {
		out = out[:len(out)-1]
	}
	return out
}

func jOnlyDiffering(d jDigest, diffs []jDiff) map[string]string {
	m := map[string]string{}
	full := d.Map()
	for _, x := range diffs {
		m[x.Field] = full[x.Field]
	}
	return m
}

type jInfo struct {
	revertedKinds map[string]int // applied ops that were reverted, by kind
	reverts       map[int]int    // revert events by nesting depth
	maxDepth      int
	unlisted      string // non-empty: residue outside statement and commitment
}

type jOutcome struct {
	final, post jDigest
	root        common.Hash
	unlisted    string
}

// runSubject executes the case on the real StateDB with real snapshots and
// reverts. In observe mode the digest taken right after RevertToSnapshot(id)
// must equal the one recorded at Snapshot()==id.
func (e *jEnv) runSubject(c jCase, rev []bool, info *jInfo) (*jOutcome, *jFailure) {
	s, ctx := e.mkState(c.Pre, c.Setup)
	type frame struct {
		id  int
		dig jDigest
	}
	var stack []frame
	applied := make([]bool, len(c.Ev))
	for i, ev := range c.Ev {
		switch ev.T {
		case evOp:
			applied[i] = jApply(s, ctx, *ev.Op)
			if applied[i] && rev[i] && info != nil {
				info.revertedKinds[ev.Op.K]++
			}
		case evSnap:
			f := frame{id: s.Snapshot()}
			if !c.Quiet {
				f.dig = jTake(s)
			}
			stack = append(stack, f)
		case evRelease:
			stack = stack[:len(stack)-1]
		case evRevert:
			f := stack[len(stack)-1]
			if info != nil {
				info.reverts[len(stack)]++
			}
			stack = stack[:len(stack)-1]
			s.RevertToSnapshot(f.id)
			if !c.Quiet {
				now := jTake(s)
				if diffs := jCompare(now, f.dig); len(diffs) > 0 {
					return nil, &jFailure{Check: "revert-digest", Classes: jClasses(diffs), Diffs: diffs, AtEvent: i,
						Detail: fmt.Sprintf("digest right after RevertToSnapshot(%d) (event %d) differs from the digest recorded at Snapshot()==%d", f.id, i, f.id),
						Before: jOnlyDiffering(f.dig, diffs), After: jOnlyDiffering(now, diffs), FullBefore: f.dig.Map(), FullAfter: now.Map()}
				}
			}
		}
	}
	out := &jOutcome{final: jTake(s), unlisted: jUnlisted(s)}
	out.root = s.IntermediateRoot(true)
	out.post = jTake(s)
	if err := s.Error(); err != nil {
		panic(fmt.Errorf("subject StateDB.Error(): %v", err))
	}
	return out, nil
}

// runTwin replays only the non-reverted ops on a fresh copy of the pre-state,
// without any Snapshot / RevertToSnapshot call. It takes its digests at the
// same logical points as the subject so that both see the same read pattern.
func (e *jEnv) runTwin(c jCase, rev []bool) *jOutcome {
	s, ctx := e.mkState(c.Pre, c.Setup)
	for i, ev := range c.Ev {
		switch ev.T {
		case evOp:
			if !rev[i] {
				jApply(s, ctx, *ev.Op)
			}
		case evSnap, evRevert:
			if !c.Quiet {
				jTake(s)
			}
		}
	}
	out := &jOutcome{final: jTake(s), unlisted: jUnlisted(s)}
	out.root = s.IntermediateRoot(true)
	out.post = jTake(s)
	if err := s.Error(); err != nil {
		panic(fmt.Errorf("twin StateDB.Error(): %v", err))
	}
	return out
}

// jGroup: the digest mismatch right at RevertToSnapshot is its own, precise
// group; every twin-based check made later (final digest, root, post-root
// digest, subject-only panic) is "downstream".
func jGroup(check string) string {
	if check == "revert-digest" {
		return check
	}
	return "downstream"
}

// jDownClass gives the single, coarse class of a downstream failure:
// "size-accounting" when, with every Size / QuaiTrieSize entry masked and the
// roots ignored, nothing else differs -- where an account whose balance, nonce
// and code are all zero counts the same as an absent one (Empty() is a
// function of Size too, so with sizes masked such an account and a missing one
// are the same state under deleteEmptyObjects=true); otherwise "other:<first
// differing field class>".
func jDownClass(diffs []jDiff, got, want jDigest, rootDiffers bool) string {
	if len(diffs) == 0 {
		if rootDiffers {
			return "other:commitment" // roots differ although no getter does
		}
		return "other:none"
	}
	g, w := got.Map(), want.Map()
	blank := func(m map[string]string, p string) bool {
		return m[p+"Exist"] == "false" || (m[p+"Balance"] == "0" && m[p+"Nonce"] == "0" && m[p+"CodeSize"] == "0")
	}
	var rest []jDiff
	for _, d := range diffs {
		switch d.Class {
		case "size", "trie-size":
			continue
		case "exist", "empty", "code":
			if i := strings.Index(d.Field, "."); i > 0 {
				if p := d.Field[:i+1]; blank(g, p) && blank(w, p) {
					continue
				}
			}
		}
		rest = append(rest, d)
	}
	if len(rest) == 0 {
		return "size-accounting"
	}
	return "other:" + jClasses(rest)[0]
}

// runCase is a pure function of the case. fail==nil: the property held on it.
// invalid: the op sequence is not executable even without any snapshot (the
// twin itself panics, e.g. a hand-set size counter driven negative by a later
// storage delete): nothing to decide.
func (e *jEnv) runCase(c jCase, info *jInfo) (fail *jFailure, invalid bool) {
	rev, depth, ok := jReverted(c.Ev)
	if !ok {
		panic("malformed plan: " + c.key())
	}
	if info != nil {
		info.maxDepth = depth
	}
	var tw *jOutcome
	func() {
		defer func() {
			if r := recover(); r != nil {
				invalid = true
			}
		}()
		tw = e.runTwin(c, rev)
	}()
	if invalid {
		return nil, true
	}
	defer func() {
		if r := recover(); r != nil {
			cl := "other:panic"
			if strings.Contains(fmt.Sprint(r), "cannot encode negative") {
				cl = "size-accounting" // a per-contract Size counter went below zero
			}
			fail = &jFailure{Check: "panic", Classes: []string{cl}, FieldClasses: []string{"panic"}, Detail: fmt.Sprintf("the subject panicked while the twin (non-reverted ops only) ran fine: %v\n%s", r, debug.Stack())}
		}
	}()
	sub, f := e.runSubject(c, rev, info)
	if f != nil {
		return f, false
	}
	if diffs := jCompare(sub.final, tw.final); len(diffs) > 0 {
		return &jFailure{Check: "final-digest", Classes: []string{jDownClass(diffs, sub.final, tw.final, false)}, FieldClasses: jClasses(diffs), Diffs: diffs, AtEvent: len(c.Ev),
			Detail: "digest at the end of the sequence differs from the twin that replayed only the non-reverted ops",
			Before: jOnlyDiffering(tw.final, diffs), After: jOnlyDiffering(sub.final, diffs), FullBefore: tw.final.Map(), FullAfter: sub.final.Map()}, false
	}
	diffs := jCompare(sub.post, tw.post)
	if sub.root != tw.root || len(diffs) > 0 {
		fc := jClasses(diffs)
		if sub.root != tw.root {
			fc = append([]string{"commitment"}, fc...)
		}
		cl := []string{jDownClass(diffs, sub.post, tw.post, sub.root != tw.root)}
		return &jFailure{Check: "root", Classes: cl, FieldClasses: fc, Diffs: diffs, AtEvent: len(c.Ev), RootGot: sub.root.Hex(), RootWnt: tw.root.Hex(),
			Detail: fmt.Sprintf("IntermediateRoot(true) after ops+revert = %x, on the twin that replayed only the non-reverted ops = %x", sub.root, tw.root),
			Before: jOnlyDiffering(tw.post, diffs), After: jOnlyDiffering(sub.post, diffs), FullBefore: tw.post.Map(), FullAfter: sub.post.Map()}, false
	}
	if info != nil && sub.unlisted != tw.unlisted {
		info.unlisted = fmt.Sprintf("subject %s / twin %s", sub.unlisted, tw.unlisted)
	}
	return nil, false
}

// ---------------------------------------------------------------- shrinking and signatures

func jHasClass(f *jFailure, class string) bool {
	for _, c := range f.Classes {
		if c == class {
			return true
		}
	}
	return false
}

func jMatchingClose(ev []jEvent, snapIdx int) int {
	depth := 0
	for i := snapIdx; i < len(ev); i++ {
		switch ev[i].T {
		case evSnap:
			depth++
		case evRevert, evRelease:
			depth--
			if depth == 0 {
				return i
			}
		}
	}
	return -1
}

func jWithout(ev []jEvent, drop ...int) []jEvent {
	out := make([]jEvent, 0, len(ev))
outer:
	for i, e := range ev {
		for _, d := range drop {
			if d == i {
				continue outer
			}
		}
		out = append(out, e)
	}
	return out
}

// shrink greedily removes setup ops, events and snapshot/close pairs while a
// check of the same group still fails with the target class.
func (e *jEnv) shrink(c jCase, f *jFailure, target string) (jCase, *jFailure) {
	still := func(c2 jCase) *jFailure {
		if _, _, ok := jReverted(c2.Ev); !ok {
			return nil
		}
		f2, _ := e.runCase(c2, nil)
		if f2 != nil && jGroup(f2.Check) == jGroup(f.Check) && jHasClass(f2, target) {
			return f2
		}
		return nil
	}
	for changed := true; changed; {
		changed = false
		for i := len(c.Ev) - 1; i >= 0; i-- {
			if i >= len(c.Ev) {
				continue
			}
			var c2 jCase = c
			switch c.Ev[i].T {
			case evOp:
				c2.Ev = jWithout(c.Ev, i)
			case evSnap:
				if j := jMatchingClose(c.Ev, i); j >= 0 {
					c2.Ev = jWithout(c.Ev, i, j)
				} else {
					c2.Ev = jWithout(c.Ev, i)
				}
			default:
				continue
			}
			if f2 := still(c2); f2 != nil {
				c, f, changed = c2, f2, true
			}
		}
		for i := len(c.Setup) - 1; i >= 0; i-- {
			c2 := c
			c2.Setup = append(append([]jOp{}, c.Setup[:i]...), c.Setup[i+1:]...)
			if f2 := still(c2); f2 != nil {
				c, f, changed = c2, f2, true
			}
		}
		// simplest pre-state kind that still shows it
		for _, pk := range jPreKinds {
			if pk == c.Pre {
				break
			}
			c2 := c
			c2.Pre = pk
			if f2 := still(c2); f2 != nil {
				c, f, changed = c2, f2, true
				break
			}
		}
	}
	return c, f
}

// Signatures name the mutator, not the representative: the three per-contract
// size mutators are wrappers of stateObject.SetSize (sizeChange), the three
// storage-write flavours are StateDB.SetState (storageChange), the two
// transient flavours are StateDB.SetTransientState.
func jSigKindOp(o *jOp) string {
	if o.A == 2 && o.K == kAddBalanceZero {
		return o.K + "@0x03" // touch of the address stateObject.touch special-cases
	}
	return jSigKind(o.K)
}

func jSigKind(k string) string {
	switch k {
	case kObjAddSize, kObjSubSize:
		return kObjSetSize
	case kSetStateZero, kSetStateOrig:
		return kSetState
	case kSetTransient0:
		return kSetTransient
	}
	return k
}

// jOtherKinds lists (sorted, unique) the kinds of the setup ops and of the ops
// outside reverted regions.
func jOtherKinds(c jCase) []string {
	rev, _, ok := jReverted(c.Ev)
	if !ok {
		return nil
	}
	seen := map[string]bool{}
	var out []string
	add := func(o *jOp) {
		if k := jSigKindOp(o); !seen[k] {
			seen[k] = true
			out = append(out, k)
		}
	}
	for i := range c.Setup {
		add(&c.Setup[i])
	}
	for i, e := range c.Ev {
		if e.T == evOp && !rev[i] {
			add(e.Op)
		}
	}
	sort.Strings(out)
	return out
}

// jRevertedKinds lists (sorted, unique) the kinds of the ops inside reverted
// regions of the plan.
func jRevertedKinds(c jCase) []string {
	rev, _, ok := jReverted(c.Ev)
	if !ok {
		return nil
	}
	seen := map[string]bool{}
	var out []string
	for i, e := range c.Ev {
		if e.T == evOp && rev[i] && !seen[jSigKindOp(e.Op)] {
			seen[jSigKindOp(e.Op)] = true
			out = append(out, jSigKindOp(e.Op))
		}
	}
	sort.Strings(out)
	return out
}

// Two signature families. "revert-leaves-trace:<kinds>:<field class>": the
// getters differ right after RevertToSnapshot (precise; this is what catches
// journal breakage). "post-revert-divergence:<kinds>:<size-accounting |
// other:<field class>>": one per root cause for everything only visible later
// against the twin (final digest, IntermediateRoot, post-root counters, a
// subject-only panic).
func jPrefix(check string) string {
	if jGroup(check) == "revert-digest" {
		return "revert-leaves-trace"
	}
	return "post-revert-divergence"
}

func jSignature(c jCase, f *jFailure, target string) string {
	kinds := strings.Join(jRevertedKinds(c), "+")
	if kinds == "" {
		kinds = "none"
	}
	return fmt.Sprintf("%s:%s:%s", jPrefix(f.Check), kinds, target)
}
