//go:build verif

package c14

import (
	"bytes"
	"fmt"
	"regexp"
	"runtime/debug"
	"strings"

	"google.golang.org/protobuf/proto"
	"google.golang.org/protobuf/reflect/protoreflect"

	"github.com/dominant-strategies/go-quai/common"
	"github.com/dominant-strategies/go-quai/crypto"
	"github.com/dominant-strategies/go-quai/log"

	"verif/internal/mon"
)

type ctx struct {
	m      *mon.M
	g      *gen
	logger *log.Logger
	caseNo int
	// cascade control: a deviation (kind, leaf type, field) already reported
	// for one path of a family is not reported again for the derived paths
	// (rawdb and p2p sit on top of the proto codecs).
	seen map[string]string
	// retained: per (type, path) the byte slice an earlier encode returned and a private copy of its
	// content at that time. Produced bytes must stay that object's encoding for as long as the caller
	// keeps them: a later encode of another object must not rewrite them (shared / pooled buffers).
	retained map[string][]retainedEnc
}

type retainedEnc struct {
	got, want []byte
	desc      any
}

func family(path string) string {
	switch path {
	case "proto", "rawdb", "p2p":
		return "pb"
	case "rlp", "binary":
		return "rlp"
	}
	return path
}

// report records one violation "kind:Type:path:field".
func (c *ctx) report(kind, typ, path, field, detail string, wit map[string]any) {
	key := kind + "|" + typ + "|" + field + "|" + family(path)
	if kind == "hash-changes" || kind == "object-differs" {
		key = "diff|" + typ + "|" + field + "|" + family(path)
	}
	if first, ok := c.seen[key]; ok && (first != path || strings.HasPrefix(key, "diff|")) {
		c.m.AddExtra("cascade_suppressed", 1)
		return
	}
	c.seen[key] = path
	sig := kind + ":" + typ + ":" + path + ":" + field
	if _, dup := c.seen["sig|"+sig]; dup {
		c.m.AddExtra("repeats:"+sig, 1)
		return
	}
	c.seen["sig|"+sig] = path
	if wit == nil {
		wit = map[string]any{}
	}
	wit["case"] = c.caseNo
	wit["type"], wit["path"], wit["field"], wit["kind"] = typ, path, field, kind
	c.m.Violation(sig, detail, wit)
}

var (
	slugRe   = regexp.MustCompile(`[^a-zA-Z]+`)
	hexRe    = regexp.MustCompile(`(0x)?[0-9a-fA-F]{8,}`)
	rlpFldRe = regexp.MustCompile(`\)\.([A-Za-z]+)$`)
)

// slug turns an error message into a short stable token (digits/hex removed).
// "rlp: ... decoding into (types.QuaiTx).MixHash" is reduced to the message and
// the field class.
func slug(s string) string {
	fld := ""
	if m := rlpFldRe.FindStringSubmatch(s); m != nil && strings.HasPrefix(s, "rlp:") {
		fld = m[1]
		if fld == "ParentHash" || fld == "MixHash" || fld == "WorkNonce" {
			fld = "nil-work-field"
			s = "rlp: input string too short"
		}
		if i := strings.Index(s, ", decoding into"); i > 0 {
			s = s[:i]
		}
	}
	s = hexRe.ReplaceAllString(s, "")
	if fld != "" {
		s += " " + fld
	}
	s = slugRe.ReplaceAllString(s, "-")
	s = strings.Trim(s, "-")
	if len(s) > 64 {
		s = s[:64]
	}
	return strings.ToLower(s)
}

func capHex(b []byte) string {
	if len(b) > 6000 {
		return mon.Hex(b[:6000]) + fmt.Sprintf("...(%d bytes)", len(b))
	}
	return mon.Hex(b)
}

// codec describes one (type, path) round trip.
type codec[T any] struct {
	typ, path string
	sigTyp    string // type named in signatures (default typ); variants of a type share it
	loc       common.Location
	enc       func(T) ([]byte, error)
	dec       func([]byte) (T, error)
	diff      func(a, b T) dif
	hash      func(T) []byte // identity of the object (nil: type has none)
	hashName  string
	cpy       func(T) T // the type's Copy function (nil: none)
	// reenc: encode(decode(b)) == b is demanded (false where encode is not the
	// inverse direction of decode, e.g. RPCMarshal output contains derived fields)
	noReenc bool
	// origin: description of the object for the witness
	desc func(T) any
	// shape: short stable tag of the input class, appended to decode-error signatures
	shape func(T) string
	// pmsg: for protobuf paths, a fresh message of the encoded type (field-level byte diff)
	pmsg func() proto.Message
}

func guard(f func()) (p any, stack string) {
	defer func() {
		if r := recover(); r != nil {
			p, stack = r, string(debug.Stack())
		}
	}()
	f()
	return nil, ""
}

func shortStack(s string) string {
	lines := strings.Split(s, "\n")
	var keep []string
	for _, l := range lines {
		if strings.Contains(l, "go-quai/") || strings.Contains(l, "/repo/") {
			keep = append(keep, strings.TrimSpace(l))
		}
		if len(keep) >= 8 {
			break
		}
	}
	return strings.Join(keep, " | ")
}

// panicSite names the first go-quai function on the panic stack.
var siteRe = regexp.MustCompile(`go-quai/([a-zA-Z0-9_/]+)\.(\(?\*?[A-Za-z0-9_]+\)?\.?[A-Za-z0-9_]*)`)

func panicSite(stack string) string {
	for _, l := range strings.Split(stack, "\n") {
		if strings.Contains(l, "go-quai/") && !strings.HasPrefix(strings.TrimSpace(l), "/") {
			if m := siteRe.FindStringSubmatch(l); m != nil {
				f := strings.NewReplacer("(", "", ")", "", "*", "").Replace(m[2])
				return f
			}
		}
	}
	return "unknown"
}

// run performs every oracle of the statement on x for one codec path.
// At most one violation is recorded per call (first failing oracle).
func run[T any](c *ctx, cd codec[T], x T) (decoded T, okDecoded bool) {
	class := cd.typ + ":" + cd.path
	variant := cd.typ
	if cd.sigTyp != "" {
		cd.typ = cd.sigTyp
	}
	wit := func(extra map[string]any) map[string]any {
		w := map[string]any{"location": []byte(cd.loc)}
		if cd.desc != nil {
			if p, _ := guard(func() { w["object"] = cd.desc(x) }); p != nil {
				w["object"] = fmt.Sprintf("desc panicked: %v", p)
			}
		}
		for k, v := range extra {
			w[k] = v
		}
		return w
	}
	var h0, h0b, hc, h1 []byte
	var b1, b2, b3, bc, b4 []byte
	var err error
	var y T
	step := "hash"
	p, st := guard(func() {
		if cd.hash != nil {
			h0 = cd.hash(x)
		}
		step = "encode"
		b1, err = cd.enc(x)
	})
	if p != nil {
		c.report("panic", cd.typ, cd.path, step+"-"+panicSite(st), fmt.Sprintf("%s panicked: %v [%s]", step, p, shortStack(st)), wit(nil))
		c.m.Eval(class, "")
		return
	}
	if err != nil {
		c.report("encode-error", cd.typ, cd.path, slug(err.Error()), "encoding a well-formed object failed: "+err.Error(), wit(nil))
		c.m.Eval(class, "")
		return
	}
	key := mon.Hex(crypto.Keccak256(b1)[:8])
	defer c.m.Eval(class, key)

	// encodings handed out earlier for OTHER objects of this (type, path) must still read the same
	if c.retained == nil {
		c.retained = map[string][]retainedEnc{}
	}
	for _, r := range c.retained[class] {
		if !bytes.Equal(r.got, r.want) {
			c.report("encoding-rewritten-later", cd.typ, cd.path, "retained-bytes", fmt.Sprintf("the bytes returned by an earlier encode (%d bytes) changed after later encodes of other objects (first difference at %d): the returned slice aliases shared memory", len(r.want), firstDiff(r.got, r.want)),
				wit(map[string]any{"earlier_object": r.desc, "earlier_encoding": capHex(r.want), "earlier_encoding_now": capHex(r.got)}))
			c.retained[class] = nil
			break
		}
	}
	c.m.Eval("retained-encodings-still-valid:"+cd.path, "")
	{
		var d any
		if cd.desc != nil {
			guard(func() { d = cd.desc(x) })
		}
		rs := append(c.retained[class], retainedEnc{got: b1, want: append([]byte(nil), b1...), desc: d})
		if len(rs) > 8 {
			rs = rs[len(rs)-8:]
		}
		c.retained[class] = rs
	}

	// determinism: 3 encodings, and the encoding of the type's copy
	var dc dif
	p, st = guard(func() {
		b2, _ = cd.enc(x)
		b3, _ = cd.enc(x)
		if cd.cpy != nil {
			cp := cd.cpy(x)
			bc, _ = cd.enc(cp)
			if cd.hash != nil {
				hc = cd.hash(cp)
			}
			dc = cd.diff(x, cp)
		}
		if cd.hash != nil {
			h0b = cd.hash(x)
		}
	})
	if p != nil {
		c.report("panic", cd.typ, cd.path, "reencode-"+panicSite(st), fmt.Sprintf("re-encoding / copying panicked: %v [%s]", p, shortStack(st)), wit(map[string]any{"encoded": capHex(b1)}))
		return
	}
	if !bytes.Equal(b1, b2) || !bytes.Equal(b1, b3) {
		c.report("nondeterministic", cd.typ, cd.path, "encoding", "three encodings of the same object differ", wit(map[string]any{"e1": capHex(b1), "e2": capHex(b2), "e3": capHex(b3)}))
		return
	}
	if cd.hash != nil && !bytes.Equal(h0, h0b) {
		c.report("nondeterministic", cd.typ, cd.path, cd.hashName, fmt.Sprintf("%s of the same object before/after encoding: %x vs %x", cd.hashName, h0, h0b), wit(map[string]any{"encoded": capHex(b1)}))
		return
	}
	if cd.cpy != nil {
		typ, fld := cd.typ, "encoding"
		if !dc.ok() {
			typ, fld = dc.leaf, dc.field
		} else if cd.pmsg != nil && !bytes.Equal(b1, bc) {
			fld = protoFieldDiff(b1, bc, cd.pmsg)
		}
		if cd.hash != nil && !bytes.Equal(h0, hc) {
			c.report("copy-changes-hash", typ, cd.path, fld, fmt.Sprintf("%s of the original %x, of its copy %x; %s (seen in a %s)", cd.hashName, h0, hc, dc.detail, variant),
				wit(map[string]any{"encoded": capHex(b1), "encoded_copy": capHex(bc)}))
			return
		}
		if !bytes.Equal(b1, bc) {
			c.report("copy-differs", typ, cd.path, fld, "the encoding of the copy differs from the encoding of the original; "+dc.detail+" (seen in a "+variant+")",
				wit(map[string]any{"encoded": capHex(b1), "encoded_copy": capHex(bc)}))
			return
		}
	}

	// decode
	p, st = guard(func() { y, err = cd.dec(b1) })
	if p != nil {
		c.report("panic", cd.typ, cd.path, "decode-"+panicSite(st), fmt.Sprintf("decoding the produced encoding panicked: %v [%s]", p, shortStack(st)), wit(map[string]any{"encoded": capHex(b1)}))
		return
	}
	if err != nil {
		f := slug(err.Error())
		if cd.shape != nil {
			f += "[" + cd.shape(x) + "]"
		}
		c.report("decode-error", cd.typ, cd.path, f, "decode(encode(x)) failed for a well-formed x: "+err.Error(), wit(map[string]any{"encoded": capHex(b1)}))
		return
	}
	var d dif
	p, st = guard(func() { d = cd.diff(x, y) })
	if p == nil && d.ok() {
		p, st = guard(func() {
			if cd.hash != nil {
				h1 = cd.hash(y)
			}
		})
	} else if p == nil {
		guard(func() {
			if cd.hash != nil {
				h1 = cd.hash(y)
			}
		})
	}
	if p != nil {
		c.report("panic", cd.typ, cd.path, "decoded-object-"+panicSite(st), fmt.Sprintf("using the decoded object panicked: %v [%s]", p, shortStack(st)), wit(map[string]any{"encoded": capHex(b1)}))
		return
	}
	hashChanged := cd.hash != nil && !bytes.Equal(h0, h1)
	if !d.ok() {
		kind := "object-differs"
		detail := "decode(encode(x)) != x: " + d.detail
		if hashChanged {
			kind = "hash-changes"
			detail += fmt.Sprintf("; %s %x -> %x", cd.hashName, h0, h1)
		}
		typ := d.leaf
		if typ == "" {
			typ = cd.typ
		}
		c.report(kind, typ, cd.path, d.field, detail+" (seen in a "+variant+")", wit(map[string]any{"encoded": capHex(b1), "hash_before": mon.Hex(h0), "hash_after": mon.Hex(h1)}))
		return
	}
	if hashChanged {
		c.report("hash-changes", cd.typ, cd.path, "no-field-difference", fmt.Sprintf("%s %x before, %x after the round trip although all compared fields are equal", cd.hashName, h0, h1),
			wit(map[string]any{"encoded": capHex(b1), "hash_before": mon.Hex(h0), "hash_after": mon.Hex(h1)}))
		return
	}
	// re-encode
	if !cd.noReenc {
		p, st = guard(func() { b4, err = cd.enc(y) })
		if p != nil {
			c.report("panic", cd.typ, cd.path, "encode-decoded-"+panicSite(st), fmt.Sprintf("encoding the decoded object panicked: %v [%s]", p, shortStack(st)), wit(map[string]any{"encoded": capHex(b1)}))
			return
		}
		if err != nil {
			c.report("encode-error", cd.typ, cd.path, "decoded-"+slug(err.Error()), "encoding the decoded object failed: "+err.Error(), wit(map[string]any{"encoded": capHex(b1)}))
			return
		}
		if !bytes.Equal(b1, b4) {
			fld := "bytes"
			if cd.pmsg != nil {
				fld = protoFieldDiff(b1, b4, cd.pmsg)
			}
			c.report("reencode-differs", cd.typ, cd.path, fld, fmt.Sprintf("encode(decode(b)) != b (%d vs %d bytes, first difference at %d)", len(b1), len(b4), firstDiff(b1, b4)),
				wit(map[string]any{"encoded": capHex(b1), "reencoded": capHex(b4)}))
			return
		}
	}
	return y, true
}

func firstDiff(a, b []byte) int {
	n := len(a)
	if len(b) < n {
		n = len(b)
	}
	for i := 0; i < n; i++ {
		if a[i] != b[i] {
			return i
		}
	}
	return n
}

// protoFieldDiff names the first field (dotted path) in which two encodings of
// the same message type differ: presence or value.
func protoFieldDiff(a, b []byte, mk func() proto.Message) string {
	ma, mb := mk(), mk()
	if proto.Unmarshal(a, ma) != nil || proto.Unmarshal(b, mb) != nil {
		return "bytes"
	}
	if f := msgFieldDiff(ma.ProtoReflect(), mb.ProtoReflect(), 0); f != "" {
		return f
	}
	return "bytes"
}

func msgFieldDiff(a, b protoreflect.Message, depth int) string {
	fds := a.Descriptor().Fields()
	for i := 0; i < fds.Len(); i++ {
		fd := fds.Get(i)
		name := string(fd.Name())
		ha, hb := a.Has(fd), b.Has(fd)
		if ha != hb {
			return name + "-absent-vs-present"
		}
		if !ha {
			continue
		}
		va, vb := a.Get(fd), b.Get(fd)
		if va.Equal(vb) {
			continue
		}
		if fd.Kind() == protoreflect.MessageKind && !fd.IsList() && !fd.IsMap() && depth < 4 {
			if sub := msgFieldDiff(va.Message(), vb.Message(), depth+1); sub != "" {
				return name + "." + sub
			}
		}
		if fd.IsList() && fd.Kind() == protoreflect.MessageKind && depth < 4 {
			la, lb := va.List(), vb.List()
			if la.Len() != lb.Len() {
				return name + "-length"
			}
			for j := 0; j < la.Len(); j++ {
				if sub := msgFieldDiff(la.Get(j).Message(), lb.Get(j).Message(), depth+1); sub != "" {
					return name + "." + sub
				}
			}
		}
		return name
	}
	return ""
}
