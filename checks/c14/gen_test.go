//go:build verif

package c14

import (
	"crypto/ecdsa"
	"math/big"
	"math/rand"

	"github.com/btcsuite/btcd/btcec/v2"
	"github.com/btcsuite/btcd/btcec/v2/schnorr"

	"github.com/dominant-strategies/go-quai/common"
	"github.com/dominant-strategies/go-quai/core/types"
	"github.com/dominant-strategies/go-quai/crypto"
	"github.com/dominant-strategies/go-quai/params"
)

// gen produces WELL-FORMED objects only: every object is built through the
// exported constructors / setters of core/types with the field shapes the
// encoders and ProtoDecode functions require (non-nil big.Ints where the
// encoder dereferences them, fixed slice lengths in Header, >=1 TxIn, valid
// curve points, parseable signatures, 20-byte addresses).
type gen struct {
	r     *rand.Rand
	keys  []*ecdsa.PrivateKey
	skeys []*btcec.PrivateKey
	pubs  [][]byte // 65-byte uncompressed
	sigs  []*schnorr.Signature
}

func newGen(r *rand.Rand) *gen {
	g := &gen{r: r}
	for i := 0; i < 8; i++ {
		var d [32]byte
		r.Read(d[:])
		d[0] &= 0x7f
		d[31] |= 1
		k, err := crypto.ToECDSA(d[:])
		if err != nil {
			panic(err)
		}
		g.keys = append(g.keys, k)
		g.pubs = append(g.pubs, crypto.FromECDSAPub(&k.PublicKey))
		sk, _ := btcec.PrivKeyFromBytes(d[:])
		g.skeys = append(g.skeys, sk)
		for j := 0; j < 2; j++ {
			var msg [32]byte
			r.Read(msg[:])
			s, err := schnorr.Sign(sk, msg[:])
			if err != nil {
				panic(err)
			}
			g.sigs = append(g.sigs, s)
		}
	}
	return g
}

func (g *gen) hash() common.Hash {
	var h common.Hash
	switch g.r.Intn(10) {
	case 0: // zero
	case 1:
		for i := range h {
			h[i] = 0xff
		}
	case 2: // leading zeros
		g.r.Read(h[16:])
	default:
		g.r.Read(h[:])
	}
	return h
}

func (g *gen) hashNZ() common.Hash {
	var h common.Hash
	g.r.Read(h[:])
	h[0] |= 1
	return h
}

func (g *gen) u64() uint64 {
	switch g.r.Intn(8) {
	case 0:
		return 0
	case 1:
		return 1
	case 2:
		return ^uint64(0)
	case 3:
		return 1 << uint(g.r.Intn(64))
	case 4:
		return uint64(g.r.Intn(256))
	default:
		return g.r.Uint64()
	}
}

func (g *gen) u32() uint32 {
	switch g.r.Intn(6) {
	case 0:
		return 0
	case 1:
		return ^uint32(0)
	default:
		return g.r.Uint32()
	}
}

func (g *gen) u16() uint16 {
	switch g.r.Intn(6) {
	case 0:
		return 0
	case 1:
		return 0xffff
	case 2:
		return 0x100
	default:
		return uint16(g.r.Intn(0x10000))
	}
}

func (g *gen) u8() uint8 {
	switch g.r.Intn(5) {
	case 0:
		return 0
	case 1:
		return 0xff
	default:
		return uint8(g.r.Intn(256))
	}
}

// big returns a non-nil non-negative integer of at most maxBits bits.
func (g *gen) big(maxBits int) *big.Int {
	switch g.r.Intn(9) {
	case 0:
		return new(big.Int)
	case 1:
		return big.NewInt(1)
	case 2:
		return big.NewInt(int64(g.r.Intn(1000)))
	case 3: // maximum width
		x := new(big.Int).Lsh(big.NewInt(1), uint(maxBits))
		return x.Sub(x, big.NewInt(1))
	case 4: // power of two: leading byte 0x01 / 0x80 boundaries
		return new(big.Int).Lsh(big.NewInt(1), uint(g.r.Intn(maxBits)))
	case 5: // low byte zero
		x := g.randBig(maxBits)
		return x.Lsh(x.Rsh(x, 8), 8)
	default:
		return g.randBig(maxBits)
	}
}

func (g *gen) randBig(maxBits int) *big.Int {
	n := 1 + g.r.Intn(maxBits)
	b := make([]byte, (n+7)/8)
	g.r.Read(b)
	x := new(big.Int).SetBytes(b)
	if ex := len(b)*8 - n; ex > 0 {
		x.Rsh(x, uint(ex))
	}
	return x
}

// bytes: nil, empty or random up to maxLen.
func (g *gen) bytes(maxLen int) []byte {
	switch g.r.Intn(6) {
	case 0:
		return nil
	case 1:
		return []byte{}
	case 2:
		return []byte{0}
	default:
		b := make([]byte, 1+g.r.Intn(maxLen))
		g.r.Read(b)
		if g.r.Intn(4) == 0 {
			b[0] = 0
		}
		return b
	}
}

func (g *gen) bytesN(n int) []byte {
	b := make([]byte, n)
	g.r.Read(b)
	return b
}

func (g *gen) zoneLoc() common.Location {
	if g.r.Intn(6) == 0 {
		return common.Location{byte(g.r.Intn(16)), byte(g.r.Intn(16))}
	}
	return common.Location{byte(g.r.Intn(3)), byte(g.r.Intn(3))}
}

// anyLoc: mostly zone, sometimes region / prime.
func (g *gen) anyLoc() common.Location {
	switch g.r.Intn(8) {
	case 0:
		return common.Location{}
	case 1:
		return common.Location{byte(g.r.Intn(3))}
	default:
		return g.zoneLoc()
	}
}

// addrBytes returns 20 address bytes: in / out of scope of loc, Quai or Qi ledger.
func (g *gen) addrBytes(loc common.Location) []byte {
	b := g.bytesN(20)
	if len(loc) == 2 && g.r.Intn(3) > 0 {
		b[0] = loc.BytePrefix()
	}
	switch g.r.Intn(5) {
	case 0:
		b[1] |= 0x80 // Qi
	case 1:
		b[1] &= 0x7f // Quai
	case 2: // the zero address of some zone
		for i := 1; i < 20; i++ {
			b[i] = 0
		}
	}
	return b
}

func (g *gen) addr(loc common.Location) common.Address {
	return common.BytesToAddress(g.addrBytes(loc), loc)
}

func (g *gen) accessList(loc common.Location) types.AccessList {
	switch g.r.Intn(5) {
	case 0:
		return nil
	case 1:
		return types.AccessList{}
	}
	al := make(types.AccessList, 1+g.r.Intn(3))
	for i := range al {
		al[i].Address = g.addr(loc)
		// StorageKeys is a required (non-nil) field of an AccessTuple (gen_access_tuple.go)
		switch g.r.Intn(3) {
		case 0, 1:
			al[i].StorageKeys = []common.Hash{}
		default:
			for j := 0; j < 1+g.r.Intn(3); j++ {
				al[i].StorageKeys = append(al[i].StorageKeys, g.hash())
			}
		}
	}
	return al
}

func (g *gen) workFields() (*common.Hash, *common.Hash, *types.BlockNonce) {
	var ph, mh *common.Hash
	var wn *types.BlockNonce
	mode := g.r.Intn(4)
	if mode == 0 {
		return nil, nil, nil
	}
	if mode == 1 || g.r.Intn(2) == 0 {
		h := g.hash()
		ph = &h
	}
	if mode == 1 || g.r.Intn(2) == 0 {
		h := g.hash()
		mh = &h
	}
	if mode == 1 || g.r.Intn(2) == 0 {
		n := types.EncodeNonce(g.u64())
		wn = &n
	}
	return ph, mh, wn
}

func (g *gen) chainID() *big.Int {
	switch g.r.Intn(5) {
	case 0:
		return big.NewInt(1)
	case 1:
		return big.NewInt(9000)
	case 2:
		return g.big(64)
	case 3:
		return g.big(256)
	default:
		return big.NewInt(int64(1 + g.r.Intn(20000)))
	}
}

// quaiTx: a signed QuaiTx (unsigned with small probability).
func (g *gen) quaiTx(loc common.Location) *types.Transaction {
	inner := &types.QuaiTx{
		ChainID:    g.chainID(),
		Nonce:      g.u64(),
		GasPrice:   g.big(256),
		Gas:        g.u64(),
		Value:      g.big(256),
		Data:       g.bytes(80),
		AccessList: g.accessList(loc),
	}
	if g.r.Intn(5) > 0 {
		a := g.addr(loc)
		inner.To = &a
	}
	inner.ParentHash, inner.MixHash, inner.WorkNonce = g.workFields()
	if g.r.Intn(12) == 0 {
		inner.V, inner.R, inner.S = new(big.Int), new(big.Int), new(big.Int)
		return types.NewTx(inner)
	}
	signer := types.NewSigner(inner.ChainID, loc)
	tx, err := types.SignNewTx(g.keys[g.r.Intn(len(g.keys))], signer, inner)
	if err != nil {
		panic("c14 generator: SignNewTx: " + err.Error())
	}
	return tx
}

func (g *gen) txIn(compressed bool) types.TxIn {
	k := g.r.Intn(len(g.keys))
	pk := append([]byte(nil), g.pubs[k]...)
	if compressed {
		pk = crypto.CompressPubkey(&g.keys[k].PublicKey)
	}
	return types.TxIn{PreviousOutPoint: types.OutPoint{TxHash: g.hash(), Index: g.u16()}, PubKey: pk}
}

// lockMode: 0 = never nil, 1 = may be nil
func (g *gen) txOut(loc common.Location, mayNilLock bool) types.TxOut {
	o := types.TxOut{Denomination: uint8(g.r.Intn(types.MaxDenomination + 1)), Address: g.addrBytes(loc)}
	switch g.r.Intn(4) {
	case 0:
		if mayNilLock {
			o.Lock = nil
		} else {
			o.Lock = new(big.Int)
		}
	case 1:
		o.Lock = new(big.Int)
	default:
		o.Lock = g.big(64)
	}
	return o
}

type qiOpt struct {
	compressedKeys bool
	nilLock        bool
}

func (g *gen) qiTx(loc common.Location, o qiOpt) *types.Transaction {
	inner := &types.QiTx{ChainID: g.chainID(), Data: g.bytes(60)}
	for i := 0; i < 1+g.r.Intn(3); i++ {
		inner.TxIn = append(inner.TxIn, g.txIn(o.compressedKeys))
	}
	nOut := g.r.Intn(4)
	for i := 0; i < nOut; i++ {
		inner.TxOut = append(inner.TxOut, g.txOut(loc, o.nilLock))
	}
	inner.Signature = g.sigs[g.r.Intn(len(g.sigs))]
	inner.ParentHash, inner.MixHash, inner.WorkNonce = g.workFields()
	return types.NewTx(inner)
}

func (g *gen) etx(loc common.Location, etxType uint64) *types.Transaction {
	to := g.addr(loc)
	inner := &types.ExternalTx{
		OriginatingTxHash: g.hash(),
		ETXIndex:          g.u16(),
		Gas:               g.u64(),
		To:                &to,
		Value:             g.big(256),
		Data:              g.bytes(60),
		AccessList:        g.accessList(loc),
		Sender:            g.addr(loc),
		EtxType:           etxType,
	}
	return types.NewTx(inner)
}

func (g *gen) anyEtx(loc common.Location) *types.Transaction {
	return g.etx(loc, uint64(g.r.Intn(types.UnwrapQiType+1)))
}

// plainTx: a transaction without the exotic variants, for use inside composites.
func (g *gen) plainTx(loc common.Location) *types.Transaction {
	switch g.r.Intn(3) {
	case 0:
		return g.quaiTx(loc)
	case 1:
		return g.qiTx(loc, qiOpt{})
	default:
		return g.anyEtx(loc)
	}
}

func (g *gen) txs(loc common.Location, max int) types.Transactions {
	n := g.r.Intn(max + 1)
	out := make(types.Transactions, 0, n)
	for i := 0; i < n; i++ {
		out = append(out, g.plainTx(loc))
	}
	return out
}

func (g *gen) etxs(loc common.Location, max int) types.Transactions {
	n := g.r.Intn(max + 1)
	out := make(types.Transactions, 0, n)
	for i := 0; i < n; i++ {
		out = append(out, g.anyEtx(loc))
	}
	return out
}

func (g *gen) header() *types.Header {
	h := types.EmptyHeader()
	if g.r.Intn(20) == 0 {
		return h
	}
	for i := 0; i < common.HierarchyDepth; i++ {
		h.SetManifestHash(g.hash(), i)
		// entropies are 2^64-scaled log2 sums: far below 256 bits (hexutil.Big caps JSON at 256)
		h.SetParentEntropy(g.big(256), i)
		h.SetParentDeltaEntropy(g.big(256), i)
		h.SetParentUncledDeltaEntropy(g.big(256), i)
	}
	for i := 0; i < common.HierarchyDepth-1; i++ {
		h.SetParentHash(g.hash(), i)
		h.SetNumber(g.big(64), i)
	}
	h.SetUncleHash(g.hash())
	h.SetEVMRoot(g.hash())
	h.SetUTXORoot(g.hash())
	h.SetTxHash(g.hash())
	h.SetOutboundEtxHash(g.hash())
	h.SetEtxSetRoot(g.hash())
	h.SetEtxRollupHash(g.hash())
	h.SetReceiptHash(g.hash())
	h.SetPrimeTerminusHash(g.hash())
	h.SetInterlinkRootHash(g.hash())
	h.SetEtxEligibleSlices(g.hash())
	h.SetPrimeStateRoot(g.hash())
	h.SetRegionStateRoot(g.hash())
	h.SetQuaiStateSize(g.big(256))
	h.SetUncledEntropy(g.big(256))
	h.SetGasLimit(g.u64())
	h.SetGasUsed(g.u64())
	h.SetBaseFee(g.big(256))
	h.SetStateLimit(g.u64())
	h.SetStateUsed(g.u64())
	h.SetExtra(g.bytes(40))
	h.SetEfficiencyScore(g.u16())
	h.SetThresholdCount(g.u16())
	h.SetExpansionNumber(g.u8())
	h.SetExchangeRate(g.big(256))
	h.SetAvgTxFees(g.big(256))
	h.SetTotalFees(g.big(256))
	h.SetKQuaiDiscount(g.big(256))
	h.SetConversionFlowAmount(g.big(256))
	h.SetMinerDifficulty(g.big(256))
	return h
}

var coinbaseOuts = map[types.PowID][]byte{
	types.Kawpow:  types.DefaultKawpowAuxTemplate().CoinbaseOut(),
	types.SHA_BTC: types.DefaultShaBchAuxTemplate().CoinbaseOut(),
	types.SHA_BCH: types.DefaultShaBchAuxTemplate().CoinbaseOut(),
	types.Scrypt:  types.DefaultScryptAuxTemplate().CoinbaseOut(),
}

func (g *gen) optBytes(n int) []byte {
	switch g.r.Intn(4) {
	case 0:
		return nil
	case 1:
		return []byte{}
	default:
		return g.bytesN(n)
	}
}

func (g *gen) auxPow(id types.PowID) *types.AuxPow {
	var prev, mr [32]byte
	g.r.Read(prev[:])
	g.r.Read(mr[:])
	height := g.u32()
	hdr := types.NewBlockHeader(id, int32(g.u32()), prev, mr, g.u32(), g.u32(), g.u32(), height)
	if id == types.Kawpow {
		hdr.SetNonce64(g.u64())
		hdr.SetMixHash(g.hash())
	}
	var branch [][]byte
	switch g.r.Intn(4) {
	case 0:
		branch = nil
	case 1:
		branch = [][]byte{}
	default:
		for i := 0; i < 1+g.r.Intn(5); i++ {
			branch = append(branch, g.bytesN(32))
		}
	}
	var tx []byte
	func() {
		defer func() {
			if recover() != nil {
				tx = nil
			}
		}()
		tx = types.NewAuxPowCoinbaseTx(id, height&0xffffff, coinbaseOuts[id], g.hash(), g.u32())
	}()
	if len(tx) == 0 || g.r.Intn(5) == 0 {
		tx = g.bytesN(60 + g.r.Intn(100))
	}
	return types.NewAuxPow(id, hdr, g.optBytes(32), g.optBytes(64), branch, tx)
}

var auxPowIDs = []types.PowID{types.Kawpow, types.SHA_BTC, types.SHA_BCH, types.Scrypt}

func (g *gen) shareDiff() *types.PowShareDiffAndCount {
	return types.NewPowShareDiffAndCount(g.big(256), g.big(64), g.big(64))
}

// regimes of a WorkObjectHeader with respect to params.KawPowForkBlock
const (
	regPre        = iota // primeTerminusNumber < fork, share fields nil
	regPreZero           // < fork, share fields present in memory (as EmptyWorkObject builds them)
	regTransition        // in [fork, fork+transition), no AuxPow: progpow hash over the extended seal
	regAux               // >= fork with AuxPow
)

func (g *gen) ptn(regime int) *big.Int {
	fork := params.KawPowForkBlock
	switch regime {
	case regPre, regPreZero:
		switch g.r.Intn(4) {
		case 0:
			return new(big.Int)
		case 1:
			return new(big.Int).SetUint64(fork - 1)
		default:
			return new(big.Int).SetUint64(uint64(g.r.Int63n(int64(fork))))
		}
	case regTransition:
		switch g.r.Intn(3) {
		case 0:
			return new(big.Int).SetUint64(fork)
		case 1:
			return new(big.Int).SetUint64(fork + params.KawPowTransitionPeriod - 1)
		default:
			return new(big.Int).SetUint64(fork + uint64(g.r.Int63n(int64(params.KawPowTransitionPeriod))))
		}
	default:
		switch g.r.Intn(4) {
		case 0:
			return new(big.Int).SetUint64(fork)
		case 1:
			return new(big.Int).SetUint64(^uint64(0))
		case 2:
			return new(big.Int).SetUint64(fork + params.KawPowTransitionPeriod + uint64(g.r.Intn(1000000)))
		default:
			return new(big.Int).SetUint64(fork + uint64(g.r.Intn(1000000)))
		}
	}
}

// woHeader builds a WorkObjectHeader through NewWorkObjectHeader. coinbase is
// always a real 20-byte address (possibly all-zero / a zone's zero address)
// classified for decLoc (the location the object will be decoded at). The
// zero-value common.Address{} (nil inner) that types.EmptyWorkObject uses is a
// construction placeholder, never encoded, and is deliberately not generated.
func (g *gen) woHeaderR(decLoc common.Location, regime int) *types.WorkObjectHeader {
	var aux *types.AuxPow
	var sha, scr *types.PowShareDiffAndCount
	var shaT, scrT, kaw *big.Int
	switch regime {
	case regPre:
		sha, scr = &types.PowShareDiffAndCount{}, &types.PowShareDiffAndCount{}
	case regPreZero:
		sha = types.NewPowShareDiffAndCount(new(big.Int), new(big.Int), new(big.Int))
		scr = types.NewPowShareDiffAndCount(new(big.Int), new(big.Int), new(big.Int))
		shaT, scrT, kaw = new(big.Int), new(big.Int), new(big.Int)
	default:
		sha, scr = g.shareDiff(), g.shareDiff()
		shaT, scrT, kaw = g.big(256), g.big(256), g.big(256)
		if regime == regAux {
			aux = g.auxPow(auxPowIDs[g.r.Intn(len(auxPowIDs))])
		}
	}
	loc := decLoc
	if g.r.Intn(10) == 0 {
		loc = g.anyLoc()
	}
	wh := types.NewWorkObjectHeader(g.hash(), g.hash(), g.big(64), g.big(256), g.ptn(regime), g.hash(),
		types.EncodeNonce(g.u64()), g.u8(), g.u64(), loc, g.addr(decLoc), g.bytes(50), aux, scr, sha, shaT, scrT, kaw)
	wh.SetMixHash(g.hash())
	return wh
}

func (g *gen) regime() int {
	switch x := g.r.Intn(10); {
	case x < 3:
		return regPre
	case x < 4:
		return regPreZero
	case x < 6:
		return regTransition
	default:
		return regAux
	}
}

func (g *gen) woHeader(decLoc common.Location) *types.WorkObjectHeader {
	return g.woHeaderR(decLoc, g.regime())
}

func (g *gen) manifest(max int) types.BlockManifest {
	n := g.r.Intn(max + 1)
	m := make(types.BlockManifest, 0, n)
	for i := 0; i < n; i++ {
		m = append(m, g.hash())
	}
	return m
}

func (g *gen) hashes(max int) common.Hashes {
	n := g.r.Intn(max + 1)
	m := make(common.Hashes, 0, n)
	for i := 0; i < n; i++ {
		m = append(m, g.hash())
	}
	return m
}

// block: a full WorkObject (all body parts) built with the exported constructors.
func (g *gen) block(loc common.Location) *types.WorkObject {
	wh := g.woHeader(loc)
	var uncles []*types.WorkObjectHeader
	for i := 0; i < g.r.Intn(3); i++ {
		uncles = append(uncles, g.woHeader(loc))
	}
	body := types.NewWoBody(g.header(), g.txs(loc, 3), g.etxs(loc, 2), uncles, g.manifest(3), g.hashes(4))
	var tx *types.Transaction
	if g.r.Intn(4) == 0 {
		tx = g.plainTx(loc)
	}
	return types.NewWorkObject(wh, body, tx)
}

func (g *gen) termini() types.Termini {
	t := types.EmptyTermini()
	if g.r.Intn(10) == 0 {
		return t
	}
	for i := 0; i < common.MaxWidth; i++ {
		if g.r.Intn(3) > 0 {
			t.SetDomTerminiAtIndex(g.hash(), i)
		}
		if g.r.Intn(3) > 0 {
			t.SetSubTerminiAtIndex(g.hash(), i)
		}
	}
	return t
}

func (g *gen) log(loc common.Location) *types.Log {
	// Topics is non-nil even for LOG0 (the EVM and every decoder build it with make)
	l := &types.Log{Address: g.addr(loc), Data: g.bytes(64), Topics: []common.Hash{}}
	for i := 0; i < g.r.Intn(5); i++ {
		l.Topics = append(l.Topics, g.hash())
	}
	return l
}

// receipt: consensus fields + the implementation fields that are stored.
// Bloom is the bloom of the logs (what the processor computes).
func (g *gen) receipt(loc common.Location) *types.Receipt {
	r := &types.Receipt{
		Type:              uint8(g.r.Intn(3)),
		CumulativeGasUsed: g.u64(),
		TxHash:            g.hash(),
		ContractAddress:   g.addr(loc),
		GasUsed:           g.u64(),
	}
	if g.r.Intn(3) == 0 {
		// as core/worker.go and state_processor.go build coinbase / conversion receipts: no contract address
		r.ContractAddress = common.Address{}
	}
	switch g.r.Intn(8) {
	case 0:
		r.PostState = g.bytesN(32)
	case 1:
		r.Status = types.ReceiptStatusFailed
	case 2, 3:
		r.Status = types.ReceiptStatusLocked
	default:
		r.Status = types.ReceiptStatusSuccessful
	}
	for i := 0; i < g.r.Intn(4); i++ {
		r.Logs = append(r.Logs, g.log(loc))
	}
	if g.r.Intn(2) == 0 {
		r.OutboundEtxs = g.etxs(loc, 3)
	}
	r.Bloom = types.CreateBloom(types.Receipts{r})
	return r
}

func (g *gen) utxo(loc common.Location) *types.UtxoEntry {
	o := g.txOut(loc, true)
	return types.NewUtxoEntry(&o)
}

func (g *gen) auxTemplate() *types.AuxTemplate {
	at := types.NewAuxTemplate()
	at.SetPowID(auxPowIDs[g.r.Intn(len(auxPowIDs))])
	var ph [32]byte
	if g.r.Intn(5) > 0 {
		g.r.Read(ph[:])
	}
	at.SetPrevHash(ph)
	at.SetAuxPow2(g.optBytes(32))
	at.SetVersion(g.u32())
	at.SetNBits(g.u32())
	at.SetSignatureTime(g.u32())
	at.SetHeight(g.u32())
	at.SetCoinbaseOut(g.bytes(80))
	var branch [][]byte
	for i := 0; i < g.r.Intn(6); i++ {
		branch = append(branch, g.bytesN(32))
	}
	at.SetMerkleBranch(branch)
	at.SetSigs(g.optBytes(64))
	return at
}
