//go:build verif

package c14

import (
	"bytes"
	"fmt"
	"math/big"

	"github.com/dominant-strategies/go-quai/common"
	"github.com/dominant-strategies/go-quai/core/types"
	"github.com/dominant-strategies/go-quai/crypto"
	"github.com/dominant-strategies/go-quai/params"
)

// dif describes the first field in which two objects differ. leaf is the type
// that owns the field (so that the same deviation found inside a composite
// gets the same signature as at the leaf). Zero value = equal.
type dif struct {
	leaf, field, detail string
}

func (d dif) ok() bool { return d.field == "" }

func mk(leaf, field, format string, a ...any) dif {
	return dif{leaf, field, fmt.Sprintf(format, a...)}
}

func (d dif) in(prefix string) dif {
	if d.ok() {
		return d
	}
	d.detail = prefix + ": " + d.detail
	return d
}

// cmpOpt tunes the comparison to what a path can express.
type cmpOpt struct {
	addrKind   bool // compare internal/external classification of addresses (proto family, same location)
	pubKeyForm bool // compare TxIn.PubKey byte-exactly (else as curve points)
}

func bigS(x *big.Int) string {
	if x == nil {
		return "nil"
	}
	return "0x" + x.Text(16)
}

// dBig: nil and non-nil are different (callers normalise where the type says nil == 0).
func dBig(leaf, field string, a, b *big.Int) dif {
	if a == nil && b == nil {
		return dif{}
	}
	if a == nil || b == nil {
		other := a
		if a == nil {
			other = b
		}
		suffix := "-nil-vs-value"
		if other.Sign() == 0 {
			suffix = "-nil-vs-zero"
		}
		return mk(leaf, field+suffix, "%s: %s -> %s", field, bigS(a), bigS(b))
	}
	if a.Cmp(b) != 0 {
		return mk(leaf, field, "%s: %s -> %s", field, bigS(a), bigS(b))
	}
	return dif{}
}

// dBigN: nil == 0
func dBigN(leaf, field string, a, b *big.Int) dif {
	if a == nil {
		a = new(big.Int)
	}
	if b == nil {
		b = new(big.Int)
	}
	return dBig(leaf, field, a, b)
}

// dBytes: nil == empty
func dBytes(leaf, field string, a, b []byte) dif {
	if !bytes.Equal(a, b) {
		return mk(leaf, field, "%s: %x -> %x", field, a, b)
	}
	return dif{}
}

// dBytesP: optional bytes where the type and the wire can express absent vs empty
func dBytesP(leaf, field string, a, b []byte) dif {
	if (a == nil) != (b == nil) {
		return mk(leaf, field+"-nil-vs-empty", "%s: nil=%v -> nil=%v (%x -> %x)", field, a == nil, b == nil, a, b)
	}
	return dBytes(leaf, field, a, b)
}

func dHash(leaf, field string, a, b common.Hash) dif {
	if a != b {
		return mk(leaf, field, "%s: %x -> %x", field, a, b)
	}
	return dif{}
}

func dU64(leaf, field string, a, b uint64) dif {
	if a != b {
		return mk(leaf, field, "%s: %d -> %d", field, a, b)
	}
	return dif{}
}

func isInternal(a common.Address) bool {
	_, err := a.InternalAddress()
	return err == nil
}

func dAddr(leaf, field string, a, b common.Address, o cmpOpt) dif {
	ab, bb := a.Bytes(), b.Bytes()
	if !bytes.Equal(ab, bb) {
		if len(ab) == 0 && len(bb) == 20 && bytes.Equal(bb, make([]byte, 20)) {
			return mk(leaf, field+"-nilinner-vs-zero", "%s: Address{} (no bytes) -> 20 zero bytes", field)
		}
		return mk(leaf, field, "%s: %x -> %x", field, ab, bb)
	}
	if o.addrKind && len(ab) == 20 && isInternal(a) != isInternal(b) {
		return mk(leaf, field+"-internal-vs-external", "%s %x: internal=%v -> internal=%v", field, ab, isInternal(a), isInternal(b))
	}
	return dif{}
}

func dAddrP(leaf, field string, a, b *common.Address, o cmpOpt) dif {
	if (a == nil) != (b == nil) {
		return mk(leaf, field+"-nil-vs-set", "%s: nil=%v -> nil=%v", field, a == nil, b == nil)
	}
	if a == nil {
		return dif{}
	}
	return dAddr(leaf, field, *a, *b, o)
}

func dHashP(leaf, field string, a, b *common.Hash) dif {
	if (a == nil) != (b == nil) {
		return mk(leaf, field+"-nil-vs-set", "%s: nil=%v -> nil=%v", field, a == nil, b == nil)
	}
	if a == nil {
		return dif{}
	}
	return dHash(leaf, field, *a, *b)
}

func dNonceP(leaf, field string, a, b *types.BlockNonce) dif {
	if (a == nil) != (b == nil) {
		return mk(leaf, field+"-nil-vs-set", "%s: nil=%v -> nil=%v", field, a == nil, b == nil)
	}
	if a == nil {
		return dif{}
	}
	if *a != *b {
		return mk(leaf, field, "%s: %x -> %x", field, a[:], b[:])
	}
	return dif{}
}

// dWork: the three work fields; if every field that was set came back nil it is
// one deviation ("the codec does not carry the work fields"), not three.
func dWork(leaf string, ap, bp, am, bm *common.Hash, an, bn *types.BlockNonce) dif {
	anySet := ap != nil || am != nil || an != nil
	if anySet && bp == nil && bm == nil && bn == nil {
		return mk(leaf, "workFields-dropped", "parentHash/mixHash/workNonce set=%v/%v/%v -> all nil", ap != nil, am != nil, an != nil)
	}
	return first(dHashP(leaf, "parentHash", ap, bp), dHashP(leaf, "mixHash", am, bm), dNonceP(leaf, "workNonce", an, bn))
}

func first(ds ...dif) dif {
	for _, d := range ds {
		if !d.ok() {
			return d
		}
	}
	return dif{}
}

func dAccessList(leaf string, a, b types.AccessList, o cmpOpt) dif {
	if len(a) != len(b) {
		return mk(leaf, "accessList", "accessList length %d -> %d", len(a), len(b))
	}
	for i := range a {
		if d := dAddr(leaf, "accessList.address", a[i].Address, b[i].Address, o); !d.ok() {
			return d
		}
		if len(a[i].StorageKeys) != len(b[i].StorageKeys) {
			return mk(leaf, "accessList.storageKeys", "tuple %d keys %d -> %d", i, len(a[i].StorageKeys), len(b[i].StorageKeys))
		}
		for j := range a[i].StorageKeys {
			if a[i].StorageKeys[j] != b[i].StorageKeys[j] {
				return mk(leaf, "accessList.storageKeys", "tuple %d key %d differs", i, j)
			}
		}
	}
	return dif{}
}

func normPub(pk []byte) []byte {
	if len(pk) == 65 {
		if p, err := crypto.UnmarshalPubkey(pk); err == nil {
			return crypto.CompressPubkey(p)
		}
	}
	return pk
}

func dTxIn(leaf string, a, b types.TxIn, o cmpOpt) dif {
	if a.PreviousOutPoint.TxHash != b.PreviousOutPoint.TxHash {
		return mk(leaf, "txIn.outpoint.txHash", "%x -> %x", a.PreviousOutPoint.TxHash, b.PreviousOutPoint.TxHash)
	}
	if a.PreviousOutPoint.Index != b.PreviousOutPoint.Index {
		return mk(leaf, "txIn.outpoint.index", "%d -> %d", a.PreviousOutPoint.Index, b.PreviousOutPoint.Index)
	}
	if !bytes.Equal(a.PubKey, b.PubKey) {
		if bytes.Equal(normPub(a.PubKey), normPub(b.PubKey)) {
			if o.pubKeyForm {
				return mk(leaf, "txIn.pubKey-compressed-vs-uncompressed", "pubKey %d bytes -> %d bytes (same point)", len(a.PubKey), len(b.PubKey))
			}
			return dif{}
		}
		return mk(leaf, "txIn.pubKey", "%x -> %x", a.PubKey, b.PubKey)
	}
	return dif{}
}

// dTxOut: Lock nil == 0 ("0 or nil = unlocked")
func dTxOut(leaf string, a, b types.TxOut) dif {
	return first(
		dU64(leaf, "txOut.denomination", uint64(a.Denomination), uint64(b.Denomination)),
		dBytes(leaf, "txOut.address", a.Address, b.Address),
		dBigN(leaf, "txOut.lock", a.Lock, b.Lock))
}

func txLeaf(t *types.Transaction) string {
	switch t.Type() {
	case types.QuaiTxType:
		return "QuaiTx"
	case types.QiTxType:
		return "QiTx"
	default:
		return "ExternalTx"
	}
}

func dTx(a, b *types.Transaction, o cmpOpt) dif {
	if (a == nil) != (b == nil) {
		return mk("Transaction", "nil-vs-set", "tx nil=%v -> nil=%v", a == nil, b == nil)
	}
	if a == nil {
		return dif{}
	}
	if (a.Inner() == nil) != (b.Inner() == nil) {
		return mk("Transaction", "inner-nil-vs-set", "tx inner nil=%v -> nil=%v", a.Inner() == nil, b.Inner() == nil)
	}
	if a.Inner() == nil {
		return dif{}
	}
	L := txLeaf(a)
	if a.Type() != b.Type() {
		return mk(L, "type", "type %d -> %d", a.Type(), b.Type())
	}
	switch x := a.Inner().(type) {
	case *types.QuaiTx:
		y := b.Inner().(*types.QuaiTx)
		return first(
			dBig(L, "chainId", x.ChainID, y.ChainID),
			dU64(L, "nonce", x.Nonce, y.Nonce),
			dBig(L, "gasPrice", x.GasPrice, y.GasPrice),
			dU64(L, "gas", x.Gas, y.Gas),
			dAddrP(L, "to", x.To, y.To, o),
			dBig(L, "value", x.Value, y.Value),
			dBytes(L, "data", x.Data, y.Data),
			dAccessList(L, x.AccessList, y.AccessList, o),
			dBig(L, "v", x.V, y.V), dBig(L, "r", x.R, y.R), dBig(L, "s", x.S, y.S),
			dWork(L, x.ParentHash, y.ParentHash, x.MixHash, y.MixHash, x.WorkNonce, y.WorkNonce))
	case *types.ExternalTx:
		y := b.Inner().(*types.ExternalTx)
		return first(
			dHash(L, "originatingTxHash", x.OriginatingTxHash, y.OriginatingTxHash),
			dU64(L, "etxIndex", uint64(x.ETXIndex), uint64(y.ETXIndex)),
			dU64(L, "gas", x.Gas, y.Gas),
			dAddrP(L, "to", x.To, y.To, o),
			dBig(L, "value", x.Value, y.Value),
			dBytes(L, "data", x.Data, y.Data),
			dAccessList(L, x.AccessList, y.AccessList, o),
			dAddr(L, "sender", x.Sender, y.Sender, o),
			dU64(L, "etxType", x.EtxType, y.EtxType))
	case *types.QiTx:
		y := b.Inner().(*types.QiTx)
		if d := dBig(L, "chainId", x.ChainID, y.ChainID); !d.ok() {
			return d
		}
		if len(x.TxIn) != len(y.TxIn) {
			return mk(L, "txIn", "txIn length %d -> %d", len(x.TxIn), len(y.TxIn))
		}
		for i := range x.TxIn {
			if d := dTxIn(L, x.TxIn[i], y.TxIn[i], o); !d.ok() {
				return d
			}
		}
		if len(x.TxOut) != len(y.TxOut) {
			return mk(L, "txOut", "txOut length %d -> %d", len(x.TxOut), len(y.TxOut))
		}
		for i := range x.TxOut {
			if d := dTxOut(L, x.TxOut[i], y.TxOut[i]); !d.ok() {
				return d
			}
		}
		var sa, sb []byte
		if x.Signature != nil {
			sa = x.Signature.Serialize()
		}
		if y.Signature != nil {
			sb = y.Signature.Serialize()
		}
		return first(
			dBytes(L, "signature", sa, sb),
			dBytes(L, "data", x.Data, y.Data),
			dWork(L, x.ParentHash, y.ParentHash, x.MixHash, y.MixHash, x.WorkNonce, y.WorkNonce))
	}
	return dif{}
}

func dTxs(field string, a, b types.Transactions, o cmpOpt) dif {
	if len(a) != len(b) {
		return mk("Transactions", field+"-length", "%s length %d -> %d", field, len(a), len(b))
	}
	for i := range a {
		if d := dTx(a[i], b[i], o); !d.ok() {
			return d.in(fmt.Sprintf("%s[%d]", field, i))
		}
	}
	return dif{}
}

func dHeader(a, b *types.Header) dif {
	const L = "Header"
	if (a == nil) != (b == nil) {
		return mk(L, "nil-vs-set", "header nil=%v -> nil=%v", a == nil, b == nil)
	}
	if a == nil {
		return dif{}
	}
	if len(a.ParentHashArray()) != len(b.ParentHashArray()) || len(a.NumberArray()) != len(b.NumberArray()) ||
		len(a.ManifestHashArray()) != len(b.ManifestHashArray()) ||
		len(a.ParentUncledDeltaEntropyArray()) != len(b.ParentUncledDeltaEntropyArray()) {
		return mk(L, "array-lengths", "parentHash %d->%d number %d->%d manifestHash %d->%d", len(a.ParentHashArray()), len(b.ParentHashArray()),
			len(a.NumberArray()), len(b.NumberArray()), len(a.ManifestHashArray()), len(b.ManifestHashArray()))
	}
	var ds []dif
	for i := 0; i < common.HierarchyDepth; i++ {
		ds = append(ds,
			dHash(L, "manifestHash", a.ManifestHash(i), b.ManifestHash(i)),
			dBig(L, "parentEntropy", a.ParentEntropy(i), b.ParentEntropy(i)),
			dBig(L, "parentDeltaEntropy", a.ParentDeltaEntropy(i), b.ParentDeltaEntropy(i)),
			dBig(L, "parentUncledDeltaEntropy", a.ParentUncledDeltaEntropy(i), b.ParentUncledDeltaEntropy(i)))
	}
	for i := 0; i < common.HierarchyDepth-1; i++ {
		ds = append(ds, dHash(L, "parentHash", a.ParentHash(i), b.ParentHash(i)), dBig(L, "number", a.Number(i), b.Number(i)))
	}
	ds = append(ds,
		dHash(L, "uncleHash", a.UncleHash(), b.UncleHash()),
		dHash(L, "evmRoot", a.EVMRoot(), b.EVMRoot()),
		dHash(L, "utxoRoot", a.UTXORoot(), b.UTXORoot()),
		dHash(L, "txHash", a.TxHash(), b.TxHash()),
		dHash(L, "outboundEtxHash", a.OutboundEtxHash(), b.OutboundEtxHash()),
		dHash(L, "etxSetRoot", a.EtxSetRoot(), b.EtxSetRoot()),
		dHash(L, "etxRollupHash", a.EtxRollupHash(), b.EtxRollupHash()),
		dHash(L, "receiptHash", a.ReceiptHash(), b.ReceiptHash()),
		dHash(L, "primeTerminusHash", a.PrimeTerminusHash(), b.PrimeTerminusHash()),
		dHash(L, "interlinkRootHash", a.InterlinkRootHash(), b.InterlinkRootHash()),
		dHash(L, "etxEligibleSlices", a.EtxEligibleSlices(), b.EtxEligibleSlices()),
		dHash(L, "primeStateRoot", a.PrimeStateRoot(), b.PrimeStateRoot()),
		dHash(L, "regionStateRoot", a.RegionStateRoot(), b.RegionStateRoot()),
		dBig(L, "quaiStateSize", a.QuaiStateSize(), b.QuaiStateSize()),
		dBig(L, "uncledEntropy", a.UncledEntropy(), b.UncledEntropy()),
		dU64(L, "gasLimit", a.GasLimit(), b.GasLimit()),
		dU64(L, "gasUsed", a.GasUsed(), b.GasUsed()),
		dBig(L, "baseFee", a.BaseFee(), b.BaseFee()),
		dU64(L, "stateLimit", a.StateLimit(), b.StateLimit()),
		dU64(L, "stateUsed", a.StateUsed(), b.StateUsed()),
		dBytes(L, "extra", a.Extra(), b.Extra()),
		dU64(L, "efficiencyScore", uint64(a.EfficiencyScore()), uint64(b.EfficiencyScore())),
		dU64(L, "thresholdCount", uint64(a.ThresholdCount()), uint64(b.ThresholdCount())),
		dU64(L, "expansionNumber", uint64(a.ExpansionNumber()), uint64(b.ExpansionNumber())),
		dBig(L, "exchangeRate", a.ExchangeRate(), b.ExchangeRate()),
		dBig(L, "avgTxFees", a.AvgTxFees(), b.AvgTxFees()),
		dBig(L, "totalFees", a.TotalFees(), b.TotalFees()),
		dBig(L, "kQuaiDiscount", a.KQuaiDiscount(), b.KQuaiDiscount()),
		dBig(L, "conversionFlowAmount", a.ConversionFlowAmount(), b.ConversionFlowAmount()),
		dBig(L, "minerDifficulty", a.MinerDifficulty(), b.MinerDifficulty()))
	return first(ds...)
}

func dAuxPow(a, b *types.AuxPow) dif {
	const L = "AuxPow"
	if (a == nil) != (b == nil) {
		return mk(L, "nil-vs-set", "auxPow nil=%v -> nil=%v", a == nil, b == nil)
	}
	if a == nil {
		return dif{}
	}
	if d := dU64(L, "powID", uint64(a.PowID()), uint64(b.PowID())); !d.ok() {
		return d
	}
	var ha, hb []byte
	if a.Header() != nil {
		ha = a.Header().Bytes()
	}
	if b.Header() != nil {
		hb = b.Header().Bytes()
	}
	if d := dBytes(L, "header", ha, hb); !d.ok() {
		return d
	}
	if len(a.MerkleBranch()) != len(b.MerkleBranch()) {
		return mk(L, "merkleBranch", "merkleBranch length %d -> %d", len(a.MerkleBranch()), len(b.MerkleBranch()))
	}
	for i := range a.MerkleBranch() {
		if !bytes.Equal(a.MerkleBranch()[i], b.MerkleBranch()[i]) {
			return mk(L, "merkleBranch", "merkleBranch[%d] differs", i)
		}
	}
	// auxPow2 and signature are optional bytes on the wire: absent and empty are distinct encodings
	if (a.AuxPow2() == nil) != (b.AuxPow2() == nil) && len(a.AuxPow2()) == 0 && len(b.AuxPow2()) == 0 ||
		(a.Signature() == nil) != (b.Signature() == nil) && len(a.Signature()) == 0 && len(b.Signature()) == 0 {
		return mk(L, "auxPow2/signature-nil-vs-empty", "auxPow2 nil=%v -> nil=%v, signature nil=%v -> nil=%v", a.AuxPow2() == nil, b.AuxPow2() == nil, a.Signature() == nil, b.Signature() == nil)
	}
	return first(
		dBytes(L, "auxPow2", a.AuxPow2(), b.AuxPow2()),
		dBytes(L, "signature", a.Signature(), b.Signature()),
		dBytes(L, "transaction", a.Transaction(), b.Transaction()))
}

func dShare(leaf, field string, a, b *types.PowShareDiffAndCount) dif {
	// the accessors never return nil
	if a.Difficulty() != nil && a.Count() != nil && a.Uncled() != nil && b.Difficulty() == nil && b.Count() == nil && b.Uncled() == nil {
		return mk(leaf, field+"-dropped", "%s {%s,%s,%s} -> all nil", field, bigS(a.Difficulty()), bigS(a.Count()), bigS(a.Uncled()))
	}
	return first(
		dBig(leaf, field+".difficulty", a.Difficulty(), b.Difficulty()),
		dBig(leaf, field+".count", a.Count(), b.Count()),
		dBig(leaf, field+".uncled", a.Uncled(), b.Uncled()))
}

func postFork(wh *types.WorkObjectHeader) bool {
	return wh.PrimeTerminusNumber() != nil && wh.PrimeTerminusNumber().Uint64() >= params.KawPowForkBlock
}

// dWoHeader: the share / AuxPow fields are part of the object only from the
// KawPow fork on (before it neither the wire format nor the hashes carry them).
func dWoHeader(a, b *types.WorkObjectHeader, o cmpOpt) dif {
	const L = "WorkObjectHeader"
	if (a == nil) != (b == nil) {
		return mk(L, "nil-vs-set", "woHeader nil=%v -> nil=%v", a == nil, b == nil)
	}
	if a == nil {
		return dif{}
	}
	d := first(
		dHash(L, "headerHash", a.HeaderHash(), b.HeaderHash()),
		dHash(L, "parentHash", a.ParentHash(), b.ParentHash()),
		dBig(L, "number", a.Number(), b.Number()),
		dBig(L, "difficulty", a.Difficulty(), b.Difficulty()),
		dBig(L, "primeTerminusNumber", a.PrimeTerminusNumber(), b.PrimeTerminusNumber()),
		dHash(L, "txHash", a.TxHash(), b.TxHash()),
		dAddr(L, "primaryCoinbase", a.PrimaryCoinbase(), b.PrimaryCoinbase(), o),
		dBytes(L, "location", a.Location(), b.Location()),
		dHash(L, "mixHash", a.MixHash(), b.MixHash()),
		dU64(L, "time", a.Time(), b.Time()),
		dBytes(L, "nonce", a.Nonce().Bytes(), b.Nonce().Bytes()),
		dBytes(L, "data", a.Data(), b.Data()),
		dU64(L, "lock", uint64(a.Lock()), uint64(b.Lock())))
	if !d.ok() || !postFork(a) {
		return d
	}
	if d := dAuxPow(a.AuxPow(), b.AuxPow()); !d.ok() {
		if d.field == "nil-vs-set" {
			return mk(L, "auxPow-nil-vs-set", "%s", d.detail)
		}
		return d
	}
	return first(
		dShare(L, "shaDiffAndCount", a.ShaDiffAndCount(), b.ShaDiffAndCount()),
		dShare(L, "scryptDiffAndCount", a.ScryptDiffAndCount(), b.ScryptDiffAndCount()),
		dBig(L, "shaShareTarget", a.ShaShareTarget(), b.ShaShareTarget()),
		dBig(L, "scryptShareTarget", a.ScryptShareTarget(), b.ScryptShareTarget()),
		dBig(L, "kawpowDifficulty", a.KawpowDifficulty(), b.KawpowDifficulty()))
}

// parts of a WorkObject a view carries
type woParts struct {
	header, txs, etxs, uncles, manifest, interlink, tx bool
}

var (
	partsBlock   = woParts{true, true, true, true, true, true, true}
	partsShare   = woParts{header: true, txs: true, tx: true}
	partsPEtx    = woParts{header: true}
	partsDbBlock = woParts{header: true, txs: true, etxs: true, uncles: true, manifest: true, interlink: true} // rawdb does not store wo.tx
	partsDbShare = woParts{header: true, uncles: true}
)

func dWo(a, b *types.WorkObject, p woParts, o cmpOpt) dif {
	const L = "WorkObject"
	if (a == nil) != (b == nil) {
		return mk(L, "nil-vs-set", "wo nil=%v -> nil=%v", a == nil, b == nil)
	}
	if a == nil {
		return dif{}
	}
	if d := dWoHeader(a.WorkObjectHeader(), b.WorkObjectHeader(), o); !d.ok() {
		return d.in("woHeader")
	}
	if (a.Body() == nil) != (b.Body() == nil) {
		return mk(L, "body-nil-vs-set", "body nil=%v -> nil=%v", a.Body() == nil, b.Body() == nil)
	}
	if a.Body() != nil {
		if p.header {
			if d := dHeader(a.Body().Header(), b.Body().Header()); !d.ok() {
				if d.field == "nil-vs-set" {
					return mk(L, "body.header-nil-vs-set", "%s", d.detail)
				}
				return d.in("body.header")
			}
		}
		if p.txs {
			if d := dTxs("transactions", a.Body().Transactions(), b.Body().Transactions(), o); !d.ok() {
				return relabel(d, L)
			}
		}
		if p.etxs {
			if d := dTxs("outboundEtxs", a.Body().OutboundEtxs(), b.Body().OutboundEtxs(), o); !d.ok() {
				return relabel(d, L)
			}
		}
		if p.uncles {
			ua, ub := a.Body().Uncles(), b.Body().Uncles()
			if len(ua) != len(ub) {
				return mk(L, "uncles-length", "uncles %d -> %d", len(ua), len(ub))
			}
			for i := range ua {
				if d := dWoHeader(ua[i], ub[i], o); !d.ok() {
					return d.in(fmt.Sprintf("uncles[%d]", i))
				}
			}
		}
		if p.manifest {
			ma, mb := a.Body().Manifest(), b.Body().Manifest()
			if len(ma) != len(mb) {
				return mk(L, "manifest-length", "manifest %d -> %d", len(ma), len(mb))
			}
			for i := range ma {
				if ma[i] != mb[i] {
					return mk(L, "manifest", "manifest[%d] differs", i)
				}
			}
		}
		if p.interlink {
			ia, ib := a.Body().InterlinkHashes(), b.Body().InterlinkHashes()
			if len(ia) != len(ib) {
				return mk(L, "interlinkHashes-length", "interlinkHashes %d -> %d", len(ia), len(ib))
			}
			for i := range ia {
				if ia[i] != ib[i] {
					return mk(L, "interlinkHashes", "interlinkHashes[%d] differs", i)
				}
			}
		}
	}
	if p.tx {
		if d := dTx(a.Tx(), b.Tx(), o); !d.ok() {
			if d.leaf == "Transaction" {
				return mk(L, "tx-"+d.field, "%s", d.detail)
			}
			return d.in("wo.tx")
		}
	}
	return dif{}
}

// relabel: a list-length difference belongs to the container type
func relabel(d dif, leaf string) dif {
	if d.leaf == "Transactions" {
		d.leaf = leaf
	}
	return d
}

func dLog(a, b *types.Log, o cmpOpt) dif {
	const L = "Log"
	if d := dAddr(L, "address", a.Address, b.Address, o); !d.ok() {
		return d
	}
	if len(a.Topics) != len(b.Topics) {
		return mk(L, "topics", "topics %d -> %d", len(a.Topics), len(b.Topics))
	}
	for i := range a.Topics {
		if a.Topics[i] != b.Topics[i] {
			return mk(L, "topics", "topic %d differs", i)
		}
	}
	return dBytes(L, "data", a.Data, b.Data)
}

// dReceipt compares what the given encoding is defined to carry.
// consensus: status/postState, cumulativeGasUsed, bloom, logs, outboundEtxs (receiptRLP)
// storage: + txHash, contractAddress, gasUsed; bloom is recomputed.
func dReceipt(L string, a, b *types.Receipt, storage bool, o cmpOpt) dif {
	if d := dBytes(L, "postState", a.PostState, b.PostState); !d.ok() {
		return d
	}
	if len(a.PostState) == 0 && a.Status != b.Status {
		f := "status"
		if a.Status == types.ReceiptStatusLocked && b.Status == types.ReceiptStatusSuccessful {
			f = "status-locked-becomes-successful"
		}
		return mk(L, f, "status %d -> %d", a.Status, b.Status)
	}
	if d := dU64(L, "cumulativeGasUsed", a.CumulativeGasUsed, b.CumulativeGasUsed); !d.ok() {
		return d
	}
	if a.Bloom != b.Bloom {
		return mk(L, "bloom", "bloom differs")
	}
	if len(a.Logs) != len(b.Logs) {
		return mk(L, "logs", "logs %d -> %d", len(a.Logs), len(b.Logs))
	}
	for i := range a.Logs {
		if d := dLog(a.Logs[i], b.Logs[i], o); !d.ok() {
			return d.in(fmt.Sprintf("logs[%d]", i))
		}
	}
	if d := dTxs("outboundEtxs", a.OutboundEtxs, b.OutboundEtxs, o); !d.ok() {
		if d.leaf == "Transactions" {
			return mk(L, "outboundEtxs-dropped", "%s", d.detail)
		}
		return d
	}
	if storage {
		zeroAddr := bytes.Equal(b.ContractAddress.Bytes(), make([]byte, 20)) || len(b.ContractAddress.Bytes()) == 0
		if b.TxHash == (common.Hash{}) && zeroAddr && b.GasUsed == 0 &&
			(a.TxHash != (common.Hash{}) || a.GasUsed != 0 || !bytes.Equal(a.ContractAddress.Bytes(), b.ContractAddress.Bytes())) {
			return mk(L, "txHash+contractAddress+gasUsed-dropped", "txHash %x -> 0, contractAddress %x -> %x, gasUsed %d -> 0", a.TxHash, a.ContractAddress.Bytes(), b.ContractAddress.Bytes(), a.GasUsed)
		}
		return first(
			dHash(L, "txHash", a.TxHash, b.TxHash),
			dAddr(L, "contractAddress", a.ContractAddress, b.ContractAddress, o),
			dU64(L, "gasUsed", a.GasUsed, b.GasUsed))
	}
	return dU64(L, "type", uint64(a.Type), uint64(b.Type))
}

func dTermini(a, b types.Termini) dif {
	const L = "Termini"
	da, db := a.DomTermini(), b.DomTermini()
	sa, sb := a.SubTermini(), b.SubTermini()
	if len(da) != len(db) || len(sa) != len(sb) {
		return mk(L, "length", "dom %d -> %d, sub %d -> %d", len(da), len(db), len(sa), len(sb))
	}
	for i := range da {
		if da[i] != db[i] {
			return mk(L, "domTermini", "domTermini[%d] differs", i)
		}
	}
	for i := range sa {
		if sa[i] != sb[i] {
			return mk(L, "subTermini", "subTermini[%d] differs", i)
		}
	}
	return dif{}
}

func dAuxTemplate(a, b *types.AuxTemplate) dif {
	const L = "AuxTemplate"
	if len(a.MerkleBranch()) != len(b.MerkleBranch()) {
		return mk(L, "merkleBranch", "length %d -> %d", len(a.MerkleBranch()), len(b.MerkleBranch()))
	}
	for i := range a.MerkleBranch() {
		if !bytes.Equal(a.MerkleBranch()[i], b.MerkleBranch()[i]) {
			return mk(L, "merkleBranch", "merkleBranch[%d] differs", i)
		}
	}
	pa, pb := a.PrevHash(), b.PrevHash()
	return first(
		dU64(L, "powID", uint64(a.PowID()), uint64(b.PowID())),
		dBytes(L, "prevHash", pa[:], pb[:]),
		dBytesP(L, "auxPow2", a.AuxPow2(), b.AuxPow2()),
		dU64(L, "version", uint64(a.Version()), uint64(b.Version())),
		dU64(L, "bits", uint64(a.Bits()), uint64(b.Bits())),
		dU64(L, "signatureTime", uint64(a.SignatureTime()), uint64(b.SignatureTime())),
		dU64(L, "height", uint64(a.Height()), uint64(b.Height())),
		dBytes(L, "coinbaseOut", a.CoinbaseOut(), b.CoinbaseOut()),
		dBytes(L, "sigs", a.Sigs(), b.Sigs()))
}
