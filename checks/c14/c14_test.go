//go:build verif

// C14 — encode/decode round trips preserve objects, bytes and identity.
package c14

import (
	"encoding/json"
	"errors"
	"fmt"
	"math/big"
	"testing"

	"google.golang.org/protobuf/proto"
	"lukechampine.com/blake3"

	"github.com/dominant-strategies/go-quai/common"
	"github.com/dominant-strategies/go-quai/core/rawdb"
	"github.com/dominant-strategies/go-quai/core/types"
	"github.com/dominant-strategies/go-quai/ethdb"
	"github.com/dominant-strategies/go-quai/ethdb/memorydb"
	"github.com/dominant-strategies/go-quai/log"
	"github.com/dominant-strategies/go-quai/p2p/pb"
	"github.com/dominant-strategies/go-quai/rlp"

	"verif/internal/mon"
)

// ---------------------------------------------------------------- helpers

func pbBytes[P proto.Message](p P, err error) ([]byte, error) {
	if err != nil {
		return nil, err
	}
	return proto.Marshal(p)
}

var (
	optPB   = cmpOpt{addrKind: true}
	optRLP  = cmpOpt{pubKeyForm: true}
	optJSON = cmpOpt{pubKeyForm: true}
)

// locDB: memorydb reports a nil Location; the accessors decode addresses
// relative to db.Location(), so give it the node's location.
type locDB struct {
	*memorydb.Database
	loc common.Location
}

func (d locDB) Location() common.Location { return d.loc }

func (c *ctx) db(loc common.Location) ethdb.Database {
	return rawdb.NewDatabase(locDB{memorydb.New(c.logger), loc})
}

func b3(b []byte) []byte { s := blake3.Sum256(b); return s[:] }

// ---------------------------------------------------------------- Transaction

func txProto(loc common.Location) codec[*types.Transaction] {
	return codec[*types.Transaction]{path: "proto", loc: loc,
		enc: func(t *types.Transaction) ([]byte, error) { return pbBytes(t.ProtoEncode()) },
		dec: func(b []byte) (*types.Transaction, error) {
			p := new(types.ProtoTransaction)
			if err := proto.Unmarshal(b, p); err != nil {
				return nil, err
			}
			t := new(types.Transaction)
			return t, t.ProtoDecode(p, loc)
		},
		diff: func(a, b *types.Transaction) dif { return dTx(a, b, optPB) },
		hash: func(t *types.Transaction) []byte { return t.Hash().Bytes() }, hashName: "Hash",
		cpy:  func(t *types.Transaction) *types.Transaction { return types.NewTx(t.Inner()) },
		pmsg: func() proto.Message { return new(types.ProtoTransaction) },
	}
}

func txShape(t *types.Transaction) string {
	switch x := t.Inner().(type) {
	case *types.QuaiTx:
		if x.WorkNonce != nil {
			return "workNonce-set"
		}
		return "workNonce-nil"
	case *types.QiTx:
		if x.ParentHash != nil || x.MixHash != nil || x.WorkNonce != nil {
			return "workFields-set"
		}
		return "workFields-nil"
	}
	return "etx"
}

func txRLP(loc common.Location) codec[*types.Transaction] {
	cd := txProto(loc)
	cd.path = "rlp"
	cd.pmsg = nil
	cd.cpy = nil
	cd.enc = func(t *types.Transaction) ([]byte, error) { return rlp.EncodeToBytes(t) }
	cd.dec = func(b []byte) (*types.Transaction, error) {
		t := new(types.Transaction)
		return t, rlp.DecodeBytes(b, t)
	}
	cd.diff = func(a, b *types.Transaction) dif { return dTx(a, b, optRLP) }
	return cd
}

func txBinary(loc common.Location) codec[*types.Transaction] {
	cd := txRLP(loc)
	cd.path = "binary"
	cd.enc = func(t *types.Transaction) ([]byte, error) { return t.MarshalBinary() }
	cd.dec = func(b []byte) (*types.Transaction, error) {
		t := new(types.Transaction)
		return t, t.UnmarshalBinary(b)
	}
	return cd
}

func txJSON(loc common.Location) codec[*types.Transaction] {
	cd := txProto(loc)
	cd.path = "json"
	cd.pmsg = nil
	cd.cpy = nil
	cd.shape = txShape
	cd.enc = func(t *types.Transaction) ([]byte, error) { return t.MarshalJSON() }
	cd.dec = func(b []byte) (*types.Transaction, error) {
		t := new(types.Transaction)
		return t, t.UnmarshalJSON(b)
	}
	cd.diff = func(a, b *types.Transaction) dif { return dTx(a, b, optJSON) }
	return cd
}

// txAll runs every transaction path; returns whether the JSON trip was clean.
func (c *ctx) txAll(t *types.Transaction, loc common.Location, sub string) (jsonOK bool) {
	typ := txLeaf(t) + sub
	for _, mkc := range []func(common.Location) codec[*types.Transaction]{txProto, txRLP, txBinary, txJSON} {
		cd := mkc(loc)
		cd.typ, cd.sigTyp = typ, txLeaf(t)
		cd.desc = func(t *types.Transaction) any {
			b, _ := pbBytes(t.ProtoEncode())
			return map[string]any{"proto": capHex(b)}
		}
		// fresh copy per path: Hash()/size caches of one path must not leak into the next
		_, ok := run(c, cd, types.NewTx(t.Inner()))
		if cd.path == "json" {
			jsonOK = ok
		}
	}
	return
}

// ---------------------------------------------------------------- Header

func hdrCodecs(loc common.Location) []codec[*types.Header] {
	base := codec[*types.Header]{typ: "Header", loc: loc,
		diff: dHeader,
		hash: func(h *types.Header) []byte { return h.Hash().Bytes() }, hashName: "Hash",
		cpy: types.CopyHeader,
		desc: func(h *types.Header) any {
			b, _ := pbBytes(h.ProtoEncode())
			return map[string]any{"proto": capHex(b)}
		},
	}
	p := base
	p.path = "proto"
	p.pmsg = func() proto.Message { return new(types.ProtoHeader) }
	p.enc = func(h *types.Header) ([]byte, error) { return pbBytes(h.ProtoEncode()) }
	p.dec = func(b []byte) (*types.Header, error) {
		ph := new(types.ProtoHeader)
		if err := proto.Unmarshal(b, ph); err != nil {
			return nil, err
		}
		h := new(types.Header)
		return h, h.ProtoDecode(ph, loc)
	}
	j := base
	j.path = "json"
	j.cpy = nil
	j.enc = func(h *types.Header) ([]byte, error) { return h.MarshalJSON() }
	j.dec = func(b []byte) (*types.Header, error) {
		h := new(types.Header)
		return h, h.UnmarshalJSON(b)
	}
	r := base
	r.path = "rpc"
	r.enc = func(h *types.Header) ([]byte, error) { return json.Marshal(h.RPCMarshalHeader()) }
	r.dec = j.dec
	return []codec[*types.Header]{p, j, r}
}

// ---------------------------------------------------------------- WorkObjectHeader

func whHash(wh *types.WorkObjectHeader) []byte {
	return append(wh.Hash().Bytes(), wh.SealHash().Bytes()...)
}

func whCodecs(loc common.Location) []codec[*types.WorkObjectHeader] {
	base := codec[*types.WorkObjectHeader]{typ: "WorkObjectHeader", loc: loc,
		hash: whHash, hashName: "Hash||SealHash",
		cpy: types.CopyWorkObjectHeader,
		desc: func(h *types.WorkObjectHeader) any {
			b, _ := pbBytes(h.ProtoEncode())
			return map[string]any{"proto": capHex(b), "postFork": postFork(h), "hasAuxPow": h.AuxPow() != nil}
		},
	}
	p := base
	p.path = "proto"
	p.pmsg = func() proto.Message { return new(types.ProtoWorkObjectHeader) }
	p.diff = func(a, b *types.WorkObjectHeader) dif { return dWoHeader(a, b, optPB) }
	p.enc = func(h *types.WorkObjectHeader) ([]byte, error) { return pbBytes(h.ProtoEncode()) }
	p.dec = func(b []byte) (*types.WorkObjectHeader, error) {
		ph := new(types.ProtoWorkObjectHeader)
		if err := proto.Unmarshal(b, ph); err != nil {
			return nil, err
		}
		h := new(types.WorkObjectHeader)
		return h, h.ProtoDecode(ph, loc)
	}
	j := base
	j.path = "json"
	j.cpy = nil
	j.diff = func(a, b *types.WorkObjectHeader) dif { return dWoHeader(a, b, optJSON) }
	j.enc = func(h *types.WorkObjectHeader) ([]byte, error) { return h.MarshalJSON() }
	j.dec = func(b []byte) (*types.WorkObjectHeader, error) {
		h := new(types.WorkObjectHeader)
		return h, h.UnmarshalJSON(b)
	}
	r := j
	r.path = "rpc"
	r.enc = func(h *types.WorkObjectHeader) ([]byte, error) {
		return json.Marshal(h.RPCMarshalWorkObjectHeader("v2"))
	}
	return []codec[*types.WorkObjectHeader]{p, j, r}
}

// ---------------------------------------------------------------- WorkObject views

func woHash(wo *types.WorkObject) []byte {
	h := append([]byte{}, whHash(wo.WorkObjectHeader())...)
	if wo.Body() != nil && wo.Body().Header() != nil {
		if p, _ := guard(func() { h = append(h, wo.Body().Header().Hash().Bytes()...) }); p != nil {
			h = append(h, []byte("body.header.Hash() panics")...)
		}
	}
	return h
}

func woDesc(view types.WorkObjectView) func(wo *types.WorkObject) any {
	return func(wo *types.WorkObject) any {
		b, _ := pbBytes(wo.ProtoEncode(view))
		return map[string]any{"proto": capHex(b), "view": int(view)}
	}
}

func woProto(loc common.Location, name string, view types.WorkObjectView, parts woParts) codec[*types.WorkObject] {
	return codec[*types.WorkObject]{typ: "WorkObject/" + name, path: "proto", loc: loc,
		enc: func(wo *types.WorkObject) ([]byte, error) { return pbBytes(wo.ProtoEncode(view)) },
		dec: func(b []byte) (*types.WorkObject, error) {
			p := new(types.ProtoWorkObject)
			if err := proto.Unmarshal(b, p); err != nil {
				return nil, err
			}
			wo := new(types.WorkObject)
			return wo, wo.ProtoDecode(p, loc, view)
		},
		diff: func(a, b *types.WorkObject) dif { return dWo(a, b, parts, optPB) },
		hash: woHash, hashName: "woHeader.Hash||SealHash||body.header.Hash",
		cpy:  types.CopyWorkObject,
		desc: woDesc(view),
		pmsg: func() proto.Message { return new(types.ProtoWorkObject) },
	}
}

func woJSON(loc common.Location, rpc bool) codec[*types.WorkObject] {
	cd := woProto(loc, "Block", types.BlockObject, partsBlock)
	cd.path = "json"
	cd.pmsg = nil
	cd.cpy = nil
	cd.diff = func(a, b *types.WorkObject) dif { return dWo(a, b, partsBlock, optJSON) }
	cd.enc = func(wo *types.WorkObject) ([]byte, error) { return wo.MarshalJSON() }
	if rpc {
		cd.path = "rpc"
		cd.enc = func(wo *types.WorkObject) ([]byte, error) { return json.Marshal(wo.RPCMarshalWorkObject("v2")) }
	}
	cd.dec = func(b []byte) (*types.WorkObject, error) {
		wo := new(types.WorkObject)
		return wo, wo.UnmarshalJSON(b)
	}
	return cd
}

// ---------------------------------------------------------------- the check

func TestC14(t *testing.T) {
	m := mon.New(t, "C14", "codec")
	defer m.Finish()
	m.Rule("seed-driven well-formed objects of each type (built with the exported constructors/setters of core/types); for each object and each codec path that " +
		"exists for its type: encode 3x + encode(Copy) identical, decode succeeds, decoded == original field-wise through accessors, Hash()/SealHash identical " +
		"before/after and fresh-vs-decoded, encode(decode(b)) == b; plus single-field mutations must change the hash that commits to the field. " +
		"class = (type, path); distinct = distinct encodings")
	m.Assume("absent and empty are the same value where the type documents it (TxOut.Lock nil == 0, Data/AccessList nil == empty, BlockManifest/Hashes nil == empty)",
		"before the KawPow fork the share-target/diff-and-count/AuxPow fields are not part of a WorkObjectHeader (neither wire format nor hashes carry them)",
		"a WorkObjectHeader with AuxPow (post fork) is identified by the AuxPow (Hash) while SealHash commits to every other consensus field except nonce/mixHash",
		"internal/external classification of an address is compared only on protobuf paths decoded at the location the object was built for (RLP/JSON decode at a fixed location by design)",
		"rawdb deliberately does not store WorkObject.tx")
	logger := log.NewLogger("nodelogs/c14.log", "error", 100)
	logger.ExitFunc = func(code int) { panic(fmt.Sprintf("logger.Fatal (os.Exit(%d))", code)) }
	c := &ctx{m: m, g: newGen(m.Rand("gen")), logger: logger, seen: map[string]string{}}

	n := m.N(1000, 50000) // rounds; one round builds ~20 objects
	for i := 0; i < n; i++ {
		c.caseNo = i
		c.round(i)
		if m.Violations() >= 38 {
			break
		}
	}
	mutRounds := m.N(400, 20000)
	rm := m.Rand("mut")
	gm := newGen(rm)
	for i := 0; i < mutRounds; i++ {
		c.caseNo = i
		c.mutations(gm)
	}
	m.Floor(int64(n)*15, 40)
	m.Need("QuaiTx:proto", "QiTx:proto", "ExternalTx:proto", "QuaiTx:rlp", "QiTx:rlp", "ExternalTx:rlp", "QuaiTx:json", "ExternalTx:json",
		"Header:proto", "Header:rpc", "WorkObjectHeader:proto", "WorkObjectHeader:rpc",
		"WorkObject/Block:proto", "WorkObject/Header:proto", "WorkObject/Share:proto", "WorkObject/PEtx:proto", "WorkObject/Block:rawdb",
		"Receipt:rlp", "ReceiptForStorage:proto", "Receipts:rawdb", "TxOut:proto", "TxIn:proto", "UtxoEntry:proto", "UtxoEntry:rawdb",
		"Termini:proto", "Termini:rawdb", "PendingEtxs:proto", "PendingEtxs:rawdb", "PendingEtxsRollup:proto", "PendingEtxsRollup:rawdb",
		"Manifest:proto", "AuxPow:proto", "AuxTemplate:proto", "Request:p2p", "Response/Block:p2p", "Response/Header:p2p", "Response/Blocks:p2p",
		"Gossip/Block:p2p", "Gossip/Header:p2p", "Gossip/Share:p2p", "Header:mutate", "WorkObjectHeader:mutate", "QuaiTx:mutate", "QiTx:mutate", "ExternalTx:mutate")
}

func (c *ctx) round(i int) {
	g := c.g
	loc := g.zoneLoc()

	// ---- transactions (leaf level, incl. the rarer legal shapes)
	var jsonSafe types.Transactions
	q := g.quaiTx(loc)
	if c.txAll(q, loc, "") {
		jsonSafe = append(jsonSafe, q)
	}
	qi := g.qiTx(loc, qiOpt{})
	if c.txAll(qi, loc, "") {
		jsonSafe = append(jsonSafe, qi)
	}
	e := g.etx(loc, uint64(i%(types.UnwrapQiType+1)))
	if c.txAll(e, loc, "") {
		jsonSafe = append(jsonSafe, e)
	}
	if i%4 == 0 {
		c.txAll(g.qiTx(loc, qiOpt{nilLock: true}), loc, "/nilLock")
	}
	if i%4 == 1 {
		c.txAll(g.qiTx(loc, qiOpt{compressedKeys: true}), loc, "/compressedKey")
	}

	// ---- header
	h := g.header()
	for _, cd := range hdrCodecs(loc) {
		run(c, cd, types.CopyHeader(h))
	}

	// ---- work object header
	whLoc := loc
	if i%7 == 0 {
		whLoc = g.anyLoc()
	}
	wh := g.woHeader(whLoc)
	whJSON := true
	for _, cd := range whCodecs(whLoc) {
		_, ok := run(c, cd, types.CopyWorkObjectHeader(wh))
		if cd.path != "proto" && !ok {
			whJSON = false
		}
	}
	// ---- work object views
	blk := g.block(loc)
	run(c, woProto(loc, "Block", types.BlockObject, partsBlock), types.CopyWorkObject(blk))
	hv := blk.ConvertToHeaderView()
	run(c, codec[*types.WorkObject]{typ: "WorkObject/Header", path: "proto", loc: loc,
		enc: func(wo *types.WorkObject) ([]byte, error) {
			return pbBytes((&types.WorkObjectHeaderView{WorkObject: wo}).ProtoEncode())
		},
		dec: func(b []byte) (*types.WorkObject, error) {
			p := new(types.ProtoWorkObjectHeaderView)
			if err := proto.Unmarshal(b, p); err != nil {
				return nil, err
			}
			v := new(types.WorkObjectHeaderView)
			err := v.ProtoDecode(p, loc)
			return v.WorkObject, err
		},
		diff: func(a, b *types.WorkObject) dif { return dWo(a, b, partsBlock, optPB) },
		hash: woHash, hashName: "woHeader.Hash||SealHash||body.header.Hash", cpy: types.CopyWorkObject, desc: woDesc(types.HeaderObject),
	}, hv.WorkObject)
	sv := blk.ConvertToWorkObjectShareView(blk.Transactions())
	run(c, codec[*types.WorkObject]{typ: "WorkObject/Share", path: "proto", loc: loc,
		enc: func(wo *types.WorkObject) ([]byte, error) {
			return pbBytes((&types.WorkObjectShareView{WorkObject: wo}).ProtoEncode())
		},
		dec: func(b []byte) (*types.WorkObject, error) {
			p := new(types.ProtoWorkObjectShareView)
			if err := proto.Unmarshal(b, p); err != nil {
				return nil, err
			}
			v := new(types.WorkObjectShareView)
			err := v.ProtoDecode(p, loc)
			return v.WorkObject, err
		},
		diff: func(a, b *types.WorkObject) dif { return dWo(a, b, partsShare, optPB) },
		hash: woHash, hashName: "woHeader.Hash||SealHash||body.header.Hash", cpy: types.CopyWorkObject, desc: woDesc(types.WorkShareTxObject),
	}, sv.WorkObject)
	if i%10 == 3 {
		// a share view without body header: the encoder has an explicit branch for it
		x := types.CopyWorkObject(sv.WorkObject)
		x.Body().SetHeader(nil)
		cd := woProto(loc, "Share-noBodyHeader", types.WorkShareTxObject, partsShare)
		cd.sigTyp = "WorkObject/Share"
		cd.cpy = nil
		run(c, cd, x)
	}
	pv := blk.ConvertToPEtxView()
	run(c, woProto(loc, "PEtx", types.PEtxObject, partsPEtx), pv)

	// JSON / RPC of a block: only with components whose own JSON trip is clean (no cascades)
	if i%2 == 0 {
		var jsonEtxs types.Transactions
		for _, x := range blk.OutboundEtxs() {
			cd := txJSON(loc)
			cd.typ = "ExternalTx"
			if _, ok := run(c, cd, types.NewTx(x.Inner())); ok {
				jsonEtxs = append(jsonEtxs, x)
			}
		}
		jb := types.NewWorkObject(blk.WorkObjectHeader(), types.NewWoBody(blk.Header(), jsonSafe, jsonEtxs, blk.Uncles(), blk.Manifest(), blk.InterlinkHashes()), nil)
		okp := map[string]bool{"json": true, "rpc": true}
		for _, cd := range whCodecs(loc)[1:] {
			if _, ok := run(c, cd, types.CopyWorkObjectHeader(jb.WorkObjectHeader())); !ok {
				okp[cd.path] = false
			}
		}
		for _, cd := range hdrCodecs(loc)[1:] {
			if _, ok := run(c, cd, types.CopyHeader(jb.Header())); !ok {
				okp[cd.path] = false
			}
		}
		for _, rpc := range []bool{false, true} {
			cd := woJSON(loc, rpc)
			if okp[cd.path] {
				run(c, cd, types.CopyWorkObject(jb))
			} else {
				c.m.AddExtra("workobject_"+cd.path+"_skipped_component_not_clean", 1)
			}
		}
	}
	_ = whJSON

	// ---- pending header
	ph := types.NewPendingHeader(blk, g.termini())
	run(c, codec[types.PendingHeader]{typ: "PendingHeader", path: "proto", loc: loc, pmsg: func() proto.Message { return new(types.ProtoPendingHeader) },
		enc: func(p types.PendingHeader) ([]byte, error) { return pbBytes(p.ProtoEncode()) },
		dec: func(b []byte) (types.PendingHeader, error) {
			pp := new(types.ProtoPendingHeader)
			if err := proto.Unmarshal(b, pp); err != nil {
				return types.PendingHeader{}, err
			}
			var out types.PendingHeader
			err := out.ProtoDecode(pp, loc)
			return out, err
		},
		diff: func(a, b types.PendingHeader) dif {
			if d := dWo(a.WorkObject(), b.WorkObject(), partsBlock, optPB); !d.ok() {
				return d
			}
			return dTermini(a.Termini(), b.Termini())
		},
		hash: func(p types.PendingHeader) []byte { return woHash(p.WorkObject()) }, hashName: "wo hashes",
		cpy: func(p types.PendingHeader) types.PendingHeader { return *types.CopyPendingHeader(&p) },
	}, ph)

	// ---- receipts
	c.receipts(loc)
	// ---- utxo level
	c.utxos(loc)
	// ---- termini, manifests, pending etxs
	c.small(loc, blk)
	// ---- aux pow / template
	c.aux()
	// ---- rawdb
	c.rawdb(loc, blk)
	// ---- p2p
	c.p2p(loc, blk)

	if i < 2 {
		b, _ := pbBytes(blk.ProtoEncode(types.BlockObject))
		c.m.Sample(map[string]any{"round": i, "location": []byte(loc), "block_proto_bytes": len(b), "block_hash": blk.Hash().Hex(),
			"txs": len(blk.Transactions()), "uncles": len(blk.Uncles()), "quaiTx_hash": q.Hash().Hex()})
	}
}

// ---------------------------------------------------------------- receipts

func (c *ctx) receipts(loc common.Location) {
	g := c.g
	rs := types.Receipts{g.receipt(loc)}
	for i := 0; i < g.r.Intn(3); i++ {
		rs = append(rs, g.receipt(loc))
	}
	for _, r := range rs {
		c.receiptLeaf(loc, r)
	}
	// rawdb: a block's receipts
	db := c.db(loc)
	hash, num := g.hashNZ(), g.u64()
	run(c, codec[types.Receipts]{typ: "Receipts", path: "rawdb", loc: loc,
		enc: func(rs types.Receipts) ([]byte, error) {
			rawdb.WriteReceipts(db, hash, num, rs)
			return rawdb.ReadReceiptsProto(db, hash, num), nil
		},
		dec: func(b []byte) (types.Receipts, error) {
			out := rawdb.ReadRawReceipts(db, hash, num)
			if out == nil {
				return nil, errors.New("ReadRawReceipts returned nil")
			}
			return out, nil
		},
		diff: func(a, b types.Receipts) dif {
			if len(a) != len(b) {
				return mk("Receipts", "length", "%d -> %d", len(a), len(b))
			}
			for i := range a {
				if d := dReceipt("ReceiptForStorage", a[i], b[i], true, optPB); !d.ok() {
					return d
				}
			}
			return dif{}
		},
	}, rs)
}

func (c *ctx) receiptLeaf(loc common.Location, r *types.Receipt) {
	desc := func(r *types.Receipt) any {
		b, _ := pbBytes((*types.ReceiptForStorage)(r).ProtoEncode())
		return map[string]any{"storage_proto": capHex(b), "status": r.Status, "type": r.Type, "postState": mon.Hex(r.PostState), "nLogs": len(r.Logs), "nEtxs": len(r.OutboundEtxs)}
	}
	cpR := func(r *types.Receipt) *types.Receipt { x := *r; return &x }
	run(c, codec[*types.Receipt]{typ: "Receipt", path: "rlp", loc: loc, desc: desc,
		enc: func(r *types.Receipt) ([]byte, error) { return rlp.EncodeToBytes(r) },
		dec: func(b []byte) (*types.Receipt, error) {
			out := new(types.Receipt)
			return out, rlp.DecodeBytes(b, out)
		},
		diff: func(a, b *types.Receipt) dif { return dReceipt("Receipt", a, b, false, optRLP) },
	}, cpR(r))
	run(c, codec[*types.Receipt]{typ: "ReceiptForStorage", path: "proto", loc: loc, desc: desc, pmsg: func() proto.Message { return new(types.ProtoReceiptForStorage) },
		enc: func(r *types.Receipt) ([]byte, error) { return pbBytes((*types.ReceiptForStorage)(r).ProtoEncode()) },
		dec: func(b []byte) (*types.Receipt, error) {
			p := new(types.ProtoReceiptForStorage)
			if err := proto.Unmarshal(b, p); err != nil {
				return nil, err
			}
			out := new(types.ReceiptForStorage)
			err := out.ProtoDecode(p, loc)
			return (*types.Receipt)(out), err
		},
		diff: func(a, b *types.Receipt) dif { return dReceipt("ReceiptForStorage", a, b, true, optPB) },
	}, cpR(r))
	run(c, codec[*types.Receipt]{typ: "ReceiptForStorage", path: "rlp", loc: loc, desc: desc,
		enc: func(r *types.Receipt) ([]byte, error) { return rlp.EncodeToBytes((*types.ReceiptForStorage)(r)) },
		dec: func(b []byte) (*types.Receipt, error) {
			out := new(types.ReceiptForStorage)
			err := rlp.DecodeBytes(b, out)
			return (*types.Receipt)(out), err
		},
		diff: func(a, b *types.Receipt) dif { return dReceipt("ReceiptForStorage", a, b, true, optRLP) },
	}, cpR(r))
	run(c, codec[*types.Receipt]{typ: "Receipt", path: "json", loc: loc, desc: desc,
		enc: func(r *types.Receipt) ([]byte, error) { return r.MarshalJSON() },
		dec: func(b []byte) (*types.Receipt, error) {
			out := new(types.Receipt)
			return out, out.UnmarshalJSON(b)
		},
		diff: func(a, b *types.Receipt) dif {
			if d := dReceipt("Receipt", a, b, true, optJSON); !d.ok() {
				return d
			}
			return first(dU64("Receipt", "type", uint64(a.Type), uint64(b.Type)), dU64("Receipt", "status", a.Status, b.Status))
		},
	}, cpR(r))
}

// ---------------------------------------------------------------- utxo-level types

func (c *ctx) utxos(loc common.Location) {
	g := c.g
	// TxOut
	out := g.txOut(loc, true)
	run(c, codec[types.TxOut]{typ: "TxOut", path: "proto", loc: loc, pmsg: func() proto.Message { return new(types.ProtoTxOut) },
		enc: func(o types.TxOut) ([]byte, error) { return pbBytes(o.ProtoEncode()) },
		dec: func(b []byte) (types.TxOut, error) {
			p := new(types.ProtoTxOut)
			if err := proto.Unmarshal(b, p); err != nil {
				return types.TxOut{}, err
			}
			var o types.TxOut
			return o, o.ProtoDecode(p)
		},
		diff: func(a, b types.TxOut) dif { return dTxOut("TxOut", a, b) },
		desc: func(o types.TxOut) any {
			return map[string]any{"denomination": o.Denomination, "address": mon.Hex(o.Address), "lock": bigS(o.Lock)}
		},
	}, out)
	run(c, codec[types.TxOut]{typ: "TxOut", path: "rlp", loc: loc,
		enc: func(o types.TxOut) ([]byte, error) { return rlp.EncodeToBytes(o) },
		dec: func(b []byte) (types.TxOut, error) {
			var o types.TxOut
			return o, rlp.DecodeBytes(b, &o)
		},
		diff: func(a, b types.TxOut) dif { return dTxOut("TxOut", a, b) },
	}, out)
	// TxIn (uncompressed key, the canonical in-memory form)
	in := g.txIn(false)
	inDesc := func(i types.TxIn) any {
		return map[string]any{"txHash": i.PreviousOutPoint.TxHash.Hex(), "index": i.PreviousOutPoint.Index, "pubKey": mon.Hex(i.PubKey)}
	}
	run(c, codec[types.TxIn]{typ: "TxIn", path: "proto", loc: loc, pmsg: func() proto.Message { return new(types.ProtoTxIn) }, desc: inDesc,
		enc: func(i types.TxIn) ([]byte, error) { return pbBytes(i.ProtoEncode()) },
		dec: func(b []byte) (types.TxIn, error) {
			p := new(types.ProtoTxIn)
			if err := proto.Unmarshal(b, p); err != nil {
				return types.TxIn{}, err
			}
			var i types.TxIn
			return i, i.ProtoDecode(p)
		},
		diff: func(a, b types.TxIn) dif { return dTxIn("TxIn", a, b, cmpOpt{pubKeyForm: true}) },
	}, in)
	run(c, codec[types.TxIn]{typ: "TxIn", path: "rlp", loc: loc, desc: inDesc,
		enc: func(i types.TxIn) ([]byte, error) { return rlp.EncodeToBytes(i) },
		dec: func(b []byte) (types.TxIn, error) {
			var i types.TxIn
			return i, rlp.DecodeBytes(b, &i)
		},
		diff: func(a, b types.TxIn) dif { return dTxIn("TxIn", a, b, cmpOpt{pubKeyForm: true}) },
	}, in)
	// UtxoEntry: proto, rlp, rawdb; identity = UTXOHash
	u := g.utxo(loc)
	txh, idx := g.hashNZ(), g.u16()
	uDiff := func(a, b *types.UtxoEntry) dif {
		return first(dU64("UtxoEntry", "denomination", uint64(a.Denomination), uint64(b.Denomination)),
			dBytes("UtxoEntry", "address", a.Address, b.Address), dBigN("UtxoEntry", "lock", a.Lock, b.Lock))
	}
	uHash := func(u *types.UtxoEntry) []byte { return types.UTXOHash(txh, idx, u).Bytes() }
	uDesc := func(u *types.UtxoEntry) any {
		return map[string]any{"denomination": u.Denomination, "address": mon.Hex(u.Address), "lock": bigS(u.Lock)}
	}
	run(c, codec[*types.UtxoEntry]{typ: "UtxoEntry", path: "proto", loc: loc, pmsg: func() proto.Message { return new(types.ProtoTxOut) }, diff: uDiff, hash: uHash, hashName: "UTXOHash", desc: uDesc,
		enc: func(u *types.UtxoEntry) ([]byte, error) { return pbBytes(u.ProtoEncode()) },
		dec: func(b []byte) (*types.UtxoEntry, error) {
			p := new(types.ProtoTxOut)
			if err := proto.Unmarshal(b, p); err != nil {
				return nil, err
			}
			o := new(types.UtxoEntry)
			return o, o.ProtoDecode(p)
		},
	}, u)
	run(c, codec[*types.UtxoEntry]{typ: "UtxoEntry", path: "rlp", loc: loc, diff: uDiff, hash: uHash, hashName: "UTXOHash", desc: uDesc,
		enc: func(u *types.UtxoEntry) ([]byte, error) { return rlp.EncodeToBytes(u) },
		dec: func(b []byte) (*types.UtxoEntry, error) {
			o := new(types.UtxoEntry)
			return o, rlp.DecodeBytes(b, o)
		},
	}, u)
	db := c.db(loc)
	run(c, codec[*types.UtxoEntry]{typ: "UtxoEntry", path: "rawdb", loc: loc, diff: uDiff, hash: uHash, hashName: "UTXOHash", desc: uDesc,
		enc: func(u *types.UtxoEntry) ([]byte, error) {
			if err := rawdb.CreateUTXO(db, txh, idx, u); err != nil {
				return nil, err
			}
			return db.Get(rawdb.UtxoKey(txh, idx))
		},
		dec: func(b []byte) (*types.UtxoEntry, error) {
			o := rawdb.GetUTXO(db, txh, idx)
			if o == nil {
				return nil, errors.New("GetUTXO returned nil")
			}
			return o, nil
		},
	}, u)
	// spent utxos (OutPoint + entry)
	var sp []*types.SpentUtxoEntry
	for i := 0; i < 1+g.r.Intn(3); i++ {
		sp = append(sp, &types.SpentUtxoEntry{OutPoint: types.OutPoint{TxHash: g.hash(), Index: g.u16()}, UtxoEntry: g.utxo(loc)})
	}
	bh := g.hashNZ()
	run(c, codec[[]*types.SpentUtxoEntry]{typ: "SpentUtxoEntries", path: "rawdb", loc: loc,
		enc: func(s []*types.SpentUtxoEntry) ([]byte, error) {
			if err := rawdb.WriteSpentUTXOs(db, bh, s); err != nil {
				return nil, err
			}
			return []byte(fmt.Sprint(len(s))), nil
		},
		dec:     func(b []byte) ([]*types.SpentUtxoEntry, error) { return rawdb.ReadSpentUTXOs(db, bh) },
		noReenc: true,
		diff: func(a, b []*types.SpentUtxoEntry) dif {
			if len(a) != len(b) {
				return mk("SpentUtxoEntries", "length", "%d -> %d", len(a), len(b))
			}
			for i := range a {
				if a[i].TxHash != b[i].TxHash || a[i].Index != b[i].Index {
					return mk("SpentUtxoEntry", "outpoint", "entry %d outpoint differs", i)
				}
				if d := uDiff(a[i].UtxoEntry, b[i].UtxoEntry); !d.ok() {
					return d
				}
			}
			return dif{}
		},
	}, sp)
	// OutpointAndDenomination
	od := types.OutpointAndDenomination{TxHash: g.hash(), Index: g.u16(), Denomination: uint8(g.r.Intn(types.MaxDenomination + 1))}
	if g.r.Intn(3) > 0 {
		od.Lock = g.big(64)
	}
	run(c, codec[types.OutpointAndDenomination]{typ: "OutpointAndDenomination", path: "proto", loc: loc, pmsg: func() proto.Message { return new(types.ProtoOutPointAndDenomination) },
		enc: func(o types.OutpointAndDenomination) ([]byte, error) { return pbBytes(o.ProtoEncode()) },
		dec: func(b []byte) (types.OutpointAndDenomination, error) {
			p := new(types.ProtoOutPointAndDenomination)
			if err := proto.Unmarshal(b, p); err != nil {
				return types.OutpointAndDenomination{}, err
			}
			var o types.OutpointAndDenomination
			return o, o.ProtoDecode(p)
		},
		diff: func(a, b types.OutpointAndDenomination) dif {
			const L = "OutpointAndDenomination"
			return first(dHash(L, "txHash", a.TxHash, b.TxHash), dU64(L, "index", uint64(a.Index), uint64(b.Index)),
				dU64(L, "denomination", uint64(a.Denomination), uint64(b.Denomination)), dBigN(L, "lock", a.Lock, b.Lock))
		},
	}, od)
}

// ---------------------------------------------------------------- termini, manifest, pending etxs

func terminiCodecs() []codec[types.Termini] {
	base := codec[types.Termini]{typ: "Termini", diff: dTermini, cpy: types.CopyTermini,
		desc: func(t types.Termini) any {
			b, _ := proto.Marshal(t.ProtoEncode())
			return map[string]any{"proto": capHex(b)}
		}}
	p := base
	p.path = "proto"
	p.pmsg = func() proto.Message { return new(types.ProtoTermini) }
	p.enc = func(t types.Termini) ([]byte, error) { return proto.Marshal(t.ProtoEncode()) }
	p.dec = func(b []byte) (types.Termini, error) {
		pt := new(types.ProtoTermini)
		if err := proto.Unmarshal(b, pt); err != nil {
			return types.Termini{}, err
		}
		var t types.Termini
		return t, t.ProtoDecode(pt)
	}
	j := base
	j.path = "json"
	j.enc = func(t types.Termini) ([]byte, error) { return t.MarshalJSON() }
	j.dec = func(b []byte) (types.Termini, error) {
		var t types.Termini
		return t, t.UnmarshalJSON(b)
	}
	r := j
	r.path = "rpc"
	r.enc = func(t types.Termini) ([]byte, error) { return json.Marshal(t.RPCMarshalTermini()) }
	return []codec[types.Termini]{p, j, r}
}

func dPetx(L string, ah, bh *types.WorkObject, ae, be types.Transactions) dif {
	if d := dWo(ah, bh, partsPEtx, optPB); !d.ok() {
		return d
	}
	return relabel(dTxs("etxs", ae, be, optPB), L)
}

func (c *ctx) small(loc common.Location, blk *types.WorkObject) {
	g := c.g
	t := g.termini()
	for _, cd := range terminiCodecs() {
		cd.loc = loc
		run(c, cd, t)
	}
	mf := g.manifest(5)
	run(c, codec[types.BlockManifest]{typ: "Manifest", path: "proto", loc: loc, pmsg: func() proto.Message { return new(types.ProtoManifest) },
		enc: func(m types.BlockManifest) ([]byte, error) { return pbBytes(m.ProtoEncode()) },
		dec: func(b []byte) (types.BlockManifest, error) {
			p := new(types.ProtoManifest)
			if err := proto.Unmarshal(b, p); err != nil {
				return nil, err
			}
			m := types.BlockManifest{}
			return m, m.ProtoDecode(p)
		},
		diff: func(a, b types.BlockManifest) dif {
			if len(a) != len(b) {
				return mk("Manifest", "length", "%d -> %d", len(a), len(b))
			}
			for i := range a {
				if a[i] != b[i] {
					return mk("Manifest", "hash", "entry %d differs", i)
				}
			}
			return dif{}
		},
	}, mf)
	hs := g.hashes(5)
	run(c, codec[common.Hashes]{typ: "Hashes", path: "proto", loc: loc,
		enc: func(m common.Hashes) ([]byte, error) { return proto.Marshal(m.ProtoEncode()) },
		dec: func(b []byte) (common.Hashes, error) {
			p := new(common.ProtoHashes)
			if err := proto.Unmarshal(b, p); err != nil {
				return nil, err
			}
			m := common.Hashes{}
			m.ProtoDecode(p)
			return m, nil
		},
		diff: func(a, b common.Hashes) dif {
			if len(a) != len(b) {
				return mk("Hashes", "length", "%d -> %d", len(a), len(b))
			}
			for i := range a {
				if a[i] != b[i] {
					return mk("Hashes", "hash", "entry %d differs", i)
				}
			}
			return dif{}
		},
	}, hs)

	pe := types.PendingEtxs{Header: blk.ConvertToPEtxView(), OutboundEtxs: g.etxs(loc, 4)}
	run(c, codec[types.PendingEtxs]{typ: "PendingEtxs", path: "proto", loc: loc, pmsg: func() proto.Message { return new(types.ProtoPendingEtxs) },
		enc: func(p types.PendingEtxs) ([]byte, error) { return pbBytes(p.ProtoEncode()) },
		dec: func(b []byte) (types.PendingEtxs, error) {
			pp := new(types.ProtoPendingEtxs)
			if err := proto.Unmarshal(b, pp); err != nil {
				return types.PendingEtxs{}, err
			}
			var out types.PendingEtxs
			return out, out.ProtoDecode(pp, loc)
		},
		diff: func(a, b types.PendingEtxs) dif {
			return dPetx("PendingEtxs", a.Header, b.Header, a.OutboundEtxs, b.OutboundEtxs)
		},
		hash: func(p types.PendingEtxs) []byte { return woHash(p.Header) }, hashName: "header hashes",
	}, pe)
	pr := types.PendingEtxsRollup{Header: blk.ConvertToPEtxView(), EtxsRollup: g.etxs(loc, 4)}
	run(c, codec[types.PendingEtxsRollup]{typ: "PendingEtxsRollup", path: "proto", loc: loc, pmsg: func() proto.Message { return new(types.ProtoPendingEtxsRollup) },
		enc: func(p types.PendingEtxsRollup) ([]byte, error) { return pbBytes(p.ProtoEncode()) },
		dec: func(b []byte) (types.PendingEtxsRollup, error) {
			pp := new(types.ProtoPendingEtxsRollup)
			if err := proto.Unmarshal(b, pp); err != nil {
				return types.PendingEtxsRollup{}, err
			}
			var out types.PendingEtxsRollup
			return out, out.ProtoDecode(pp, loc)
		},
		diff: func(a, b types.PendingEtxsRollup) dif {
			return dPetx("PendingEtxsRollup", a.Header, b.Header, a.EtxsRollup, b.EtxsRollup)
		},
		hash: func(p types.PendingEtxsRollup) []byte { return woHash(p.Header) }, hashName: "header hashes",
	}, pr)

	// rawdb for the same objects
	db := c.db(loc)
	run(c, codec[types.PendingEtxs]{typ: "PendingEtxs", path: "rawdb", loc: loc,
		enc: func(p types.PendingEtxs) ([]byte, error) {
			rawdb.WritePendingEtxs(db, p)
			return rawdb.ReadPendingEtxsProto(db, p.Header.Hash()), nil
		},
		dec: func(b []byte) (types.PendingEtxs, error) {
			out := rawdb.ReadPendingEtxs(db, pe.Header.Hash())
			if out == nil {
				return types.PendingEtxs{}, errors.New("ReadPendingEtxs under the written header's hash returned nil")
			}
			return *out, nil
		},
		diff: func(a, b types.PendingEtxs) dif {
			return dPetx("PendingEtxs", a.Header, b.Header, a.OutboundEtxs, b.OutboundEtxs)
		},
		hash: func(p types.PendingEtxs) []byte { return woHash(p.Header) }, hashName: "header hashes",
	}, pe)
	run(c, codec[types.PendingEtxsRollup]{typ: "PendingEtxsRollup", path: "rawdb", loc: loc, noReenc: true,
		enc: func(p types.PendingEtxsRollup) ([]byte, error) {
			rawdb.WritePendingEtxsRollup(db, p)
			return pbBytes(p.ProtoEncode())
		},
		dec: func(b []byte) (types.PendingEtxsRollup, error) {
			out := rawdb.ReadPendingEtxsRollup(db, pr.Header.Hash())
			if out == nil {
				return types.PendingEtxsRollup{}, errors.New("ReadPendingEtxsRollup under the written header's hash returned nil")
			}
			return *out, nil
		},
		diff: func(a, b types.PendingEtxsRollup) dif {
			return dPetx("PendingEtxsRollup", a.Header, b.Header, a.EtxsRollup, b.EtxsRollup)
		},
		hash: func(p types.PendingEtxsRollup) []byte { return woHash(p.Header) }, hashName: "header hashes",
	}, pr)
	tk := g.hashNZ()
	run(c, codec[types.Termini]{typ: "Termini", path: "rawdb", loc: loc, diff: dTermini, noReenc: true,
		enc: func(t types.Termini) ([]byte, error) {
			rawdb.WriteTermini(db, tk, t)
			return proto.Marshal(t.ProtoEncode())
		},
		dec: func(b []byte) (types.Termini, error) {
			out := rawdb.ReadTermini(db, tk)
			if out == nil {
				return types.Termini{}, errors.New("ReadTermini returned nil")
			}
			return *out, nil
		},
	}, t)
	if len(mf) > 0 {
		run(c, codec[types.BlockManifest]{typ: "Manifest", path: "rawdb", loc: loc, noReenc: true,
			enc: func(m types.BlockManifest) ([]byte, error) {
				rawdb.WriteManifest(db, tk, m)
				return pbBytes(m.ProtoEncode())
			},
			dec: func(b []byte) (types.BlockManifest, error) {
				out := rawdb.ReadManifest(db, tk)
				if out == nil {
					return nil, errors.New("ReadManifest returned nil")
				}
				return out, nil
			},
			diff: func(a, b types.BlockManifest) dif {
				if len(a) != len(b) {
					return mk("Manifest", "length", "%d -> %d", len(a), len(b))
				}
				for i := range a {
					if a[i] != b[i] {
						return mk("Manifest", "hash", "entry %d differs", i)
					}
				}
				return dif{}
			},
		}, mf)
	}
	if len(hs) > 0 {
		run(c, codec[common.Hashes]{typ: "Hashes", path: "rawdb", loc: loc, noReenc: true,
			enc: func(m common.Hashes) ([]byte, error) {
				rawdb.WriteInterlinkHashes(db, tk, m)
				return proto.Marshal(m.ProtoEncode())
			},
			dec: func(b []byte) (common.Hashes, error) {
				out := rawdb.ReadInterlinkHashes(db, tk)
				if out == nil {
					return nil, errors.New("ReadInterlinkHashes returned nil")
				}
				return out, nil
			},
			diff: func(a, b common.Hashes) dif {
				if len(a) != len(b) {
					return mk("Hashes", "length", "%d -> %d", len(a), len(b))
				}
				for i := range a {
					if a[i] != b[i] {
						return mk("Hashes", "hash", "entry %d differs", i)
					}
				}
				return dif{}
			},
		}, hs)
	}
	ie := g.etxs(loc, 4)
	if len(ie) > 0 {
		run(c, codec[types.Transactions]{typ: "InboundEtxs", path: "rawdb", loc: loc, noReenc: true,
			enc: func(t types.Transactions) ([]byte, error) {
				rawdb.WriteInboundEtxs(db, tk, t)
				return pbBytes(t.ProtoEncode())
			},
			dec: func(b []byte) (types.Transactions, error) {
				out := rawdb.ReadInboundEtxs(db, tk)
				if out == nil {
					return nil, errors.New("ReadInboundEtxs returned nil")
				}
				return out, nil
			},
			diff: func(a, b types.Transactions) dif { return relabel(dTxs("inboundEtxs", a, b, optPB), "InboundEtxs") },
			hash: func(t types.Transactions) []byte {
				var h []byte
				for _, x := range t {
					h = append(h, x.Hash().Bytes()...)
				}
				return h
			}, hashName: "tx hashes",
		}, ie)
	}
}

// ---------------------------------------------------------------- AuxPow / AuxTemplate

func auxHash(a *types.AuxPow) []byte {
	b, _ := proto.Marshal(a.ProtoEncode())
	return b3(b)
}

func (c *ctx) aux() {
	g := c.g
	ap := g.auxPow(auxPowIDs[g.r.Intn(len(auxPowIDs))])
	desc := func(a *types.AuxPow) any {
		b, _ := proto.Marshal(a.ProtoEncode())
		return map[string]any{"proto": capHex(b), "powID": uint32(a.PowID())}
	}
	dec := func(b []byte) (*types.AuxPow, error) {
		p := new(types.ProtoAuxPow)
		if err := proto.Unmarshal(b, p); err != nil {
			return nil, err
		}
		a := new(types.AuxPow)
		return a, a.ProtoDecode(p)
	}
	run(c, codec[*types.AuxPow]{typ: "AuxPow", path: "proto", desc: desc, pmsg: func() proto.Message { return new(types.ProtoAuxPow) },
		enc:  func(a *types.AuxPow) ([]byte, error) { return proto.Marshal(a.ProtoEncode()) },
		dec:  dec,
		diff: dAuxPow, hash: auxHash, hashName: "blake3(proto) (WoCustomPowHash)", cpy: types.CopyAuxPow,
	}, ap)
	run(c, codec[*types.AuxPow]{typ: "AuxPow", path: "rpc", desc: desc,
		enc: func(a *types.AuxPow) ([]byte, error) { return json.Marshal(a.RPCMarshal()) },
		dec: func(b []byte) (*types.AuxPow, error) {
			a := new(types.AuxPow)
			return a, a.UnmarshalJSON(b)
		},
		diff: dAuxPow, hash: auxHash, hashName: "blake3(proto) (WoCustomPowHash)",
	}, ap)
	at := g.auxTemplate()
	run(c, codec[*types.AuxTemplate]{typ: "AuxTemplate", path: "proto", pmsg: func() proto.Message { return new(types.ProtoAuxTemplate) },
		enc: func(a *types.AuxTemplate) ([]byte, error) { return proto.Marshal(a.ProtoEncode()) },
		dec: func(b []byte) (*types.AuxTemplate, error) {
			p := new(types.ProtoAuxTemplate)
			if err := proto.Unmarshal(b, p); err != nil {
				return nil, err
			}
			a := new(types.AuxTemplate)
			return a, a.ProtoDecode(p)
		},
		diff: dAuxTemplate,
		hash: func(a *types.AuxTemplate) []byte { h := a.Hash(); return h[:] }, hashName: "Hash",
		desc: func(a *types.AuxTemplate) any {
			b, _ := proto.Marshal(a.ProtoEncode())
			return map[string]any{"proto": capHex(b)}
		},
	}, at)
	run(c, codec[*types.AuxTemplate]{typ: "AuxTemplate", path: "p2p", pmsg: func() proto.Message { return new(types.ProtoAuxTemplate) },
		enc: func(a *types.AuxTemplate) ([]byte, error) { return pb.ConvertAndMarshal(a) },
		dec: func(b []byte) (*types.AuxTemplate, error) {
			var out interface{}
			if err := pb.UnmarshalAndConvert(b, nil, &out, &types.AuxTemplate{}); err != nil {
				return nil, err
			}
			a, ok := out.(*types.AuxTemplate)
			if !ok {
				return nil, fmt.Errorf("UnmarshalAndConvert produced %T", out)
			}
			return a, nil
		},
		diff: dAuxTemplate,
		hash: func(a *types.AuxTemplate) []byte { h := a.Hash(); return h[:] }, hashName: "Hash",
	}, at)
}

// ---------------------------------------------------------------- rawdb work objects

func (c *ctx) rawdb(loc common.Location, blk *types.WorkObject) {
	db := c.db(loc)
	hash := blk.Hash()
	num := blk.NumberU64(common.ZONE_CTX)
	wrote := false
	write := func(wo *types.WorkObject) ([]byte, error) {
		if !wrote {
			rawdb.WriteWorkObject(db, hash, wo, types.BlockObject, common.ZONE_CTX)
			wrote = true
		}
		return pbBytes(wo.ProtoEncode(types.BlockObject))
	}
	base := codec[*types.WorkObject]{path: "rawdb", loc: loc, noReenc: true, enc: write,
		hash: woHash, hashName: "woHeader.Hash||SealHash||body.header.Hash", desc: woDesc(types.BlockObject)}
	full := base
	full.typ = "WorkObject/Block"
	full.dec = func(b []byte) (*types.WorkObject, error) {
		out := rawdb.ReadWorkObject(db, num, hash, types.BlockObject)
		if out == nil {
			return nil, errors.New("ReadWorkObject(number, Hash()) returned nil after WriteWorkObject")
		}
		return out, nil
	}
	full.diff = func(a, b *types.WorkObject) dif { return dWo(a, b, partsDbBlock, optPB) }
	run(c, full, blk)
	ho := base
	ho.typ = "WorkObject/HeaderOnly"
	ho.dec = func(b []byte) (*types.WorkObject, error) {
		out := rawdb.ReadWorkObjectHeaderOnly(db, num, hash, types.BlockObject)
		if out == nil {
			return nil, errors.New("ReadWorkObjectHeaderOnly returned nil")
		}
		return out, nil
	}
	ho.diff = func(a, b *types.WorkObject) dif { return dWo(a, b, partsPEtx, optPB) }
	run(c, ho, blk)
	ws := base
	ws.typ = "WorkObject/WithWorkShares"
	ws.dec = func(b []byte) (*types.WorkObject, error) {
		out := rawdb.ReadWorkObjectWithWorkShares(db, num, hash)
		if out == nil {
			return nil, errors.New("ReadWorkObjectWithWorkShares returned nil")
		}
		return out, nil
	}
	ws.diff = func(a, b *types.WorkObject) dif { return dWo(a, b, partsDbShare, optPB) }
	run(c, ws, blk)
	bp := base
	bp.typ = "WorkObject/BestPendingHeader"
	bp.enc = func(wo *types.WorkObject) ([]byte, error) {
		rawdb.WriteBestPendingHeader(db, wo)
		return pbBytes(wo.ProtoEncode(types.BlockObject))
	}
	bp.dec = func(b []byte) (*types.WorkObject, error) {
		out := rawdb.ReadBestPendingHeader(db)
		if out == nil {
			return nil, errors.New("ReadBestPendingHeader returned nil")
		}
		return out, nil
	}
	bp.diff = func(a, b *types.WorkObject) dif { return dWo(a, b, partsBlock, optPB) }
	run(c, bp, blk)
}

// ---------------------------------------------------------------- p2p envelopes

type p2pReq struct {
	id   uint32
	loc  common.Location
	data interface{} // common.Hash or *big.Int
	kind int         // 0 block, 1 blocks, 2 header, 3 hash
}

func reqType(kind int) interface{} {
	switch kind {
	case 0:
		return &types.WorkObjectBlockView{}
	case 1:
		return []*types.WorkObjectBlockView{}
	case 2:
		return &types.WorkObjectHeaderView{}
	default:
		return common.Hash{}
	}
}

func (c *ctx) p2p(loc common.Location, blk *types.WorkObject) {
	g := c.g
	rq := p2pReq{id: g.u32(), loc: g.anyLoc(), kind: g.r.Intn(4)}
	if g.r.Intn(2) == 0 {
		rq.data = g.hash()
	} else {
		rq.data = g.big(64)
	}
	run(c, codec[p2pReq]{typ: "Request", path: "p2p", loc: rq.loc,
		enc: func(r p2pReq) ([]byte, error) { return pb.EncodeQuaiRequest(r.id, r.loc, r.data, reqType(r.kind)) },
		dec: func(b []byte) (p2pReq, error) {
			msg, err := pb.DecodeQuaiMessage(b)
			if err != nil {
				return p2pReq{}, err
			}
			if msg.GetRequest() == nil {
				return p2pReq{}, errors.New("decoded QuaiMessage carries no request")
			}
			id, typ, l, data, err := pb.DecodeQuaiRequest(msg.GetRequest())
			if err != nil {
				return p2pReq{}, err
			}
			out := p2pReq{id: id, loc: l, kind: -1}
			switch typ.(type) {
			case *types.WorkObjectBlockView:
				out.kind = 0
			case []*types.WorkObjectBlockView:
				out.kind = 1
			case *types.WorkObjectHeaderView:
				out.kind = 2
			case *common.Hash:
				out.kind = 3
			}
			switch d := data.(type) {
			case *common.Hash:
				out.data = *d
			case *big.Int:
				out.data = d
			default:
				out.data = nil
			}
			return out, nil
		},
		diff: func(a, b p2pReq) dif {
			const L = "Request"
			if d := first(dU64(L, "id", uint64(a.id), uint64(b.id)), dBytes(L, "location", a.loc, b.loc), dU64(L, "requestType", uint64(a.kind), uint64(b.kind))); !d.ok() {
				return d
			}
			switch x := a.data.(type) {
			case common.Hash:
				y, ok := b.data.(common.Hash)
				if !ok || x != y {
					return mk(L, "data.hash", "%x -> %v", x, b.data)
				}
			case *big.Int:
				y, ok := b.data.(*big.Int)
				if !ok || x.Cmp(y) != 0 {
					return mk(L, "data.number", "%v -> %v", x, b.data)
				}
			}
			return dif{}
		},
		desc: func(r p2pReq) any {
			return map[string]any{"id": r.id, "location": []byte(r.loc), "data": fmt.Sprint(r.data), "kind": r.kind}
		},
	}, rq)

	id := g.u32()
	respDec := func(b []byte) (uint32, interface{}, error) {
		msg, err := pb.DecodeQuaiMessage(b)
		if err != nil {
			return 0, nil, err
		}
		if msg.GetResponse() == nil {
			return 0, nil, errors.New("decoded QuaiMessage carries no response")
		}
		return pb.DecodeQuaiResponse(msg.GetResponse())
	}
	idErr := func(got uint32) error {
		if got != id {
			return fmt.Errorf("response id changed")
		}
		return nil
	}
	base := codec[*types.WorkObject]{path: "p2p", loc: loc, hash: woHash, hashName: "woHeader.Hash||SealHash||body.header.Hash"}
	rb := base
	rb.typ, rb.desc = "Response/Block", woDesc(types.BlockObject)
	rb.enc = func(wo *types.WorkObject) ([]byte, error) {
		return pb.EncodeQuaiResponse(id, loc, &types.WorkObjectBlockView{}, wo.ConvertToBlockView())
	}
	rb.dec = func(b []byte) (*types.WorkObject, error) {
		gid, v, err := respDec(b)
		if err != nil {
			return nil, err
		}
		bv, ok := v.(*types.WorkObjectBlockView)
		if !ok {
			return nil, fmt.Errorf("decoded response is %T", v)
		}
		return bv.WorkObject, idErr(gid)
	}
	rb.diff = func(a, b *types.WorkObject) dif { return dWo(a, b, partsBlock, optPB) }
	run(c, rb, blk)
	rh := base
	rh.typ, rh.desc = "Response/Header", woDesc(types.HeaderObject)
	rh.enc = func(wo *types.WorkObject) ([]byte, error) {
		return pb.EncodeQuaiResponse(id, loc, &types.WorkObjectHeaderView{}, &types.WorkObjectHeaderView{WorkObject: wo})
	}
	rh.dec = func(b []byte) (*types.WorkObject, error) {
		gid, v, err := respDec(b)
		if err != nil {
			return nil, err
		}
		hv, ok := v.(*types.WorkObjectHeaderView)
		if !ok {
			return nil, fmt.Errorf("decoded response is %T", v)
		}
		return hv.WorkObject, idErr(gid)
	}
	rh.diff = func(a, b *types.WorkObject) dif { return dWo(a, b, partsBlock, optPB) }
	run(c, rh, blk.ConvertToHeaderView().WorkObject)

	// a list of blocks
	blks := []*types.WorkObject{blk}
	for i := 0; i < g.r.Intn(2); i++ {
		nb := g.block(loc)
		run(c, woProto(loc, "Block", types.BlockObject, partsBlock), types.CopyWorkObject(nb))
		blks = append(blks, nb)
	}
	run(c, codec[[]*types.WorkObject]{typ: "Response/Blocks", path: "p2p", loc: loc,
		enc: func(ws []*types.WorkObject) ([]byte, error) {
			vs := make([]*types.WorkObjectBlockView, len(ws))
			for i, w := range ws {
				vs[i] = w.ConvertToBlockView()
			}
			return pb.EncodeQuaiResponse(id, loc, []*types.WorkObjectBlockView{}, vs)
		},
		dec: func(b []byte) ([]*types.WorkObject, error) {
			gid, v, err := respDec(b)
			if err != nil {
				return nil, err
			}
			vs, ok := v.([]*types.WorkObjectBlockView)
			if !ok {
				return nil, fmt.Errorf("decoded response is %T", v)
			}
			out := make([]*types.WorkObject, len(vs))
			for i := range vs {
				out[i] = vs[i].WorkObject
			}
			return out, idErr(gid)
		},
		diff: func(a, b []*types.WorkObject) dif {
			if len(a) != len(b) {
				return mk("Response/Blocks", "length", "%d -> %d", len(a), len(b))
			}
			for i := range a {
				if d := dWo(a[i], b[i], partsBlock, optPB); !d.ok() {
					return d
				}
			}
			return dif{}
		},
		hash: func(ws []*types.WorkObject) []byte {
			var h []byte
			for _, w := range ws {
				h = append(h, woHash(w)...)
			}
			return h
		}, hashName: "block hashes",
	}, blks)
	hh := g.hash()
	run(c, codec[common.Hash]{typ: "Response/Hash", path: "p2p", loc: loc,
		enc: func(h common.Hash) ([]byte, error) { return pb.EncodeQuaiResponse(id, loc, &common.Hash{}, h) },
		dec: func(b []byte) (common.Hash, error) {
			gid, v, err := respDec(b)
			if err != nil {
				return common.Hash{}, err
			}
			h, ok := v.(common.Hash)
			if !ok {
				return common.Hash{}, fmt.Errorf("decoded response is %T", v)
			}
			return h, idErr(gid)
		},
		diff: func(a, b common.Hash) dif { return dHash("Response/Hash", "hash", a, b) },
	}, hh)

	// gossip: ConvertAndMarshal / UnmarshalAndConvert
	gossip := func(name string, parts woParts, view types.WorkObjectView, wrap func(*types.WorkObject) interface{}, typ interface{}, unwrap func(interface{}) *types.WorkObject, wo *types.WorkObject) {
		cd := base
		cd.typ, cd.desc = "Gossip/"+name, woDesc(view)
		cd.enc = func(w *types.WorkObject) ([]byte, error) { return pb.ConvertAndMarshal(wrap(w)) }
		cd.dec = func(b []byte) (*types.WorkObject, error) {
			var out interface{}
			if err := pb.UnmarshalAndConvert(b, loc, &out, typ); err != nil {
				return nil, err
			}
			w := unwrap(out)
			if w == nil {
				return nil, fmt.Errorf("UnmarshalAndConvert produced %T", out)
			}
			return w, nil
		}
		cd.diff = func(a, b *types.WorkObject) dif { return dWo(a, b, parts, optPB) }
		run(c, cd, wo)
	}
	gossip("Block", partsBlock, types.BlockObject,
		func(w *types.WorkObject) interface{} { return w.ConvertToBlockView() }, &types.WorkObjectBlockView{},
		func(v interface{}) *types.WorkObject {
			if x, ok := v.(types.WorkObjectBlockView); ok {
				return x.WorkObject
			}
			return nil
		}, blk)
	gossip("Header", partsBlock, types.HeaderObject,
		func(w *types.WorkObject) interface{} { return &types.WorkObjectHeaderView{WorkObject: w} }, &types.WorkObjectHeaderView{},
		func(v interface{}) *types.WorkObject {
			if x, ok := v.(types.WorkObjectHeaderView); ok {
				return x.WorkObject
			}
			return nil
		}, blk.ConvertToHeaderView().WorkObject)
	gossip("Share", partsShare, types.WorkShareTxObject,
		func(w *types.WorkObject) interface{} { return &types.WorkObjectShareView{WorkObject: w} }, &types.WorkObjectShareView{},
		func(v interface{}) *types.WorkObject {
			if x, ok := v.(types.WorkObjectShareView); ok {
				return x.WorkObject
			}
			return nil
		}, blk.ConvertToWorkObjectShareView(blk.Transactions()).WorkObject)
	run(c, codec[common.Hash]{typ: "Gossip/Hash", path: "p2p", loc: loc,
		enc: func(h common.Hash) ([]byte, error) { return pb.ConvertAndMarshal(h) },
		dec: func(b []byte) (common.Hash, error) {
			var out interface{}
			if err := pb.UnmarshalAndConvert(b, loc, &out, common.Hash{}); err != nil {
				return common.Hash{}, err
			}
			h, ok := out.(common.Hash)
			if !ok {
				return common.Hash{}, fmt.Errorf("UnmarshalAndConvert produced %T", out)
			}
			return h, nil
		},
		diff: func(a, b common.Hash) dif { return dHash("Gossip/Hash", "hash", a, b) },
	}, hh)
}
