//go:build verif

package c14

import (
	"bytes"
	"fmt"
	"math/big"

	"github.com/dominant-strategies/go-quai/common"
	"github.com/dominant-strategies/go-quai/core/types"
)

// Injectivity: two objects that differ in exactly one consensus field must not
// share the hash that is defined to commit to that field.

func flipHash(h common.Hash, g *gen) common.Hash {
	h[g.r.Intn(32)] ^= 1 << uint(g.r.Intn(8))
	return h
}

func bump(x *big.Int) *big.Int { return new(big.Int).Add(x, big.NewInt(1)) }

func flipBytes(b []byte, g *gen) []byte {
	c := append([]byte{}, b...)
	if len(c) == 0 {
		return []byte{0x01}
	}
	switch g.r.Intn(3) {
	case 0:
		return append(c, 0x00) // trailing zero byte
	case 1:
		return append([]byte{0x00}, c...) // leading zero byte
	default:
		c[g.r.Intn(len(c))] ^= 1 << uint(g.r.Intn(8))
		return c
	}
}

type hdrMut struct {
	name string
	f    func(h *types.Header, g *gen)
}

func headerMutators() []hdrMut {
	ms := []hdrMut{
		{"uncleHash", func(h *types.Header, g *gen) { h.SetUncleHash(flipHash(h.UncleHash(), g)) }},
		{"evmRoot", func(h *types.Header, g *gen) { h.SetEVMRoot(flipHash(h.EVMRoot(), g)) }},
		{"utxoRoot", func(h *types.Header, g *gen) { h.SetUTXORoot(flipHash(h.UTXORoot(), g)) }},
		{"txHash", func(h *types.Header, g *gen) { h.SetTxHash(flipHash(h.TxHash(), g)) }},
		{"outboundEtxHash", func(h *types.Header, g *gen) { h.SetOutboundEtxHash(flipHash(h.OutboundEtxHash(), g)) }},
		{"etxSetRoot", func(h *types.Header, g *gen) { h.SetEtxSetRoot(flipHash(h.EtxSetRoot(), g)) }},
		{"etxRollupHash", func(h *types.Header, g *gen) { h.SetEtxRollupHash(flipHash(h.EtxRollupHash(), g)) }},
		{"receiptHash", func(h *types.Header, g *gen) { h.SetReceiptHash(flipHash(h.ReceiptHash(), g)) }},
		{"primeTerminusHash", func(h *types.Header, g *gen) { h.SetPrimeTerminusHash(flipHash(h.PrimeTerminusHash(), g)) }},
		{"interlinkRootHash", func(h *types.Header, g *gen) { h.SetInterlinkRootHash(flipHash(h.InterlinkRootHash(), g)) }},
		{"etxEligibleSlices", func(h *types.Header, g *gen) { h.SetEtxEligibleSlices(flipHash(h.EtxEligibleSlices(), g)) }},
		{"primeStateRoot", func(h *types.Header, g *gen) { h.SetPrimeStateRoot(flipHash(h.PrimeStateRoot(), g)) }},
		{"regionStateRoot", func(h *types.Header, g *gen) { h.SetRegionStateRoot(flipHash(h.RegionStateRoot(), g)) }},
		{"quaiStateSize", func(h *types.Header, g *gen) { h.SetQuaiStateSize(bump(h.QuaiStateSize())) }},
		{"uncledEntropy", func(h *types.Header, g *gen) { h.SetUncledEntropy(bump(h.UncledEntropy())) }},
		{"gasLimit", func(h *types.Header, g *gen) { h.SetGasLimit(h.GasLimit() + 1) }},
		{"gasUsed", func(h *types.Header, g *gen) { h.SetGasUsed(h.GasUsed() + 1) }},
		{"baseFee", func(h *types.Header, g *gen) { h.SetBaseFee(bump(h.BaseFee())) }},
		{"stateLimit", func(h *types.Header, g *gen) { h.SetStateLimit(h.StateLimit() + 1) }},
		{"stateUsed", func(h *types.Header, g *gen) { h.SetStateUsed(h.StateUsed() + 1) }},
		{"extra", func(h *types.Header, g *gen) { h.SetExtra(flipBytes(h.Extra(), g)) }},
		{"efficiencyScore", func(h *types.Header, g *gen) { h.SetEfficiencyScore(h.EfficiencyScore() + 1) }},
		{"thresholdCount", func(h *types.Header, g *gen) { h.SetThresholdCount(h.ThresholdCount() + 1) }},
		{"expansionNumber", func(h *types.Header, g *gen) { h.SetExpansionNumber(h.ExpansionNumber() + 1) }},
		{"exchangeRate", func(h *types.Header, g *gen) { h.SetExchangeRate(bump(h.ExchangeRate())) }},
		{"avgTxFees", func(h *types.Header, g *gen) { h.SetAvgTxFees(bump(h.AvgTxFees())) }},
		{"totalFees", func(h *types.Header, g *gen) { h.SetTotalFees(bump(h.TotalFees())) }},
		{"kQuaiDiscount", func(h *types.Header, g *gen) { h.SetKQuaiDiscount(bump(h.KQuaiDiscount())) }},
		{"conversionFlowAmount", func(h *types.Header, g *gen) { h.SetConversionFlowAmount(bump(h.ConversionFlowAmount())) }},
		{"minerDifficulty", func(h *types.Header, g *gen) { h.SetMinerDifficulty(bump(h.MinerDifficulty())) }},
	}
	for i := 0; i < common.HierarchyDepth; i++ {
		i := i
		ms = append(ms,
			hdrMut{fmt.Sprintf("manifestHash[%d]", i), func(h *types.Header, g *gen) { h.SetManifestHash(flipHash(h.ManifestHash(i), g), i) }},
			hdrMut{fmt.Sprintf("parentEntropy[%d]", i), func(h *types.Header, g *gen) { h.SetParentEntropy(bump(h.ParentEntropy(i)), i) }},
			hdrMut{fmt.Sprintf("parentDeltaEntropy[%d]", i), func(h *types.Header, g *gen) { h.SetParentDeltaEntropy(bump(h.ParentDeltaEntropy(i)), i) }},
			hdrMut{fmt.Sprintf("parentUncledDeltaEntropy[%d]", i), func(h *types.Header, g *gen) {
				h.SetParentUncledDeltaEntropy(bump(h.ParentUncledDeltaEntropy(i)), i)
			}})
	}
	for i := 0; i < common.HierarchyDepth-1; i++ {
		i := i
		ms = append(ms,
			hdrMut{fmt.Sprintf("parentHash[%d]", i), func(h *types.Header, g *gen) { h.SetParentHash(flipHash(h.ParentHash(i), g), i) }},
			hdrMut{fmt.Sprintf("number[%d]", i), func(h *types.Header, g *gen) { h.SetNumber(bump(h.Number(i)), i) }})
	}
	return ms
}

var hdrMuts = headerMutators()

type whMut struct {
	name string
	// which hashes commit to the field: in the progpow regimes (pre fork, transition) / with AuxPow
	sealed bool // part of SealHash
	pow    bool // nonce / mixHash: part of Hash only in the progpow regimes
	share  bool // share fields: consensus only from the fork on
	aux    bool // AuxPow content: Hash when AuxPow is present
	f      func(h *types.WorkObjectHeader, g *gen)
}

func shareMut(get func(*types.WorkObjectHeader) *types.PowShareDiffAndCount, set func(*types.WorkObjectHeader, *types.PowShareDiffAndCount), which int) func(h *types.WorkObjectHeader, g *gen) {
	return func(h *types.WorkObjectHeader, g *gen) {
		s := get(h) // a clone
		switch which {
		case 0:
			s.SetDifficulty(bump(s.Difficulty()))
		case 1:
			s.SetCount(bump(s.Count()))
		default:
			s.SetUncled(bump(s.Uncled()))
		}
		set(h, s)
	}
}

func whMutators() []whMut {
	sha := func(h *types.WorkObjectHeader) *types.PowShareDiffAndCount { return h.ShaDiffAndCount() }
	setSha := func(h *types.WorkObjectHeader, s *types.PowShareDiffAndCount) { h.SetShaDiffAndCount(s) }
	scr := func(h *types.WorkObjectHeader) *types.PowShareDiffAndCount { return h.ScryptDiffAndCount() }
	setScr := func(h *types.WorkObjectHeader, s *types.PowShareDiffAndCount) { h.SetScryptDiffAndCount(s) }
	return []whMut{
		{name: "headerHash", sealed: true, f: func(h *types.WorkObjectHeader, g *gen) { h.SetHeaderHash(flipHash(h.HeaderHash(), g)) }},
		{name: "parentHash", sealed: true, f: func(h *types.WorkObjectHeader, g *gen) { h.SetParentHash(flipHash(h.ParentHash(), g)) }},
		{name: "number", sealed: true, f: func(h *types.WorkObjectHeader, g *gen) { h.SetNumber(bump(h.Number())) }},
		{name: "difficulty", sealed: true, f: func(h *types.WorkObjectHeader, g *gen) { h.SetDifficulty(bump(h.Difficulty())) }},
		{name: "txHash", sealed: true, f: func(h *types.WorkObjectHeader, g *gen) { h.SetTxHash(flipHash(h.TxHash(), g)) }},
		{name: "primaryCoinbase", sealed: true, f: func(h *types.WorkObjectHeader, g *gen) {
			b := append([]byte{}, h.PrimaryCoinbase().Bytes()...)
			b[5+g.r.Intn(15)] ^= 1 << uint(g.r.Intn(8))
			h.SetPrimaryCoinbase(common.BytesToAddress(b, h.Location()))
		}},
		{name: "location", sealed: true, f: func(h *types.WorkObjectHeader, g *gen) {
			l := append(common.Location{}, h.Location()...)
			if len(l) == 0 {
				l = common.Location{1}
			} else {
				l[len(l)-1] ^= 1
			}
			h.SetLocation(l)
		}},
		{name: "time", sealed: true, f: func(h *types.WorkObjectHeader, g *gen) { h.SetTime(h.Time() + 1) }},
		{name: "lock", sealed: true, f: func(h *types.WorkObjectHeader, g *gen) { h.SetLock(h.Lock() + 1) }},
		{name: "data", sealed: true, f: func(h *types.WorkObjectHeader, g *gen) {
			d := append([]byte{}, h.Data()...)
			if len(d) == 0 {
				d = []byte{0}
			} else {
				d[g.r.Intn(len(d))] ^= 1 << uint(g.r.Intn(8))
			}
			h.SetData(d)
		}},
		{name: "mixHash", pow: true, f: func(h *types.WorkObjectHeader, g *gen) { h.SetMixHash(flipHash(h.MixHash(), g)) }},
		{name: "nonce", pow: true, f: func(h *types.WorkObjectHeader, g *gen) {
			n := h.Nonce()
			n[g.r.Intn(8)] ^= 1 << uint(g.r.Intn(8))
			h.SetNonce(n)
		}},
		{name: "shaDiffAndCount.difficulty", share: true, f: shareMut(sha, setSha, 0)},
		{name: "shaDiffAndCount.count", share: true, f: shareMut(sha, setSha, 1)},
		{name: "shaDiffAndCount.uncled", share: true, f: shareMut(sha, setSha, 2)},
		{name: "scryptDiffAndCount.difficulty", share: true, f: shareMut(scr, setScr, 0)},
		{name: "scryptDiffAndCount.count", share: true, f: shareMut(scr, setScr, 1)},
		{name: "scryptDiffAndCount.uncled", share: true, f: shareMut(scr, setScr, 2)},
		{name: "shaShareTarget", share: true, f: func(h *types.WorkObjectHeader, g *gen) { h.SetShaShareTarget(bump(h.ShaShareTarget())) }},
		{name: "scryptShareTarget", share: true, f: func(h *types.WorkObjectHeader, g *gen) { h.SetScryptShareTarget(bump(h.ScryptShareTarget())) }},
		{name: "kawpowDifficulty", share: true, f: func(h *types.WorkObjectHeader, g *gen) { h.SetKawpowDifficulty(bump(h.KawpowDifficulty())) }},
		{name: "auxPow.header", aux: true, f: func(h *types.WorkObjectHeader, g *gen) {
			if h.AuxPow().PowID() == types.Kawpow {
				h.AuxPow().Header().SetNonce64(h.AuxPow().Header().Nonce64() + 1)
			} else {
				h.AuxPow().Header().SetNonce(h.AuxPow().Header().Nonce() + 1)
			}
		}},
		{name: "auxPow.signature", aux: true, f: func(h *types.WorkObjectHeader, g *gen) { h.AuxPow().SetSignature(flipBytes(h.AuxPow().Signature(), g)) }},
		{name: "auxPow.auxPow2", aux: true, f: func(h *types.WorkObjectHeader, g *gen) { h.AuxPow().SetAuxPow2(flipBytes(h.AuxPow().AuxPow2(), g)) }},
		{name: "auxPow.transaction", aux: true, f: func(h *types.WorkObjectHeader, g *gen) {
			h.AuxPow().SetTransaction(flipBytes(h.AuxPow().Transaction(), g))
		}},
		{name: "auxPow.merkleBranch", aux: true, f: func(h *types.WorkObjectHeader, g *gen) {
			h.AuxPow().SetMerkleBranch(append(append([][]byte{}, h.AuxPow().MerkleBranch()...), g.bytesN(32)))
		}},
	}
}

var whMuts = whMutators()

type txMut struct {
	name    string
	signing bool // part of the signing hash
	f       func(in types.TxData, g *gen) bool
}

func bumpAL(al types.AccessList, g *gen) types.AccessList {
	out := append(types.AccessList{}, al...)
	switch {
	case len(out) == 0 || g.r.Intn(3) == 0:
		out = append(out, types.AccessTuple{Address: g.addr(common.Location{0, 0})})
	case g.r.Intn(2) == 0:
		t := out[0]
		t.StorageKeys = append(append([]common.Hash{}, t.StorageKeys...), g.hash())
		out[0] = t
	default:
		t := out[0]
		b := append([]byte{}, t.Address.Bytes()...)
		b[19] ^= 1
		t.Address = common.BytesToAddress(b, common.Location{0, 0})
		out[0] = t
	}
	return out
}

func flipAddr(a common.Address) common.Address {
	b := append([]byte{}, a.Bytes()...)
	b[19] ^= 1
	return common.BytesToAddress(b, common.Location{0, 0})
}

func workMuts() []txMut {
	get := func(in types.TxData) (**common.Hash, **common.Hash, **types.BlockNonce) {
		switch x := in.(type) {
		case *types.QuaiTx:
			return &x.ParentHash, &x.MixHash, &x.WorkNonce
		case *types.QiTx:
			return &x.ParentHash, &x.MixHash, &x.WorkNonce
		}
		return nil, nil, nil
	}
	return []txMut{
		{name: "parentHash", f: func(in types.TxData, g *gen) bool {
			p, _, _ := get(in)
			if *p == nil {
				h := common.Hash{}
				*p = &h // absent -> present(zero): the type can express both
				return true
			}
			h := flipHash(**p, g)
			*p = &h
			return true
		}},
		{name: "mixHash", f: func(in types.TxData, g *gen) bool {
			_, p, _ := get(in)
			if *p == nil {
				h := common.Hash{}
				*p = &h
				return true
			}
			h := flipHash(**p, g)
			*p = &h
			return true
		}},
		{name: "workNonce", f: func(in types.TxData, g *gen) bool {
			_, _, p := get(in)
			if *p == nil {
				n := types.BlockNonce{}
				*p = &n
				return true
			}
			n := **p
			n[g.r.Intn(8)] ^= 1 << uint(g.r.Intn(8))
			*p = &n
			return true
		}},
	}
}

func quaiMuts() []txMut {
	q := func(f func(x *types.QuaiTx, g *gen) bool) func(types.TxData, *gen) bool {
		return func(in types.TxData, g *gen) bool { return f(in.(*types.QuaiTx), g) }
	}
	ms := []txMut{
		{name: "chainId", signing: true, f: q(func(x *types.QuaiTx, g *gen) bool { x.ChainID = bump(x.ChainID); return true })},
		{name: "nonce", signing: true, f: q(func(x *types.QuaiTx, g *gen) bool { x.Nonce++; return true })},
		{name: "gasPrice", signing: true, f: q(func(x *types.QuaiTx, g *gen) bool { x.GasPrice = bump(x.GasPrice); return true })},
		{name: "gas", signing: true, f: q(func(x *types.QuaiTx, g *gen) bool { x.Gas++; return true })},
		{name: "to", signing: true, f: q(func(x *types.QuaiTx, g *gen) bool {
			if x.To == nil {
				a := g.addr(common.Location{0, 0})
				x.To = &a
			} else if g.r.Intn(4) == 0 {
				x.To = nil
			} else {
				a := flipAddr(*x.To)
				x.To = &a
			}
			return true
		})},
		{name: "value", signing: true, f: q(func(x *types.QuaiTx, g *gen) bool { x.Value = bump(x.Value); return true })},
		{name: "data", signing: true, f: q(func(x *types.QuaiTx, g *gen) bool { x.Data = flipBytes(x.Data, g); return true })},
		{name: "accessList", signing: true, f: q(func(x *types.QuaiTx, g *gen) bool { x.AccessList = bumpAL(x.AccessList, g); return true })},
		{name: "v", f: q(func(x *types.QuaiTx, g *gen) bool { x.V = new(big.Int).Xor(x.V, big.NewInt(1)); return true })},
		{name: "r", f: q(func(x *types.QuaiTx, g *gen) bool { x.R = bump(x.R); return true })},
		{name: "s", f: q(func(x *types.QuaiTx, g *gen) bool { x.S = bump(x.S); return true })},
	}
	return append(ms, workMuts()...)
}

func qiMuts() []txMut {
	q := func(f func(x *types.QiTx, g *gen) bool) func(types.TxData, *gen) bool {
		return func(in types.TxData, g *gen) bool { return f(in.(*types.QiTx), g) }
	}
	ms := []txMut{
		{name: "chainId", signing: true, f: q(func(x *types.QiTx, g *gen) bool { x.ChainID = bump(x.ChainID); return true })},
		{name: "txIn.outpoint.txHash", signing: true, f: q(func(x *types.QiTx, g *gen) bool {
			i := g.r.Intn(len(x.TxIn))
			// keep byte 2 (the origin copied into the hash prefix) out of it half of the time
			x.TxIn[i].PreviousOutPoint.TxHash[3+g.r.Intn(29)] ^= 1 << uint(g.r.Intn(8))
			return true
		})},
		{name: "txIn.outpoint.index", signing: true, f: q(func(x *types.QiTx, g *gen) bool {
			x.TxIn[g.r.Intn(len(x.TxIn))].PreviousOutPoint.Index++
			return true
		})},
		{name: "txIn.pubKey", signing: true, f: q(func(x *types.QiTx, g *gen) bool {
			i := g.r.Intn(len(x.TxIn))
			for _, pk := range g.pubs {
				if !bytes.Equal(normPub(pk), normPub(x.TxIn[i].PubKey)) {
					x.TxIn[i].PubKey = append([]byte{}, pk...)
					return true
				}
			}
			return false
		})},
		{name: "txIn.count", signing: true, f: q(func(x *types.QiTx, g *gen) bool { x.TxIn = append(x.TxIn, g.txIn(false)); return true })},
		{name: "txOut.denomination", signing: true, f: q(func(x *types.QiTx, g *gen) bool {
			if len(x.TxOut) == 0 {
				return false
			}
			i := g.r.Intn(len(x.TxOut))
			x.TxOut[i].Denomination = (x.TxOut[i].Denomination + 1) % (types.MaxDenomination + 1)
			return true
		})},
		{name: "txOut.address", signing: true, f: q(func(x *types.QiTx, g *gen) bool {
			if len(x.TxOut) == 0 {
				return false
			}
			i := g.r.Intn(len(x.TxOut))
			a := append([]byte{}, x.TxOut[i].Address...)
			a[g.r.Intn(20)] ^= 1 << uint(g.r.Intn(8))
			x.TxOut[i].Address = a
			return true
		})},
		{name: "txOut.lock", signing: true, f: q(func(x *types.QiTx, g *gen) bool {
			if len(x.TxOut) == 0 {
				return false
			}
			i := g.r.Intn(len(x.TxOut))
			l := x.TxOut[i].Lock
			if l == nil {
				l = new(big.Int)
			}
			x.TxOut[i].Lock = bump(l)
			return true
		})},
		{name: "txOut.count", signing: true, f: q(func(x *types.QiTx, g *gen) bool {
			x.TxOut = append(x.TxOut, g.txOut(common.Location{0, 0}, false))
			return true
		})},
		{name: "data", signing: true, f: q(func(x *types.QiTx, g *gen) bool { x.Data = flipBytes(x.Data, g); return true })},
		{name: "signature", f: q(func(x *types.QiTx, g *gen) bool {
			cur := x.Signature.Serialize()
			for _, s := range g.sigs {
				if !bytes.Equal(s.Serialize(), cur) {
					x.Signature = s
					return true
				}
			}
			return false
		})},
	}
	return append(ms, workMuts()...)
}

func etxMuts() []txMut {
	q := func(f func(x *types.ExternalTx, g *gen) bool) func(types.TxData, *gen) bool {
		return func(in types.TxData, g *gen) bool { return f(in.(*types.ExternalTx), g) }
	}
	return []txMut{
		{name: "originatingTxHash", f: q(func(x *types.ExternalTx, g *gen) bool {
			x.OriginatingTxHash[3+g.r.Intn(29)] ^= 1 << uint(g.r.Intn(8))
			return true
		})},
		{name: "etxIndex", f: q(func(x *types.ExternalTx, g *gen) bool { x.ETXIndex++; return true })},
		{name: "gas", f: q(func(x *types.ExternalTx, g *gen) bool { x.Gas++; return true })},
		{name: "to", f: q(func(x *types.ExternalTx, g *gen) bool { a := flipAddr(*x.To); x.To = &a; return true })},
		{name: "value", f: q(func(x *types.ExternalTx, g *gen) bool { x.Value = bump(x.Value); return true })},
		{name: "data", f: q(func(x *types.ExternalTx, g *gen) bool { x.Data = flipBytes(x.Data, g); return true })},
		{name: "accessList", f: q(func(x *types.ExternalTx, g *gen) bool { x.AccessList = bumpAL(x.AccessList, g); return true })},
		{name: "sender", f: q(func(x *types.ExternalTx, g *gen) bool { x.Sender = flipAddr(x.Sender); return true })},
		{name: "etxType", f: q(func(x *types.ExternalTx, g *gen) bool { x.EtxType = (x.EtxType + 1) % 7; return true })},
	}
}

var (
	quaiMutList = quaiMuts()
	qiMutList   = qiMuts()
	etxMutList  = etxMuts()
)

// deepInner: tx.Inner() of NewTx(x) already is a copy; copy again so that the
// mutated object shares no slices / pointers with the base.
func deepInner(t *types.Transaction) types.TxData {
	in := types.NewTx(t.Inner()).Inner()
	switch x := in.(type) {
	case *types.QuaiTx:
		if x.To != nil {
			a := *x.To
			x.To = &a
		}
	case *types.ExternalTx:
		if x.To != nil {
			a := *x.To
			x.To = &a
		}
	case *types.QiTx:
		for i := range x.TxIn {
			x.TxIn[i].PubKey = append([]byte{}, x.TxIn[i].PubKey...)
		}
		for i := range x.TxOut {
			x.TxOut[i].Address = append([]byte{}, x.TxOut[i].Address...)
			if x.TxOut[i].Lock != nil {
				x.TxOut[i].Lock = new(big.Int).Set(x.TxOut[i].Lock)
			}
		}
	}
	return in
}

func (c *ctx) mutations(g *gen) {
	loc := g.zoneLoc()
	// ---- Header: every field counts for Hash()
	h := g.header()
	base := h.Hash()
	for _, mu := range hdrMuts {
		x := types.CopyHeader(h)
		if p, st := guard(func() { mu.f(x, g) }); p != nil {
			c.report("panic", "Header", "mutate", mu.name+"-"+panicSite(st), fmt.Sprint(p), nil)
			continue
		}
		if !dHeader(h, x).ok() && x.Hash() == base {
			b, _ := pbBytes(h.ProtoEncode())
			b2, _ := pbBytes(x.ProtoEncode())
			c.report("hash-collision", "Header", "mutate", mu.name, fmt.Sprintf("two headers differing only in %s share Hash() %x", mu.name, base),
				map[string]any{"a_proto": capHex(b), "b_proto": capHex(b2)})
		}
		c.m.Eval("Header:mutate", "")
	}
	// ---- WorkObjectHeader
	regime := []int{regPre, regTransition, regAux}[g.r.Intn(3)]
	wh := g.woHeaderR(loc, regime)
	bh, bs := wh.Hash(), wh.SealHash()
	for _, mu := range whMuts {
		if (mu.share && regime == regPre) || (mu.aux && regime != regAux) {
			continue
		}
		x := types.CopyWorkObjectHeader(wh)
		if p, st := guard(func() { mu.f(x, g) }); p != nil {
			c.report("panic", "WorkObjectHeader", "mutate", mu.name+"-"+panicSite(st), fmt.Sprint(p), nil)
			continue
		}
		if dWoHeader(wh, x, optRLP).ok() {
			c.m.Trivial() // the mutation did not change the object
			continue
		}
		xh, xs := x.Hash(), x.SealHash()
		bad := ""
		switch {
		case regime != regAux:
			// progpow regimes: Hash() = H(mixHash, SealHash, nonce) commits to everything
			if xh == bh {
				bad = "Hash"
			} else if (mu.sealed || mu.share) && xs == bs {
				bad = "SealHash"
			}
		case mu.aux:
			if xh == bh {
				bad = "Hash"
			}
		case mu.sealed || mu.share:
			if xs == bs {
				bad = "SealHash"
			}
		}
		if bad != "" {
			b, _ := pbBytes(wh.ProtoEncode())
			b2, _ := pbBytes(x.ProtoEncode())
			c.report("hash-collision", "WorkObjectHeader", "mutate", mu.name+"-"+bad+"-regime"+[]string{"Pre", "PreZero", "Transition", "Aux"}[regime],
				fmt.Sprintf("two work object headers differing only in %s share %s (Hash %x/%x SealHash %x/%x)", mu.name, bad, bh, xh, bs, xs),
				map[string]any{"a_proto": capHex(b), "b_proto": capHex(b2)})
		}
		c.m.Eval("WorkObjectHeader:mutate", "")
	}
	// ---- transactions
	for _, tc := range []struct {
		name string
		tx   *types.Transaction
		ms   []txMut
	}{
		{"QuaiTx", g.quaiTx(loc), quaiMutList},
		{"QiTx", g.qiTx(loc, qiOpt{}), qiMutList},
		{"ExternalTx", g.anyEtx(loc), etxMutList},
	} {
		baseHash := tc.tx.Hash()
		var signer types.Signer
		var baseSig common.Hash
		if tc.name != "ExternalTx" {
			signer = types.NewSigner(tc.tx.ChainId(), loc)
			baseSig = signer.Hash(tc.tx)
		}
		for _, mu := range tc.ms {
			in := deepInner(tc.tx)
			applied := false
			if p, st := guard(func() { applied = mu.f(in, g) }); p != nil {
				c.report("panic", tc.name, "mutate", mu.name+"-"+panicSite(st), fmt.Sprint(p), nil)
				continue
			}
			if !applied {
				continue
			}
			x := types.NewTx(in)
			if dTx(tc.tx, x, optRLP).ok() {
				continue // mutation was a no-op
			}
			var xh, xs common.Hash
			if p, st := guard(func() {
				xh = x.Hash()
				if signer != nil {
					xs = signer.Hash(x)
				}
			}); p != nil {
				c.report("panic", tc.name, "mutate", "hash-"+mu.name+"-"+panicSite(st), fmt.Sprint(p), nil)
				continue
			}
			b, _ := pbBytes(tc.tx.ProtoEncode())
			b2, _ := pbBytes(x.ProtoEncode())
			if xh == baseHash {
				c.report("hash-collision", tc.name, "mutate", mu.name+"-Hash", fmt.Sprintf("two %s differing only in %s share Hash() %x", tc.name, mu.name, xh),
					map[string]any{"a_proto": capHex(b), "b_proto": capHex(b2)})
			} else if mu.signing && signer != nil && xs == baseSig {
				c.report("hash-collision", tc.name, "mutate", mu.name+"-SigningHash", fmt.Sprintf("two %s differing only in %s share the signing hash %x", tc.name, mu.name, xs),
					map[string]any{"a_proto": capHex(b), "b_proto": capHex(b2)})
			}
			c.m.Eval(tc.name+":mutate", "")
		}
	}
}
