//go:build verif && c14repro

package c14

import (
	"encoding/json"
	"fmt"
	"math/big"
	"math/rand"
	"testing"

	"google.golang.org/protobuf/proto"

	"github.com/dominant-strategies/go-quai/common"
	"github.com/dominant-strategies/go-quai/core/types"
	"github.com/dominant-strategies/go-quai/params"
	"github.com/dominant-strategies/go-quai/rlp"
)

func TestRepro(t *testing.T) {
	g := newGen(rand.New(rand.NewSource(1)))
	loc := common.Location{0, 0}
	to := common.BytesToAddress(common.FromHex("0x0011223344556677889900112233445566778899"), loc)
	p := func(f string, a ...any) { fmt.Printf(f+"\n", a...) }

	// 1. QuaiTx RLP with nil work fields
	q, _ := types.SignNewTx(g.keys[0], types.NewSigner(big.NewInt(9000), loc), &types.QuaiTx{ChainID: big.NewInt(9000), Nonce: 1, GasPrice: big.NewInt(1), Gas: 21000, To: &to, Value: big.NewInt(1)})
	b, _ := rlp.EncodeToBytes(q)
	var q2 types.Transaction
	p("1. QuaiTx rlp %x\n   decode err: %v", b, rlp.DecodeBytes(b, &q2))
	bb, _ := q.MarshalBinary()
	p("   UnmarshalBinary err: %v", new(types.Transaction).UnmarshalBinary(bb))

	// 2. QuaiTx JSON with WorkNonce
	wn := types.EncodeNonce(1)
	ph, mh := common.Hash{1}, common.Hash{2}
	qw, _ := types.SignNewTx(g.keys[0], types.NewSigner(big.NewInt(9000), loc), &types.QuaiTx{ChainID: big.NewInt(9000), Nonce: 1, GasPrice: big.NewInt(1), Gas: 21000, To: &to, Value: big.NewInt(1), ParentHash: &ph, MixHash: &mh, WorkNonce: &wn})
	j, _ := qw.MarshalJSON()
	p("2. QuaiTx json %s\n   hash %x unmarshal err: %v", j, qw.Hash(), new(types.Transaction).UnmarshalJSON(j))
	bw, _ := rlp.EncodeToBytes(qw)
	var qw2 types.Transaction
	p("   (rlp with all work fields set: err=%v hash after %x)", rlp.DecodeBytes(bw, &qw2), qw2.Hash())

	// 3. QiTx with work fields: rlp + json
	out := types.TxOut{Denomination: 1, Address: to.Bytes(), Lock: big.NewInt(0)}
	qi := types.NewTx(&types.QiTx{ChainID: big.NewInt(9000), TxIn: types.TxIns{{PreviousOutPoint: types.OutPoint{TxHash: common.Hash{3}, Index: 0}, PubKey: g.pubs[0]}}, TxOut: types.TxOuts{out}, Signature: g.sigs[0], ParentHash: &ph})
	b, _ = rlp.EncodeToBytes(qi)
	var qi2 types.Transaction
	err := rlp.DecodeBytes(b, &qi2)
	p("3. QiTx(ParentHash set) hash %x; rlp decode err %v hash after %x parentHash after %v", qi.Hash(), err, qi2.Hash(), qi2.ParentHash())
	j, _ = qi.MarshalJSON()
	p("   json unmarshal err: %v", new(types.Transaction).UnmarshalJSON(j))

	// 4. QiTx TxOut.Lock nil -> MarshalJSON panics
	func() {
		defer func() { p("4. QiTx(TxOut.Lock=nil).MarshalJSON panic: %v", recover()) }()
		x := types.NewTx(&types.QiTx{ChainID: big.NewInt(9000), TxIn: types.TxIns{{PreviousOutPoint: types.OutPoint{TxHash: common.Hash{3}}, PubKey: g.pubs[0]}}, TxOut: types.TxOuts{{Denomination: 1, Address: to.Bytes()}}, Signature: g.sigs[0]})
		pb, _ := x.ProtoEncode()
		pbb, _ := proto.Marshal(pb)
		p("   (proto encodes fine: %d bytes, hash %x)", len(pbb), x.Hash())
		x.MarshalJSON()
	}()

	// 5. Header JSON
	h := types.EmptyHeader()
	j, _ = h.MarshalJSON()
	p("5. EmptyHeader().MarshalJSON() manifestHash part: %s\n   UnmarshalJSON err: %v", j[:0], new(types.Header).UnmarshalJSON(j))
	var m map[string]json.RawMessage
	json.Unmarshal(j, &m)
	p("   manifestHash=%s", m["manifestHash"])

	// 6. Termini JSON
	tm := types.EmptyTermini()
	j, _ = tm.MarshalJSON()
	var tm2 types.Termini
	p("6. EmptyTermini().MarshalJSON()=%s  UnmarshalJSON err: %v", j, tm2.UnmarshalJSON(j))

	// 7. WorkObjectHeader MarshalJSON
	wh := types.NewWorkObjectHeader(common.Hash{1}, common.Hash{2}, big.NewInt(5), big.NewInt(1000), big.NewInt(10), common.Hash{3}, types.EncodeNonce(7), 0, 100, loc, to, nil, nil,
		&types.PowShareDiffAndCount{}, &types.PowShareDiffAndCount{}, nil, nil, nil)
	j, _ = wh.MarshalJSON()
	wh2 := new(types.WorkObjectHeader)
	err = wh2.UnmarshalJSON(j)
	p("7. WorkObjectHeader(pre-fork) json=%s\n   err=%v parentHash %x -> %x ; Hash %x -> %x", j, err, wh.ParentHash(), wh2.ParentHash(), wh.Hash(), wh2.Hash())
	// post fork transition with share fields
	wt := types.NewWorkObjectHeader(common.Hash{1}, common.Hash{}, big.NewInt(5), big.NewInt(1000), new(big.Int).SetUint64(params.KawPowForkBlock), common.Hash{3}, types.EncodeNonce(7), 0, 100, loc, to, nil, nil,
		types.NewPowShareDiffAndCount(big.NewInt(1), big.NewInt(2), big.NewInt(3)), types.NewPowShareDiffAndCount(big.NewInt(4), big.NewInt(5), big.NewInt(6)), big.NewInt(7), big.NewInt(8), big.NewInt(9))
	j, _ = wt.MarshalJSON()
	wt2 := new(types.WorkObjectHeader)
	err = wt2.UnmarshalJSON(j)
	p("   post-fork(parentHash zero) json=%s\n   err=%v sha %v -> %v ; SealHash %x -> %x", j, err, wt.ShaDiffAndCount().Difficulty(), wt2.ShaDiffAndCount().Difficulty(), wt.SealHash(), wt2.SealHash())
	ap := g.auxPow(types.Kawpow)
	wt.SetAuxPow(ap)
	j, _ = wt.MarshalJSON()
	p("   with AuxPow: UnmarshalJSON err=%v", new(types.WorkObjectHeader).UnmarshalJSON(j))
	var mm map[string]json.RawMessage
	json.Unmarshal(j, &mm)
	p("   auxpow=%s shaDiffAndCount=%s", mm["auxpow"], mm["shaDiffAndCount"])

	// 9. receipts
	r := &types.Receipt{Type: 1, Status: types.ReceiptStatusLocked, CumulativeGasUsed: 5, GasUsed: 5, TxHash: common.Hash{9}, ContractAddress: to, Logs: []*types.Log{}, OutboundEtxs: types.Transactions{g.etx(loc, 0)}}
	b, _ = rlp.EncodeToBytes(r)
	r2 := new(types.Receipt)
	err = rlp.DecodeBytes(b, r2)
	p("9. Receipt rlp: err=%v status %d -> %d outboundEtxs %d -> %d", err, r.Status, r2.Status, len(r.OutboundEtxs), len(r2.OutboundEtxs))
	sp, _ := (*types.ReceiptForStorage)(r).ProtoEncode()
	spb, _ := proto.Marshal(sp)
	sp2 := new(types.ProtoReceiptForStorage)
	proto.Unmarshal(spb, sp2)
	r3 := new(types.ReceiptForStorage)
	err = r3.ProtoDecode(sp2, loc)
	p("   ReceiptForStorage proto: err=%v status %d -> %d", err, r.Status, r3.Status)
	b, _ = rlp.EncodeToBytes((*types.ReceiptForStorage)(r))
	r4 := new(types.ReceiptForStorage)
	err = rlp.DecodeBytes(b, r4)
	p("   ReceiptForStorage rlp: err=%v status %d -> %d txHash %x -> %x gasUsed %d -> %d contract %x -> %x", err, r.Status, r4.Status, r.TxHash, r4.TxHash, r.GasUsed, r4.GasUsed, r.ContractAddress.Bytes(), r4.ContractAddress.Bytes())
	rn := &types.Receipt{Type: 1, Status: types.ReceiptStatusLocked, GasUsed: 5, TxHash: common.Hash{9}}
	j, _ = rn.MarshalJSON()
	p("   Receipt{Logs:nil} json=%s unmarshal err=%v", j, new(types.Receipt).UnmarshalJSON(j))

	// 10. AuxPow copy / rpc
	var prev, mr [32]byte
	hdr := types.NewBlockHeader(types.Kawpow, 1, prev, mr, 2, 3, 0, 4)
	a := types.NewAuxPow(types.Kawpow, hdr, nil, []byte{1}, nil, []byte{1, 2, 3})
	whA := types.NewWorkObjectHeader(common.Hash{1}, common.Hash{2}, big.NewInt(5), big.NewInt(1000), new(big.Int).SetUint64(params.KawPowForkBlock), common.Hash{3}, types.EncodeNonce(7), 0, 100, loc, to, nil, a,
		types.NewPowShareDiffAndCount(big.NewInt(1), big.NewInt(2), big.NewInt(3)), types.NewPowShareDiffAndCount(big.NewInt(4), big.NewInt(5), big.NewInt(6)), big.NewInt(7), big.NewInt(8), big.NewInt(9))
	cp := types.CopyWorkObjectHeader(whA)
	e1, _ := proto.Marshal(a.ProtoEncode())
	e2, _ := proto.Marshal(types.CopyAuxPow(a).ProtoEncode())
	p("10. AuxPow(auxPow2=nil) proto %x\n    CopyAuxPow            proto %x\n    WorkObjectHeader.Hash %x, CopyWorkObjectHeader(..).Hash %x", e1, e2, whA.Hash(), cp.Hash())
	// after a wire trip (absent auxpow2) then copy
	pa := new(types.ProtoAuxPow)
	proto.Unmarshal(e1, pa)
	a2 := new(types.AuxPow)
	a2.ProtoDecode(pa)
	e3, _ := proto.Marshal(types.CopyAuxPow(a2).ProtoEncode())
	p("    decoded-from-wire AuxPow2 nil=%v; copy of decoded re-encodes to %d bytes vs %d", a2.AuxPow2() == nil, len(e3), len(e1))
	j, _ = json.Marshal(a.RPCMarshal())
	a3 := new(types.AuxPow)
	err = a3.UnmarshalJSON(j)
	e4, _ := proto.Marshal(a3.ProtoEncode())
	p("    rpc: %s err=%v re-encoded proto %x", j, err, e4)

	// 11. AuxTemplate sigs nil
	at := types.NewAuxTemplate()
	at.SetPowID(types.Kawpow)
	e1, _ = proto.Marshal(at.ProtoEncode())
	pat := new(types.ProtoAuxTemplate)
	proto.Unmarshal(e1, pat)
	at2 := types.NewAuxTemplate()
	at2.ProtoDecode(pat)
	e2, _ = proto.Marshal(at2.ProtoEncode())
	p("11. AuxTemplate{powID:Kawpow} proto %x -> re-encoded %x (Hash %x -> %x)", e1, e2, at.Hash(), at2.Hash())

	// 12. OutpointAndDenomination lock nil
	od := types.OutpointAndDenomination{TxHash: common.Hash{1}, Index: 1, Denomination: 1}
	po, _ := od.ProtoEncode()
	e1, _ = proto.Marshal(po)
	po2 := new(types.ProtoOutPointAndDenomination)
	proto.Unmarshal(e1, po2)
	var od2 types.OutpointAndDenomination
	od2.ProtoDecode(po2)
	po3, _ := od2.ProtoEncode()
	e2, _ = proto.Marshal(po3)
	p("12. OutpointAndDenomination{Lock:nil} proto %x -> re-encoded %x", e1, e2)

	// 13. share view without body header
	blk := g.block(loc)
	sv := blk.ConvertToWorkObjectShareView(nil)
	sv.WorkObject.Body().SetHeader(nil)
	ps, err := sv.ProtoEncode()
	e1, _ = proto.Marshal(ps)
	ps2 := new(types.ProtoWorkObjectShareView)
	proto.Unmarshal(e1, ps2)
	sv2 := new(types.WorkObjectShareView)
	err2 := sv2.ProtoDecode(ps2, loc)
	p("13. share view, body.header=nil: encode err=%v decode err=%v decoded Header()!=nil: %v", err, err2, sv2.WorkObject.Header() != nil)
	func() {
		defer func() { p("    re-encode of decoded: panic=%v", recover()) }()
		sv2.ProtoEncode()
	}()
}
