//go:build verif

// conc_test.go: stage "conc" — random long runs of concurrent additions, price
// changes, head events (incl. reorgs that resurrect transactions, balance and
// nonce changes) against a pool with tiny limits, under the race detector, with
// PRNG-chosen delays injected at the pool's verifhook points. Invariants are
// evaluated on VerifSnapshot at quiescent points only (all callers at a barrier,
// head events flushed, the pool's own same-head reset served).
package c19

import (
	"fmt"
	"math/big"
	"math/rand"
	"os"
	"path/filepath"
	"runtime"
	"sort"
	"strings"
	"sync"
	"sync/atomic"
	"testing"
	"time"

	"github.com/dominant-strategies/go-quai/common"
	"github.com/dominant-strategies/go-quai/core"
	"github.com/dominant-strategies/go-quai/core/rawdb"
	"github.com/dominant-strategies/go-quai/core/state"
	"github.com/dominant-strategies/go-quai/core/types"
	"github.com/dominant-strategies/go-quai/log"

	"verif/internal/mon"
)

// ---------------------------------------------------------------- schedule perturbation

var hookPoints = map[string]byte{
	"txpool.addTxs.beforeLock":    1,
	"txpool.runReorg.beforeLock":  2,
	"txpool.runReorg.afterUnlock": 3,
	"txpool.loop.headEvent":       4,
	"txpool.loop.evict":           5,
}

type sched struct {
	mu      sync.Mutex
	r       *rand.Rand
	pattern int
	sig     uint64 // FNV-1a over the order of hits
	hits    [6]int64
	delays  int64
}

func (s *sched) signature() string {
	s.mu.Lock()
	defer s.mu.Unlock()
	return fmt.Sprintf("%016x", s.sig)
}

func (s *sched) hitCount(id int) int64 {
	s.mu.Lock()
	defer s.mu.Unlock()
	return s.hits[id]
}

func newSched(r *rand.Rand, pattern int) *sched {
	return &sched{r: r, pattern: pattern, sig: 14695981039346656037}
}

// at is the verifhook action: record the hit, then yield / sleep 0-2 ms as the
// run's pattern and the PRNG decide.
func (s *sched) at(name string) {
	id := hookPoints[name]
	s.mu.Lock()
	s.sig = (s.sig ^ uint64(id)) * 1099511628211
	s.hits[id]++
	x := s.r.Intn(100)
	us := s.r.Intn(2000)
	s.mu.Unlock()
	var act int // 0 none, 1 yield, 2 short sleep, 3 long sleep
	switch s.pattern {
	case 0: // undisturbed
	case 1: // yields everywhere
		if x < 60 {
			act = 1
		}
	case 2: // submitters are held back before taking the lock
		if id == 1 {
			if x < 40 {
				act = 2
			} else if x < 45 {
				act = 3
			} else if x < 70 {
				act = 1
			}
		}
	case 3: // the reorg run is held back before / after its critical section
		if id == 2 || id == 3 {
			if x < 50 {
				act = 2
			} else if x < 60 {
				act = 3
			}
		} else if x < 20 {
			act = 1
		}
	case 4: // head events are held back in the loop
		if id == 4 {
			if x < 70 {
				act = 3
			}
		} else if x < 30 {
			act = 1
		} else if x < 35 {
			act = 2
		}
	default: // mixed
		switch {
		case x < 40:
		case x < 75:
			act = 1
		case x < 95:
			act = 2
		default:
			act = 3
		}
	}
	switch act {
	case 1:
		runtime.Gosched()
	case 2:
		atomic.AddInt64(&s.delays, 1)
		time.Sleep(time.Duration(us%200) * time.Microsecond)
	case 3:
		atomic.AddInt64(&s.delays, 1)
		time.Sleep(time.Duration(us) * time.Microsecond)
	}
}

// ---------------------------------------------------------------- operation templates (pure function of the seed)

type txTmpl struct {
	Acct  int    `json:"acct"`
	Off   int    `json:"nonce_offset"` // relative to the sender's nonce at the chain head when the op runs
	Price uint64 `json:"price"`
	Kind  int    `json:"kind"` // 0 plain, 1 over balance, 2 gas above block limit, 3 gas 30000, 4 variant (same nonce/price, other hash), 5 replacement that becomes the sender's costliest tx
}

type headTmpl struct {
	Mine     [][2]int       `json:"mine"` // (account, how many consecutive nonces)
	FromPool bool           `json:"from_pool"`
	SetBal   map[int]string `json:"set_balance,omitempty"`
	BaseFee  uint64         `json:"base_fee"`
	GasLimit uint64         `json:"gas_limit"`
	Qi       int            `json:"qi_tx"` // index of a Qi transaction included in the block, -1 none
	// Boundary: 0 none; balance of BAcct (or the next account that has pooled txs) set to 1: c1-1, 2: c1, 3: c2-1, where
	// c1 > c2 are the two highest distinct costs among that account's currently pooled txs; block gas limit set to
	// 4: g1-1, 5: g1, where g1 is the highest gas among all pooled txs (pool content read through VerifSnapshot)
	Boundary int `json:"boundary"`
	BAcct    int `json:"boundary_acct"`
}

type concOp struct {
	Kind  string     `json:"kind"`
	Txs   []txTmpl   `json:"txs,omitempty"`
	Price uint64     `json:"price,omitempty"`
	Heads []headTmpl `json:"heads,omitempty"` // head: 1 entry; reorg: the blocks of the new branch
	Depth int        `json:"depth,omitempty"` // reorg: how many blocks back the fork point is
	Each  bool       `json:"announce_each,omitempty"`
	Read  int        `json:"read,omitempty"`
	Acct  int        `json:"acct,omitempty"`
}

var concPrices = []uint64{8, 100, 100, 105, 110, 121, 200}

type runPlan struct {
	Run      int          `json:"run"`
	NAcct    int          `json:"accounts"`
	G        int          `json:"goroutines"`
	Phases   int          `json:"phases"`
	Pattern  int          `json:"hook_pattern"`
	Locals   bool         `json:"locals_allowed"`
	Journal  bool         `json:"journal"`
	Qi       bool         `json:"qi"`
	IdleS    int          `json:"idle_seconds_after_each_phase,omitempty"` // long-lived run: lets the 1-minute eviction and 30-second limiter tickers fire
	Balances []string     `json:"balances"`
	Cfg      string       `json:"config"`
	Ops      [][][]concOp `json:"-"` // [goroutine][phase][]op
	cfg      core.TxPoolConfig
	bals     []*big.Int
}

func genTx(r *rand.Rand, nAcct int) txTmpl {
	t := txTmpl{Acct: r.Intn(nAcct), Price: concPrices[r.Intn(len(concPrices))]}
	switch x := r.Intn(100); {
	case x < 40:
		t.Off = 0
	case x < 65:
		t.Off = 1
	case x < 80:
		t.Off = 2
	case x < 88:
		t.Off = 3
	case x < 93:
		t.Off = -1
	case x < 97:
		t.Off = 4
	default:
		t.Off = 7
	}
	switch x := r.Intn(100); {
	case x < 72:
	case x < 78:
		t.Kind = 1
	case x < 82:
		t.Kind = 2
	case x < 87:
		t.Kind = 3
	case x < 92:
		t.Kind = 4
	default:
		t.Kind = 5
	}
	return t
}

func genHead(r *rand.Rand, nAcct int) headTmpl {
	h := headTmpl{FromPool: r.Intn(4) > 0, BaseFee: []uint64{5, 10, 10, 10, 12}[r.Intn(5)], GasLimit: 5_000_000, Qi: -1}
	if r.Intn(5) == 0 {
		h.Qi = r.Intn(nQiTx)
	}
	if r.Intn(10) < 3 {
		h.Boundary, h.BAcct = 1+r.Intn(5), r.Intn(nAcct)
	}
	if r.Intn(12) == 0 {
		h.GasLimit = 25_000
	}
	for k := r.Intn(4); k > 0; k-- {
		h.Mine = append(h.Mine, [2]int{r.Intn(nAcct), 1 + r.Intn(2)})
	}
	if r.Intn(4) == 0 {
		h.SetBal = map[int]string{}
		a := r.Intn(nAcct)
		switch x := r.Intn(10); {
		case x < 1:
			h.SetBal[a] = "0"
		case x < 3:
			h.SetBal[a] = fmt.Sprint(21000 * 100) // only the 100-priced plain transfers stay affordable
		case x < 6:
			h.SetBal[a] = fmt.Sprint(21000 * 200 * 3)
		default:
			h.SetBal[a] = bigPow10(18).String()
		}
	}
	return h
}

func genOp(r *rand.Rand, p *runPlan) concOp {
	x := r.Intn(100)
	nA := p.NAcct
	batch := func() []txTmpl {
		n := 1 + r.Intn(4)
		out := make([]txTmpl, n)
		for i := range out {
			out[i] = genTx(r, nA)
		}
		if r.Intn(3) == 0 { // a run of consecutive nonces from one sender
			for i := range out {
				out[i].Acct, out[i].Off, out[i].Kind = out[0].Acct, i, 0
			}
		}
		return out
	}
	switch {
	case x < 14:
		t := genTx(r, nA)
		if !p.Locals {
			return concOp{Kind: "AddRemote", Txs: []txTmpl{t}}
		}
		t.Acct = r.Intn(2) // only the first two accounts ever become local
		return concOp{Kind: "AddLocal", Txs: []txTmpl{t}}
	case x < 40:
		return concOp{Kind: "AddRemotes", Txs: batch()}
	case x < 56:
		return concOp{Kind: "AddRemotesSync", Txs: batch()}
	case x < 66:
		return concOp{Kind: "AddRemote", Txs: []txTmpl{genTx(r, nA)}}
	case x < 70:
		return concOp{Kind: "SetGasPrice", Price: []uint64{1, 1, 1, 1, 9, 101, 106, 150}[r.Intn(8)]}
	case x < 80:
		return concOp{Kind: "Head", Heads: []headTmpl{genHead(r, nA)}}
	case x < 84:
		op := concOp{Kind: "Reorg", Depth: 1 + r.Intn(3), Each: r.Intn(3) == 0}
		for n := 1 + r.Intn(3); n > 0; n-- {
			op.Heads = append(op.Heads, genHead(r, nA))
		}
		return op
	case x < 94:
		rd := r.Intn(13)
		if rd >= 10 {
			rd = 3 // TxPoolPending (what the block producer calls) is the most frequent reader
		}
		return concOp{Kind: "Read", Read: rd, Acct: r.Intn(nA)}
	default:
		if p.Qi {
			if r.Intn(3) == 0 {
				return concOp{Kind: "QiRemove", Read: r.Intn(8)}
			}
			return concOp{Kind: "QiAdd", Read: r.Intn(8)}
		}
		return concOp{Kind: "AddRemotes", Txs: batch()}
	}
}

func genPlan(r *rand.Rand, run, opsPerRun int) *runPlan {
	p := &runPlan{Run: run, NAcct: 3 + r.Intn(4), G: 4 + r.Intn(13), Phases: 4, Pattern: r.Intn(6),
		Locals: run%3 != 0, Journal: run%4 == 1, Qi: qiAvailable && run%2 == 0}
	p.cfg = core.TxPoolConfig{
		NoLocals: false, Rejournal: time.Second,
		PriceLimit: 1, PriceBump: 10,
		AccountSlots: 2, GlobalSlots: 6, AccountQueue: 2, GlobalQueue: 6,
		MaxSenders: []uint64{4, 64}[r.Intn(2)], MaxFeesCached: 4, SendersChBuffer: []uint64{1, 16}[r.Intn(2)],
		QiPoolSize: 3, QiTxLifetime: time.Second, Lifetime: time.Millisecond,
		ReorgFrequency: []time.Duration{time.Millisecond, 5 * time.Millisecond, 50 * time.Millisecond, time.Hour}[r.Intn(4)],
	}
	if p.Journal {
		p.cfg.Journal = "c19-journal.rlp"
	}
	p.Cfg = fmt.Sprintf("%+v", p.cfg)
	for i := 0; i < p.NAcct; i++ {
		var b *big.Int
		switch r.Intn(3) {
		case 0:
			b = bigPow10(18)
		case 1:
			b = big.NewInt(21000 * 200 * 3)
		default:
			b = big.NewInt(21000 * 200 * 40)
		}
		p.bals = append(p.bals, b)
		p.Balances = append(p.Balances, b.String())
	}
	perG := opsPerRun / p.G
	if perG < p.Phases {
		perG = p.Phases
	}
	p.Ops = make([][][]concOp, p.G)
	for g := 0; g < p.G; g++ {
		p.Ops[g] = make([][]concOp, p.Phases)
		for i := 0; i < perG; i++ {
			ph := i * p.Phases / perG
			p.Ops[g][ph] = append(p.Ops[g][ph], genOp(r, p))
		}
	}
	return p
}

// ---------------------------------------------------------------- execution

type histEntry struct {
	G      int    `json:"g"`
	Phase  int    `json:"phase"`
	Start  int64  `json:"start_seq"`
	End    int64  `json:"end_seq"`
	Op     string `json:"op"`
	Result string `json:"result,omitempty"`
}

type concRun struct {
	m     *mon.M
	plan  *runPlan
	rig   *rig
	sch   *sched
	seq   int64
	histM sync.Mutex
	hist  []histEntry
	qi    *qiEnv

	counts map[string]int64
	cntMu  sync.Mutex

	okMu  sync.Mutex
	okTxs map[int][]txKey // per account: transactions the pool accepted in this run
}

func (cr *concRun) count(k string) {
	cr.cntMu.Lock()
	cr.counts[k]++
	cr.cntMu.Unlock()
}

func (cr *concRun) resolve(t txTmpl) *txInfo {
	h := cr.rig.chain.head()
	base := int64(h.nonces[t.Acct])
	n := base + int64(t.Off)
	if n < 0 {
		n = 0
	}
	k := txKey{acct: t.Acct, nonce: uint64(n), price: t.Price, gas: 21000}
	if t.Kind == 5 {
		// replace the most recently accepted, still unmined transaction of the sender with one that is priced (and,
		// two times out of three, gassed) above everything the sender got accepted: the sender's costliest tx
		cr.okMu.Lock()
		var target *txKey
		maxPrice := uint64(0)
		for i := range cr.okTxs[t.Acct] {
			c := &cr.okTxs[t.Acct][i]
			if c.price > maxPrice {
				maxPrice = c.price
			}
			if int64(c.nonce) >= base {
				target = c
			}
		}
		if target != nil && maxPrice < 1_000_000 {
			k.nonce, k.price = target.nonce, maxPrice*12/10+1
			if t.Off != 1 {
				k.gas = 30_000
			}
			cr.count("costliest-replacement-built")
		}
		cr.okMu.Unlock()
		return mkTx(k)
	}
	switch t.Kind {
	case 1:
		k.value = 2_000_000_000 // 2e21 wei: above every balance
	case 2:
		k.gas = 6_000_000
	case 3:
		k.gas = 30_000
	case 4:
		k.salt = 1
		k.gas = 21_100
	}
	return mkTx(k)
}

func errClass(err error) string {
	if err == nil {
		return "ok"
	}
	s := err.Error()
	for _, k := range []string{"already known", "replacement transaction underpriced", "transaction underpriced", "txpool is full",
		"nonce too low", "insufficient funds", "exceeds block gas limit", "incorrect or low gas price", "intrinsic gas too low", "invalid sender"} {
		if strings.Contains(s, k) {
			return strings.ReplaceAll(k, " ", "-")
		}
	}
	if len(s) > 40 {
		s = s[:40]
	}
	return "other:" + s
}

func (cr *concRun) exec(g, phase int, op concOp) {
	pool := cr.rig.pool
	start := atomic.AddInt64(&cr.seq, 1)
	desc := op.Kind
	res := ""
	defer func() {
		end := atomic.AddInt64(&cr.seq, 1)
		if rec := recover(); rec != nil {
			kind, stk := op.Kind, ""
			if kp, ok := rec.(kindPanic); ok {
				kind, rec, stk = kp.kind, kp.rec, kp.stk
			} else {
				stk = stack()
			}
			res = fmt.Sprintf("PANIC: %v", rec)
			cr.histM.Lock()
			cr.hist = append(cr.hist, histEntry{g, phase, start, end, desc, res})
			cr.histM.Unlock()
			cr.m.Violation("api-call-panic:"+kind, fmt.Sprintf("%s panicked: %v\n%s", desc, rec, stk), cr.witness(nil, nil))
			return
		}
		cr.histM.Lock()
		cr.hist = append(cr.hist, histEntry{g, phase, start, end, desc, res})
		cr.histM.Unlock()
	}()
	addRes := func(tis []*txInfo, errs []error) {
		var ds, rs []string
		for i, ti := range tis {
			ds = append(ds, txDesc(ti.tx))
			c := errClass(errs[i])
			rs = append(rs, c)
			cr.count("result:" + c)
			if errs[i] == nil {
				cr.okMu.Lock()
				cr.okTxs[ti.key.acct] = append(cr.okTxs[ti.key.acct], ti.key)
				cr.okMu.Unlock()
			}
		}
		desc = op.Kind + "[" + strings.Join(ds, " ") + "]"
		res = strings.Join(rs, " ")
	}
	switch op.Kind {
	case "AddLocal":
		ti := cr.resolve(op.Txs[0])
		err := pool.AddLocal(ti.tx)
		addRes([]*txInfo{ti}, []error{err})
	case "AddRemote":
		ti := cr.resolve(op.Txs[0])
		err := pool.AddRemote(ti.tx)
		addRes([]*txInfo{ti}, []error{err})
	case "AddRemotes", "AddRemotesSync":
		var tis []*txInfo
		var txs []*types.Transaction
		for _, t := range op.Txs {
			ti := cr.resolve(t)
			tis = append(tis, ti)
			txs = append(txs, ti.tx)
		}
		var errs []error
		if op.Kind == "AddRemotes" {
			errs = pool.AddRemotes(txs)
		} else {
			errs = pool.AddRemotesSync(txs)
		}
		addRes(tis, errs)
	case "SetGasPrice":
		desc = fmt.Sprintf("SetGasPrice(%d)", op.Price)
		pool.SetGasPrice(new(big.Int).SetUint64(op.Price))
	case "Head":
		desc = cr.produce(op)
	case "Reorg":
		desc = cr.produce(op)
	case "Read":
		a := accounts()[op.Acct]
		switch op.Read {
		case 0:
			p, q, _ := pool.Stats()
			desc = fmt.Sprintf("Stats=%d/%d", p, q)
		case 1:
			pool.Content()
			desc = "Content"
		case 2:
			pool.ContentFrom(a.ia)
			desc = fmt.Sprintf("ContentFrom(a%d)", a.idx)
		case 3:
			pool.TxPoolPending()
			desc = "TxPoolPending"
		case 4:
			desc = fmt.Sprintf("Nonce(a%d)=%d", a.idx, pool.Nonce(a.ia))
		case 5:
			ti := cr.resolve(txTmpl{Acct: op.Acct, Price: 100})
			desc = fmt.Sprintf("Get/Has/Status(%s)=%v", txDesc(ti.tx), pool.Status([]common.Hash{ti.tx.Hash()}))
			pool.Get(ti.tx.Hash())
			pool.Has(ti.tx.Hash())
		case 6:
			pool.Locals()
			desc = "Locals"
		case 7:
			desc = "GasPrice=" + pool.GasPrice().String()
		case 8:
			pool.QiPoolPending()
			desc = "QiPoolPending"
		default:
			ti := cr.resolve(txTmpl{Acct: op.Acct, Price: 100})
			pool.GetTxsFromBroadcastSet(ti.tx.Hash())
			desc = "GetTxsFromBroadcastSet"
		}
	case "QiAdd":
		desc, res = cr.qi.add(cr, op.Read)
	case "QiRemove":
		desc = cr.qi.remove(cr, op.Read)
	}
	cr.count("op:" + op.Kind)
}

// produce builds and announces new heads; production is serialised (prodMu), as
// a chain's is, so that the order of events equals the order of heads.
func (cr *concRun) produce(op concOp) string {
	c := cr.rig.chain
	c.prodMu.Lock()
	defer c.prodMu.Unlock()
	parent := c.head()
	what := "Head"
	if op.Kind == "Reorg" {
		d := op.Depth
		for d > 0 && parent.parent != nil {
			parent = parent.parent
			d--
		}
		if d == op.Depth { // chain too short: plain advance
			what = "Head(reorg-on-short-chain)"
		} else {
			what = fmt.Sprintf("Reorg(back %d to #%d, %d new)", op.Depth-d, parent.num, len(op.Heads))
			cr.count("reorg")
		}
	}
	var descs []string
	for i, ht := range op.Heads {
		var mined []*txInfo
		for _, mc := range ht.Mine {
			a, cnt := mc[0], mc[1]
			var fromPool types.Transactions
			if ht.FromPool {
				fromPool, _ = cr.rig.pool.ContentFrom(accounts()[a].ia)
			}
			next := parent.nonces[a]
			for _, m := range mined {
				if m.key.acct == a && m.key.nonce >= next {
					next = m.key.nonce + 1
				}
			}
			for j := 0; j < cnt; j++ {
				var ti *txInfo
				for _, tx := range fromPool {
					if tx.Nonce() == next {
						txMu.Lock()
						ti = txByH[tx.Hash()]
						txMu.Unlock()
					}
				}
				if ti == nil {
					if ht.FromPool {
						break
					}
					ti = mkTx(txKey{acct: a, nonce: next, price: 100, gas: 21000}) // mined elsewhere, never seen by the pool
				}
				mined = append(mined, ti)
				next++
			}
		}
		setBal := map[int]*big.Int{}
		for a, v := range ht.SetBal {
			b, _ := new(big.Int).SetString(v, 10)
			setBal[a] = b
		}
		spec := headSpec{ht.BaseFee, ht.GasLimit}
		bnote := ""
		if ht.Boundary > 0 {
			snap := cr.rig.pool.VerifSnapshot()
			if ht.Boundary <= 3 {
				for d := 0; d < cr.plan.NAcct; d++ {
					a := (ht.BAcct + d) % cr.plan.NAcct
					x := snap.Accounts[accounts()[a].ia]
					if x == nil {
						continue
					}
					var costs []*big.Int
					for _, tx := range append(append(types.Transactions{}, x.Pending...), x.Queue...) {
						c, dup := tx.Cost(), false
						for _, o := range costs {
							dup = dup || o.Cmp(c) == 0
						}
						if !dup {
							costs = append(costs, c)
						}
					}
					if len(costs) == 0 {
						continue
					}
					sort.Slice(costs, func(i, j int) bool { return costs[i].Cmp(costs[j]) > 0 })
					v := new(big.Int).Set(costs[0])
					switch {
					case ht.Boundary == 1 || (ht.Boundary == 3 && len(costs) < 2):
						v.Sub(v, big.NewInt(1))
					case ht.Boundary == 3:
						v.Sub(costs[1], big.NewInt(1))
					}
					setBal[a] = v
					bnote = fmt.Sprintf(" boundary-balance[a%d]=%s", a, v)
					cr.count("boundary-balance-head")
					break
				}
			} else {
				g1 := uint64(0)
				for _, x := range snap.Accounts {
					for _, tx := range append(append(types.Transactions{}, x.Pending...), x.Queue...) {
						if tx.Gas() > g1 {
							g1 = tx.Gas()
						}
					}
				}
				if g1 > 0 {
					spec.GasLimit = g1
					if ht.Boundary == 4 {
						spec.GasLimit = g1 - 1
					}
					bnote = fmt.Sprintf(" boundary-gas-limit=%d", spec.GasLimit)
					cr.count("boundary-gas-limit-head")
				}
			}
		}
		var extra []*types.Transaction
		if cr.plan.Qi && cr.qi != nil && ht.Qi >= 0 && cr.qi.txs[ht.Qi%len(cr.qi.txs)].kind == "valid" {
			extra = append(extra, cr.qi.txs[ht.Qi%len(cr.qi.txs)].tx)
		}
		b := c.extend(parent, mined, setBal, spec, extra...)
		var ms []string
		for _, tx := range b.txs {
			if tx.Type() == types.QiTxType {
				ms = append(ms, "qi")
				continue
			}
			ms = append(ms, txDesc(tx))
		}
		descs = append(descs, fmt.Sprintf("#%d{mined:%v bal:%v fee:%d gas:%d%s}", b.num, ms, ht.SetBal, ht.BaseFee, spec.GasLimit, bnote))
		parent = b
		if op.Each || i == len(op.Heads)-1 {
			c.announce(b)
			cr.count("head-event")
		}
	}
	return what + " " + strings.Join(descs, " ")
}

func stack() string {
	buf := make([]byte, 16<<10)
	return string(buf[:runtime.Stack(buf, false)])
}

type concWitness struct {
	Plan     *runPlan    `json:"plan"`
	Phase    int         `json:"phase"`
	History  []histEntry `json:"history"`
	Snapshot *snapView   `json:"snapshot,omitempty"`
	HookSig  string      `json:"interleaving_signature"`
	Note     string      `json:"note,omitempty"`
}

func (cr *concRun) witness(s *core.VerifPoolSnapshot, phase *int) concWitness {
	cr.histM.Lock()
	h := append([]histEntry(nil), cr.hist...)
	cr.histM.Unlock()
	sort.Slice(h, func(i, j int) bool { return h[i].Start < h[j].Start })
	w := concWitness{Plan: cr.plan, History: h, HookSig: cr.sch.signature()}
	if phase != nil {
		w.Phase = *phase
	}
	if s != nil {
		v := viewOf(s)
		w.Snapshot = &v
	}
	return w
}

// runOne executes one plan. It returns false if the stage must stop (a call
// did not return: watchdog).
func runOne(m *mon.M, plan *runPlan, logger *log.Logger, watch *logWatch, sdb state.Database, hookRand *rand.Rand, qiE *qiEnv) bool {
	resetLocalFlags()
	var pdb = qiE.database(logger)
	r := newRig(logger, watch, plan.cfg, sdb, plan.NAcct, plan.bals, headSpec{10, 5_000_000}, pdb)
	// own PRNG per run: goroutines of an earlier (stopped) pool may still be inside the previous run's action
	cr := &concRun{m: m, plan: plan, rig: r, sch: newSched(rand.New(rand.NewSource(hookRand.Int63())), plan.Pattern), counts: map[string]int64{}, qi: qiE, okTxs: map[int][]txKey{}}
	if qiE != nil {
		qiE.attach(r.chain)
	}
	core.VerifSetHook(cr.sch.at)
	defer core.VerifSetHook(nil)
	const wd = 90 * time.Second

	hang := func(what string) bool {
		p := dumpGoroutines(fmt.Sprintf("conc-watchdog-run%d", plan.Run))
		for _, pn := range watch.takePanics() {
			m.Violation("pool-goroutine-panic", pn, cr.witness(nil, nil))
		}
		m.Inconclusive(fmt.Sprintf("conc run %d: %s did not return within %s; goroutine dump: %s", plan.Run, what, wd, p))
		return false
	}

	localsUsed := plan.Locals || plan.Journal
	for ph := 0; ph < plan.Phases; ph++ {
		var wg sync.WaitGroup
		for g := 0; g < plan.G; g++ {
			wg.Add(1)
			go func(g int) {
				defer wg.Done()
				for _, op := range plan.Ops[g][ph] {
					cr.exec(g, ph, op)
				}
			}(g)
		}
		done := make(chan struct{})
		go func() { wg.Wait(); close(done) }()
		select {
		case <-done:
		case <-time.After(wd):
			return hang(fmt.Sprintf("phase %d (some pool API call)", ph))
		}
		r.wd = wd
		switch r.quiesce() {
		case qTimeout:
			return hang(fmt.Sprintf("quiesce after phase %d", ph))
		case qPanic:
		}
		if ps := watch.takePanics(); len(ps) > 0 {
			for _, pn := range ps {
				m.Violation("pool-goroutine-panic", pn, cr.witness(nil, &ph))
			}
			// the pool may be wedged (its mutex is never released after a panic
			// in a critical section): abandon this pool
			go r.stop()
			return true
		}
		snap := r.pool.VerifSnapshot()
		fs, st := checkInvariants(snap, localsUsed)
		for _, f := range fs {
			m.Violation(f.Sig, fmt.Sprintf("run %d phase %d: %s", plan.Run, ph, f.Detail), cr.witness(snap, &ph))
		}
		sig := fmt.Sprintf("%d/%s", plan.Run, cr.sch.signature())
		m.Eval("inv:quiescent-point", sig+fmt.Sprint("/", ph))
		if st.pending > 0 {
			m.Eval("obs:pending-nonempty", "")
		}
		if st.queued > 0 {
			m.Eval("obs:queue-nonempty", "")
		}
		if st.cumulativeOverBalance > 0 {
			m.AddExtra("cumulative_cost_exceeds_balance_observed", int64(st.cumulativeOverBalance))
		}
		if st.staleOvercount > 0 {
			m.AddExtra("stale_overcount_with_locals_observed", 1)
		}
		if uint64(st.pending) >= plan.cfg.GlobalSlots {
			m.Eval("obs:pending-at-global-limit", "")
		}
		if uint64(st.queued) >= plan.cfg.GlobalQueue {
			m.Eval("obs:queue-at-global-limit", "")
		}
		if uint64(snap.Slots) >= plan.cfg.GlobalSlots+plan.cfg.GlobalQueue {
			m.Eval("obs:pool-full", "")
		}
		if len(snap.Qi) > 0 {
			m.Eval("obs:qi-pool-nonempty", "")
		}
		if plan.IdleS > 0 {
			time.Sleep(time.Duration(plan.IdleS) * time.Second) // pacing only; the oracle below is again evaluated at a quiescent point
			if r.quiesce() == qTimeout {
				return hang(fmt.Sprintf("quiesce after idling behind phase %d", ph))
			}
			if ps := watch.takePanics(); len(ps) > 0 {
				for _, pn := range ps {
					m.Violation("pool-goroutine-panic", pn, cr.witness(nil, &ph))
				}
				go r.stop()
				return true
			}
			snap2 := r.pool.VerifSnapshot()
			fs2, st2 := checkInvariants(snap2, localsUsed)
			for _, f := range fs2 {
				m.Violation(f.Sig, fmt.Sprintf("run %d phase %d after %d s idle (lifetime eviction / limiter tickers): %s", plan.Run, ph, plan.IdleS, f.Detail), cr.witness(snap2, &ph))
			}
			m.Eval("inv:quiescent-point-after-idle", fmt.Sprintf("%d/%d", plan.Run, ph))
			if st2.pending+st2.queued < st.pending+st.queued {
				m.Eval("obs:evicted-while-idle", "")
			}
		}
		if ph == plan.Phases-1 && plan.Run < 2 {
			v := viewOf(snap)
			m.Sample(map[string]any{"run": plan.Run, "goroutines": plan.G, "pattern": plan.Pattern, "final_snapshot": v,
				"interleaving_signature": cr.sch.signature()})
		}
	}
	m.Eval("run", cr.sch.signature())
	m.Eval(fmt.Sprintf("hook-pattern:%d", plan.Pattern), "")
	for k, v := range cr.counts {
		m.AddExtra("count:"+k, v)
		if strings.HasPrefix(k, "result:") && v > 0 {
			m.Eval(k, "")
		}
	}
	if cr.counts["reorg"] > 0 {
		m.Eval("reorg", "")
	}
	for id, name := range map[int]string{1: "addTxs.beforeLock", 2: "runReorg.beforeLock", 3: "runReorg.afterUnlock", 4: "loop.headEvent", 5: "loop.evict"} {
		m.AddExtra("hook_hits:"+name, cr.sch.hitCount(id))
	}
	m.AddExtra("hook_delays", atomic.LoadInt64(&cr.sch.delays))
	// orderly shutdown must return too
	sd := make(chan struct{})
	go func() { r.stop(); close(sd) }()
	select {
	case <-sd:
	case <-time.After(wd):
		return hang("TxPool.Stop")
	}
	for _, pn := range watch.takePanics() {
		m.Violation("pool-goroutine-panic", pn, cr.witness(nil, nil))
	}
	return true
}

var concAnchors = []string{"core/tx_pool.go", "core/tx_list.go", "core/tx_noncer.go", "core/tx_journal.go", "core/tx_cacher.go", "core/types/transaction.go"}

func TestC19Conc(t *testing.T) {
	m := mon.New(t, "C19", "conc")
	defer m.Finish()
	nRuns := m.N(60, 3000)
	opsPerRun := 400
	m.Rule(fmt.Sprintf("%d runs x ~%d operations by 4-16 goroutines (AddLocal/AddRemote(s)/AddRemotesSync with valid, gapped, stale, replacing, underpriced, over-balance and over-gas-limit transactions; "+
		"replacements priced/gassed to become the sender's costliest tx; "+
		"SetGasPrice; head events with mined transactions, balance changes, base-fee and gas-limit changes, and (30%% of heads) a balance or block gas limit at the boundary "+
		"(c1-1, c1, c2-1 / g1-1, g1) of the costs / gas of the currently pooled transactions; reorgs 1-3 deep that resurrect transactions; read API calls; Qi add/remove when available) "+
		"on a pool with AccountSlots 2, GlobalSlots 6, AccountQueue 2, GlobalQueue 6, PriceBump 10; verifhook delays in 6 patterns; 4 quiescent points per run; "+
		"distinct = distinct (run, hook-hit-order hash) pairs", nRuns, opsPerRun))
	m.Assume("quiescent point = all submitting goroutines at a barrier, every announced head event handled by the pool's loop (sentinel events), the pool's own same-head reset served (VerifQuiesce)",
		"'affordable from its balance' is read per transaction (cost <= balance), the pool's own notion; cumulative overdraft is only counted",
		"lifetime eviction (1-minute ticker, unexported interval) and the 30-second pool limiter only fire in the long-lived runs of the thorough tier (3 runs idling 35 s after each phase)",
		"the race detector only sees the interleavings that occurred")
	accounts()
	watch := newLogWatch()
	hookGlobal(watch)
	logger := newPoolLogger("c19-conc-pool.log", watch)
	qiE := newQiEnv(m, logger)
	os.Remove("c19-journal.rlp")

	rPlan := m.Rand("conc-plan")
	rHook := m.Rand("conc-hook")
	var sdb state.Database
	for run := 0; run < nRuns; run++ {
		if run%200 == 0 {
			sdb = state.NewDatabase(rawdb.NewMemoryDatabase(logger))
		}
		plan := genPlan(rPlan, run, opsPerRun)
		if m.Thorough() && run%1000 == 500 {
			plan.IdleS = 35
		}
		if os.Getenv("C19_IDLE_RUN") == fmt.Sprint(run) { // development only
			plan.IdleS = 35
		}
		if !runOne(m, plan, logger, watch, sdb, rHook, qiE) {
			break
		}
		if m.Violations() > 30 {
			break
		}
	}
	m.Extra("pool_error_log_messages", watch.errorCounts())

	// race reports of this process, one violation per distinct function pair
	nRace, byPair := raceReports(".", concAnchors)
	m.Extra("race_reports_seen_in_process", nRace)
	pairs := make([]string, 0, len(byPair))
	for p := range byPair {
		pairs = append(pairs, p)
	}
	sort.Strings(pairs)
	m.Extra("race_report_pairs", pairs)
	for _, p := range pairs {
		m.Violation("data-race:"+p, byPair[p], map[string]any{"report": byPair[p]})
	}
	m.Floor(int64(nRuns), 8)
	m.Need("inv:quiescent-point", "run", "reorg", "obs:pending-nonempty", "obs:queue-nonempty", "result:ok", "result:replacement-transaction-underpriced")
}

// raceReports parses the race detector's log files (GORACE log_path=<cwd>/race.log)
// the same way cmd/vcheck does: a report counts if one of its stacks touches an
// anchor file of the property and a /repo/ frame.
func raceReports(dir string, anchors []string) (int, map[string]string) {
	files, _ := filepath.Glob(filepath.Join(dir, "race.log*"))
	if wd := os.Getenv("VERIF_WORK"); wd != "" {
		more, _ := filepath.Glob(filepath.Join(wd, "race.log*"))
		files = append(files, more...)
	}
	seenF := map[string]bool{}
	total := 0
	out := map[string]string{}
	for _, f := range files {
		af, _ := filepath.Abs(f)
		if seenF[af] {
			continue
		}
		seenF[af] = true
		b, err := os.ReadFile(f)
		if err != nil {
			continue
		}
		blocks := strings.Split(string(b), "WARNING: DATA RACE")
		for _, blk := range blocks[1:] {
			total++
			if i := strings.Index(blk, "=================="); i >= 0 {
				blk = blk[:i]
			}
			hit := false
			for _, a := range anchors {
				if strings.Contains(blk, a) {
					hit = true
				}
			}
			if !strings.Contains(blk, repoPrefix()) || !accessInRepo(blk) {
				hit = false // both accesses are harness code
			}
			if !hit {
				continue
			}
			sig := raceSig(blk)
			if _, ok := out[sig]; !ok {
				if len(blk) > 6000 {
					blk = blk[:6000]
				}
				out[sig] = "WARNING: DATA RACE" + blk
			}
		}
	}
	return total, out
}

// accessInRepo: at least one of the two racing accesses (the top frame of a
// "Read at"/"Write at"/"Previous ..." stack) is code of /repo.
func accessInRepo(blk string) bool {
	lines := strings.Split(blk, "\n")
	for i, l := range lines {
		if strings.HasPrefix(l, "Write at") || strings.HasPrefix(l, "Read at") || strings.HasPrefix(l, "Previous write at") || strings.HasPrefix(l, "Previous read at") ||
			strings.HasPrefix(l, "Atomic write at") || strings.HasPrefix(l, "Previous atomic write at") {
			if i+2 < len(lines) && strings.Contains(lines[i+2], repoPrefix()) {
				return true
			}
			// runtime helpers (mapaccess, memmove, ...) sit above the real access
			for j := i + 2; j < len(lines) && j <= i+6; j += 2 {
				if strings.Contains(lines[j], "/usr/lib/go") || strings.Contains(lines[j], "/go/src/") {
					continue
				}
				if strings.Contains(lines[j], repoPrefix()) {
					return true
				}
				break
			}
		}
	}
	return false
}

// raceSig: the pair of innermost /repo/ frames (function names, no line
// numbers). cmd/vcheck cuts the name at the first '(' which, for methods, leaves
// only the package path; here the whole function name is kept.
func raceSig(blk string) string {
	var fr []string
	lines := strings.Split(blk, "\n")
	for i, l := range lines {
		if strings.HasPrefix(l, "Write at") || strings.HasPrefix(l, "Read at") || strings.HasPrefix(l, "Previous write at") || strings.HasPrefix(l, "Previous read at") {
			for j := i + 1; j < len(lines) && strings.TrimSpace(lines[j]) != ""; j++ {
				if strings.Contains(lines[j], repoPrefix()) && j > 0 {
					fn := strings.TrimSpace(lines[j-1])
					if k := strings.LastIndexByte(fn, '('); k > 0 { // strip the argument list only
						fn = fn[:k]
					}
					fn = strings.TrimPrefix(fn, "github.com/dominant-strategies/go-quai/")
					fr = append(fr, fn)
					break
				}
			}
		}
	}
	sort.Strings(fr)
	return strings.Join(fr, "~")
}

// repoPrefix is the path prefix of the repository under test in stack traces ("/repo/", or the
// scratch copy VERIF_MODFILE points to in calibration runs).
func repoPrefix() string {
	if mf := os.Getenv("VERIF_MODFILE"); mf != "" {
		if b, err := os.ReadFile(mf); err == nil {
			for _, l := range strings.Split(string(b), "\n") {
				if i := strings.Index(l, "go-quai => "); i >= 0 {
					return strings.TrimRight(strings.TrimSpace(l[i+len("go-quai => "):]), "/") + "/"
				}
			}
		}
	}
	return "/repo/"
}
