//go:build verif

// C19 — the transaction pool stays internally consistent under any interleaving.
//
// harness_test.go: a scripted blockChain (real *state.StateDB states, scripted
// heads incl. sibling branches, balance / nonce changes between heads), funded
// zone-0-0 Quai accounts, a cache of signed transactions, pool construction
// with tiny limits, the quiescence protocol and the panic / error log hook.
package c19

import (
	"crypto/ecdsa"
	"encoding/binary"
	"fmt"
	"math/big"
	"os"
	"path/filepath"
	"runtime/pprof"
	"sync"
	"sync/atomic"
	"time"

	"github.com/sirupsen/logrus"

	"github.com/dominant-strategies/go-quai/common"
	"github.com/dominant-strategies/go-quai/consensus"
	"github.com/dominant-strategies/go-quai/core"
	"github.com/dominant-strategies/go-quai/core/rawdb"
	"github.com/dominant-strategies/go-quai/core/state"
	"github.com/dominant-strategies/go-quai/core/types"
	"github.com/dominant-strategies/go-quai/crypto"
	"github.com/dominant-strategies/go-quai/ethdb"
	"github.com/dominant-strategies/go-quai/event"
	"github.com/dominant-strategies/go-quai/log"
	"github.com/dominant-strategies/go-quai/params"
)

var zoneLoc = common.Location{0, 0}

// chainHeadChanSize mirrors the (unexported) buffer size of the pool's
// chain-head channel; only used to size the sentinel flush (see flushHeads).
const chainHeadChanSize = 10

func chainConfig() *params.ChainConfig {
	cfg := *params.TestChainConfig
	cfg.Location = zoneLoc
	return &cfg
}

// ---------------------------------------------------------------- accounts

type acct struct {
	idx  int
	key  *ecdsa.PrivateKey
	addr common.Address
	ia   common.InternalAddress
}

var (
	acctOnce sync.Once
	accts    []*acct
)

const maxAccts = 8

// accounts returns deterministic keys whose address is a zone-0-0 Quai-ledger
// address (keys are ground until PubkeyToAddress lands in scope).
func accounts() []*acct {
	acctOnce.Do(func() {
		for i := 0; i < maxAccts; i++ {
			for ctr := uint32(0); ; ctr++ {
				var seed [16]byte
				copy(seed[:], "c19-acct")
				binary.BigEndian.PutUint32(seed[8:], uint32(i))
				binary.BigEndian.PutUint32(seed[12:], ctr)
				k, err := crypto.ToECDSA(crypto.Keccak256(seed[:]))
				if err != nil {
					continue
				}
				a := crypto.PubkeyToAddress(k.PublicKey, zoneLoc)
				b := a.Bytes()
				if b[0] != 0x00 || b[1]&0x80 != 0 {
					continue
				}
				ia, err := a.InternalAndQuaiAddress()
				if err != nil {
					continue
				}
				accts = append(accts, &acct{idx: i, key: k, addr: a, ia: ia})
				break
			}
		}
	})
	return accts
}

// ---------------------------------------------------------------- transactions

type txKey struct {
	acct  int
	nonce uint64
	price uint64
	gas   uint64
	value uint64 // in units of 1e12 wei (so that over-balance values fit)
	salt  uint8
}

type txInfo struct {
	tx  *types.Transaction
	key txKey
}

var (
	txMu    sync.Mutex
	txCache = map[txKey]*txInfo{}
	txByH   = map[common.Hash]*txInfo{}
)

var valueUnit = new(big.Int).Exp(big.NewInt(10), big.NewInt(12), nil)

// mkTx returns the (cached) signed transaction for the key. The same object is
// reused between runs; resetLocalFlags clears the only mutable bit.
func mkTx(k txKey) *txInfo {
	txMu.Lock()
	defer txMu.Unlock()
	if ti, ok := txCache[k]; ok {
		return ti
	}
	as := accounts()
	to := as[(k.acct+1)%len(as)].addr
	inner := &types.QuaiTx{
		ChainID:  chainConfig().ChainID,
		Nonce:    k.nonce,
		GasPrice: new(big.Int).SetUint64(k.price),
		Gas:      k.gas,
		To:       &to,
		Value:    new(big.Int).Mul(new(big.Int).SetUint64(k.value), valueUnit),
	}
	if k.salt != 0 {
		inner.Data = []byte{k.salt}
	}
	tx, err := types.SignNewTx(as[k.acct].key, types.LatestSigner(chainConfig()), inner)
	if err != nil {
		panic(fmt.Sprintf("c19 harness: cannot sign: %v", err))
	}
	ti := &txInfo{tx: tx, key: k}
	txCache[k] = ti
	txByH[tx.Hash()] = ti
	return ti
}

func txDesc(tx *types.Transaction) string {
	txMu.Lock()
	ti := txByH[tx.Hash()]
	txMu.Unlock()
	if ti == nil {
		return fmt.Sprintf("tx(%x nonce=%d price=%s)", tx.Hash().Bytes()[:4], tx.Nonce(), tx.GasPrice())
	}
	k := ti.key
	s := fmt.Sprintf("a%d/n%d/p%d", k.acct, k.nonce, k.price)
	if k.gas != 21000 {
		s += fmt.Sprintf("/g%d", k.gas)
	}
	if k.value != 0 {
		s += fmt.Sprintf("/v%d", k.value)
	}
	if k.salt != 0 {
		s += fmt.Sprintf("/s%d", k.salt)
	}
	return s
}

func resetLocalFlags() {
	txMu.Lock()
	for _, ti := range txCache {
		ti.tx.SetLocal(false)
	}
	txMu.Unlock()
}

// ---------------------------------------------------------------- scripted chain

type blk struct {
	wo     *types.WorkObject
	parent *blk
	num    uint64
	root   common.Hash
	nonces []uint64   // per account index
	bals   []*big.Int // per account index
	txs    []*types.Transaction
}

type schain struct {
	logger *log.Logger
	sdb    state.Database
	nAcct  int

	feed  event.Feed
	scope event.SubscriptionScope

	prodMu sync.Mutex // serialises head production and event delivery
	mu     sync.RWMutex
	blocks map[common.Hash]*blk
	cur    *blk
	clock  uint64

	primeTerm *types.WorkObject // served by GetHeaderByHash for Qi validation
	sentHeads int64
}

type genKey struct {
	sdb   state.Database
	nAcct int
	spec  headSpec
	bals  string
}

var (
	genMu    sync.Mutex
	genCache = map[genKey]*blk{}
)

type headSpec struct {
	BaseFee  uint64
	GasLimit uint64
}

// newChain: sdb may be shared between chains (states are content-addressed;
// building a trie database per chain costs a fastcache allocation each time).
func newChain(logger *log.Logger, sdb0 state.Database, nAcct int, balances []*big.Int, spec headSpec) *schain {
	c := &schain{logger: logger, nAcct: nAcct, blocks: map[common.Hash]*blk{}}
	c.sdb = sdb0
	if c.sdb == nil {
		c.sdb = state.NewDatabase(rawdb.NewMemoryDatabase(logger))
	}
	c.clock = 1000
	// the first block (immutable) is cached per state database
	gk := genKey{c.sdb, nAcct, spec, fmt.Sprint(balances)}
	genMu.Lock()
	g0 := genCache[gk]
	genMu.Unlock()
	if g0 != nil {
		c.blocks[g0.wo.Hash()] = g0
		c.cur = g0
		return c
	}
	defer func() {
		genMu.Lock()
		if len(genCache) > 256 {
			genCache = map[genKey]*blk{}
		}
		genCache[gk] = c.cur
		genMu.Unlock()
	}()
	as := accounts()
	sdb, err := state.New(common.Hash{}, common.Hash{}, new(big.Int), c.sdb, c.sdb, nil, zoneLoc, logger)
	if err != nil {
		panic(err)
	}
	g := &blk{num: 1, nonces: make([]uint64, nAcct), bals: make([]*big.Int, nAcct)}
	for i := 0; i < nAcct; i++ {
		sdb.CreateAccount(as[i].ia)
		sdb.SetBalance(as[i].ia, balances[i])
		g.bals[i] = new(big.Int).Set(balances[i])
	}
	root, err := sdb.Commit(true)
	if err != nil {
		panic(err)
	}
	g.root = root
	g.wo = c.buildWo(nil, g, spec)
	c.blocks[g.wo.Hash()] = g
	c.cur = g
	return c
}

func (c *schain) buildWo(parent *blk, b *blk, spec headSpec) *types.WorkObject {
	wo := types.EmptyZoneWorkObject()
	c.clock++
	wh := wo.WorkObjectHeader()
	wh.SetNumber(new(big.Int).SetUint64(b.num))
	wh.SetTime(1_700_000_000 + c.clock)
	wh.SetNonce(types.EncodeNonce(c.clock))
	wh.SetDifficulty(big.NewInt(1_000_000))
	if parent != nil {
		wh.SetParentHash(parent.wo.Hash())
	}
	h := wo.Body().Header()
	h.SetBaseFee(new(big.Int).SetUint64(spec.BaseFee))
	h.SetGasLimit(spec.GasLimit)
	h.SetEVMRoot(b.root)
	h.SetEtxSetRoot(types.EmptyRootHash)
	h.SetQuaiStateSize(new(big.Int))
	wo.Body().SetTransactions(b.txs)
	return wo
}

// extend builds (but does not announce) a child of parent that includes the
// given transactions (each must carry the sender's next nonce on that branch and
// be affordable, otherwise it is skipped) and then overrides balances.
func (c *schain) extend(parent *blk, mined []*txInfo, setBal map[int]*big.Int, spec headSpec, extra ...*types.Transaction) *blk {
	as := accounts()
	sdb, err := state.New(parent.root, common.Hash{}, new(big.Int), c.sdb, c.sdb, nil, zoneLoc, c.logger)
	if err != nil {
		panic(fmt.Sprintf("c19 harness: state.New(%x): %v", parent.root, err))
	}
	b := &blk{parent: parent, num: parent.num + 1,
		nonces: append([]uint64(nil), parent.nonces...), bals: make([]*big.Int, len(parent.bals))}
	for i, x := range parent.bals {
		b.bals[i] = new(big.Int).Set(x)
	}
	for _, ti := range mined {
		a := ti.key.acct
		cost := ti.tx.Cost()
		if ti.key.nonce != b.nonces[a] || b.bals[a].Cmp(cost) < 0 || ti.key.gas > spec.GasLimit {
			continue
		}
		b.nonces[a]++
		b.bals[a].Sub(b.bals[a], cost)
		sdb.SetNonce(as[a].ia, b.nonces[a])
		sdb.SetBalance(as[a].ia, b.bals[a])
		b.txs = append(b.txs, ti.tx)
	}
	b.txs = append(b.txs, extra...) // Qi transactions: no account state
	for a, v := range setBal {
		b.bals[a] = new(big.Int).Set(v)
		sdb.SetBalance(as[a].ia, v)
	}
	root, err := sdb.Commit(false)
	if err != nil {
		panic(err)
	}
	b.root = root
	c.mu.Lock()
	b.wo = c.buildWo(parent, b, spec)
	c.blocks[b.wo.Hash()] = b
	c.mu.Unlock()
	return b
}

// announce makes b the current head and delivers the chain-head event through
// the feed the pool subscribed to.
func (c *schain) announce(b *blk) {
	c.mu.Lock()
	c.cur = b
	c.mu.Unlock()
	atomic.AddInt64(&c.sentHeads, 1)
	c.feed.Send(core.ChainHeadEvent{Block: b.wo})
}

// flushHeads returns once the pool's event loop has finished handling every
// head event announced before the call: the loop handles events one at a time
// and ignores events without a block, so after chainHeadChanSize+1 such
// sentinels were accepted by the channel the first of them has been received,
// i.e. the handler of every earlier event (including its requestReset) returned.
func (c *schain) flushHeads() {
	for i := 0; i < chainHeadChanSize+1; i++ {
		c.feed.Send(core.ChainHeadEvent{})
	}
}

func (c *schain) head() *blk {
	c.mu.RLock()
	defer c.mu.RUnlock()
	return c.cur
}

// --- core.blockChain (unexported interface of the pool)

func (c *schain) CurrentBlock() *types.WorkObject { return c.head().wo }

func (c *schain) GetBlock(hash common.Hash, number uint64) *types.WorkObject {
	c.mu.RLock()
	defer c.mu.RUnlock()
	if b := c.blocks[hash]; b != nil && b.num == number {
		return b.wo
	}
	return nil
}

func (c *schain) StateAt(root, etxRoot common.Hash, quaiStateSize *big.Int) (*state.StateDB, error) {
	return state.New(root, etxRoot, quaiStateSize, c.sdb, c.sdb, nil, zoneLoc, c.logger)
}

func (c *schain) SubscribeChainHeadEvent(ch chan<- core.ChainHeadEvent) event.Subscription {
	return c.scope.Track(c.feed.Subscribe(ch))
}
func (c *schain) IsGenesisHash(common.Hash) bool                         { return false }
func (c *schain) CheckIfEtxIsEligible(common.Hash, common.Location) bool { return true }
func (c *schain) Engine(*types.WorkObjectHeader) consensus.Engine        { return nil }
func (c *schain) NodeCtx() int                                           { return common.ZONE_CTX }
func (c *schain) GetMaxTxInWorkShare() uint64                            { return 100 }
func (c *schain) CheckInCalcOrderCache(common.Hash) (*big.Int, int, bool) {
	return nil, common.ZONE_CTX, false
}
func (c *schain) AddToCalcOrderCache(common.Hash, int, *big.Int) {}
func (c *schain) CalcBaseFee(wo *types.WorkObject) *big.Int      { return wo.BaseFee() }
func (c *schain) CalcOrder(*types.WorkObject) (*big.Int, int, error) {
	return big.NewInt(0), common.ZONE_CTX, nil
}
func (c *schain) GetHeaderByHash(h common.Hash) *types.WorkObject {
	c.mu.RLock()
	defer c.mu.RUnlock()
	if b := c.blocks[h]; b != nil {
		return b.wo
	}
	return c.primeTerm
}
func (c *schain) GetHeaderOrCandidateByHash(h common.Hash) *types.WorkObject {
	return c.GetHeaderByHash(h)
}
func (c *schain) GetBlockByHash(h common.Hash) *types.WorkObject { return c.GetHeaderByHash(h) }

// ---------------------------------------------------------------- log hook: panics and internal error messages

type logWatch struct {
	mu      sync.Mutex
	panics  []string
	errMsgs map[string]int
	notify  chan struct{}
}

func newLogWatch() *logWatch {
	return &logWatch{errMsgs: map[string]int{}, notify: make(chan struct{}, 1)}
}

func (w *logWatch) Levels() []logrus.Level {
	return []logrus.Level{logrus.PanicLevel, logrus.FatalLevel, logrus.ErrorLevel}
}

func (w *logWatch) Fire(e *logrus.Entry) error {
	w.mu.Lock()
	defer w.mu.Unlock()
	if e.Message == "Go-Quai Panicked" {
		w.panics = append(w.panics, fmt.Sprintf("error=%v\n%v", e.Data["error"], e.Data["stacktrace"]))
		select {
		case w.notify <- struct{}{}:
		default:
		}
		return nil
	}
	w.errMsgs[e.Message]++
	return nil
}

func (w *logWatch) takePanics() []string {
	w.mu.Lock()
	defer w.mu.Unlock()
	p := w.panics
	w.panics = nil
	return p
}

func (w *logWatch) errorCounts() map[string]int {
	w.mu.Lock()
	defer w.mu.Unlock()
	out := map[string]int{}
	for k, v := range w.errMsgs {
		out[k] = v
	}
	return out
}

// newPoolLogger: error-level logger writing to a file in the cwd, with the
// watch hook attached. The same hook is attached to log.Global (the sender
// cacher's goroutines log their panics there).
func newPoolLogger(name string, w *logWatch) *log.Logger {
	l := logrus.New()
	f, err := os.OpenFile(name, os.O_CREATE|os.O_WRONLY|os.O_APPEND, 0o644)
	if err == nil {
		l.SetOutput(f)
	}
	l.SetFormatter(&logrus.TextFormatter{DisableColors: true, FullTimestamp: true})
	l.SetLevel(logrus.ErrorLevel)
	l.AddHook(w)
	return l
}

var globalHookOnce sync.Once

func hookGlobal(w *logWatch) {
	globalHookOnce.Do(func() { log.Global.AddHook(w) })
}

// ---------------------------------------------------------------- pool under test

type rig struct {
	chain *schain
	pool  *core.TxPool
	watch *logWatch
	db    ethdb.Database
	wd    time.Duration

	flushed int64
}

func newRig(logger *log.Logger, watch *logWatch, cfg core.TxPoolConfig, sdb state.Database, nAcct int, balances []*big.Int, spec headSpec, db ethdb.Database) *rig {
	c := newChain(logger, sdb, nAcct, balances, spec)
	if db == nil {
		db = rawdb.NewMemoryDatabase(logger)
	}
	p := core.NewTxPool(cfg, chainConfig(), c, logger, db)
	return &rig{chain: c, pool: p, watch: watch, db: db, wd: 60 * time.Second}
}

func (r *rig) stop() {
	r.pool.Stop()
	r.chain.scope.Close()
}

type quiesceResult int

const (
	qOK quiesceResult = iota
	qPanic
	qTimeout
)

// quiesceDirect is quiesce without the per-call watchdog (the caller has a
// stage-level one): flush the head events if any were announced since the last
// call, then the pool's own same-head reset.
func (r *rig) quiesceDirect() {
	if n := atomic.LoadInt64(&r.chain.sentHeads); n != r.flushed {
		r.chain.flushHeads()
		r.flushed = n
	}
	r.pool.VerifQuiesce()
}

// quiesce: every head event announced so far has been handled by the pool's
// loop, then the pool's own same-head reset request has been served. No sleeps
// decide anything; the timeout is a watchdog only.
func (r *rig) quiesce() quiesceResult {
	done := make(chan struct{})
	go func() {
		r.chain.flushHeads()
		r.pool.VerifQuiesce()
		close(done)
	}()
	select {
	case <-done:
		return qOK
	case <-r.watch.notify:
		// a pool goroutine panicked; give the call a moment to finish anyway
		select {
		case <-done:
		case <-time.After(2 * time.Second):
		}
		return qPanic
	case <-time.After(r.wd):
		return qTimeout
	}
}

func dumpGoroutines(tag string) string {
	dir := os.Getenv("VERIF_REPLAY_DIR")
	if dir == "" {
		dir = "."
	}
	os.MkdirAll(dir, 0o755)
	p := filepath.Join(dir, fmt.Sprintf("C19-%s-seed%s-goroutines.txt", tag, os.Getenv("VERIF_SEED")))
	f, err := os.Create(p)
	if err != nil {
		return ""
	}
	defer f.Close()
	pprof.Lookup("goroutine").WriteTo(f, 2)
	return p
}

func bigPow10(n int64) *big.Int { return new(big.Int).Exp(big.NewInt(10), big.NewInt(n), nil) }
