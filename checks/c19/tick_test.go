//go:build verif

// tick_test.go: stage "tick" — the invariants of inv_test.go evaluated at
// quiescent points that are reached WITHOUT a reset.
//
// The seq / conc stages establish quiescence with TxPool.VerifQuiesce, a
// same-head reset: reset() rebuilds pendingNonces from the state and re-promotes
// every queue, which repairs a stale virtual nonce (and re-heaps the price index)
// before the monitor looks. Here a quiescent point is reached the way a running
// node reaches it between two blocks: the submitted calls returned, the reorg
// loop received every promote request, and the pool's own ticker-launched
// (TxPoolConfig.ReorgFrequency) reorg runs absorbed them. Head events are rare,
// so most invariant evaluations see a pool whose last reset is many operations
// back.
//
// How "the ticker-launched runs absorbed every request" is established (no
// sleep decides anything; the wall clock is only a watchdog => INCONCLUSIVE):
//
//  1. every API call of the burst has returned;
//  2. head events announced in the burst: schain.flushHeads (sentinel events), so
//     the pool's loop has handed each reset request to the reorg loop;
//  3. promote requests travel through a FIFO channel of capacity
//     chainHeadChanSize that only the reorg loop drains. chainHeadChanSize+1
//     further requests are pushed through the public API (AddRemotes of a
//     transaction that validateTx refuses: gas above the block gas limit; the
//     pool is not changed, an empty account set is requested): once they were all
//     accepted the first of them has been received, hence every earlier request
//     is in the loop's dirty set or already handed to a run;
//  4. runs of one pool are strictly serial (the loop launches the next run only
//     after it received the previous run's done signal) and a run takes the
//     loop's whole dirty set / reset request when it is launched. Let c be the
//     number of completed critical sections (verifhook point
//     "txpool.runReorg.afterUnlock") read after step 3. The completion c+1 may
//     belong to a run launched before step 3 ended; the run that produces c+2 was
//     launched after c+1, i.e. after step 3, and therefore carried every request.
//     After c+2 the pool is quiescent; later ticker runs find no request.
//
// The hook action is process-global and carries no pool identity, so only one
// ticking pool may be alive at a time: histories run one after the other, each on
// a fresh pool that is stopped (TxPool.Stop waits for the reorg loop) before the
// next one starts. The lifetime sub-workload needs a pool that lives for the
// (unexported, 1 minute) eviction interval; that pool is created with
// ReorgFrequency 63 s, so that it produces no run at all while the histories
// execute, and exactly one ticker-launched run about 3 s after its eviction tick
// (see lifeRun).
package c19

import (
	"errors"
	"fmt"
	"math/big"
	"math/rand"
	"os"
	"sort"
	"strings"
	"sync/atomic"
	"testing"
	"time"

	"github.com/dominant-strategies/go-quai/core"
	"github.com/dominant-strategies/go-quai/core/rawdb"
	"github.com/dominant-strategies/go-quai/core/state"
	"github.com/dominant-strategies/go-quai/core/types"
	"github.com/dominant-strategies/go-quai/log"

	"verif/internal/mon"
)

const (
	tickBaseFee  = 10
	tickGasLimit = 5_000_000
	tickBump     = 10
	tickWatchdog = 60 * time.Second

	// tickDecideEvictedOccupant: a transaction that takes the (account, nonce) slot
	// of a pooled transaction with less than the configured bump because the
	// pool-full path of add() evicted the occupant first (it was the cheapest
	// remote transaction) is counted and sampled, and reported as a violation
	// only if this is set (see the stage report: left to the maintainer).
	tickDecideEvictedOccupant = false
)

// ---------------------------------------------------------------- hook: counting completed runs

type tickHooks struct {
	before, after, evict int64
	notify               chan struct{}
}

func newTickHooks() *tickHooks { return &tickHooks{notify: make(chan struct{}, 1)} }

func (h *tickHooks) at(name string) {
	switch name {
	case "txpool.runReorg.beforeLock":
		atomic.AddInt64(&h.before, 1)
		return
	case "txpool.runReorg.afterUnlock":
		atomic.AddInt64(&h.after, 1)
	case "txpool.loop.evict":
		atomic.AddInt64(&h.evict, 1)
	default:
		return
	}
	select {
	case h.notify <- struct{}{}:
	default:
	}
}

// tickSentinel: refused by validateTx (gas above the block gas limit) before
// anything else is looked at; never enters the pool, so it is never "known".
func tickSentinel() *types.Transaction {
	return mkTx(txKey{acct: 0, nonce: 0, price: 1000, gas: tickGasLimit + 1_000_000, salt: 7}).tx
}

var errSentinelAccepted = errors.New("the sentinel transaction was accepted")

// flushRequests: steps 2 and 3 of the protocol above.
func flushRequests(r *rig) error {
	if n := atomic.LoadInt64(&r.chain.sentHeads); n != r.flushed {
		r.chain.flushHeads()
		r.flushed = n
	}
	s := tickSentinel()
	for i := 0; i < chainHeadChanSize+1; i++ {
		if errs := r.pool.AddRemotes([]*types.Transaction{s}); len(errs) != 1 || errs[0] == nil {
			return errSentinelAccepted
		}
	}
	return nil
}

// awaitRuns waits until `runs` further critical sections of reorg runs completed.
func awaitRuns(h *tickHooks, watch *logWatch, from int64, runs int64, deadline <-chan time.Time) quiesceResult {
	for atomic.LoadInt64(&h.after) < from+runs {
		select {
		case <-h.notify:
		case <-watch.notify:
			return qPanic
		case <-deadline:
			return qTimeout
		}
	}
	return qOK
}

// guarded runs a pool call with a watchdog: after a panic inside a critical
// section the pool's mutex is never released and every later call blocks.
// false = the call did not return (the caller looks at the recorded panics /
// reports a hang); the goroutine is then left behind.
func guarded(r *rig, f func()) bool {
	done := make(chan struct{})
	go func() { f(); close(done) }()
	select {
	case <-done:
		return true
	case <-r.watch.notify:
		select {
		case <-done:
			return true
		case <-time.After(2 * time.Second):
			return false
		}
	case <-time.After(tickWatchdog):
		return false
	}
}

// guardedSnapshot: VerifSnapshot takes the pool's read lock. nil = no answer.
func guardedSnapshot(r *rig) *core.VerifPoolSnapshot {
	var s *core.VerifPoolSnapshot
	if !guarded(r, func() { s = r.pool.VerifSnapshot() }) {
		return nil
	}
	return s
}

// abandon stops a pool that may be wedged: Stop is given three seconds (a pool
// that still ticks would add run completions to the next history's count).
func abandon(r *rig) {
	sd := make(chan struct{})
	go func() { r.stop(); close(sd) }()
	select {
	case <-sd:
	case <-time.After(3 * time.Second):
	}
}

// tickQuiesce: the whole protocol for a pool whose ticker is fast.
func tickQuiesce(r *rig, h *tickHooks, wd time.Duration) (quiesceResult, error) {
	deadline := time.After(wd)
	done := make(chan error, 1)
	go func() { done <- flushRequests(r) }()
	select {
	case err := <-done:
		if err != nil {
			return qOK, err
		}
	case <-r.watch.notify:
		select {
		case <-done:
		case <-time.After(2 * time.Second):
		}
		return qPanic, nil
	case <-deadline:
		return qTimeout, nil
	}
	c := atomic.LoadInt64(&h.after)
	return awaitRuns(h, r.watch, c, 2, deadline), nil
}

// ---------------------------------------------------------------- plans (pure function of the seed)

type tickTx struct {
	Acct  int    `json:"acct"`
	Off   int    `json:"nonce_offset"` // relative to the sender's nonce at the chain head when the op runs
	Price uint64 `json:"price"`
	// Repl: price derived from the transaction occupying the slot at the last quiescent point, if any:
	// 1 exactly the configured bump, 2 one percent less, 3 +50%, 4 same price (other hash)
	Repl int   `json:"repl,omitempty"`
	Salt uint8 `json:"salt,omitempty"`
	Over bool  `json:"over_balance,omitempty"`
}

type tickHead struct {
	Mine   [][2]int       `json:"mine"` // (account, how many of its lowest pending transactions)
	SetBal map[int]string `json:"set_balance,omitempty"`
}

type tickOp struct {
	Kind  string    `json:"kind"` // AddRemotes AddRemote AddRemotesSync AddLocal SetGasPrice Head
	Txs   []tickTx  `json:"txs,omitempty"`
	Price uint64    `json:"price,omitempty"`
	Head  *tickHead `json:"head,omitempty"`
}

type tickPlan struct {
	Run      int        `json:"run"`
	Theme    string     `json:"theme"`
	NAcct    int        `json:"accounts"`
	Locals   bool       `json:"locals_allowed"`
	Balances []string   `json:"balances"`
	Cfg      string     `json:"config"`
	Bursts   [][]tickOp `json:"bursts"`
	cfg      core.TxPoolConfig
	bals     []*big.Int
}

var tickPrices = []uint64{100, 100, 105, 110, 121, 150, 150, 200, 300}
var tickFloors = []uint64{1, 1, 1, 101, 106, 125, 160, 210}

func tickConfig(r *rand.Rand) core.TxPoolConfig {
	return core.TxPoolConfig{
		NoLocals: false, Journal: "", Rejournal: time.Hour,
		PriceLimit: 1, PriceBump: tickBump,
		AccountSlots: []uint64{1, 2, 2, 3}[r.Intn(4)], GlobalSlots: []uint64{3, 4, 6}[r.Intn(3)],
		AccountQueue: []uint64{2, 3}[r.Intn(2)], GlobalQueue: []uint64{2, 3, 4, 6}[r.Intn(4)],
		MaxSenders: 64, MaxFeesCached: 8, SendersChBuffer: 64, QiPoolSize: 4,
		QiTxLifetime: time.Hour, Lifetime: time.Hour,
		ReorgFrequency: []time.Duration{500 * time.Microsecond, time.Millisecond, 2 * time.Millisecond}[r.Intn(3)],
	}
}

func genTickPlan(r *rand.Rand, run int) *tickPlan {
	p := &tickPlan{Run: run, NAcct: 3 + r.Intn(3), Locals: run%3 == 0}
	p.cfg = tickConfig(r)
	p.Cfg = fmt.Sprintf("%+v", p.cfg)
	for i := 0; i < p.NAcct; i++ {
		b := bigPow10(18)
		if r.Intn(6) == 0 {
			b = big.NewInt(21000 * 200 * 3)
		}
		p.bals = append(p.bals, b)
		p.Balances = append(p.Balances, b.String())
	}
	firstRemote := 0
	if p.Locals {
		firstRemote = 1 // only account 0 ever becomes local
	}
	randTx := func() tickTx {
		t := tickTx{Acct: r.Intn(p.NAcct), Price: tickPrices[r.Intn(len(tickPrices))]}
		switch x := r.Intn(100); {
		case x < 35:
			t.Off = 0
		case x < 60:
			t.Off = 1
		case x < 75:
			t.Off = 2
		case x < 85:
			t.Off = 3
		case x < 90:
			t.Off = 4
		case x < 95:
			t.Off = -1
		default:
			t.Off = 6
		}
		switch x := r.Intn(100); {
		case x < 80:
		case x < 85:
			t.Repl = 1
		case x < 90:
			t.Repl = 2
		case x < 94:
			t.Repl = 3
		case x < 97:
			t.Repl = 4
		default:
			t.Over = true
		}
		return t
	}
	randAdd := func() tickOp {
		x := r.Intn(100)
		switch {
		case x < 45:
			n := 1 + r.Intn(3)
			op := tickOp{Kind: "AddRemotes"}
			for i := 0; i < n; i++ {
				op.Txs = append(op.Txs, randTx())
			}
			if r.Intn(3) == 0 { // a run of consecutive nonces from one sender
				start := r.Intn(3)
				for i := range op.Txs {
					op.Txs[i] = tickTx{Acct: op.Txs[0].Acct, Off: start + i, Price: op.Txs[i].Price}
				}
			}
			return op
		case x < 62:
			return tickOp{Kind: "AddRemote", Txs: []tickTx{randTx()}}
		case x < 80:
			return tickOp{Kind: "AddRemotesSync", Txs: []tickTx{randTx()}}
		default:
			t := randTx()
			if !p.Locals {
				return tickOp{Kind: "AddRemote", Txs: []tickTx{t}}
			}
			t.Acct = 0
			return tickOp{Kind: "AddLocal", Txs: []tickTx{t}}
		}
	}
	randHead := func() tickOp {
		h := &tickHead{}
		for k := r.Intn(3); k > 0; k-- {
			h.Mine = append(h.Mine, [2]int{r.Intn(p.NAcct), 1 + r.Intn(2)})
		}
		if r.Intn(4) == 0 {
			h.SetBal = map[int]string{r.Intn(p.NAcct): []string{"0", fmt.Sprint(21000 * 100), fmt.Sprint(21000 * 200 * 3), bigPow10(18).String()}[r.Intn(4)]}
		}
		return tickOp{Kind: "Head", Head: h}
	}
	randBurst := func() []tickOp {
		var b []tickOp
		for n := 1 + r.Intn(3); n > 0; n-- {
			switch x := r.Intn(100); {
			case x < 78:
				b = append(b, randAdd())
			case x < 93:
				b = append(b, tickOp{Kind: "SetGasPrice", Price: tickFloors[r.Intn(len(tickFloors))]})
			default:
				b = append(b, randHead())
			}
		}
		return b
	}
	single := func(kind string, txs ...tickTx) []tickOp { return []tickOp{{Kind: kind, Txs: txs}} }
	victim := firstRemote + r.Intn(p.NAcct-firstRemote)
	later := func(hi uint64) tickTx {
		switch r.Intn(5) {
		case 0:
			return tickTx{Acct: victim, Off: 1, Price: hi, Salt: 1} // a re-announced successor (other hash)
		case 1:
			return tickTx{Acct: victim, Off: 2, Price: hi}
		case 2:
			return tickTx{Acct: victim, Off: 3, Price: hi}
		case 3:
			return tickTx{Acct: victim, Off: 1, Price: hi, Repl: 3}
		default:
			return tickTx{Acct: victim, Off: 1 + r.Intn(4), Price: hi}
		}
	}
	switch x := r.Intn(100); {
	case x < 30:
		p.Theme = "random"
	case x < 55:
		// the victim's cheapest transaction is its lowest nonce; the price floor is raised above it
		p.Theme = "price-floor"
		cheap := []uint64{100, 105, 110}[r.Intn(3)]
		n := 1 + r.Intn(3)
		op := tickOp{Kind: "AddRemotes"}
		for i := 0; i < n; i++ {
			pr := uint64(150 + 50*r.Intn(3))
			if i == 0 {
				pr = cheap
			}
			op.Txs = append(op.Txs, tickTx{Acct: victim, Off: i, Price: pr})
		}
		for k := r.Intn(3); k > 0; k-- {
			p.Bursts = append(p.Bursts, randBurst())
		}
		p.Bursts = append(p.Bursts, []tickOp{op})
		if r.Intn(3) == 0 {
			p.Bursts = append(p.Bursts, single("AddRemote", tickTx{Acct: (victim + 1) % p.NAcct, Off: 0, Price: 200}))
		}
		p.Bursts = append(p.Bursts, []tickOp{{Kind: "SetGasPrice", Price: []uint64{111, 125, 149}[r.Intn(3)]}})
		if r.Intn(7) == 0 {
			p.Bursts = append(p.Bursts, []tickOp{randHead()})
		}
		if r.Intn(4) == 0 { // the later nonce arrives in the burst that raised the floor
			p.Bursts[len(p.Bursts)-1] = append(p.Bursts[len(p.Bursts)-1], tickOp{Kind: "AddRemotes", Txs: []tickTx{later(200)}})
		} else {
			p.Bursts = append(p.Bursts, single([]string{"AddRemotes", "AddRemote", "AddRemotesSync"}[r.Intn(3)], later(200)))
		}
	case x < 85:
		// the pool is filled; the victim's lowest nonce is the cheapest remote transaction and is discarded
		// when a better one arrives
		p.Theme = "pool-full"
		cheap := []uint64{100, 105}[r.Intn(2)]
		vop := tickOp{Kind: "AddRemotes", Txs: []tickTx{{Acct: victim, Off: 0, Price: cheap}}}
		for i := 1; i < 1+r.Intn(3); i++ {
			vop.Txs = append(vop.Txs, tickTx{Acct: victim, Off: i, Price: 300})
		}
		p.Bursts = append(p.Bursts, []tickOp{vop})
		capTotal := int(p.cfg.GlobalSlots + p.cfg.GlobalQueue)
		offered := len(vop.Txs)
		for round := 0; offered < capTotal+3 && round < 4; round++ {
			for a := 0; a < p.NAcct && offered < capTotal+3; a++ {
				if a == victim {
					continue
				}
				op := tickOp{Kind: "AddRemotes"}
				if p.Locals && a == 0 && r.Intn(2) == 0 {
					op.Kind = "AddLocal"
					op.Txs = []tickTx{{Acct: a, Off: round, Price: 150}}
				} else {
					for _, off := range [][]int{{0, 1, 3}, {2, 4, 5}, {6, 7, 8}, {9, 10, 11}}[round] {
						op.Txs = append(op.Txs, tickTx{Acct: a, Off: off, Price: uint64(150 + 10*r.Intn(6))})
					}
				}
				offered += len(op.Txs)
				if r.Intn(2) == 0 && len(p.Bursts) > 1 {
					p.Bursts[len(p.Bursts)-1] = append(p.Bursts[len(p.Bursts)-1], op)
				} else {
					p.Bursts = append(p.Bursts, []tickOp{op})
				}
			}
		}
		if r.Intn(8) == 0 {
			p.Bursts = append(p.Bursts, []tickOp{randHead()})
		}
		// better transactions from the other accounts push the cheapest one out
		for k := 1 + r.Intn(3); k > 0; k-- {
			a := (victim + 1 + r.Intn(p.NAcct-1)) % p.NAcct
			p.Bursts = append(p.Bursts, single("AddRemotes", tickTx{Acct: a, Off: r.Intn(4), Price: 250, Salt: uint8(k)}, tickTx{Acct: a, Off: 2 + r.Intn(3), Price: 260}))
		}
		if r.Intn(3) == 0 {
			p.Bursts[len(p.Bursts)-1] = append(p.Bursts[len(p.Bursts)-1], tickOp{Kind: "AddRemotes", Txs: []tickTx{later(320)}})
		} else {
			p.Bursts = append(p.Bursts, single([]string{"AddRemotes", "AddRemote", "AddRemotesSync"}[r.Intn(3)], later(320)))
		}
	default:
		// the lowest pending transaction is replaced (sufficient / insufficient bump), then a later nonce arrives
		p.Theme = "replacement"
		n := 1 + r.Intn(2)
		op := tickOp{Kind: "AddRemotes"}
		for i := 0; i < n; i++ {
			op.Txs = append(op.Txs, tickTx{Acct: victim, Off: i, Price: tickPrices[r.Intn(len(tickPrices))]})
		}
		p.Bursts = append(p.Bursts, []tickOp{op})
		p.Bursts = append(p.Bursts, single([]string{"AddRemote", "AddRemotesSync"}[r.Intn(2)], tickTx{Acct: victim, Off: 0, Price: 100, Repl: 1 + r.Intn(4)}))
		p.Bursts = append(p.Bursts, single("AddRemotes", later(200)))
	}
	for k := 3 + r.Intn(6); k > 0; k-- {
		p.Bursts = append(p.Bursts, randBurst())
	}
	if p.Theme == "random" {
		for k := 4; k > 0; k-- {
			p.Bursts = append(p.Bursts, randBurst())
		}
	}
	return p
}

// ---------------------------------------------------------------- execution of one history

type tickLog struct {
	Burst  int    `json:"burst"`
	Op     string `json:"op"`
	Result string `json:"result,omitempty"`
}

type tickWitness struct {
	Plan     *tickPlan  `json:"plan"`
	Burst    int        `json:"fails_at_burst"`
	Executed []tickLog  `json:"executed"`
	Before   *snapView  `json:"snapshot_at_previous_quiescent_point,omitempty"`
	After    *snapView  `json:"snapshot,omitempty"`
	Points   []snapView `json:"earlier_quiescent_points,omitempty"`
	Note     string     `json:"note"`
}

type tickViol struct {
	sig, detail string
	wit         any
}

// tickOut buffers what a history reports; it is committed to the monitor only
// when no foreign pool ticked while the history ran (see TestC19Tick).
type tickOut struct {
	evals   [][2]string
	extras  map[string]int64
	viols   []tickViol
	samples [][2]any
	incon   string // the stage must stop: watchdog / harness failure
}

func (o *tickOut) eval(class, key string) { o.evals = append(o.evals, [2]string{class, key}) }
func (o *tickOut) extra(k string, d int64) {
	if o.extras == nil {
		o.extras = map[string]int64{}
	}
	o.extras[k] += d
}
func (o *tickOut) violation(sig, detail string, wit any) {
	o.viols = append(o.viols, tickViol{sig, detail, wit})
}

func (o *tickOut) commit(m *mon.M) {
	for _, e := range o.evals {
		m.Eval(e[0], e[1])
	}
	for k, v := range o.extras {
		m.AddExtra(k, v)
	}
	for _, v := range o.viols {
		m.Violation(v.sig, v.detail, v.wit)
	}
	for _, s := range o.samples {
		m.SampleClass(s[0].(string), s[1])
	}
}

// acctTrack: the account's lowest pending transaction (nonce == state nonce) was
// seen to leave the pending list, and no head event has been announced since.
type acctTrack struct {
	path  string
	nonce uint64
	later bool
	burst int
}

type tickHist struct {
	plan   *tickPlan
	r      *rig
	hooks  *tickHooks
	out    *tickOut
	log    []tickLog
	points []snapView
	last   *core.VerifPoolSnapshot // snapshot at the last quiescent point
	track  map[int]*acctTrack
	heads  int
	locals bool
}

func (th *tickHist) witness(burst int, after *core.VerifPoolSnapshot, note string) tickWitness {
	w := tickWitness{Plan: th.plan, Burst: burst, Executed: append([]tickLog(nil), th.log...), Note: note}
	if th.last != nil {
		v := viewOf(th.last)
		w.Before = &v
	}
	if after != nil {
		v := viewOf(after)
		w.After = &v
	}
	if n := len(th.points); n > 6 {
		w.Points = append([]snapView(nil), th.points[n-6:]...)
	} else {
		w.Points = append([]snapView(nil), th.points...)
	}
	return w
}

func slotOccupant(s *core.VerifPoolSnapshot, a int, n uint64) (*types.Transaction, bool) {
	if s == nil {
		return nil, false
	}
	x := s.Accounts[accounts()[a].ia]
	if x == nil {
		return nil, false
	}
	for _, tx := range x.Pending {
		if tx.Nonce() == n {
			return tx, true
		}
	}
	for _, tx := range x.Queue {
		if tx.Nonce() == n {
			return tx, false
		}
	}
	return nil, false
}

func (th *tickHist) resolve(t tickTx) *txInfo {
	base := int64(th.r.chain.head().nonces[t.Acct])
	n := base + int64(t.Off)
	if n < 0 {
		n = 0
	}
	k := txKey{acct: t.Acct, nonce: uint64(n), price: t.Price, gas: 21000, salt: t.Salt}
	if k.salt != 0 {
		k.gas = 21100 // one non-zero data byte
	}
	if t.Over {
		k.value = 2_000_000_000
	}
	if t.Repl != 0 {
		if occ, _ := slotOccupant(th.last, t.Acct, uint64(n)); occ != nil {
			op := occ.GasPrice().Uint64()
			switch t.Repl {
			case 1:
				k.price = (op*(100+tickBump) + 99) / 100
			case 2:
				k.price = op * (100 + tickBump - 1) / 100
			case 3:
				k.price = op * 150 / 100
			default:
				k.price = op
			}
			k.salt = t.Salt + 2
			k.gas = 21100
		}
	}
	return mkTx(k)
}

func isAddKind(k string) bool { return strings.HasPrefix(k, "Add") }

// exec runs one operation and returns the resolved transactions and their results.
func (th *tickHist) exec(burst int, op tickOp) ([]*txInfo, []error, string) {
	pool := th.r.pool
	var tis []*txInfo
	var errs []error
	desc := op.Kind
	switch op.Kind {
	case "AddRemotes", "AddRemotesSync", "AddRemote", "AddLocal":
		var txs []*types.Transaction
		for _, t := range op.Txs {
			ti := th.resolve(t)
			tis = append(tis, ti)
			txs = append(txs, ti.tx)
		}
		switch op.Kind {
		case "AddRemotes":
			errs = pool.AddRemotes(txs)
		case "AddRemotesSync":
			errs = pool.AddRemotesSync(txs)
		case "AddRemote":
			errs = []error{pool.AddRemote(txs[0])}
		default:
			th.locals = true
			errs = []error{pool.AddLocal(txs[0])}
		}
		var ds, rs []string
		for i, ti := range tis {
			ds = append(ds, txDesc(ti.tx))
			c := errClass(errs[i])
			rs = append(rs, c)
			th.out.eval("result:"+c, "")
		}
		desc = op.Kind + "[" + strings.Join(ds, " ") + "]"
		th.log = append(th.log, tickLog{burst, desc, strings.Join(rs, " ")})
	case "SetGasPrice":
		desc = fmt.Sprintf("SetGasPrice(%d)", op.Price)
		pool.SetGasPrice(new(big.Int).SetUint64(op.Price))
		th.log = append(th.log, tickLog{burst, desc, ""})
	case "Head":
		c := th.r.chain
		parent := c.head()
		var mined []*txInfo
		for _, mc := range op.Head.Mine {
			a, cnt := mc[0], mc[1]
			pend, _ := pool.ContentFrom(accounts()[a].ia)
			next := parent.nonces[a]
			for _, x := range mined {
				if x.key.acct == a && x.key.nonce >= next {
					next = x.key.nonce + 1
				}
			}
			for j := 0; j < cnt; j++ {
				var ti *txInfo
				for _, tx := range pend {
					if tx.Nonce() == next {
						txMu.Lock()
						ti = txByH[tx.Hash()]
						txMu.Unlock()
					}
				}
				if ti == nil {
					break
				}
				mined = append(mined, ti)
				next++
			}
		}
		setBal := map[int]*big.Int{}
		for a, v := range op.Head.SetBal {
			b, _ := new(big.Int).SetString(v, 10)
			setBal[a] = b
		}
		b := c.extend(parent, mined, setBal, headSpec{tickBaseFee, tickGasLimit})
		var ms []string
		for _, tx := range b.txs {
			ms = append(ms, txDesc(tx))
		}
		desc = fmt.Sprintf("Head #%d{mined:%v bal:%v}", b.num, ms, op.Head.SetBal)
		c.announce(b)
		th.heads++
		th.log = append(th.log, tickLog{burst, desc, ""})
	}
	return tis, errs, desc
}

// observe classifies what the operation did to each account's lowest pending
// transaction (coverage only; nothing here is an oracle except the replacement
// rule, which is decided for single-transaction operations that start a burst,
// where `pre` is the snapshot of a quiescent point).
func (th *tickHist) observe(burst int, first, afterHead bool, op tickOp, tis []*txInfo, errs []error, pre, post *core.VerifPoolSnapshot) {
	if op.Kind == "Head" {
		for a, tr := range th.track {
			if !tr.later {
				th.out.eval("lowest-removed:"+tr.path+":head-before-later-nonce", "")
			}
			delete(th.track, a)
		}
		return
	}
	if afterHead {
		// a head event of this burst may be served at any moment: what leaves the lists now cannot be attributed to the operation
		return
	}
	for a := 0; a < th.plan.NAcct; a++ {
		ia := accounts()[a].ia
		px := pre.Accounts[ia]
		if px == nil || len(px.Pending) == 0 || px.Pending[0].Nonce() != px.StateNonce {
			continue
		}
		low := px.Pending[0]
		qx := post.Accounts[ia]
		still := false
		if qx != nil {
			for _, tx := range qx.Pending {
				still = still || tx.Hash() == low.Hash()
			}
		}
		if still {
			continue
		}
		path := "other"
		switch {
		case qx != nil && len(qx.Pending) > 0 && qx.Pending[0].Nonce() == low.Nonce():
			path = "replacement"
		case op.Kind == "SetGasPrice":
			path = "price-floor"
		case isAddKind(op.Kind):
			path = "pool-full"
		}
		th.track[a] = &acctTrack{path: path, nonce: low.Nonce(), burst: burst}
		th.out.eval("lowest-removed:"+path, "")
	}
	if !isAddKind(op.Kind) {
		return
	}
	for i, ti := range tis {
		if errs[i] != nil {
			continue
		}
		tr := th.track[ti.key.acct]
		if tr == nil {
			continue
		}
		switch {
		case ti.key.nonce > tr.nonce:
			tr.later = true
		case ti.key.nonce == tr.nonce && tr.path != "replacement":
			if !tr.later {
				th.out.eval("lowest-removed:"+tr.path+":lowest-added-again-first", "")
			}
			delete(th.track, ti.key.acct)
		}
	}
	// the replacement rule
	if len(tis) != 1 {
		return
	}
	ti := tis[0]
	occ, _ := slotOccupant(pre, ti.key.acct, ti.key.nonce)
	if occ == nil || occ.Hash() == ti.tx.Hash() {
		return
	}
	if !first {
		th.out.eval("repl:not-decided:pre-state-not-quiescent", "")
		return
	}
	now, _ := slotOccupant(post, ti.key.acct, ti.key.nonce)
	took := now != nil && now.Hash() == ti.tx.Hash()
	ok := bumpOK(occ.GasPrice(), ti.tx.GasPrice(), tickBump)
	full := uint64(pre.Slots+numSlots(ti.tx)) > pre.Config.GlobalSlots+pre.Config.GlobalQueue
	switch {
	case took && ok:
		th.out.eval("repl:bump-sufficient:accepted", "")
	case !took && ok:
		th.out.eval("repl:bump-sufficient:declined", "")
	case !took && !ok:
		th.out.eval("repl:bump-insufficient:rejected", "")
	case took && !ok && full:
		// add() first made room by discarding the cheapest remote transaction, which was the occupant itself
		th.out.eval("repl:bump-insufficient:occupant-evicted-by-pool-full", "")
		th.out.extra("underbumped_replacement_after_pool_full_eviction_observed", 1)
		w := th.witness(burst, post, fmt.Sprintf("%s took the slot of %s (price %s -> %s, bump %d%% required) while the pool was full", txDesc(ti.tx), txDesc(occ), occ.GasPrice(), ti.tx.GasPrice(), tickBump))
		th.out.samples = append(th.out.samples, [2]any{"underbumped-replacement-after-pool-full-eviction", w})
		if tickDecideEvictedOccupant {
			th.out.violation("replacement-without-price-bump:occupant-evicted-by-pool-full", w.Note, w)
		}
	default:
		th.out.violation("replacement-without-price-bump", fmt.Sprintf("run %d burst %d: %s took the slot of %s: price %s < %s*(100+%d)/100",
			th.plan.Run, burst, txDesc(ti.tx), txDesc(occ), ti.tx.GasPrice(), occ.GasPrice(), tickBump), th.witness(burst, post, "replacement rule"))
	}
}

// staleVirtualNonce counts accounts without pending transactions whose virtual
// nonce is above the state nonce. The statement says nothing about the virtual
// nonce of an account without pending transactions, so this is informational.
func staleVirtualNonce(s *core.VerifPoolSnapshot) int {
	n := 0
	for _, x := range s.Accounts {
		if len(x.Pending) == 0 && x.HasNoncer && x.PendingNonce > x.StateNonce {
			n++
		}
	}
	return n
}

func (th *tickHist) evaluate(burst int, snap *core.VerifPoolSnapshot, where string) {
	o := th.out
	fs, st := checkInvariants(snap, th.locals)
	for _, f := range fs {
		o.violation(f.Sig, fmt.Sprintf("run %d (%s) burst %d, %s: %s", th.plan.Run, th.plan.Theme, burst, where, f.Detail), th.witness(burst, snap, where))
	}
	if th.heads == 0 {
		o.eval("inv:tick-point:no-reset-since-pool-creation", fmt.Sprintf("%d/%d", th.plan.Run, burst))
	} else {
		o.eval("inv:tick-point:after-some-head", fmt.Sprintf("%d/%d", th.plan.Run, burst))
	}
	if st.pending > 0 {
		o.eval("obs:pending-nonempty", "")
	}
	if st.queued > 0 {
		o.eval("obs:queue-nonempty", "")
	}
	if uint64(st.pending) >= snap.Config.GlobalSlots {
		o.eval("obs:pending-at-global-limit", "")
	}
	if uint64(st.queued) >= snap.Config.GlobalQueue {
		o.eval("obs:queue-at-global-limit", "")
	}
	if uint64(snap.Slots) >= snap.Config.GlobalSlots+snap.Config.GlobalQueue {
		o.eval("obs:pool-full", "")
	}
	if st.cumulativeOverBalance > 0 {
		o.extra("cumulative_cost_exceeds_balance_observed", int64(st.cumulativeOverBalance))
	}
	if st.staleOvercount > 0 {
		o.extra("stale_overcount_with_locals_observed", 1)
	}
	if n := staleVirtualNonce(snap); n > 0 {
		o.extra("virtual_nonce_above_state_nonce_with_empty_pending_observed", int64(n))
	}
	for a, tr := range th.track {
		if tr.later {
			o.eval("lowest-removed:"+tr.path+":later-nonce-then-tick", fmt.Sprintf("%d/%d/%d", th.plan.Run, burst, a))
			delete(th.track, a)
		}
	}
}

// runTickHistory executes one plan on a fresh pool.
func runTickHistory(plan *tickPlan, logger *log.Logger, watch *logWatch, sdb state.Database, hooks *tickHooks) *tickOut {
	out := &tickOut{}
	resetLocalFlags()
	r := newRig(logger, watch, plan.cfg, sdb, plan.NAcct, plan.bals, headSpec{tickBaseFee, tickGasLimit}, nil)
	th := &tickHist{plan: plan, r: r, hooks: hooks, out: out, track: map[int]*acctTrack{}}
	abandon := func() { abandon(r) }
	hang := func(what string) *tickOut {
		p := dumpGoroutines(fmt.Sprintf("tick-watchdog-run%d", plan.Run))
		for _, pn := range watch.takePanics() {
			out.violation("pool-goroutine-panic", pn, th.witness(-1, nil, what))
		}
		out.incon = fmt.Sprintf("tick run %d: %s did not complete within %s; goroutine dump: %s", plan.Run, what, tickWatchdog, p)
		abandon()
		return out
	}
	// noAnswer: a snapshot did not return: a recorded panic explains it (violation), otherwise it is a hang
	noAnswer := func(b int, what string) *tickOut {
		if ps := watch.takePanics(); len(ps) > 0 {
			for _, pn := range ps {
				out.violation("pool-goroutine-panic", pn, th.witness(b, nil, "pool goroutine panicked; "+what+" did not return afterwards"))
			}
			abandon()
			return out
		}
		return hang(what)
	}
	if th.last = guardedSnapshot(r); th.last == nil {
		return noAnswer(-1, "VerifSnapshot on the fresh pool")
	}
	for b, burst := range plan.Bursts {
		pre := th.last
		afterHead := false
		for i, op := range burst {
			var tis []*txInfo
			var errs []error
			done := make(chan struct{})
			panicked := false
			go func() {
				defer close(done)
				defer func() {
					if rec := recover(); rec != nil {
						panicked = true
						out.violation("api-call-panic:"+op.Kind, fmt.Sprintf("%s panicked: %v\n%s", op.Kind, rec, stack()), th.witness(b, nil, "api call"))
					}
				}()
				tis, errs, _ = th.exec(b, op)
			}()
			select {
			case <-done:
			case <-watch.notify:
				// a pool goroutine panicked (inside its critical section the mutex stays locked: the call may never return)
				select {
				case <-done:
				case <-time.After(2 * time.Second):
				}
			case <-time.After(tickWatchdog):
				return hang(fmt.Sprintf("burst %d op %d (%s)", b, i, op.Kind))
			}
			if ps := watch.takePanics(); len(ps) > 0 {
				for _, pn := range ps {
					out.violation("pool-goroutine-panic", pn, th.witness(b, nil, fmt.Sprintf("pool goroutine panicked around burst %d op %d (%s)", b, i, op.Kind)))
				}
				abandon()
				return out
			}
			select {
			case <-done:
			default:
				return hang(fmt.Sprintf("burst %d op %d (%s)", b, i, op.Kind))
			}
			if panicked {
				abandon()
				return out
			}
			out.eval("op:"+op.Kind, "")
			post := guardedSnapshot(r)
			if post == nil {
				return noAnswer(b, fmt.Sprintf("VerifSnapshot after burst %d op %d (%s)", b, i, op.Kind))
			}
			th.observe(b, i == 0, afterHead, op, tis, errs, pre, post)
			afterHead = afterHead || op.Kind == "Head"
			pre = post
		}
		res, err := tickQuiesce(r, hooks, tickWatchdog)
		if err != nil {
			out.incon = fmt.Sprintf("tick run %d burst %d: harness: %v", plan.Run, b, err)
			abandon()
			return out
		}
		if res == qTimeout {
			return hang(fmt.Sprintf("tick-quiescence after burst %d", b))
		}
		if ps := watch.takePanics(); len(ps) > 0 || res == qPanic {
			for _, pn := range ps {
				out.violation("pool-goroutine-panic", pn, th.witness(b, nil, "pool goroutine panicked"))
			}
			abandon()
			return out
		}
		snap := guardedSnapshot(r)
		if snap == nil {
			return noAnswer(b, fmt.Sprintf("VerifSnapshot at the tick-quiescent point after burst %d", b))
		}
		if ps := watch.takePanics(); len(ps) > 0 {
			for _, pn := range ps {
				out.violation("pool-goroutine-panic", pn, th.witness(b, snap, "pool goroutine panicked"))
			}
			abandon()
			return out
		}
		th.evaluate(b, snap, "tick-quiescent point")
		th.last = snap
		th.points = append(th.points, viewOf(snap))
		if plan.Run < 2 && b == len(plan.Bursts)-1 {
			out.samples = append(out.samples, [2]any{"history:" + plan.Theme, map[string]any{"run": plan.Run, "executed": th.log, "final_snapshot": viewOf(snap)}})
		}
	}
	for _, tr := range th.track {
		if !tr.later {
			out.eval("lowest-removed:"+tr.path+":no-followup", "")
		}
	}
	out.eval("history:"+plan.Theme, fmt.Sprint(plan.Run))
	sd := make(chan struct{})
	go func() { r.stop(); close(sd) }()
	select {
	case <-sd:
	case <-time.After(tickWatchdog):
		return hang("TxPool.Stop")
	}
	for _, pn := range watch.takePanics() {
		out.violation("pool-goroutine-panic", pn, th.witness(-1, nil, "after Stop"))
	}
	return out
}

// ---------------------------------------------------------------- lifetime sub-workload

// lifeRun: one pool that lives through its first eviction tick (60 s after
// creation; the interval is an unexported variable). ReorgFrequency is 63 s:
// the pool's reorg loop launches no ticker run before born+63 s, so
//   - while the histories execute (other pools, one at a time) this pool produces
//     no hook hit (its set-up uses VerifQuiesce, whose runs completed before
//     VerifQuiesce returned, and happens before the first history starts);
//   - after the eviction the later-nonce transactions are added and the promote
//     requests flushed (flushRequests); if that is finished before born+62.5 s
//     (monotonic clock; otherwise the scenario is abandoned => the lifetime class
//     is missing => INCONCLUSIVE) no run has been launched since the set-up, the
//     requests sit in the reorg loop's dirty set, and the first completed run
//     afterwards is the ticker-launched one that carried them.
type lifeAcct struct {
	Pending int   `json:"pending"` // contiguous transactions from nonce 0
	Queued  []int `json:"queued"`  // further nonces
	Local   bool  `json:"local"`
	Later   []int `json:"later"` // nonces added after the eviction
}

type lifePlan struct {
	N     int        `json:"scenario"`
	Accts []lifeAcct `json:"accounts"`
	Cfg   string     `json:"config"`
	cfg   core.TxPoolConfig
}

type lifeRun struct {
	plan   *lifePlan
	r      *rig
	watch  *logWatch
	born   time.Time
	setup  *core.VerifPoolSnapshot
	log    []tickLog
	locals bool
}

const (
	lifeReorgFrequency = 63 * time.Second
	lifeStopHistories  = 56 * time.Second         // no history is started once the lifetime pool is older
	lifeForeignTick    = 62 * time.Second         // a history that ended later may have seen the lifetime pool's tick
	lifeLatestFlush    = 62500 * time.Millisecond // the later-nonce requests must be flushed before (tick at >= 63 s)
)

func lifeTx(a int, n uint64, price uint64) *txInfo {
	return mkTx(txKey{acct: a, nonce: n, price: price, gas: 21200, salt: 9}) // objects of their own (never shared with a history's pool)
}

func genLifePlan(r *rand.Rand, n int) *lifePlan {
	p := &lifePlan{N: n}
	p.cfg = core.TxPoolConfig{
		NoLocals: false, Journal: "", Rejournal: time.Hour, PriceLimit: 1, PriceBump: tickBump,
		AccountSlots: 4, GlobalSlots: 32, AccountQueue: 4, GlobalQueue: 32,
		MaxSenders: 64, MaxFeesCached: 8, SendersChBuffer: 64, QiPoolSize: 4,
		QiTxLifetime: time.Hour, Lifetime: 5 * time.Second, ReorgFrequency: lifeReorgFrequency,
	}
	p.Cfg = fmt.Sprintf("%+v", p.cfg)
	// fixed shapes first, then PRNG-chosen ones
	p.Accts = []lifeAcct{
		{Pending: 3, Later: []int{1}},
		{Pending: 1, Later: []int{2}},
		{Pending: 2, Queued: []int{3}, Later: []int{1, 2}},
		{Pending: 2, Later: []int{0}}, // control: the lowest nonce comes back
		{Pending: 3, Local: true, Later: []int{2, 3}},
	}
	for len(p.Accts) < maxAccts {
		a := lifeAcct{Pending: 1 + r.Intn(4)}
		if r.Intn(3) == 0 {
			a.Queued = []int{a.Pending + 1 + r.Intn(2)}
		}
		for k := 1 + r.Intn(2); k > 0; k-- {
			a.Later = append(a.Later, 1+r.Intn(4))
		}
		p.Accts = append(p.Accts, a)
	}
	return p
}

func startLife(m *mon.M, plan *lifePlan, hooks *tickHooks) *lifeRun {
	watch := newLogWatch()
	logger := newPoolLogger(fmt.Sprintf("c19-tick-life-%d.log", plan.N), watch)
	bals := make([]*big.Int, maxAccts)
	for i := range bals {
		bals[i] = bigPow10(18)
	}
	lr := &lifeRun{plan: plan, watch: watch, born: time.Now()}
	lr.r = newRig(logger, watch, plan.cfg, nil, maxAccts, bals, headSpec{tickBaseFee, tickGasLimit}, nil)
	for a, la := range plan.Accts {
		var txs []*types.Transaction
		for n := 0; n < la.Pending; n++ {
			txs = append(txs, lifeTx(a, uint64(n), 100+uint64(10*n)).tx)
		}
		for _, n := range la.Queued {
			txs = append(txs, lifeTx(a, uint64(n), 150).tx)
		}
		var errs []error
		if la.Local {
			lr.locals = true
			for _, tx := range txs {
				errs = append(errs, lr.r.pool.AddLocal(tx))
			}
		} else {
			errs = lr.r.pool.AddRemotes(txs)
		}
		var rs []string
		for _, e := range errs {
			rs = append(rs, errClass(e))
		}
		lr.log = append(lr.log, tickLog{0, fmt.Sprintf("set-up a%d %v", a, descAll(txs)), strings.Join(rs, " ")})
	}
	// the starting state is produced with the reset-based quiescence (not what this stage is about)
	if lr.r.quiesce() != qOK {
		m.Inconclusive("tick/lifetime: set-up of the long-lived pool did not quiesce")
		go lr.r.stop()
		return nil
	}
	if lr.setup = guardedSnapshot(lr.r); lr.setup == nil {
		for _, pn := range watch.takePanics() {
			m.Violation("pool-goroutine-panic", pn, lr.witness(nil, "set-up"))
		}
		m.Inconclusive("tick/lifetime: VerifSnapshot after the set-up did not return")
		go lr.r.stop()
		return nil
	}
	fs, _ := checkInvariants(lr.setup, lr.locals)
	for _, f := range fs {
		m.Violation(f.Sig, fmt.Sprintf("lifetime scenario %d, set-up: %s", plan.N, f.Detail), lr.witness(nil, "set-up"))
	}
	m.Eval("lifetime:set-up-point", fmt.Sprint(plan.N))
	return lr
}

func (lr *lifeRun) witness(s *core.VerifPoolSnapshot, note string) map[string]any {
	w := map[string]any{"plan": lr.plan, "executed": lr.log, "note": note}
	if lr.setup != nil {
		w["snapshot_after_set_up"] = viewOf(lr.setup)
	}
	if s != nil {
		w["snapshot"] = viewOf(s)
	}
	return w
}

func (lr *lifeRun) noAnswer(m *mon.M, where string) {
	ps := lr.watch.takePanics()
	for _, pn := range ps {
		m.Violation("pool-goroutine-panic", pn, lr.witness(nil, where))
	}
	if len(ps) == 0 {
		m.Inconclusive("tick/lifetime: the pool did not answer (" + where + "); goroutine dump: " + dumpGoroutines("tick-life-no-answer"))
	}
}

// finish: no other pool is alive when this is called.
func (lr *lifeRun) finish(m *mon.M, hooks *tickHooks) {
	defer func() {
		sd := make(chan struct{})
		go func() { lr.r.stop(); close(sd) }()
		select {
		case <-sd:
		case <-time.After(tickWatchdog):
			m.Inconclusive("tick/lifetime: TxPool.Stop did not return; goroutine dump: " + dumpGoroutines("tick-life-stop"))
		}
	}()
	n := lr.plan.N
	// 1. the eviction tick (this pool is the only one old enough to have one)
	deadline := time.After(75*time.Second - time.Since(lr.born))
	for atomic.LoadInt64(&hooks.evict) == 0 {
		select {
		case <-hooks.notify:
		case <-deadline:
			m.AddExtra("lifetime_scenarios_abandoned", 1)
			m.Extra("lifetime_abandoned_why", "no eviction tick within 75 s of the pool's creation")
			return
		}
	}
	atomic.StoreInt64(&hooks.evict, 0)
	// the pool's loop is back in its select: the eviction case has finished
	fl := make(chan struct{})
	go func() { lr.r.chain.flushHeads(); close(fl) }()
	select {
	case <-fl:
	case <-time.After(tickWatchdog):
		m.Inconclusive("tick/lifetime: the pool's loop did not return from the eviction within 60 s; goroutine dump: " + dumpGoroutines("tick-life-evict"))
		return
	}
	for _, pn := range lr.watch.takePanics() {
		m.Violation("pool-goroutine-panic", pn, lr.witness(nil, "eviction"))
	}
	s1 := guardedSnapshot(lr.r)
	if s1 == nil {
		lr.noAnswer(m, "after the eviction tick")
		return
	}
	lr.log = append(lr.log, tickLog{1, "eviction tick (Lifetime 5s)", ""})
	fs, _ := checkInvariants(s1, lr.locals)
	for _, f := range fs {
		m.Violation(f.Sig, fmt.Sprintf("lifetime scenario %d, after the eviction tick: %s", n, f.Detail), lr.witness(s1, "after the eviction tick, before any reorg run"))
	}
	m.Eval("lifetime:after-eviction-point", fmt.Sprint(n))
	if k := staleVirtualNonce(s1); k > 0 {
		m.AddExtra("virtual_nonce_above_state_nonce_with_empty_pending_observed", int64(k))
	}
	evicted := map[int]bool{}
	for a := range lr.plan.Accts {
		ia := accounts()[a].ia
		had := lr.setup.Accounts[ia] != nil && len(lr.setup.Accounts[ia].Pending) > 0
		gone := s1.Accounts[ia] == nil || len(s1.Accounts[ia].Pending) == 0
		if had && gone {
			evicted[a] = true
			m.Eval("lowest-removed:lifetime", "")
		}
	}
	if len(evicted) == 0 {
		m.AddExtra("lifetime_scenarios_abandoned", 1)
		m.Extra("lifetime_abandoned_why", "the eviction tick removed no pending list")
		return
	}
	// 2. later nonces arrive, no head event
	laterAdded := map[int]bool{}
	for a, la := range lr.plan.Accts {
		var txs []*types.Transaction
		for _, k := range la.Later {
			txs = append(txs, lifeTx(a, uint64(k), 200).tx)
		}
		var errs []error
		if !guarded(lr.r, func() { errs = lr.r.pool.AddRemotes(txs) }) {
			lr.noAnswer(m, "AddRemotes after the eviction tick")
			return
		}
		var rs []string
		for i, e := range errs {
			rs = append(rs, errClass(e))
			if e == nil && la.Later[i] > 0 && evicted[a] {
				laterAdded[a] = true
			}
		}
		lr.log = append(lr.log, tickLog{2, fmt.Sprintf("AddRemotes a%d %v", a, descAll(txs)), strings.Join(rs, " ")})
	}
	c := atomic.LoadInt64(&hooks.after)
	b := atomic.LoadInt64(&hooks.before)
	var ferr error
	if !guarded(lr.r, func() { ferr = flushRequests(lr.r) }) {
		lr.noAnswer(m, "flushing the promote requests after the eviction tick")
		return
	}
	if ferr != nil {
		m.Inconclusive("tick/lifetime: harness: " + ferr.Error())
		return
	}
	if age := time.Since(lr.born); age > lifeLatestFlush || atomic.LoadInt64(&hooks.before) != b {
		m.AddExtra("lifetime_scenarios_abandoned", 1)
		m.Extra("lifetime_abandoned_why", fmt.Sprintf("the later-nonce requests were flushed %.1f s after the pool's creation: its ticker (63 s) may have launched a run before", age.Seconds()))
		return
	}
	// 3. the pool's only ticker-launched run
	switch awaitRuns(hooks, lr.watch, c, 1, time.After(tickWatchdog)) {
	case qTimeout:
		m.Inconclusive("tick/lifetime: no ticker-launched reorg run within 60 s; goroutine dump: " + dumpGoroutines("tick-life-run"))
		return
	case qPanic:
	}
	if ps := lr.watch.takePanics(); len(ps) > 0 {
		for _, pn := range ps {
			m.Violation("pool-goroutine-panic", pn, lr.witness(nil, "ticker-launched run after the eviction"))
		}
		return
	}
	s2 := guardedSnapshot(lr.r)
	if s2 == nil {
		lr.noAnswer(m, "after the ticker-launched run")
		return
	}
	lr.log = append(lr.log, tickLog{3, "ticker-launched reorg run (ReorgFrequency 63s)", ""})
	fs, st := checkInvariants(s2, lr.locals)
	for _, f := range fs {
		m.Violation(f.Sig, fmt.Sprintf("lifetime scenario %d, tick-quiescent point after eviction and later nonces: %s", n, f.Detail), lr.witness(s2, "tick-quiescent point after the lifetime eviction of whole pending lists and the arrival of later nonces"))
	}
	m.Eval("inv:tick-point:lifetime", fmt.Sprint(n))
	for a := range laterAdded {
		m.Eval("lowest-removed:lifetime:later-nonce-then-tick", fmt.Sprintf("%d/%d", n, a))
	}
	if st.queued > 0 {
		m.Eval("obs:queue-nonempty", "")
	}
	if k := staleVirtualNonce(s2); k > 0 {
		m.AddExtra("virtual_nonce_above_state_nonce_with_empty_pending_observed", int64(k))
	}
	if n == 0 {
		m.SampleClass("lifetime", map[string]any{"executed": lr.log, "after_eviction": viewOf(s1), "after_tick": viewOf(s2)})
	}
}

// ---------------------------------------------------------------- the stage

func TestC19Tick(t *testing.T) {
	m := mon.New(t, "C19", "tick")
	defer m.Finish()
	nRuns := m.N(700, 40000)
	nLife := m.N(1, 12)
	if nLife > 12 {
		nLife = 12
	}
	if os.Getenv("C19_TICK_NOLIFE") != "" { // development only (the lifetime class is then missing => INCONCLUSIVE)
		nLife = 0
	}
	m.Rule(fmt.Sprintf("%d sequential histories of 5-20 bursts (1-3 operations each: AddRemotes/AddRemote/AddRemotesSync/AddLocal with nonces around the state nonce, gaps, contiguous runs, "+
		"replacements at / below / above the configured bump, over-balance values; SetGasPrice raises and lowers; rare head events that mine pending transactions or change a balance) "+
		"on a fresh pool with AccountSlots 1-3, GlobalSlots 3-6, AccountQueue 2-3, GlobalQueue 2-6, ReorgFrequency 0.5-2 ms; themes random / price-floor / pool-full / replacement steer towards "+
		"'an account's lowest pending transaction is removed, a later nonce arrives before any head event'; all invariants at the tick-quiescent point after every burst; "+
		"%d long-lived pool(s) (Lifetime 5 s, one eviction tick, then later nonces, then the pool's single ticker-launched run); distinct = distinct (history, burst) points", nRuns, nLife))
	m.Assume("quiescent point = every call returned, every announced head event handed to the reorg loop (sentinel events), chainHeadChanSize+1 empty promote requests accepted behind the burst's requests (FIFO), "+
		"then two further reorg-run critical sections completed (verifhook txpool.runReorg.afterUnlock): no reset is requested by the harness",
		"only one ticking pool is alive at a time (the hook action is global); the long-lived pool has ReorgFrequency 63 s and a history that could overlap its tick is discarded and repeated",
		"'affordable from its balance' is read per transaction (cost <= balance), the pool's own notion; cumulative overdraft is only counted",
		"the statement does not speak about the virtual nonce of an account without pending transactions: a stale one is only counted",
		"the replacement rule is decided for single-transaction additions made at a quiescent point into a pool that is not full; a slot taken after the pool-full path evicted the occupant is counted, not decided")
	accounts()
	watch := newLogWatch()
	hookGlobal(watch)
	logger := newPoolLogger("c19-tick-pool.log", watch)
	hooks := newTickHooks()
	core.VerifSetHook(hooks.at)
	defer core.VerifSetHook(nil)

	rPlan := m.Rand("tick-plan")
	rLife := m.Rand("tick-life")
	var life *lifeRun
	lifeStarted := 0
	finishLife := func() {
		if life != nil {
			life.finish(m, hooks)
			life = nil
		}
	}
	var sdb state.Database
	discarded, reported := 0, 0
	var plan *tickPlan
	for run := 0; run < nRuns; {
		if life == nil && lifeStarted < nLife {
			if life = startLife(m, genLifePlan(rLife, lifeStarted), hooks); life == nil {
				break
			}
			lifeStarted++
		}
		if life != nil && time.Since(life.born) > lifeStopHistories {
			finishLife()
			continue
		}
		if plan == nil || plan.Run != run {
			plan = genTickPlan(rPlan, run)
			if run%200 == 0 {
				sdb = state.NewDatabase(rawdb.NewMemoryDatabase(logger))
			}
		}
		out := runTickHistory(plan, logger, watch, sdb, hooks)
		if life != nil && time.Since(life.born) > lifeForeignTick {
			// the long-lived pool's ticker may have fired while this history ran: its run-completion counts are not trustworthy
			discarded++
			if discarded > 20 {
				m.Inconclusive("tick: more than 20 histories overlapped the long-lived pool's reorg tick")
				break
			}
			finishLife()
			continue // same plan again
		}
		out.commit(m)
		if out.incon != "" {
			m.Inconclusive(out.incon)
			break
		}
		reported += len(out.viols)
		if m.Violations() > 30 || reported > 100 {
			m.Extra("stopped_early_after_violations", reported)
			break
		}
		run++
	}
	// remaining lifetime scenarios (nothing else is alive)
	for m.Violations() <= 30 && reported <= 100 {
		if life == nil {
			if lifeStarted >= nLife {
				break
			}
			if life = startLife(m, genLifePlan(rLife, lifeStarted), hooks); life == nil {
				break
			}
			lifeStarted++
		}
		finishLife()
	}
	// The lifetime scenario is the only part of this stage that lives on the pool's real one-minute
	// eviction ticker; on a heavily loaded machine its monotonic-clock guard can abandon it. Retry
	// (nothing else is running now); if it still cannot be staged the run reports the other three
	// removal paths and says so instead of being inconclusive as a whole.
	for retry := 0; retry < 2 && m.Seen("lowest-removed:lifetime:later-nonce-then-tick") == 0 && m.Violations() <= 30 && reported <= 100; retry++ {
		if life = startLife(m, genLifePlan(rLife, lifeStarted), hooks); life == nil {
			break
		}
		lifeStarted++
		m.AddExtra("lifetime_scenario_retries", 1)
		finishLife()
	}
	lifeSeen := m.Seen("lowest-removed:lifetime:later-nonce-then-tick") > 0
	if !lifeSeen {
		m.Extra("lifetime_eviction_path_not_explored", "every lifetime scenario was abandoned by its clock guard (machine too loaded to stage it before the pool's own 63 s ticker); price-floor, pool-full and replacement removal paths were explored")
	}
	m.Extra("histories_discarded_overlapping_foreign_tick", discarded)
	m.Extra("pool_error_log_messages", watch.errorCounts())
	m.Extra("reorg_runs_completed", atomic.LoadInt64(&hooks.after))

	nRace, byPair := raceReports(".", concAnchors)
	m.Extra("race_reports_seen_in_process", nRace)
	pairs := make([]string, 0, len(byPair))
	for p := range byPair {
		pairs = append(pairs, p)
	}
	sort.Strings(pairs)
	for _, p := range pairs {
		m.Violation("data-race:"+p, byPair[p], map[string]any{"report": byPair[p]})
	}
	m.Floor(int64(nRuns), 12)
	if lifeSeen {
		m.Need("inv:tick-point:lifetime", "lowest-removed:lifetime:later-nonce-then-tick")
	}
	m.Need("inv:tick-point:no-reset-since-pool-creation", "inv:tick-point:after-some-head",
		"lowest-removed:price-floor:later-nonce-then-tick", "lowest-removed:pool-full:later-nonce-then-tick",
		"lowest-removed:replacement:later-nonce-then-tick",
		"obs:pending-nonempty", "obs:queue-nonempty", "obs:pool-full", "result:ok",
		"repl:bump-sufficient:accepted", "repl:bump-insufficient:rejected")
}
