//go:build verif

// qi_test.go: Qi (UTXO) transactions for the concurrent stage. The pool validates
// them against UTXOs read through its database and against the chain's prime
// terminus header; both are provided here (a memory database pre-loaded with a
// few UTXOs owned by generated keys, and a header with an exchange rate).
package c19

import (
	"encoding/binary"
	"fmt"
	"sync"

	"github.com/btcsuite/btcd/btcec/v2"
	"github.com/btcsuite/btcd/btcec/v2/schnorr"

	"github.com/dominant-strategies/go-quai/common"
	"github.com/dominant-strategies/go-quai/core/rawdb"
	"github.com/dominant-strategies/go-quai/core/types"
	"github.com/dominant-strategies/go-quai/crypto"
	"github.com/dominant-strategies/go-quai/ethdb"
	"github.com/dominant-strategies/go-quai/log"

	"verif/internal/mon"
)

var qiAvailable = true

const nQiTx = 8

type qiTxInfo struct {
	tx   *types.Transaction
	kind string // valid, unknown-utxo, inactive-out, inactive-out+unknown-utxo
}

type qiEnv struct {
	once      sync.Once
	db        ethdb.Database
	txs       []*qiTxInfo
	primeTerm *types.WorkObject
	err       error
}

type qiKey struct {
	priv *btcec.PrivateKey
	pub  []byte // uncompressed
	addr common.Address
}

// qiKeyFor grinds a key whose address is a zone-0-0 Qi-ledger address.
func qiKeyFor(i int) *qiKey {
	for ctr := uint32(0); ; ctr++ {
		var seed [16]byte
		copy(seed[:], "c19-qikk")
		binary.BigEndian.PutUint32(seed[8:], uint32(i))
		binary.BigEndian.PutUint32(seed[12:], ctr)
		kb := crypto.Keccak256(seed[:])
		k, err := crypto.ToECDSA(kb)
		if err != nil {
			continue
		}
		pub := crypto.FromECDSAPub(&k.PublicKey)
		a := crypto.PubkeyBytesToAddress(pub, zoneLoc)
		b := a.Bytes()
		if b[0] != 0x00 || b[1]&0x80 == 0 || !a.IsInQiLedgerScope() {
			continue
		}
		priv, _ := btcec.PrivKeyFromBytes(kb)
		return &qiKey{priv: priv, pub: pub, addr: a}
	}
}

func newQiEnv(m *mon.M, logger *log.Logger) *qiEnv {
	q := &qiEnv{}
	q.db = rawdb.NewMemoryDatabase(logger)
	signer := types.LatestSigner(chainConfig())
	pt := types.EmptyZoneWorkObject()
	pt.Body().Header().SetExchangeRate(bigPow10(12))
	q.primeTerm = pt

	inactive := make([]byte, 20) // zone {0,1} is not active at expansion number 0
	inactive[0], inactive[1], inactive[19] = 0x01, 0x80, 0x07
	for i := 0; i < nQiTx; i++ {
		owner := qiKeyFor(2 * i)
		dest := qiKeyFor(2*i + 1)
		var prev common.Hash
		copy(prev[:], crypto.Keccak256([]byte(fmt.Sprintf("c19-utxo-%d", i))))
		kind := []string{"valid", "valid", "valid", "valid", "unknown-utxo", "inactive-out", "inactive-out+unknown-utxo", "valid"}[i]
		if kind != "unknown-utxo" && kind != "inactive-out+unknown-utxo" {
			// denomination 6 in, denomination 4 out: the difference pays the fee
			if err := rawdb.CreateUTXO(q.db, prev, 0, &types.UtxoEntry{Denomination: 6, Address: owner.addr.Bytes()}); err != nil {
				q.err = err
			}
		}
		out := types.TxOut{Denomination: 4, Address: dest.addr.Bytes()}
		if kind == "inactive-out" || kind == "inactive-out+unknown-utxo" {
			out.Address = inactive
		}
		inner := &types.QiTx{
			ChainID: chainConfig().ChainID,
			TxIn:    types.TxIns{{PreviousOutPoint: *types.NewOutPoint(&prev, 0), PubKey: owner.pub}},
			TxOut:   types.TxOuts{out},
		}
		unsigned := types.NewTx(inner)
		h := signer.Hash(unsigned)
		sig, err := schnorr.Sign(owner.priv, h[:])
		if err != nil {
			q.err = err
			continue
		}
		inner.Signature = sig
		q.txs = append(q.txs, &qiTxInfo{tx: types.NewTx(inner), kind: kind})
	}
	if q.err != nil {
		m.Assume("Qi set-up failed (" + q.err.Error() + "): Qi operations are rejected by the pool's validation")
	}
	return q
}

func (q *qiEnv) database(logger *log.Logger) ethdb.Database {
	if q == nil {
		return nil
	}
	return q.db
}

func (q *qiEnv) attach(c *schain) {
	if q != nil {
		c.primeTerm = q.primeTerm
	}
}

func (q *qiEnv) add(cr *concRun, i int) (string, string) {
	qt := q.txs[i%len(q.txs)]
	txs := []*types.Transaction{qt.tx}
	desc := fmt.Sprintf("AddRemotes[qi#%d(%s)", i%len(q.txs), qt.kind)
	if i%3 == 0 { // mixed batch: the error slots of Qi and Quai transactions are merged by the pool
		ti := cr.resolve(txTmpl{Acct: i % cr.plan.NAcct, Price: 110})
		txs = append(txs, ti.tx)
		desc += " " + txDesc(ti.tx)
	}
	var errs []error
	func() {
		defer func() {
			if rec := recover(); rec != nil {
				panic(kindPanic{"AddRemotes(qi:" + qt.kind + ")", rec, stack()})
			}
		}()
		errs = cr.rig.pool.AddRemotes(txs)
	}()
	res := ""
	for k, e := range errs {
		c := errClass(e)
		if k == 0 {
			if e == nil {
				cr.count("qi-result:" + qt.kind + ":accepted")
			} else {
				cr.count("qi-result:" + qt.kind + ":rejected")
				c = "rejected(" + trunc(e.Error(), 60) + ")"
			}
		}
		res += c + " "
	}
	return desc + "]", res
}

func (q *qiEnv) remove(cr *concRun, i int) string {
	qt := q.txs[i%len(q.txs)]
	h := qt.tx.Hash()
	if i%2 == 0 {
		cr.rig.pool.RemoveQiTxs([]*common.Hash{&h})
		return fmt.Sprintf("RemoveQiTxs[qi#%d]", i%len(q.txs))
	}
	cr.rig.pool.AsyncRemoveQiTxs([]*common.Hash{&h})
	return fmt.Sprintf("AsyncRemoveQiTxs[qi#%d]", i%len(q.txs))
}

// kindPanic carries the input class of a call that panicked (for the signature).
type kindPanic struct {
	kind string
	rec  any
	stk  string
}

func trunc(s string, n int) string {
	if len(s) > n {
		return s[:n]
	}
	return s
}
