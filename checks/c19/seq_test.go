//go:build verif

// seq_test.go: stage "seq" — exhaustive single-threaded operation sequences over
// 2 accounts x 3 nonces x 2 prices; all invariants after every operation, plus a
// reference of which transactions the statement permits to be present.
package c19

import (
	"fmt"
	"math/big"
	"os"
	"runtime"
	"sort"
	"strconv"
	"strings"
	"sync"
	"sync/atomic"
	"testing"
	"time"

	"github.com/dominant-strategies/go-quai/common"
	"github.com/dominant-strategies/go-quai/core"
	"github.com/dominant-strategies/go-quai/core/rawdb"
	"github.com/dominant-strategies/go-quai/core/state"
	"github.com/dominant-strategies/go-quai/core/types"
	"github.com/dominant-strategies/go-quai/ethdb"
	"github.com/dominant-strategies/go-quai/log"

	"verif/internal/mon"
)

const (
	seqBump     = 10
	seqBaseFee  = 10
	seqGasLimit = 5_000_000
	seqPriceHi  = 105 // SetGasPrice "high" threshold: above every low price, below every high price
)

// per nonce: (low, high) price. high/low = 1.09 (insufficient bump), 1.10
// (exactly the configured bump), 1.50 (more than the bump).
var seqPrices = [3][2]uint64{{100, 109}, {100, 110}, {100, 150}}

type seqOp struct {
	// 'L' AddLocal, 'R' AddRemotesSync, 'M' head event mining the account's lowest pending tx, 'P' SetGasPrice,
	// 'B' head event that sets the account's balance to a boundary value, 'G' head event that sets the block gas
	// limit to a boundary value (boundary values are derived from the transactions submitted so far, see boundary)
	Kind  byte
	Acct  int
	Nonce uint64
	Hi    bool
	// 'B': 0 = c1-1, 1 = c2-1 (c1 > c2: the two highest distinct costs submitted by the account, i.e. just below the
	// costliest replacement / just below the costliest original); 'G': 0 = g1-1, 1 = g2-1 (highest gas values submitted).
	// The exact values c1 / g1 are not used: a transaction whose cost equals the balance is affordable, and the statement
	// does not determine that it must be kept, so the oracle could not decide anything there.
	K int
}

// the high-priced variant of every slot also asks for more gas, so that a
// replacement is costlier than the original in both dimensions (cost and gas)
var seqGas = [2]uint64{21000, 22000}

func seqCost(o seqOp) uint64 { return seqGas[b2i(o.Hi)] * seqPrices[o.Nonce][b2i(o.Hi)] }

// boundary: the value a 'B' / 'G' operation at position i uses. It depends only
// on the operations before it (every submitted transaction counts, admitted or
// not), so it is a static function of the sequence.
func boundary(seq []seqOp, i int) (uint64, bool) {
	o := seq[i]
	var vals []uint64
	for _, p := range seq[:i] {
		if p.Kind != 'L' && p.Kind != 'R' {
			continue
		}
		v := seqGas[b2i(p.Hi)]
		if o.Kind == 'B' {
			if p.Acct != o.Acct {
				continue
			}
			v = seqCost(p)
		}
		dup := false
		for _, x := range vals {
			dup = dup || x == v
		}
		if !dup {
			vals = append(vals, v)
		}
	}
	sort.Slice(vals, func(a, b int) bool { return vals[a] > vals[b] })
	if o.K < len(vals) {
		return vals[o.K] - 1, true
	}
	return 0, false
}

func opStrings(seq []seqOp) []string {
	out := make([]string, len(seq))
	for i, o := range seq {
		out[i] = o.String()
		if o.Kind == 'B' || o.Kind == 'G' {
			v, _ := boundary(seq, i)
			out[i] += fmt.Sprintf("=%d", v)
		}
	}
	return out
}

func (o seqOp) String() string {
	switch o.Kind {
	case 'L', 'R':
		return fmt.Sprintf("%c(a%d,n%d,p%d,g%d)", o.Kind, o.Acct, o.Nonce, seqPrices[o.Nonce][b2i(o.Hi)], seqGas[b2i(o.Hi)])
	case 'M':
		return fmt.Sprintf("M(a%d)", o.Acct)
	case 'B':
		return fmt.Sprintf("B(a%d,%s)", o.Acct, []string{"c1-1", "c2-1"}[o.K])
	case 'G':
		return fmt.Sprintf("G(%s)", []string{"g1-1", "g2-1"}[o.K])
	default:
		if o.Hi {
			return fmt.Sprintf("P(%d)", seqPriceHi)
		}
		return "P(1)"
	}
}

func b2i(b bool) int {
	if b {
		return 1
	}
	return 0
}

func seqAlphabet() []seqOp {
	var al []seqOp
	for _, k := range []byte{'L', 'R'} {
		for a := 0; a < 2; a++ {
			for n := uint64(0); n < 3; n++ {
				for _, hi := range []bool{false, true} {
					al = append(al, seqOp{Kind: k, Acct: a, Nonce: n, Hi: hi})
				}
			}
		}
	}
	al = append(al, seqOp{Kind: 'M', Acct: 0}, seqOp{Kind: 'M', Acct: 1})
	al = append(al, seqOp{Kind: 'P', Hi: true}, seqOp{Kind: 'P', Hi: false})
	for a := 0; a < 2; a++ {
		for k := 0; k < 2; k++ {
			al = append(al, seqOp{Kind: 'B', Acct: a, K: k})
		}
	}
	al = append(al, seqOp{Kind: 'G', K: 0}, seqOp{Kind: 'G', K: 1})
	return al
}

// canonical: the two accounts are interchangeable (same balance, same role), so
// only sequences whose first account-mentioning operation names a0 are run.
//
// A SetGasPrice that repeats the current threshold changes nothing at all (the
// pool starts at the low threshold), so a sequence containing one is equivalent
// to the shorter sequence without it, which is run anyway as a prefix class.
//
// Boundary heads ('B', 'G'): at most one per sequence, not before the third
// position (two earlier operations are needed for an original and its
// replacement), and only where the boundary value is defined.
func canonical(seq []seqOp) bool {
	nb := 0
	for i, o := range seq {
		if o.Kind == 'B' || o.Kind == 'G' {
			nb++
			if nb > 1 || i < 2 {
				return false
			}
			if _, ok := boundary(seq, i); !ok {
				return false
			}
		}
	}
	hi := false
	for _, o := range seq {
		if o.Kind == 'P' {
			if o.Hi == hi {
				return false
			}
			hi = o.Hi
		}
	}
	for _, o := range seq {
		if o.Kind != 'P' {
			return o.Acct == 0
		}
	}
	return true
}

func seqConfig() core.TxPoolConfig {
	return core.TxPoolConfig{
		NoLocals: false, Journal: "", Rejournal: time.Hour,
		PriceLimit: 1, PriceBump: seqBump,
		AccountSlots: 1, GlobalSlots: 3, AccountQueue: 2, GlobalQueue: 3,
		MaxSenders: 64, MaxFeesCached: 8, SendersChBuffer: 64, QiPoolSize: 4,
		QiTxLifetime: time.Hour, Lifetime: time.Hour, ReorgFrequency: time.Hour,
	}
}

type seqWitness struct {
	Ops     []string  `json:"ops"`
	FailsAt int       `json:"fails_after_op_index"`
	Errors  []string  `json:"returned_errors"`
	Before  *snapView `json:"snapshot_before_op,omitempty"`
	After   *snapView `json:"snapshot_after_op,omitempty"`
	Config  string    `json:"config"`
}

type seqWorker struct {
	id     int
	logger *log.Logger
	watch  *logWatch
	sdb    state.Database
	pdb    ethdb.Database
	n      int
	txs    [2][3][2]*txInfo

	busySince int64 // unix nanos of the call in flight (0 = none); read by the stage watchdog
}

// bumpOK is the statement's replacement rule with the implementation's integer
// rounding granted (threshold = floor(old*(100+bump)/100)); the universe's
// prices divide exactly, so the rounding never matters here.
func bumpOK(oldPrice, newPrice *big.Int, bump uint64) bool {
	thr := new(big.Int).Mul(oldPrice, big.NewInt(int64(100+bump)))
	thr.Div(thr, big.NewInt(100))
	return newPrice.Cmp(oldPrice) > 0 && newPrice.Cmp(thr) >= 0
}

type seqShared struct {
	m        *mon.M
	seenBits []uint32 // bit per prefix code: full evaluation already done
	alpha    []seqOp
	index    map[seqOp]int
	progress int64
	stop     int32
}

// runSequence executes one sequence on a fresh pool. It returns false when the
// stage must stop (watchdog).
func runSequence(sh *seqShared, seq []seqOp, wk *seqWorker) bool {
	m := sh.m
	logW := wk.watch
	logger := wk.logger
	bal := bigPow10(18)
	if wk.sdb == nil || wk.n >= 4000 {
		// renewed every few thousand sequences so that memory stays bounded
		wk.sdb = state.NewDatabase(rawdb.NewMemoryDatabase(logger))
		wk.pdb = rawdb.NewMemoryDatabase(logger)
		wk.n = 0
	}
	wk.n++
	r := newRig(logger, logW, seqConfig(), wk.sdb, 2, []*big.Int{bal, bal}, headSpec{seqBaseFee, seqGasLimit}, wk.pdb)
	r.wd = 45 * time.Second
	defer r.stop()

	// every worker has its own transaction objects (same keys, same hashes)
	if wk.txs[0][0][0] == nil {
		for a := 0; a < 2; a++ {
			for n := 0; n < 3; n++ {
				for p := 0; p < 2; p++ {
					ti := mkTx(txKey{acct: a, nonce: uint64(n), price: seqPrices[n][p], gas: seqGas[p]})
					cp := types.NewTx(ti.tx.Inner())
					cp.Hash()
					wk.txs[a][n][p] = &txInfo{tx: cp, key: ti.key}
				}
			}
		}
	}
	for a := 0; a < 2; a++ {
		for n := 0; n < 3; n++ {
			for p := 0; p < 2; p++ {
				wk.txs[a][n][p].tx.SetLocal(false)
			}
		}
	}
	seqTx := func(o seqOp) *txInfo { return wk.txs[o.Acct][o.Nonce][b2i(o.Hi)] }

	ops := make([]string, len(seq))
	copy(ops, opStrings(seq))
	spec := headSpec{seqBaseFee, seqGasLimit}
	var errs []string
	permitted := map[common.Hash]bool{}
	submitted := map[common.Hash]bool{}
	deniedWhy := map[common.Hash]string{}
	localsUsed := false
	var prev *core.VerifPoolSnapshot
	occupant := func(s *core.VerifPoolSnapshot, a int, n uint64) *types.Transaction {
		if s == nil {
			return nil
		}
		x := s.Accounts[accounts()[a].ia]
		if x == nil {
			return nil
		}
		for _, tx := range x.Pending {
			if tx.Nonce() == n {
				return tx
			}
		}
		for _, tx := range x.Queue {
			if tx.Nonce() == n {
				return tx
			}
		}
		return nil
	}
	wit := func(i int, before, after *core.VerifPoolSnapshot) seqWitness {
		w := seqWitness{Ops: ops, FailsAt: i, Errors: errs, Config: fmt.Sprintf("%+v", seqConfig())}
		if before != nil {
			v := viewOf(before)
			w.Before = &v
		}
		if after != nil {
			v := viewOf(after)
			w.After = &v
		}
		return w
	}

	var pcode uint64
	for i, o := range seq {
		var refClass string
		var err error
		panicked := m.Guard("api-call-panic:"+string(o.Kind), func() any { return wit(i, prev, nil) }, func() {
			switch o.Kind {
			case 'L', 'R':
				ti := seqTx(o)
				occ := occupant(prev, o.Acct, o.Nonce)
				switch {
				case occ == nil:
					permitted[ti.tx.Hash()] = true
					refClass = "ref:fresh-slot"
				case occ.Hash() == ti.tx.Hash():
					refClass = "ref:already-known"
				case bumpOK(occ.GasPrice(), ti.tx.GasPrice(), seqBump):
					permitted[ti.tx.Hash()] = true
					refClass = "ref:replace-bump-sufficient"
				default:
					delete(permitted, ti.tx.Hash())
					deniedWhy[ti.tx.Hash()] = fmt.Sprintf("added as %s while %s occupied the slot: price %s < %s*(100+%d)/100",
						o, txDesc(occ), ti.tx.GasPrice(), occ.GasPrice(), seqBump)
					refClass = "ref:replace-bump-insufficient"
				}
				submitted[ti.tx.Hash()] = true
				if o.Kind == 'L' {
					localsUsed = true
					err = r.pool.AddLocal(ti.tx)
				} else {
					err = r.pool.AddRemotesSync([]*types.Transaction{ti.tx})[0]
				}
			case 'M':
				var mined []*txInfo
				if prev != nil {
					if x := prev.Accounts[accounts()[o.Acct].ia]; x != nil && len(x.Pending) > 0 {
						for n := 0; n < 3; n++ {
							for p := 0; p < 2; p++ {
								if ti := wk.txs[o.Acct][n][p]; ti.tx.Hash() == x.Pending[0].Hash() {
									mined = append(mined, ti)
								}
							}
						}
					}
				}
				if len(mined) > 0 {
					refClass = "ref:mine-lowest-pending"
				} else {
					refClass = "ref:empty-head"
				}
				b := r.chain.extend(r.chain.head(), mined, nil, spec)
				r.chain.announce(b)
			case 'B':
				v, _ := boundary(seq, i)
				refClass = "ref:balance-boundary-head:" + []string{"c1-1", "c2-1"}[o.K]
				b := r.chain.extend(r.chain.head(), nil, map[int]*big.Int{o.Acct: new(big.Int).SetUint64(v)}, spec)
				r.chain.announce(b)
			case 'G':
				v, _ := boundary(seq, i)
				refClass = "ref:gas-limit-boundary-head:" + []string{"g1-1", "g2-1"}[o.K]
				spec.GasLimit = v
				b := r.chain.extend(r.chain.head(), nil, nil, spec)
				r.chain.announce(b)
			case 'P':
				if o.Hi {
					r.pool.SetGasPrice(big.NewInt(seqPriceHi))
				} else {
					r.pool.SetGasPrice(big.NewInt(1))
				}
				refClass = "ref:price-change"
			}
		})
		if panicked {
			return true
		}
		if err != nil {
			errs = append(errs, fmt.Sprintf("%s: %v", o, err))
		} else {
			errs = append(errs, "")
		}
		// no per-call watchdog here: a call that never returns is caught by the
		// stage watchdog in TestC19Seq (goroutine dump + inconclusive)
		atomic.StoreInt64(&wk.busySince, time.Now().UnixNano())
		r.quiesceDirect()
		atomic.StoreInt64(&wk.busySince, 0)
		if ps := logW.takePanics(); len(ps) > 0 {
			for _, p := range ps {
				m.Violation("pool-goroutine-panic", p, wit(i, prev, nil))
			}
			return true
		}
		snap := r.pool.VerifSnapshot()

		pcode = pcode*uint64(len(sh.alpha)+1) + uint64(sh.index[o]) + 1
		seen := false
		for w, bit := &sh.seenBits[pcode/32], uint32(1)<<(pcode%32); ; {
			old := atomic.LoadUint32(w)
			if old&bit != 0 {
				seen = true
				break
			}
			if atomic.CompareAndSwapUint32(w, old, old|bit) {
				break
			}
		}
		if !seen {
			prefix := strings.Join(ops[:i+1], " ")
			// full invariant evaluation
			fs, st := checkInvariants(snap, localsUsed)
			for _, f := range fs {
				m.Violation(f.Sig, fmt.Sprintf("after %v: %s", ops[:i+1], f.Detail), wit(i, prev, snap))
			}
			m.Eval("inv:len"+fmt.Sprint(i+1), prefix)
			m.Eval(refClass, prefix)
			if st.cumulativeOverBalance > 0 {
				m.AddExtra("cumulative_cost_exceeds_balance_observed", 1)
			}
			// reference: only permitted transactions may be present
			for _, x := range snap.Accounts {
				for _, tx := range append(append(types.Transactions{}, x.Pending...), x.Queue...) {
					h := tx.Hash()
					if permitted[h] {
						continue
					}
					if !submitted[h] {
						m.Violation("tx-present-never-added", fmt.Sprintf("after %v: %s is in the pool but was never submitted", ops[:i+1], txDesc(tx)), wit(i, prev, snap))
					} else {
						m.Violation("replacement-without-price-bump", fmt.Sprintf("after %v: %s is in the pool; %s", ops[:i+1], txDesc(tx), deniedWhy[h]), wit(i, prev, snap))
					}
				}
			}
			// outcome coverage
			if o.Kind == 'L' || o.Kind == 'R' {
				ti := seqTx(o)
				now := occupant(snap, o.Acct, o.Nonce)
				took := now != nil && now.Hash() == ti.tx.Hash()
				switch refClass {
				case "ref:replace-bump-sufficient":
					if took {
						m.Eval("outcome:replacement-accepted", "")
					} else {
						m.Eval("outcome:replacement-declined", "")
					}
				case "ref:replace-bump-insufficient":
					m.Eval("outcome:replacement-rejected", "")
				case "ref:fresh-slot":
					if took {
						if x := snap.Accounts[accounts()[o.Acct].ia]; x != nil {
							for _, tx := range x.Pending {
								if tx.Hash() == ti.tx.Hash() {
									m.Eval("outcome:promoted", "")
								}
							}
							for _, tx := range x.Queue {
								if tx.Hash() == ti.tx.Hash() {
									m.Eval("outcome:queued", "")
								}
							}
						}
					} else {
						m.Eval("outcome:not-admitted", "")
					}
				}
			}
			if prev != nil {
				_, ps := checkInvariantsCount(prev)
				if st.pending+st.queued < ps && (o.Kind == 'L' || o.Kind == 'R') {
					m.Eval("outcome:eviction-on-add", "")
				}
				if o.Kind == 'B' || o.Kind == 'G' {
					what := map[byte]string{'B': "balance", 'G': "gas-limit"}[o.Kind]
					if st.pending+st.queued < ps {
						m.Eval("outcome:dropped-by-"+what+"-head", "")
					} else if ps > 0 {
						m.Eval("outcome:kept-at-"+what+"-boundary", "")
					}
				}
			}
			if i == 0 && o.Kind == 'L' && !o.Hi && o.Nonce == 0 {
				m.Sample(map[string]any{"ops": ops, "after_first_op": viewOf(snap)})
			}
		}
		prev = snap
	}
	if ps := logW.takePanics(); len(ps) > 0 {
		for _, p := range ps {
			m.Violation("pool-goroutine-panic", p, wit(len(seq)-1, prev, nil))
		}
	}
	atomic.AddInt64(&sh.progress, 1)
	return true
}

func checkInvariantsCount(s *core.VerifPoolSnapshot) (int, int) {
	p, q := 0, 0
	for _, x := range s.Accounts {
		p += len(x.Pending)
		q += len(x.Queue)
	}
	return p, p + q
}

func TestC19Seq(t *testing.T) {
	m := mon.New(t, "C19", "seq")
	defer m.Finish()
	L := 4
	if m.Thorough() {
		L = 5
	}
	if s := m.N(100, 100); s < 100 { // VERIF_SCALE < 1 while developing: shorter sequences
		L--
	}
	m.Rule(fmt.Sprintf("every sequence of length %d (hence every shorter one, as a prefix) over {AddLocal, AddRemotesSync} x 2 accounts x 3 nonces x 2 prices, "+
		"head event mining an account's lowest pending tx, SetGasPrice high/low, up to renaming of the two (identical) accounts; "+
		"plus at most one boundary head per sequence (position 3 or later): account balance set to c1-1 / c2-1 (c1 > c2 the two highest distinct costs the account submitted so far, replacements included; "+
		"the high-priced variant of a slot also has the higher gas) or block gas limit set to g1-1 / g2-1 (highest gas values submitted); fresh pool per sequence, "+
		"VerifQuiesce after every op; distinct = distinct op prefixes on which all invariants and the permitted-membership reference were evaluated", L))
	m.Assume("quiescent point = every announced head event handled by the pool's loop (sentinel events) and the pool's own same-head reset served (VerifQuiesce)",
		"'affordable from its balance' is read per transaction (cost <= balance), the pool's own notion; cumulative overdraft is only counted",
		"the statement does not determine which valid transactions must be admitted; the reference only fixes which may be present")
	al := seqAlphabet()
	accounts()

	nW := 2 * runtime.NumCPU()
	if nW > 32 {
		nW = 32
	}
	if nW < 4 {
		nW = 4
	}
	if v, err := strconv.Atoi(os.Getenv("C19_SEQ_WORKERS")); err == nil && v > 0 { // development only
		nW = v
	}
	sh := &seqShared{m: m, alpha: al, index: map[seqOp]int{}}
	space := uint64(1)
	for i := 0; i < L; i++ {
		space *= uint64(len(al) + 1)
	}
	sh.seenBits = make([]uint32, space/32+1)
	for i, o := range al {
		sh.index[o] = i
	}
	work := make(chan []seqOp, 256)
	var wg sync.WaitGroup
	watches := make([]*logWatch, nW)
	workers := make([]*seqWorker, nW)
	for w := 0; w < nW; w++ {
		watches[w] = newLogWatch()
		workers[w] = &seqWorker{id: w, watch: watches[w], logger: newPoolLogger(fmt.Sprintf("c19-seq-pool-%02d.log", w), watches[w])}
	}
	hookGlobal(watches[0])
	for w := 0; w < nW; w++ {
		wg.Add(1)
		go func(w int) {
			defer wg.Done()
			wk := workers[w]
			for seq := range work {
				if atomic.LoadInt32(&sh.stop) != 0 || m.Violations() > 30 {
					continue
				}
				runSequence(sh, seq, wk)
			}
		}(w)
	}
	var total int64
	go func() {
		idx := make([]int, L)
		for {
			seq := make([]seqOp, L)
			for i := range idx {
				seq[i] = al[idx[i]]
			}
			if canonical(seq) {
				work <- seq
				atomic.AddInt64(&total, 1)
			}
			k := L - 1
			for k >= 0 {
				idx[k]++
				if idx[k] < len(al) {
					break
				}
				idx[k] = 0
				k--
			}
			if k < 0 {
				break
			}
		}
		close(work)
	}()
	done := make(chan struct{})
	go func() { wg.Wait(); close(done) }()
	// stage watchdog: no sequence finished for 3 minutes
	last, lastT := int64(-1), time.Now()
	tick := time.NewTicker(5 * time.Second)
	defer tick.Stop()
loop:
	for {
		select {
		case <-done:
			break loop
		case <-tick.C:
			p := atomic.LoadInt64(&sh.progress)
			if p != last {
				last, lastT = p, time.Now()
			}
			stuck := time.Since(lastT) > 3*time.Minute
			for _, wk := range workers {
				if b := atomic.LoadInt64(&wk.busySince); b != 0 && time.Since(time.Unix(0, b)) > 90*time.Second {
					stuck = true
				}
			}
			if stuck {
				path := dumpGoroutines("seq-stage-watchdog")
				for _, w := range watches {
					for _, pn := range w.takePanics() {
						m.Violation("pool-goroutine-panic", pn, map[string]any{"note": "observed while a pool call did not return"})
					}
				}
				m.Inconclusive("seq: a pool call did not return within 90 s (or no sequence completed for 3 minutes); goroutine dump: " + path)
				atomic.StoreInt32(&sh.stop, 1)
				break loop
			}
		}
	}
	m.Extra("sequences_run", atomic.LoadInt64(&total))
	m.Extra("sequence_length", L)
	errc := map[string]int{}
	for _, w := range watches {
		for k, v := range w.errorCounts() {
			errc[k] += v
		}
	}
	m.Extra("pool_error_log_messages", errc)
	m.Floor(atomic.LoadInt64(&total), 8)
	m.Need("ref:fresh-slot", "ref:replace-bump-sufficient", "ref:replace-bump-insufficient", "ref:mine-lowest-pending", "ref:price-change",
		"outcome:replacement-accepted", "outcome:replacement-rejected", "outcome:promoted", "outcome:queued",
		"ref:balance-boundary-head:c1-1", "ref:balance-boundary-head:c2-1",
		"ref:gas-limit-boundary-head:g1-1", "ref:gas-limit-boundary-head:g2-1",
		"outcome:dropped-by-balance-head", "outcome:dropped-by-gas-limit-head")
}
