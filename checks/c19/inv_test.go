//go:build verif

// inv_test.go: the statement's invariants evaluated on a VerifPoolSnapshot
// (taken under the pool's own mutex at a quiescent point).
package c19

import (
	"fmt"
	"math/big"
	"sort"

	"github.com/dominant-strategies/go-quai/common"
	"github.com/dominant-strategies/go-quai/core"
	"github.com/dominant-strategies/go-quai/core/types"
)

type finding struct {
	Sig    string `json:"signature"`
	Detail string `json:"detail"`
}

type snapView struct {
	Accounts []acctView `json:"accounts"`
	Locals   []string   `json:"all_locals"`
	Remotes  []string   `json:"all_remotes"`
	Urgent   []string   `json:"priced_urgent"`
	Floating []string   `json:"priced_floating"`
	Stales   int        `json:"priced_stales"`
	Slots    int        `json:"slots"`
	Qi       int        `json:"qi"`
	GasPrice string     `json:"gas_price"`
	MaxGas   uint64     `json:"current_max_gas"`
}

type acctView struct {
	Acct         string   `json:"acct"`
	StateNonce   uint64   `json:"state_nonce"`
	Balance      string   `json:"balance"`
	PendingNonce uint64   `json:"pending_nonce"`
	HasNoncer    bool     `json:"has_noncer"`
	Local        bool     `json:"local"`
	Pending      []string `json:"pending"`
	Queue        []string `json:"queue"`
}

func acctName(ia common.InternalAddress) string {
	for _, a := range accounts() {
		if a.ia == ia {
			return fmt.Sprintf("a%d", a.idx)
		}
	}
	return ia.String()
}

func descAll(txs types.Transactions) []string {
	out := make([]string, 0, len(txs))
	for _, tx := range txs {
		out = append(out, txDesc(tx))
	}
	return out
}

func descHashes(hs []common.Hash) []string {
	out := make([]string, 0, len(hs))
	txMu.Lock()
	for _, h := range hs {
		if ti := txByH[h]; ti != nil {
			k := ti.key
			out = append(out, fmt.Sprintf("a%d/n%d/p%d/g%d/v%d/s%d", k.acct, k.nonce, k.price, k.gas, k.value, k.salt))
		} else {
			out = append(out, fmt.Sprintf("%x", h.Bytes()[:6]))
		}
	}
	txMu.Unlock()
	sort.Strings(out)
	return out
}

func viewOf(s *core.VerifPoolSnapshot) snapView {
	v := snapView{Stales: s.PricedStales, Slots: s.Slots, Qi: len(s.Qi), GasPrice: s.GasPrice.String(), MaxGas: s.CurrentMaxGas}
	var keys []common.InternalAddress
	for a := range s.Accounts {
		keys = append(keys, a)
	}
	sort.Slice(keys, func(i, j int) bool { return acctName(keys[i]) < acctName(keys[j]) })
	for _, a := range keys {
		x := s.Accounts[a]
		bal := "nil"
		if x.StateBalance != nil {
			bal = x.StateBalance.String()
		}
		v.Accounts = append(v.Accounts, acctView{Acct: acctName(a), StateNonce: x.StateNonce, Balance: bal,
			PendingNonce: x.PendingNonce, HasNoncer: x.HasNoncer, Local: x.Local,
			Pending: descAll(x.Pending), Queue: descAll(x.Queue)})
	}
	hs := func(m map[common.Hash]*types.Transaction) []common.Hash {
		out := make([]common.Hash, 0, len(m))
		for h := range m {
			out = append(out, h)
		}
		return out
	}
	v.Locals = descHashes(hs(s.AllLocals))
	v.Remotes = descHashes(hs(s.AllRemotes))
	v.Urgent = descHashes(s.PricedUrgent)
	v.Floating = descHashes(s.PricedFloating)
	return v
}

type invStats struct {
	pending, queued        int
	cumulativeOverBalance  int // informational: cumulative cost of pending > balance (not demanded)
	staleOvercount         int // informational: |heaps|-stales < |remotes| (only possible with local accounts)
	accountsWithPending    int
	pendingOverAccountSlot int
}

// checkInvariants returns every refuting observation on the snapshot.
//
// Interpretation notes (see the report):
//   - "affordable from its balance" is evaluated per transaction (cost <=
//     balance), which is the pool's own notion (validateTx, txList.Filter: there is
//     no cumulative accounting anywhere in the pool); the cumulative variant is
//     only counted. Queued transactions are held to the same per-transaction
//     bound, and both lists to tx.Gas() <= current block gas limit (the pool
//     filters both lists by balance and gas limit on every reset).
//   - price index: every remote member of the hash index must be in a heap;
//     heap entries that are not (any more) remote members are "stale" and must be
//     covered by the stales counter: |heaps|-stales <= |remotes|, with equality
//     when no account is local (Removed() is also called for local transactions,
//     which only over-counts).
//   - limits: the bounds truncatePending/truncateQueue/promoteExecutables/add
//     establish: sum(queue) <= GlobalQueue; each queue <= AccountQueue;
//     sum(pending) > GlobalSlots only if no account exceeds AccountSlots;
//     slots <= GlobalSlots+GlobalQueue; |qi| <= QiPoolSize.
func checkInvariants(s *core.VerifPoolSnapshot, localsUsed bool) ([]finding, invStats) {
	var out []finding
	var st invStats
	add := func(sig, f string, a ...any) { out = append(out, finding{sig, fmt.Sprintf(f, a...)}) }

	inPending := map[common.Hash]string{}
	inQueue := map[common.Hash]string{}
	cfg := s.Config
	maxPendingPerAcct := 0
	for ia, x := range s.Accounts {
		name := acctName(ia)
		// (a) contiguity from the state nonce, affordability
		if len(x.Pending) > 0 {
			st.accountsWithPending++
			want := x.StateNonce
			for i, tx := range x.Pending {
				if tx.Nonce() != want {
					kind := "inner-gap"
					if i == 0 {
						kind = "does-not-start-at-state-nonce"
					}
					add("pending-not-contiguous:"+kind, "%s: state nonce %d, pending nonces %v (position %d has nonce %d, want %d)",
						name, x.StateNonce, nonces(x.Pending), i, tx.Nonce(), want)
					break
				}
				want++
			}
			cum := new(big.Int)
			for _, tx := range x.Pending {
				c := tx.Cost()
				cum.Add(cum, c)
				if x.StateBalance != nil && c.Cmp(x.StateBalance) > 0 {
					add("pending-unaffordable", "%s: pending %s costs %s but balance is %s", name, txDesc(tx), c, x.StateBalance)
				}
			}
			if x.StateBalance != nil && cum.Cmp(x.StateBalance) > 0 {
				st.cumulativeOverBalance++
			}
			// (e) virtual nonce
			eff := x.StateNonce
			if x.HasNoncer {
				eff = x.PendingNonce
			}
			last := x.Pending[len(x.Pending)-1].Nonce()
			if eff != last+1 {
				add("pending-nonce-mismatch", "%s: pendingNonces=%d (explicit entry: %v) but last pending nonce is %d (pending %v)",
					name, eff, x.HasNoncer, last, nonces(x.Pending))
			}
		}
		// (a') every pending and queued transaction fits the current block gas limit; queued ones are affordable too
		// (the pool filters both lists by balance and gas limit on every reset: promoteExecutables / demoteUnexecutables)
		for _, tx := range x.Pending {
			if tx.Gas() > s.CurrentMaxGas {
				add("pending-gas-above-block-limit", "%s: pending %s asks for gas %d but the current block gas limit is %d", name, txDesc(tx), tx.Gas(), s.CurrentMaxGas)
			}
		}
		for _, tx := range x.Queue {
			if tx.Gas() > s.CurrentMaxGas {
				add("queued-gas-above-block-limit", "%s: queued %s asks for gas %d but the current block gas limit is %d", name, txDesc(tx), tx.Gas(), s.CurrentMaxGas)
			}
			if c := tx.Cost(); x.StateBalance != nil && c.Cmp(x.StateBalance) > 0 {
				add("queued-unaffordable", "%s: queued %s costs %s but balance is %s", name, txDesc(tx), c, x.StateBalance)
			}
		}
		if len(x.Pending) > maxPendingPerAcct {
			maxPendingPerAcct = len(x.Pending)
		}
		st.pending += len(x.Pending)
		st.queued += len(x.Queue)
		// (g) one transaction per (account, nonce)
		pn := map[uint64]*types.Transaction{}
		for _, tx := range x.Pending {
			if o := pn[tx.Nonce()]; o != nil {
				add("two-txs-same-nonce", "%s: nonce %d twice in pending: %s and %s", name, tx.Nonce(), txDesc(o), txDesc(tx))
			}
			pn[tx.Nonce()] = tx
			if o, dup := inPending[tx.Hash()]; dup {
				add("tx-in-two-accounts", "%s also pending under %s", txDesc(tx), o)
			}
			inPending[tx.Hash()] = name
		}
		qn := map[uint64]*types.Transaction{}
		for _, tx := range x.Queue {
			if o := qn[tx.Nonce()]; o != nil {
				add("two-txs-same-nonce", "%s: nonce %d twice in queue: %s and %s", name, tx.Nonce(), txDesc(o), txDesc(tx))
			}
			qn[tx.Nonce()] = tx
			if o := pn[tx.Nonce()]; o != nil && o.Hash() != tx.Hash() {
				add("same-nonce-in-pending-and-queue", "%s: nonce %d pending as %s and queued as %s", name, tx.Nonce(), txDesc(o), txDesc(tx))
			}
			inQueue[tx.Hash()] = name
		}
		// (f) per-account queue limit
		if uint64(len(x.Queue)) > cfg.AccountQueue {
			add("account-queue-limit-exceeded", "%s: %d queued > AccountQueue %d (queue %v)", name, len(x.Queue), cfg.AccountQueue, nonces(x.Queue))
		}
	}
	// (b) no tx both pending and queued
	for h, a := range inPending {
		if b, ok := inQueue[h]; ok {
			add("in-pending-and-queue", "%s is pending (%s) and queued (%s)", descHashes([]common.Hash{h})[0], a, b)
		}
	}
	// (c) hash index == pending ∪ queue
	for h := range s.AllLocals {
		if _, ok := s.AllRemotes[h]; ok {
			add("index-local-and-remote", "%s is in both the local and the remote index", descHashes([]common.Hash{h})[0])
		}
	}
	idx := map[common.Hash]bool{}
	for h := range s.AllLocals {
		idx[h] = true
	}
	for h := range s.AllRemotes {
		idx[h] = true
	}
	for h := range idx {
		_, p := inPending[h]
		_, q := inQueue[h]
		if !p && !q {
			add("index-tx-not-in-lists", "%s is in the hash index but in no account list", descHashes([]common.Hash{h})[0])
		}
	}
	for h, a := range inPending {
		if !idx[h] {
			add("list-tx-not-in-index", "pending %s (%s) is not in the hash index", descHashes([]common.Hash{h})[0], a)
		}
	}
	for h, a := range inQueue {
		if !idx[h] {
			add("list-tx-not-in-index", "queued %s (%s) is not in the hash index", descHashes([]common.Hash{h})[0], a)
		}
	}
	// slots counter
	slots := 0
	for _, tx := range s.AllLocals {
		slots += numSlots(tx)
	}
	for _, tx := range s.AllRemotes {
		slots += numSlots(tx)
	}
	if slots != s.Slots {
		add("slots-counter-mismatch", "index reports %d slots, its members occupy %d", s.Slots, slots)
	}
	// (d) price index
	heap := map[common.Hash]int{}
	for _, h := range s.PricedUrgent {
		heap[h]++
	}
	for _, h := range s.PricedFloating {
		heap[h]++
	}
	for h := range s.AllRemotes {
		if heap[h] == 0 {
			add("priced-missing-remote", "remote %s is in the hash index but in neither price heap", descHashes([]common.Hash{h})[0])
		}
	}
	nHeap := len(s.PricedUrgent) + len(s.PricedFloating)
	anyLocal := localsUsed || len(s.AllLocals) > 0
	for _, x := range s.Accounts {
		if x.Local {
			anyLocal = true
		}
	}
	live := nHeap - s.PricedStales
	switch {
	case live > len(s.AllRemotes):
		add("priced-stale-undercount", "|urgent|+|floating|=%d, stales=%d, but only %d remote transactions are indexed (%d heap entries are dead and uncounted)",
			nHeap, s.PricedStales, len(s.AllRemotes), live-len(s.AllRemotes))
	case live < len(s.AllRemotes):
		if anyLocal {
			st.staleOvercount++
		} else {
			add("priced-stale-overcount", "|urgent|+|floating|=%d, stales=%d, remote index %d, and no account is local", nHeap, s.PricedStales, len(s.AllRemotes))
		}
	}
	// (f) global limits
	if uint64(st.queued) > cfg.GlobalQueue {
		add("global-queue-limit-exceeded", "%d queued > GlobalQueue %d", st.queued, cfg.GlobalQueue)
	}
	if uint64(st.pending) > cfg.GlobalSlots && uint64(maxPendingPerAcct) > cfg.AccountSlots {
		add("global-pending-limit-exceeded", "%d pending > GlobalSlots %d while an account holds %d > AccountSlots %d", st.pending, cfg.GlobalSlots, maxPendingPerAcct, cfg.AccountSlots)
	}
	if uint64(maxPendingPerAcct) > cfg.AccountSlots {
		st.pendingOverAccountSlot++
	}
	if uint64(s.Slots) > cfg.GlobalSlots+cfg.GlobalQueue {
		add("pool-slots-limit-exceeded", "%d slots > GlobalSlots+GlobalQueue %d", s.Slots, cfg.GlobalSlots+cfg.GlobalQueue)
	}
	if uint64(len(s.Qi)) > cfg.QiPoolSize {
		add("qi-pool-limit-exceeded", "%d qi transactions > QiPoolSize %d", len(s.Qi), cfg.QiPoolSize)
	}
	sort.Slice(out, func(i, j int) bool {
		if out[i].Sig != out[j].Sig {
			return out[i].Sig < out[j].Sig
		}
		return out[i].Detail < out[j].Detail
	})
	return out, st
}

func nonces(txs types.Transactions) []uint64 {
	out := make([]uint64, len(txs))
	for i, tx := range txs {
		out[i] = tx.Nonce()
	}
	return out
}

func numSlots(tx *types.Transaction) int {
	const txSlotSize = 32 * 1024
	return int((tx.Size() + txSlotSize - 1) / txSlotSize)
}
