//go:build verif

package c19

import "github.com/dominant-strategies/go-quai/core"

// /repo/internal/verifhook is an internal package of the go-quai module; the
// verif-tagged shim core.VerifSetHook exposes its Set function.
func verifhookSet(f func(name string)) { core.VerifSetHook(f) }
