//go:build verif

// C06 — block execution is deterministic and header commitments equal stored state.
package c06

import (
	"bytes"
	"fmt"
	"math/rand"
	"os"
	"runtime"
	"sort"
	"sync"
	"testing"
	"time"

	"github.com/dominant-strategies/go-quai/common"
	"github.com/dominant-strategies/go-quai/core"
	"github.com/dominant-strategies/go-quai/core/rawdb"
	"github.com/dominant-strategies/go-quai/core/types"
	"github.com/dominant-strategies/go-quai/ethdb"
	"github.com/dominant-strategies/go-quai/log"
	"github.com/dominant-strategies/go-quai/rlp"

	"verif/internal/hnet"
	"verif/internal/mon"
)

func init() {
	// trimming every block: compress the trim depths (global var map)
	types.TrimDepths = map[uint8]uint64{0: 2, 1: 3, 2: 4, 3: 5, 4: 6, 5: 7}
}

type opRec struct {
	del bool
	k   string
	v   string
}
type recorder struct{ ops []opRec }

func (r *recorder) Put(k, v []byte) error {
	r.ops = append(r.ops, opRec{false, string(k), string(v)})
	return nil
}
func (r *recorder) Delete(k []byte) error {
	r.ops = append(r.ops, opRec{true, string(k), ""})
	return nil
}
func (r *recorder) Logger() *log.Logger { return log.Global }

// outcome is everything Process returns, in a comparable form.
type outcome struct {
	Err       string
	Receipts  []string
	Etxs      []string
	UsedGas   uint64
	UsedState uint64
	SetSize   uint64
	MuHash    string
	EVMRoot   string
	EtxRoot   string
	StateSize string
	Unlocks   []string
	BatchOps  []string // sorted set of batch operations
}

func runProcess(c *core.Core, db ethdb.Database, block *types.WorkObject) outcome {
	var o outcome
	batch := db.NewBatch()
	receipts, etxs, _, statedb, usedGas, usedState, setSize, ms, unlocks, err := c.Processor().Process(block, batch)
	if err != nil {
		o.Err = err.Error()
		return o
	}
	for _, r := range receipts {
		b, e := rlp.EncodeToBytes(r)
		if e != nil {
			b = []byte("encode-error:" + e.Error())
		}
		o.Receipts = append(o.Receipts, fmt.Sprintf("%x|st=%d|gas=%d|cum=%d|logs=%d|etxs=%d", b, r.Status, r.GasUsed, r.CumulativeGasUsed, len(r.Logs), len(r.OutboundEtxs)))
	}
	for _, e := range etxs {
		o.Etxs = append(o.Etxs, e.Hash().Hex())
	}
	o.UsedGas, o.UsedState, o.SetSize = usedGas, usedState, setSize
	if ms != nil {
		o.MuHash = ms.Hash().Hex()
	}
	if statedb != nil {
		o.EVMRoot = statedb.IntermediateRoot(true).Hex()
		o.EtxRoot = statedb.ETXRoot().Hex()
		o.StateSize = statedb.GetQuaiTrieSize().String()
	}
	for _, u := range unlocks {
		o.Unlocks = append(o.Unlocks, fmt.Sprintf("%x:%s", u.Addr[:], u.Amt))
	}
	rec := &recorder{}
	batch.Replay(rec)
	// net effect per key, order-insensitive
	last := map[string]opRec{}
	for _, op := range rec.ops {
		last[op.k] = op
	}
	for k, op := range last {
		// the per-block undo list of trimmed outputs ("tutxo" + hash) is filled by one goroutine per
		// denomination: its ORDER is scheduling dependent but it is a set (used to re-create the outputs
		// on rollback) and not a commitment, so it is compared as a multiset of bytes
		if len(k) > 5 && k[:5] == "tutxo" {
			b := []byte(op.v)
			sort.Slice(b, func(i, j int) bool { return b[i] < b[j] })
			op.v = string(b)
		}
		if op.del {
			o.BatchOps = append(o.BatchOps, fmt.Sprintf("D %x", k))
		} else {
			o.BatchOps = append(o.BatchOps, fmt.Sprintf("P %x=%x", k, op.v))
		}
	}
	sort.Strings(o.BatchOps)
	return o
}

func diffOutcome(a, b outcome) []string {
	var d []string
	cmp := func(name string, x, y any) {
		if fmt.Sprint(x) != fmt.Sprint(y) {
			sx, sy := fmt.Sprint(x), fmt.Sprint(y)
			if len(sx) > 160 {
				sx = sx[:160] + "…"
			}
			if len(sy) > 160 {
				sy = sy[:160] + "…"
			}
			d = append(d, fmt.Sprintf("%s: %s vs %s", name, sx, sy))
		}
	}
	cmp("error", a.Err, b.Err)
	cmp("receipts", a.Receipts, b.Receipts)
	cmp("etxs", a.Etxs, b.Etxs)
	cmp("usedGas", a.UsedGas, b.UsedGas)
	cmp("usedState", a.UsedState, b.UsedState)
	cmp("utxoSetSize", a.SetSize, b.SetSize)
	cmp("muhash", a.MuHash, b.MuHash)
	cmp("evmRoot", a.EVMRoot, b.EVMRoot)
	cmp("etxSetRoot", a.EtxRoot, b.EtxRoot)
	cmp("quaiStateSize", a.StateSize, b.StateSize)
	cmp("unlocks", a.Unlocks, b.Unlocks)
	if len(a.BatchOps) != len(b.BatchOps) {
		d = append(d, fmt.Sprintf("batch-ops: %d vs %d operations", len(a.BatchOps), len(b.BatchOps)))
	} else {
		for i := range a.BatchOps {
			if a.BatchOps[i] != b.BatchOps[i] {
				x, y := a.BatchOps[i], b.BatchOps[i]
				if len(x) > 100 {
					x = x[:100]
				}
				if len(y) > 100 {
					y = y[:100]
				}
				d = append(d, fmt.Sprintf("batch-ops[%d]: %s vs %s", i, x, y))
				break
			}
		}
	}
	return d
}

func blockKinds(b *types.WorkObject) string {
	k := map[string]bool{}
	for _, tx := range b.Transactions() {
		switch tx.Type() {
		case types.QuaiTxType:
			k["quai"] = true
		case types.QiTxType:
			k["qi"] = true
		case types.ExternalTxType:
			k[fmt.Sprintf("etx%d", tx.EtxType())] = true
		}
	}
	var out []string
	for s := range k {
		out = append(out, s)
	}
	sort.Strings(out)
	return fmt.Sprint(out)
}

func history(m *mon.M, r *rand.Rand, hIdx, blocks int, replayEvery int, followers []string) {
	a, err := hnet.NewActivity(r, hnet.Options{})
	if err != nil {
		m.Inconclusive("harness did not start: " + err.Error())
		return
	}
	defer a.N.Stop()
	a.DoubleSpend = true
	a.TrimRace = true
	a.QiPerStep, a.ConvEvery = 3, 2
	var fol []*hnet.Net
	for _, be := range followers {
		dir, _ := os.MkdirTemp(".", "c06-"+be+"-")
		f, err := hnet.New(hnet.Options{Backend: be, Dir: dir, GenAllocs: a.N.Opts.GenAllocs, QuaiCoinbase: a.N.Opts.QuaiCoinbase, QiCoinbase: a.N.Opts.QiCoinbase})
		if err != nil {
			m.Inconclusive(fmt.Sprintf("follower %s did not start: %v", be, err))
			continue
		}
		fol = append(fol, f)
		defer func(f *hnet.Net, dir string) { f.Close(); os.RemoveAll(dir) }(f, dir)
	}
	var drift []common.Hash // outputs the header commitments removed twice (listed finding), see below
	for i := 0; i < blocks; i++ {
		want := -1
		if i%9 == 8 {
			want = 0 // make sure prime blocks (conversions, rate updates) keep coming
		}
		mined, err := a.Step(hnet.MineOpts{WantOrder: want})
		if err != nil {
			m.Violation("own-block-rejected", err.Error(), map[string]any{"history": hIdx, "block": i})
			return
		}
		zb := mined.Blocks[2]
		wit := map[string]any{"history": hIdx, "block": i, "hash": mined.Hash.Hex(), "number": mined.Number, "order": mined.Order,
			"wire_zone": mon.Short(mined.Wire[2], 1<<16), "kinds": blockKinds(zb)}
		// image of the zone database with the block stored but not yet executed
		var img = hnet.CopyMem(a.N.Zone().MemDB, a.N.Logger)
		if err := a.N.Settle(); err != nil {
			m.Violation("own-block-not-executable", err.Error(), wit)
			return
		}
		// An output that is spent by a Qi tx of this block AND trimmed by this block is removed from the
		// commitment twice (TrimBlock reads the database, not the batch): identify the event independently
		// from the block's inputs and the block's stored trim list, report it under its own signature and
		// carry the drift forward so that every other discrepancy is still caught.
		if trimmed, err := rawdb.ReadTrimmedUTXOs(a.N.Zone().DB, mined.Hash); err == nil && len(trimmed) > 0 {
			// how many of the per-denomination trimming goroutines had work in this block: two or more of
			// them writing is the concurrent case (shared batch, undo list, counters)
			den := map[uint8]bool{}
			for _, tu := range trimmed {
				den[tu.Denomination] = true
			}
			k := fmt.Sprint(len(den))
			if len(den) >= 3 {
				k = "3+"
			}
			m.Eval("trimming-goroutines-with-deletions:"+k, mined.Hash.Hex())
			spent := map[string]bool{}
			for _, tx := range zb.Transactions() {
				if tx.Type() == types.QiTxType {
					for _, in := range tx.TxIn() {
						spent[fmt.Sprintf("%x:%d", in.PreviousOutPoint.TxHash[:], in.PreviousOutPoint.Index)] = true
					}
				}
			}
			for _, tu := range trimmed {
				if spent[fmt.Sprintf("%x:%d", tu.TxHash[:], tu.Index)] {
					drift = append(drift, types.UTXOHash(tu.TxHash, tu.Index, tu.UtxoEntry))
					w2 := map[string]any{"block": wit, "outpoint": fmt.Sprintf("%x:%d", tu.TxHash[:], tu.Index), "denomination": tu.Denomination}
					m.Violation("commitment-counts-output-twice:spent-and-trimmed-in-same-block", fmt.Sprintf("output %x:%d (denomination %d) is an input of a Qi transaction of block %d and is also in the block's trim list: UTXO root and set size remove it twice, the database once", tu.TxHash[:6], tu.Index, tu.Denomination, mined.Number[2]), w2)
					m.Eval("trim-race-observed", mined.Hash.Hex())
				}
			}
		}
		// (1) header commitments == stored state
		bad, scan, err := a.N.CheckHeadCommitmentWithDrift(drift)
		if err != nil {
			m.Violation("scan-error", err.Error(), wit)
			return
		}
		for _, b := range bad {
			m.Violation("commitment-differs-from-database:"+b[:indexOf(b, ':')], b, wit)
		}
		if len(scan.BadOwners) > 0 {
			m.Violation("utxo-owner-out-of-scope", fmt.Sprint(scan.BadOwners), wit)
		}
		m.Eval("commitment-scan:"+blockKinds(zb), mined.Hash.Hex())
		m.AddExtra("utxos_scanned", int64(scan.Utxos))
		m.AddExtra("lockups_scanned", int64(scan.Lockups))
		// (2) replays on cold twins under different schedules
		if replayEvery > 0 && i%replayEvery == replayEvery-1 {
			var outs []outcome
			for k, procs := range []int{1, 2, 16} {
				old := runtime.GOMAXPROCS(procs)
				rr := rand.New(rand.NewSource(int64(hIdx*1000 + i*10 + k)))
				var rrMu sync.Mutex // the trimming goroutines call the hook concurrently
				core.VerifSetHook(func(name string) {
					if name == "finalize.trim" {
						rrMu.Lock()
						d := rr.Intn(300)
						rrMu.Unlock()
						time.Sleep(time.Duration(d) * time.Microsecond)
						runtime.Gosched()
					}
				})
				twin, tdb, err := a.N.ZoneTwin(hnet.CopyMem(img, a.N.Logger))
				if err != nil {
					runtime.GOMAXPROCS(old)
					m.Violation("twin-open-failed", err.Error(), wit)
					break
				}
				o := runProcess(twin, tdb, zb)
				twin.Stop()
				core.VerifSetHook(nil)
				runtime.GOMAXPROCS(old)
				outs = append(outs, o)
			}
			if len(outs) == 3 {
				if outs[0].Err != "" {
					m.Violation("replay-fails-on-cold-twin", outs[0].Err, wit)
				}
				for k := 1; k < 3; k++ {
					if d := diffOutcome(outs[0], outs[k]); len(d) > 0 {
						m.Violation("nondeterministic-process:"+d[0][:indexOf(d[0], ':')], fmt.Sprintf("GOMAXPROCS 1 vs %d: %v", []int{1, 2, 16}[k], d), wit)
					}
				}
				// the replay must reproduce what the header declares
				o := outs[0]
				if o.Err == "" {
					if o.MuHash != zb.UTXORoot().Hex() {
						m.Violation("replay-differs-from-header:muhash", fmt.Sprintf("replay %s header %s", o.MuHash, zb.UTXORoot().Hex()), wit)
					}
					if o.EVMRoot != zb.EVMRoot().Hex() {
						m.Violation("replay-differs-from-header:evmRoot", fmt.Sprintf("replay %s header %s", o.EVMRoot, zb.EVMRoot().Hex()), wit)
					}
					if o.EtxRoot != zb.EtxSetRoot().Hex() {
						m.Violation("replay-differs-from-header:etxSetRoot", fmt.Sprintf("replay %s header %s", o.EtxRoot, zb.EtxSetRoot().Hex()), wit)
					}
					if o.UsedGas != zb.GasUsed() {
						m.Violation("replay-differs-from-header:gasUsed", fmt.Sprintf("replay %d header %d", o.UsedGas, zb.GasUsed()), wit)
					}
					if o.UsedState != zb.StateUsed() {
						m.Violation("replay-differs-from-header:stateUsed", fmt.Sprintf("replay %d header %d", o.UsedState, zb.StateUsed()), wit)
					}
				}
				m.Eval("replay-3-schedules:"+blockKinds(zb), mined.Hash.Hex())
				if i < 12 {
					m.Sample(map[string]any{"block": wit, "receipts": len(o.Receipts), "etxs": len(o.Etxs), "batch_ops": len(o.BatchOps), "muhash": o.MuHash})
				}
			}
		}
		// (3) the same block bytes on other storage engines
		for fi, f := range fol {
			if f == nil || (!m.Thorough() && i >= 30) {
				continue
			}
			be := f.Opts.Backend
			if err := f.Follow(mined); err != nil {
				m.Violation("backend-rejects-block:"+be, err.Error(), wit)
				fol[fi] = nil
				continue
			}
			if err := f.Settle(); err != nil {
				m.Violation("backend-cannot-execute-block:"+be, err.Error(), wit)
				fol[fi] = nil
				continue
			}
			fbad, fscan, err := f.CheckHeadCommitmentWithDrift(drift)
			if err != nil {
				m.Violation("scan-error:"+be, err.Error(), wit)
				continue
			}
			for _, b := range fbad {
				m.Violation("commitment-differs-from-database:"+be+":"+b[:indexOf(b, ':')], b, wit)
			}
			if fscan.Root != scan.Root || fscan.Count != scan.Count {
				m.Violation("ledger-differs-across-backends:"+be, fmt.Sprintf("memory: %x/%d, %s: %x/%d", scan.Root, scan.Count, be, fscan.Root, fscan.Count), wit)
			}
			if h := f.Zone().Core.CurrentHeader(); h == nil || h.Hash() != mined.Hash {
				m.Violation("head-differs-across-backends:"+be, "follower head is not the delivered block", wit)
			}
			m.Eval("cross-backend:"+be, mined.Hash.Hex())
		}
	}
	m.Extra(fmt.Sprintf("history%d_submitted", hIdx), fmt.Sprint(a.Submitted))
}

func indexOf(s string, c byte) int {
	if i := bytes.IndexByte([]byte(s), c); i >= 0 {
		return i
	}
	return len(s)
}

var _ = common.Hash{}

func TestC06(t *testing.T) {
	m := mon.New(t, "C06", "chain")
	defer m.Finish()
	m.Rule("hnet histories with mixed traffic (Quai txs, Qi spends incl. double-spend attempts, Quai<->Qi conversions, coinbases of both ledgers, trimming every block via compressed TrimDepths); " +
		"after EVERY executed block the UTXO root / set size are recomputed from a scan of the 'ut' and 'cl' key spaces and the EVM / ETX-set roots reopened; every k-th block is re-executed by StateProcessor.Process on three cold twin nodes (database image taken before execution) under GOMAXPROCS 1/2/16 with PRNG delays at the trimming goroutines and all outputs + the batch's net operations compared; every block's wire bytes are delivered to leveldb and pebble follower hierarchies and the scans compared; distinct = block hashes")
	m.Assume("protocol timeline compressed (hnet.DefaultRegime) and TrimDepths compressed to 2-7 blocks: behaviour assumed parametric in these constants", "single live slice prime/region-0/zone-0-0", "amd64 only (math.Log in Qi gas scaling)")
	r := m.Rand("histories")
	nHist, blocks := m.N(2, 40), m.N(45, 120)
	for h := 0; h < nHist; h++ {
		var fol []string
		if h == 0 || m.Thorough() {
			fol = []string{"leveldb", "pebble"}
		}
		history(m, r, h, blocks, 5, fol)
	}
	m.Floor(int64(nHist*blocks), 6)
}

// TestC06RaceShort is the quick tier's race-detector pass: one short history, no followers, so that
// Process / Finalize / the per-denomination trimming goroutines / the prefetcher run under -race on
// every change. It must see blocks in which two or more trimming goroutines delete outputs.
func TestC06RaceShort(t *testing.T) {
	m := mon.New(t, "C06", "chain-race-quick")
	defer m.Finish()
	m.Rule("one hnet history of 36 blocks with the traffic of the chain stage, built with -race: every block is executed by the live node, every twelfth block re-executed on three cold twins under GOMAXPROCS 1/2/16 with PRNG delays at the trimming goroutines; race reports whose stacks touch the property's anchor files are violations; distinct = block hashes")
	m.Assume("protocol timeline and TrimDepths compressed", "single live slice")
	// chains are not reproducible (pending headers carry the wall clock): how many blocks see two or
	// more trimming goroutines at work varies; extend the exploration until one was seen
	concurrent := func() int64 {
		return m.Seen("trimming-goroutines-with-deletions:2") + m.Seen("trimming-goroutines-with-deletions:3+")
	}
	r := m.Rand("race-history")
	// (not conditioned on m.Violations(): listed findings are recorded as violations too and must not stop the exploration)
	for h := 0; h < 6 && (h == 0 || concurrent() < 1); h++ {
		history(m, r, h, m.N(36, 36), 12, nil)
		m.AddExtra("race_histories_run", 1)
	}
	m.Floor(30, 5)
	if concurrent() == 0 {
		m.Inconclusive("no block in which two or more trimming goroutines deleted outputs")
	}
}
