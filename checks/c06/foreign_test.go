//go:build verif

// Stage "foreign": the commitment scan and the cold-twin replays of the chain
// stage over blocks the node's own worker never builds (Qi transactions that
// spend outputs created earlier in the same block, produced by hnet's foreign
// miner), and over head switches that roll such blocks back: after every
// executed block AND after every head switch the UTXO root / set size of the
// head must be the multiset / number of what the database holds.
package c06

import (
	"errors"
	"fmt"
	"math/rand"
	"runtime"
	"sync"
	"testing"
	"time"

	"github.com/dominant-strategies/go-quai/core"

	"verif/internal/hnet"
	"verif/internal/mon"
)

// resyncNonces sets the wallet's nonce view after a head switch: state nonce plus what the pool still holds.
func resyncNonces(a *hnet.Activity) {
	st, err := a.N.ZoneStateAt(a.N.Heads()[2])
	if err != nil {
		return
	}
	for _, k := range a.W.Quai {
		if ia, e := k.Addr.InternalAndQuaiAddress(); e == nil {
			p, _ := a.N.Zone().Core.TxPool().ContentFrom(ia)
			a.W.SyncNonce(k, st.GetNonce(ia)+uint64(len(p)))
		}
	}
}

func TestC06Foreign(t *testing.T) {
	m := mon.New(t, "C06", "foreign")
	defer m.Finish()
	m.Rule("one hnet history per run in which, from successive fork points, a branch containing FOREIGN blocks (worker's pending block plus a chained Qi spend / a chain of three / a spend of an in-block output together with a committed one; commitments from a twin's real state processor, re-sealed, delivered normally) is mined, executed and then abandoned for a competing branch, and the node is switched back and forth: after every executed block and after every head switch the head's UTXO root and stored set size are recomputed from a scan of the 'ut' and 'cl' key spaces and the EVM / ETX-set state reopened; every foreign block is re-executed by StateProcessor.Process on three cold twins (database image from before the block was known) under GOMAXPROCS 1/2/16 with PRNG delays at the trimming goroutines, all outputs and the batch's net operations compared with each other and with the header; distinct = block hashes")
	m.Assume("protocol timeline and TrimDepths compressed", "single live slice", "chains are not reproducible from the seed: the run attempts a fixed list of shapes and adds filler blocks until each was decided")
	r := m.Rand("foreign-history")
	a, err := hnet.NewActivity(r, hnet.Options{})
	if err != nil {
		m.Inconclusive("harness did not start: " + err.Error())
		return
	}
	defer a.N.Stop()
	a.QiPerStep, a.ConvEvery = 2, 3
	scanHead := func(sig string, wit map[string]any) bool {
		bad, scan, err := a.N.CheckHeadCommitment()
		if err != nil {
			m.Violation("scan-error", err.Error(), wit)
			return false
		}
		for _, b := range bad {
			m.Violation(sig+":"+b[:indexOf(b, ':')], b, wit)
		}
		if len(scan.BadOwners) > 0 {
			m.Violation("utxo-owner-out-of-scope", fmt.Sprint(scan.BadOwners), wit)
		}
		m.AddExtra("utxos_scanned", int64(scan.Utxos))
		return true
	}
	nb, err := a.GrowQi(12, 90, 10, 3, func(mm *hnet.Mined) error {
		scanHead("commitment-differs-from-database", map[string]any{"block": mm.Hash.Hex(), "number": mm.Number})
		m.Eval("commitment-scan:"+blockKinds(mm.Blocks[2]), mm.Hash.Hex())
		return nil
	})
	if err != nil {
		m.Extra("prefix_error", err.Error())
		if !errors.Is(err, hnet.ErrNotFunded) {
			m.Violation("own-block-rejected", "prefix: "+err.Error(), nil)
			return
		}
	}
	m.Extra("prefix_blocks", nb)
	ordinary := func(wit map[string]any) bool {
		a.FundQi(int64(4e8))
		mm, err := a.Step(hnet.MineOpts{WantOrder: -1})
		if err == nil {
			err = a.N.Settle()
		}
		if err != nil {
			m.Violation("own-block-rejected", err.Error(), wit)
			return false
		}
		scanHead("commitment-differs-from-database", map[string]any{"case": wit, "block": mm.Hash.Hex(), "number": mm.Number})
		m.Eval("commitment-scan:"+blockKinds(mm.Blocks[2]), mm.Hash.Hex())
		return true
	}
	shapes := []string{hnet.ShapeChain2, hnet.ShapeChain3, hnet.ShapeMixed}
	rounds := m.N(6, 60)
	missing := func() string {
		for _, s := range shapes {
			if m.Seen("commitment-scan:after-rollback-of-foreign-block:"+s) == 0 {
				return s
			}
		}
		return ""
	}
	for round := 0; round < rounds+6 && m.Violations() < 10; round++ {
		shape := shapes[round%len(shapes)]
		if round >= rounds {
			// adaptive: a shape that could not be built so far is attempted again (bounded)
			if shape = missing(); shape == "" {
				break
			}
			m.AddExtra("additional_rounds_for_missing_shapes", 1)
		}
		wit := map[string]any{"round": round, "shape": shape}
		if err := a.N.Settle(); err != nil {
			m.Violation("own-block-not-executable", err.Error(), wit)
			return
		}
		ancestor := a.N.Heads()
		// branch A: a foreign block (after as many filler blocks as it takes), then an ordinary one
		var f *hnet.Foreign
		for attempt := 0; attempt < 7 && f == nil; attempt++ {
			ff, plan, err := a.StepForeignOpts(hnet.ForeignOpts{MineOpts: hnet.MineOpts{WantOrder: -1}, KeepImage: true}, shape, nil)
			if ff != nil && ff.Mined != nil {
				wit["foreign_block"] = map[string]any{"hash": ff.Hash.Hex(), "number": ff.Number, "order": ff.Order, "plan": plan.Describe(), "header_fields_recomputed": ff.Fixed,
					"wire_zone": mon.Short(ff.Wire[2], 1<<15)}
				if err != nil || !ff.Accepted {
					m.Violation("live-node-refuses-block-its-twin-accepted:"+shape, fmt.Sprint(err), wit)
					return
				}
				f = ff
				break
			}
			m.AddExtra("foreign_block_not_built:"+shape, 1)
			m.Extra("last_build_error:"+shape, fmt.Sprint(err))
			if !ordinary(wit) {
				return
			}
			ancestor = a.N.Heads()
		}
		if f == nil {
			continue
		}
		zb := f.Blocks[2]
		// (1) the executed foreign block's commitments == stored state
		scanHead("commitment-differs-from-database", wit)
		m.Eval("commitment-scan:foreign:"+shape, f.Hash.Hex())
		// (2) replays on cold twins under different schedules
		var outs []outcome
		for k, procs := range []int{1, 2, 16} {
			old := runtime.GOMAXPROCS(procs)
			rr := rand.New(rand.NewSource(int64(round*10 + k)))
			var rrMu sync.Mutex
			core.VerifSetHook(func(name string) {
				if name == "finalize.trim" {
					rrMu.Lock()
					d := rr.Intn(300)
					rrMu.Unlock()
					time.Sleep(time.Duration(d) * time.Microsecond)
					runtime.Gosched()
				}
			})
			twin, tdb, err := a.N.ZoneTwin(hnet.CopyMem(f.Image, a.N.Logger))
			if err != nil {
				core.VerifSetHook(nil)
				runtime.GOMAXPROCS(old)
				m.Violation("twin-open-failed", err.Error(), wit)
				break
			}
			o := runProcess(twin, tdb, zb)
			func() { defer func() { recover() }(); twin.Stop() }()
			core.VerifSetHook(nil)
			runtime.GOMAXPROCS(old)
			outs = append(outs, o)
		}
		if len(outs) == 3 {
			if outs[0].Err != "" {
				m.Violation("replay-fails-on-cold-twin", outs[0].Err, wit)
			}
			for k := 1; k < 3; k++ {
				if d := diffOutcome(outs[0], outs[k]); len(d) > 0 {
					m.Violation("nondeterministic-process:"+d[0][:indexOf(d[0], ':')], fmt.Sprintf("GOMAXPROCS 1 vs %d: %v", []int{1, 2, 16}[k], d), wit)
				}
			}
			if o := outs[0]; o.Err == "" {
				if o.MuHash != zb.UTXORoot().Hex() {
					m.Violation("replay-differs-from-header:muhash", fmt.Sprintf("replay %s header %s", o.MuHash, zb.UTXORoot().Hex()), wit)
				}
				if o.EVMRoot != zb.EVMRoot().Hex() {
					m.Violation("replay-differs-from-header:evmRoot", fmt.Sprintf("replay %s header %s", o.EVMRoot, zb.EVMRoot().Hex()), wit)
				}
				if o.EtxRoot != zb.EtxSetRoot().Hex() {
					m.Violation("replay-differs-from-header:etxSetRoot", fmt.Sprintf("replay %s header %s", o.EtxRoot, zb.EtxSetRoot().Hex()), wit)
				}
				if o.UsedGas != zb.GasUsed() {
					m.Violation("replay-differs-from-header:gasUsed", fmt.Sprintf("replay %d header %d", o.UsedGas, zb.GasUsed()), wit)
				}
				if o.UsedState != zb.StateUsed() {
					m.Violation("replay-differs-from-header:stateUsed", fmt.Sprintf("replay %d header %d", o.UsedState, zb.StateUsed()), wit)
				}
			}
			m.Eval("replay-3-schedules:foreign:"+shape, f.Hash.Hex())
			if round < 3 {
				m.Sample(map[string]any{"case": wit, "receipts": len(outs[0].Receipts), "batch_ops": len(outs[0].BatchOps), "muhash": outs[0].MuHash})
			}
		}
		if !ordinary(wit) {
			return
		}
		tipsA := a.N.Heads()
		// branch B from the fork point: the foreign block is rolled back
		a.N.SetTips(ancestor)
		if err := a.N.Settle(); err != nil {
			m.Violation("switch-to-fork-point-failed", err.Error(), wit)
			return
		}
		resyncNonces(a)
		scanHead("commitment-differs-from-database-after-rollback", wit)
		m.Eval("commitment-scan:after-rollback-of-foreign-block:"+shape, f.Hash.Hex())
		if !ordinary(wit) {
			return
		}
		tipsB := a.N.Heads()
		// back to A (B rolled back, the foreign block re-executed), and to B again
		a.N.SetTips(tipsA)
		if err := a.N.Settle(); err != nil {
			m.Violation("switch-back-failed", err.Error(), wit)
			return
		}
		scanHead("commitment-differs-from-database-after-reorg", wit)
		m.Eval("commitment-scan:after-switch-onto-foreign-block:"+shape, f.Hash.Hex())
		a.N.SetTips(tipsB)
		if err := a.N.Settle(); err != nil {
			m.Violation("switch-forth-failed", err.Error(), wit)
			return
		}
		scanHead("commitment-differs-from-database-after-reorg", wit)
		m.Eval("commitment-scan:after-second-rollback-of-foreign-block:"+shape, f.Hash.Hex())
		// continue on B
		resyncNonces(a)
		if !ordinary(wit) {
			return
		}
	}
	var need []string
	for _, s := range shapes {
		need = append(need, "commitment-scan:foreign:"+s, "replay-3-schedules:foreign:"+s, "commitment-scan:after-rollback-of-foreign-block:"+s)
	}
	m.Need(need...)
	m.Floor(int64(6*rounds), 8)
}
