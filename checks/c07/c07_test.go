//go:build verif

// C07 — own blocks validate; any deviation from re-execution is rejected, and
// a rejected block leaves no trace in chain state.
package c07

import (
	"encoding/hex"
	"fmt"
	"sort"
	"strings"
	"testing"

	"github.com/dominant-strategies/go-quai/common"
	"github.com/dominant-strategies/go-quai/core/rawdb"
	"github.com/dominant-strategies/go-quai/core/types"

	"verif/internal/hnet"
	"verif/internal/mon"
)

const (
	blocksPerNet  = 60
	firstMutated  = 10 // zone blocks before the first mutated block (all ledgers active, UTXOs matured)
	mutatedPeriod = 8  // blocks k with (k-firstMutated)%mutatedPeriod in {0,2} are mutated: the second of each pair can carry
	// the first one's re-sealed mutants as uncles
	maxExtraNets  = 10 // replacement nets after an accepted mutant
	acceptedLimit = 2  // a kind accepted this often is not submitted again (its violation is recorded)
)

type run struct {
	m        *mon.M
	accepted map[string]int // mutation kind -> times accepted
	muts     []mutation
	blocks   int
	mutBlks  int
}

func TestC07(t *testing.T) {
	m := mon.New(t, "C07", "mutants")
	defer m.Finish()
	m.Rule("every block the worker assembles (Quai txs, Qi txs, inbound ETXs, all three orders) must append and execute; " +
		"every single-component mutant of a valid sealed zone block (body or declared result changed, other commitments kept consistent, re-sealed) " +
		"must be rejected at append or at execution, the head must stay at its parent, and the database may differ only in entries keyed by the " +
		"rejected hash (candidate store) or the miner's pending-header store; the unmodified block must still be accepted afterwards")
	m.Assume("zone state executes lazily: rejection is observed either as an Append error or as a failing GeneratePendingHeader on the mutant",
		"mutants keep the worker's declared execution results, so a mutated body no longer matches them; swaps of indistinguishable plain transfers at equal price are not generated",
		"the work object header's own tx hash (broadcast-set commitment of work shares) is not an execution result: its acceptance is recorded, not reported",
		"chains are not reproducible from the seed (pending headers are stamped with the wall clock): witnesses carry the block bytes")
	r := &run{m: m, accepted: map[string]int{}, muts: mutations()}
	nets := m.N(2, 60)
	extra := 0
	for i := 0; i < nets; i++ {
		tag := fmt.Sprintf("%d", i)
		for !r.runNet(tag) {
			// the net was abandoned (accepted mutant / own block rejected / crash): a fresh one takes over
			extra++
			if extra > maxExtraNets {
				m.Inconclusive(fmt.Sprintf("gave up after %d abandoned nets", extra))
				i = nets
				break
			}
			tag = fmt.Sprintf("%d-r%d", i, extra)
		}
	}
	m.Extra("blocks", int64(r.blocks))
	m.Extra("mutated_blocks", int64(r.mutBlks))
	m.Extra("nets_abandoned", int64(extra))
	var acc []string
	for k, n := range r.accepted {
		acc = append(acc, fmt.Sprintf("%s=%d", k, n))
	}
	sort.Strings(acc)
	m.Extra("accepted_kinds", acc)
	m.Floor(int64(m.N(1000, 30000)), 50)
	m.Need("own-block:order0:accepted", "own-block:order1:accepted", "own-block:order2:accepted", "original-after-mutants:accepted",
		"own-block-content:quai-tx", "own-block-content:qi-tx", "own-block-content:inbound-etx-coinbase", "own-block-content:inbound-etx-conversion",
		"trace-check:clean")
	if r.blocks < m.N(60, 1800) {
		m.Inconclusive(fmt.Sprintf("only %d own blocks delivered", r.blocks))
	}
}

func isMutated(k int) bool {
	if k < firstMutated {
		return false
	}
	x := (k - firstMutated) % mutatedPeriod
	return x == 0 || x == 2
}

func wireHex(b []byte) string { return hex.EncodeToString(b) }

func (r *run) images(n *hnet.Net) [3]map[string][]byte {
	return [3]map[string][]byte{n.MemImage(0), n.MemImage(1), n.MemImage(2)}
}

// runNet drives one chain. It returns false if the net had to be abandoned.
func (r *run) runNet(tag string) (completed bool) {
	m := r.m
	d, err := newDrv(m, tag)
	if err != nil {
		m.Inconclusive("hnet.New: " + err.Error())
		return true
	}
	defer d.n.Stop()
	defer func() {
		for k, v := range d.included {
			m.AddExtra("included:"+k, int64(v))
		}
		for k, v := range d.refused {
			m.AddExtra("pool-refused:"+k, int64(v))
		}
	}()
	for d.blocks < blocksPerNet {
		// besides the fixed schedule: the block after a prime-order block carries the inbound ETXs the prime chain released
		afterPrime := d.blocks >= firstMutated && d.lastOrder == 0 && d.extraMutated < 4
		mutate := isMutated(d.blocks) || afterPrime
		if mutate && !isMutated(d.blocks) {
			d.extraMutated++
		}
		var ok bool
		crashed := m.Guard("node-panicked-while-driving-chain", func() any { return map[string]any{"net": tag, "block": d.blocks} }, func() {
			d.traffic()
			if mutate {
				ok = r.mutatedStep(d)
			} else {
				want := -1
				if d.blocks >= blocksPerNet/2 {
					// make sure every order occurs in every net
					if d.orders[0] == 0 {
						want = 0
					} else if d.orders[1] == 0 {
						want = 1
					}
				}
				ok = r.ownStep(d, want)
			}
		})
		if crashed || !ok {
			return false
		}
	}
	return true
}

// ownStep: the worker's next block is sealed, delivered and executed.
func (r *run) ownStep(d *drv, want int) bool {
	m, n := r.m, d.n
	mm, err := n.Mine(hnet.MineOpts{WantOrder: want, Fill: true})
	if mm == nil {
		m.Violation("own-block-rejected:build:"+errClass(err), fmt.Sprintf("the node could not assemble/seal a block on its own head: %v", err),
			map[string]any{"net": d.tag, "block_index": d.blocks, "head": n.Heads()[2].Hash().Hex(), "error": err.Error(), "mempool": d.mempoolWitness()})
		return false
	}
	wit := func(stage string, e error) map[string]any {
		w := map[string]any{"net": d.tag, "stage": stage, "error": e.Error(), "order": mm.Order, "block": describe(mm.Blocks[2]),
			"wire_zone": wireHex(mm.Wire[2]), "mempool": d.mempoolWitness()}
		if mm.Order <= 1 {
			w["wire_region"] = wireHex(mm.Wire[1])
		}
		if mm.Order == 0 {
			w["wire_prime"] = wireHex(mm.Wire[0])
		}
		return w
	}
	if err != nil {
		m.Violation("own-block-rejected:append:"+errClass(err), fmt.Sprintf("own sealed block (order %d, number %v) was refused by Append: %v", mm.Order, mm.Number, err), wit("append", err))
		return false
	}
	if err := d.settle(); err != nil {
		m.Violation("own-block-rejected:execute:"+errClass(err), fmt.Sprintf("own appended block (order %d, number %v) failed state execution: %v", mm.Order, mm.Number, err), wit("execute", err))
		return false
	}
	if cur := n.Zone().Core.CurrentHeader().Hash(); cur != mm.Hash {
		e := fmt.Errorf("pending-header pipeline succeeded but the zone head is %x, not the own block %x", cur[:4], mm.Hash[:4])
		m.Violation("own-block-rejected:execute:head-not-advanced", e.Error(), wit("execute", e))
		return false
	}
	r.noteOwn(d, mm.Blocks[2], mm.Order)
	return true
}

func (r *run) noteOwn(d *drv, b *types.WorkObject, order int) {
	m := r.m
	d.noteBlock(b, order)
	r.blocks++
	m.Eval(fmt.Sprintf("own-block:order%d:accepted", order), b.Hash().Hex())
	seen := map[string]bool{}
	for _, tx := range b.Transactions() {
		switch tx.Type() {
		case types.QuaiTxType:
			seen["quai-tx"] = true
			if tx.To() == nil {
				seen["quai-create"] = true
			} else if tx.To().IsInQiLedgerScope() {
				seen["quai-to-qi-request"] = true
			}
		case types.QiTxType:
			seen["qi-tx"] = true
		case types.ExternalTxType:
			switch {
			case types.IsCoinBaseTx(tx):
				seen["inbound-etx-coinbase"] = true
			case types.IsConversionTx(tx):
				seen["inbound-etx-conversion"] = true
			default:
				seen[fmt.Sprintf("inbound-etx-type%d", tx.EtxType())] = true
			}
		}
	}
	if len(b.Uncles()) > 0 {
		seen["uncles"] = true
	}
	if len(b.Transactions()) == 0 {
		seen["empty"] = true
	}
	for k := range seen {
		m.Eval("own-block-content:"+k, "")
	}
}

type outcome int

const (
	outRejected outcome = iota // rejected (violations, if any, recorded); the net goes on
	outAbandon                 // the net cannot be used any further
	outAdopted                 // a free-field variant became the head: the chain continues on it
)

// mutatedStep: a valid sealed zone-order block is withheld, every mutation of it
// is submitted and must be rejected without trace, then the original must pass.
func (r *run) mutatedStep(d *drv) bool {
	m, n := r.m, d.n
	parent := n.Heads()[2]
	if cur := n.Zone().Core.CurrentHeader().Hash(); cur != parent.Hash() {
		m.Inconclusive("zone head is not the harness tip before a mutated step")
		return false
	}
	mm, err := n.Mine(hnet.MineOpts{WantOrder: 2, NoAppend: true, Fill: true})
	if mm == nil || err != nil {
		m.Violation("own-block-rejected:build:"+errClass(err), fmt.Sprintf("the node could not assemble/seal a block on its own head: %v", err),
			map[string]any{"net": d.tag, "head": parent.Hash().Hex(), "error": fmt.Sprint(err), "mempool": d.mempoolWitness()})
		return false
	}
	orig := mm.Blocks[2]
	if orig.ParentHash(common.ZONE_CTX) != parent.Hash() {
		m.Inconclusive("withheld block does not build on the harness tip")
		return false
	}
	r.mutBlks++
	c := &mutCtx{d: d, orig: orig, parent: parent, r: d.r,
		woTxHashTracksBody: orig.WorkObjectHeader().TxHash() == orig.Header().TxHash()}
	pre := r.images(n)
	try := func(kind string, free bool, apply func(b *types.WorkObject) (map[string]any, bool)) outcome {
		b := types.CopyWorkObject(orig)
		params, ok := apply(b)
		if !ok {
			m.Trivial()
			return outRejected
		}
		return r.submitMutant(d, c, kind, free, params, b, &pre, parent.Hash())
	}
	lastMutated := true
	for k := d.blocks + 1; k < blocksPerNet; k++ {
		if isMutated(k) {
			lastMutated = false
		}
	}
	var free []mutation
	for _, mu := range r.muts {
		mu := mu
		if mu.free {
			free = append(free, mu)
			continue
		}
		if r.accepted[mu.kind] >= acceptedLimit {
			m.AddExtra("skipped-known-accepted:"+mu.kind, 1)
			continue
		}
		switch try(mu.kind, false, func(b *types.WorkObject) (map[string]any, bool) { return mu.apply(c, b) }) {
		case outAbandon:
			return false
		case outAdopted:
			// an equivalent valid block became the head: the chain continues on it
			r.noteOwn(d, n.Heads()[2], 2)
			return true
		}
	}
	if m.Thorough() {
		// pairs of mutations
		var usable []mutation
		for _, mu := range r.muts {
			if !mu.free && r.accepted[mu.kind] == 0 && !strings.HasSuffix(mu.kind, "-resigned") {
				usable = append(usable, mu)
			}
		}
		for p := 0; p < 16 && len(usable) >= 2; p++ {
			a, b2 := usable[d.r.Intn(len(usable))], usable[d.r.Intn(len(usable))]
			if a.kind == b2.kind || mutationFamily(a.kind) == mutationFamily(b2.kind) {
				// two mutations of one component can cancel each other (duplicate a transaction and drop it
				// again, a field +1 and -1): the result may be the original block, which must be accepted
				continue
			}
			kind := "pair"
			if try(kind, false, func(b *types.WorkObject) (map[string]any, bool) {
				p1, ok1 := a.apply(c, b)
				if !ok1 {
					return nil, false
				}
				p2, ok2 := b2.apply(c, b)
				if !ok2 {
					return nil, false
				}
				return map[string]any{"first": a.kind, "first_params": p1, "second": b2.kind, "second_params": p2}, true
			}) == outAbandon {
				return false
			}
		}
	}
	if lastMutated {
		// fields that are not execution results: a variant that is accepted is a valid block, the chain continues on it
		for _, mu := range free {
			mu := mu
			switch try(mu.kind, true, func(b *types.WorkObject) (map[string]any, bool) { return mu.apply(c, b) }) {
			case outAbandon:
				return false
			case outAdopted:
				r.noteOwn(d, n.Heads()[2], 2)
				return true
			}
		}
	}
	// the unmodified block must still be accepted and execute
	wit := func(stage string, e error) map[string]any {
		return map[string]any{"net": d.tag, "stage": stage, "error": e.Error(), "block": describe(orig), "wire_zone": wireHex(mm.Wire[2]),
			"parent": parent.Hash().Hex(), "mempool": d.mempoolWitness()}
	}
	if _, err := n.Deliver(2, mm.Blocks); err != nil {
		m.Violation("valid-block-rejected-after-mutants:append:"+errClass(err), fmt.Sprintf("the unmodified block was refused after its mutants had been rejected: %v", err), wit("append", err))
		return false
	}
	tips := n.Heads()
	if b := n.Block(2, mm.Hash); b != nil {
		tips[2] = b
	} else {
		tips[2] = orig
	}
	n.SetTips(tips)
	if err := d.settle(); err != nil {
		m.Violation("valid-block-rejected-after-mutants:execute:"+errClass(err), fmt.Sprintf("the unmodified block failed execution after its mutants had been rejected: %v", err), wit("execute", err))
		return false
	}
	if cur := n.Zone().Core.CurrentHeader().Hash(); cur != mm.Hash {
		e := fmt.Errorf("zone head is %x, not the unmodified block %x", cur[:4], mm.Hash[:4])
		m.Violation("valid-block-rejected-after-mutants:execute:head-not-advanced", e.Error(), wit("execute", e))
		return false
	}
	m.Eval("original-after-mutants:accepted", mm.Hash.Hex())
	r.noteOwn(d, orig, 2)
	return r.siblingPhase(d, c, mm.Hash)
}

// siblingPhase: with the unmodified block executed as the head, mutants of it
// (its siblings) are offered as the new head. They must be rejected and the
// head, the canonical index and the ledgers must stay as they are.
func (r *run) siblingPhase(d *drv, c *mutCtx, head common.Hash) bool {
	m, n := r.m, d.n
	var cand []mutation
	for _, mu := range r.muts {
		if !mu.free && r.accepted[mu.kind] == 0 {
			cand = append(cand, mu)
		}
	}
	pre := r.images(n)
	for k := 0; k < 3 && len(cand) > 0; k++ {
		mu := cand[d.r.Intn(len(cand))]
		b := types.CopyWorkObject(c.orig)
		params, ok := mu.apply(c, b)
		if !ok {
			m.Trivial()
			continue
		}
		switch r.submitMutant(d, c, mu.kind, false, params, b, &pre, head) {
		case outAbandon:
			return false
		case outAdopted:
			return true
		}
		if cur := n.Zone().Core.CurrentHeader().Hash(); cur != head {
			// bring the node back onto the valid block so that the run can go on
			if err := d.settle(); err != nil || n.Zone().Core.CurrentHeader().Hash() != head {
				m.Violation("valid-head-not-restorable-after-rejected-sibling", fmt.Sprintf("after a rejected sibling moved the head, re-selecting the valid block failed: %v", err),
					map[string]any{"net": d.tag, "head": head.Hex(), "mutation": mu.kind})
				return false
			}
			pre = r.images(n)
		}
	}
	return true
}

// submitMutant re-seals and submits one mutant and evaluates the outcome.
// stay is the hash the zone head must keep if the mutant is rejected: the
// mutant's parent when the mutant extends the head, the head itself when the
// mutant is a sibling of the executed head.
func (r *run) submitMutant(d *drv, c *mutCtx, kind string, free bool, params map[string]any, b *types.WorkObject, pre *[3]map[string][]byte, stay common.Hash) outcome {
	m, n := r.m, d.n
	parent := c.parent
	sibling := stay != parent.Hash()
	finish(b)
	if _, err := n.Reseal(b, 2); err != nil {
		m.AddExtra("reseal-failed:"+kind, 1)
		m.Trivial()
		return outRejected
	}
	if b.Hash() == c.orig.Hash() {
		m.Trivial()
		return outRejected
	}
	witness := func(extra map[string]any) map[string]any {
		w := map[string]any{"net": d.tag, "mutation": kind, "params": params, "parent": parent.Hash().Hex(), "parent_number": parent.NumberArray(),
			"original": describe(c.orig), "mutant": describe(b), "submitted_as": "child of the executed head"}
		if sibling {
			w["submitted_as"] = "sibling of the executed head (the unmodified block)"
		}
		for k, v := range extra {
			w[k] = v
		}
		return w
	}
	rt, wire, err := hnet.WireRoundTrip(b, hnet.ZoneLoc)
	if err != nil {
		// the mutant cannot even be decoded from the wire: no node state is touched
		m.Eval("mutant:"+kind+":rejected-at-decode", "")
		m.SampleClass("mutant:"+kind+":rejected-at-decode", map[string]any{"error": err.Error(), "params": params})
		return outRejected
	}
	if rt.Hash() != b.Hash() {
		m.AddExtra("wire-round-trip-changed-hash:"+kind, 1)
	}
	mh := rt.Hash()
	var (
		stage      string
		derr, berr error
	)
	crashed := m.Guard("mutant-crashed-node:"+kind, func() any { return witness(map[string]any{"wire_zone": wireHex(wire)}) }, func() {
		_, derr = n.Deliver(2, [3]*types.WorkObject{nil, nil, rt})
		if derr != nil {
			stage = "append"
			return
		}
		heads := n.Heads()
		if sb := n.Block(2, mh); sb != nil {
			heads[2] = sb
		} else {
			heads[2] = rt
		}
		_, berr = n.BuildPending(heads, false)
		stage = "execute"
	})
	if crashed {
		return outAbandon
	}
	cur := n.Zone().Core.CurrentHeader().Hash()
	headDB := rawdb.ReadHeadBlockHash(n.Zone().DB)
	errs := map[string]any{"append_error": fmt.Sprint(derr), "execute_error": fmt.Sprint(berr), "wire_zone": wireHex(wire), "original_wire_zone": wireHex(c.origWire(d))}
	pfx := ""
	if sibling {
		pfx = "sibling-"
	}
	if stage == "execute" && cur == mh {
		// ACCEPTED: the state processor executed and validated the mutant and it is
		// the zone's head (whether or not a pending block could then be built on it)
		tips := n.Heads()
		if sb := n.Block(2, mh); sb != nil {
			tips[2] = sb
		} else {
			tips[2] = rt
		}
		n.SetTips(tips)
		if free && berr == nil {
			m.Eval("mutant:"+kind+":accepted(not-an-execution-result)", "")
			m.SampleClass("mutant:"+kind+":accepted(not-an-execution-result)", map[string]any{"params": params})
			return outAdopted
		}
		if why := r.equivalent(d, kind, params, mh); why != "" && berr == nil {
			// the changed component has no effect on any result: the variant is a different valid block, not a mutant
			m.Eval("mutant:"+kind+":accepted-equivalent-block("+why+")", "")
			m.SampleClass("mutant:"+kind+":accepted-equivalent-block("+why+")", map[string]any{"params": params})
			return outAdopted
		}
		r.accepted[kind]++
		if berr == nil {
			errs["descendants"] = r.descendants(d)
		} else {
			errs["descendants"] = []string{"not attempted: no pending block could be built on the accepted mutant"}
		}
		sig := "mutant-accepted:" + pfx + kind
		if kind == "pair" {
			sig = fmt.Sprintf("mutant-accepted:%spair:%v+%v", pfx, params["first"], params["second"])
		}
		m.Violation(sig, fmt.Sprintf("a re-sealed copy of a valid block with one component changed (%s %v) was appended, executed and became the zone head (number %v; building the next pending block on it: %v); blocks mined on top of it: %v",
			kind, params, rt.NumberArray(), berr, errs["descendants"]), witness(errs))
		return outAbandon
	}
	if stage == "execute" && berr == nil {
		m.Violation("mutant-needs-triage:"+pfx+"pending-built-on-unexecuted-block:"+kind,
			fmt.Sprintf("GeneratePendingHeader on the mutant returned no error although the zone head is %x (mutant %x, parent %x)", cur[:4], mh[:4], parent.Hash().Bytes()[:4]), witness(errs))
		return outAbandon
	}
	// rejected
	var rejErr error = derr
	if stage == "execute" {
		rejErr = berr
	}
	cls := "mutant:" + pfx + kind + ":rejected-at-" + stage
	m.Eval(cls, mh.Hex())
	m.SampleClass(cls, map[string]any{"error": rejErr.Error(), "params": params})
	m.AddExtra("reject-reason:"+pfx+kind+":"+stage+":"+errClass(rejErr), 1)
	post := r.images(n)
	var traces []traceDiff
	for lvl := 0; lvl < 3; lvl++ {
		for _, df := range classifyDiff(lvl, (*pre)[lvl], post[lvl], mh) {
			switch df.Verdict {
			case "own-entry":
				m.AddExtra(fmt.Sprintf("own-entry:level%d:%s", lvl, df.Class), 1)
			case "pending-cache":
				m.AddExtra(fmt.Sprintf("pending-cache:level%d:%s", lvl, df.Class), 1)
			default:
				traces = append(traces, df)
			}
		}
	}
	*pre = post
	byClass := map[string][]traceDiff{}
	for _, df := range traces {
		k := df.Class
		if df.Verdict == "exec-result" {
			k = "exec-result:" + k
		}
		k = fmt.Sprintf("%s:level%d", k, df.Level)
		byClass[k] = append(byClass[k], df)
	}
	var keys []string
	for k := range byClass {
		keys = append(keys, k)
	}
	sort.Strings(keys)
	if cur != stay || headDB != stay {
		// the head moved although the block was rejected
		where := "somewhere else"
		if cur == parent.Hash() {
			where = "the common parent"
		}
		sample := traces
		if len(sample) > 40 {
			sample = sample[:40]
		}
		sig := "rejected-block-left-trace:head-moved"
		if sibling {
			sig = "rejected-sibling-left-trace:head-rolled-back"
		}
		m.Violation(sig, fmt.Sprintf("mutant %s was rejected at %s (%v) but the zone head moved from %x to %x (%s; db head pointer %x); database classes changed: %s",
			kind, stage, rejErr, stay[:4], cur[:4], where, headDB[:4], strings.Join(keys, ",")),
			witness(map[string]any{"diffs": sample, "all_trace_classes": keys, "head_before": stay.Hex(), "head_after": cur.Hex(), "db_head_after": headDB.Hex(),
				"append_error": fmt.Sprint(derr), "execute_error": fmt.Sprint(berr), "wire_zone": wireHex(wire), "original_wire_zone": wireHex(c.origWire(d))}))
		m.Eval("trace-check:"+pfx+"head-moved", "")
		if !sibling {
			return outAbandon
		}
		return outRejected
	}
	if len(traces) > 0 {
		for _, k := range keys {
			dfs := byClass[k]
			if len(dfs) > 20 {
				dfs = dfs[:20]
			}
			m.Violation("rejected-block-left-trace:"+pfx+k, fmt.Sprintf("mutant %s was rejected at %s (%v) but the database differs in %d %s entries not keyed by the rejected hash, e.g. %s %s",
				kind, stage, rejErr, len(byClass[k]), k, dfs[0].Op, dfs[0].Key), witness(map[string]any{"diffs": dfs, "all_trace_classes": keys,
				"append_error": fmt.Sprint(derr), "execute_error": fmt.Sprint(berr), "wire_zone": wireHex(wire)}))
		}
		m.Eval("trace-check:"+pfx+"trace-found", "")
	} else {
		m.Eval("trace-check:"+pfx+"clean", "")
	}
	return outRejected
}

// equivalent explains why an accepted variant does not differ from what
// re-execution produces ("" if it does differ): a re-signed transaction whose
// value or recipient was changed has the same effect as the original one iff
// the transaction fails (only gas is charged).
func (r *run) equivalent(d *drv, kind string, params map[string]any, mutant common.Hash) string {
	if kind != "alter-tx-value-resigned" && kind != "alter-tx-to-resigned" {
		return ""
	}
	idx, ok := params["index"].(int)
	if !ok {
		return ""
	}
	rcpts := d.n.Zone().Core.GetReceiptsByHash(mutant)
	if idx >= len(rcpts) || rcpts[idx] == nil {
		return ""
	}
	if rcpts[idx].Status != types.ReceiptStatusSuccessful {
		return "altered-tx-fails-either-way"
	}
	return ""
}

// descendants mines a few blocks on top of an accepted mutant (one of each
// order) and reports whether the hierarchy kept building on it.
func (r *run) descendants(d *drv) []string {
	var out []string
	for _, want := range []int{2, 1, 0} {
		var line string
		func() {
			defer func() {
				if p := recover(); p != nil {
					line = fmt.Sprintf("order %d: panic %v", want, p)
				}
			}()
			mm, err := d.n.Mine(hnet.MineOpts{WantOrder: want, Fill: true})
			if err != nil {
				line = fmt.Sprintf("order %d: %v", want, err)
				return
			}
			if err := d.settle(); err != nil {
				line = fmt.Sprintf("order %d number %v: appended, execution failed: %v", want, mm.Number, err)
				return
			}
			line = fmt.Sprintf("order %d number %v: appended and executed", want, mm.Number)
		}()
		out = append(out, line)
		if !strings.HasSuffix(line, "executed") {
			break
		}
	}
	return out
}

// origWire re-encodes the original block for witnesses.
func (c *mutCtx) origWire(d *drv) []byte {
	_, data, err := hnet.WireRoundTrip(c.orig, hnet.ZoneLoc)
	if err != nil {
		return nil
	}
	return data
}

// mutationFamily names the component a mutation kind changes: two mutations of one component can
// compose to the identity (dup-quai-tx + drop-quai-tx, add-extra-valid-tx + drop-quai-tx,
// dup-inbound-etx + drop-first-inbound-etx, add-uncle-* + drop-uncle, total-fees+1 + total-fees-1).
func mutationFamily(kind string) string {
	switch {
	case strings.Contains(kind, "inbound-etx"):
		return "inbound-etx"
	case strings.Contains(kind, "outbound-etx"):
		return "outbound-etx"
	case strings.Contains(kind, "uncle"):
		return "uncle"
	case strings.Contains(kind, "-tx") || strings.HasPrefix(kind, "swap-"):
		return "tx"
	}
	for _, sfx := range []string{"+1", "-1"} {
		kind = strings.TrimSuffix(kind, sfx)
	}
	return kind
}
