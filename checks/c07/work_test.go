//go:build verif

package c07

import (
	"encoding/hex"
	"fmt"
	"math/big"
	"math/rand"
	"regexp"
	"sort"
	"strings"

	"github.com/dominant-strategies/go-quai/common"
	"github.com/dominant-strategies/go-quai/core/types"
	"google.golang.org/protobuf/proto"

	"verif/internal/hnet"
	"verif/internal/mon"
)

// drv drives one hnet chain with a wallet producing real activity.
type drv struct {
	m   *mon.M
	r   *rand.Rand
	n   *hnet.Net
	w   *hnet.Wallet
	tag string

	step         int
	sent         map[common.Hash]*types.Transaction // submitted to the pool, not yet seen in a block
	inFlight     map[string]int                     // Qi outpoint -> step at which it was handed to the pool
	refused      map[string]int
	lastErr      map[string]string
	included     map[string]int // tx kinds seen in delivered blocks
	orders       [3]int
	lastOrder    int // order of the last delivered block
	extraMutated int // mutated blocks beyond the fixed schedule
	blocks       int
}

func newDrv(m *mon.M, tag string) (*drv, error) {
	r := m.Rand("net-" + tag)
	w := hnet.NewWallet(r, 6, 10)
	fund := new(big.Int).Mul(big.NewInt(1e18), big.NewInt(1e7))
	n, err := hnet.New(hnet.Options{GenAllocs: w.GenAllocs(fund), QuaiCoinbase: w.Quai[0].Addr, QiCoinbase: w.Qi[0].Addr})
	if err != nil {
		return nil, err
	}
	return &drv{m: m, r: r, n: n, w: w, tag: tag, sent: map[common.Hash]*types.Transaction{}, inFlight: map[string]int{},
		refused: map[string]int{}, lastErr: map[string]string{}, included: map[string]int{}}, nil
}

func txBytes(tx *types.Transaction) string {
	p, err := tx.ProtoEncode()
	if err != nil {
		return "encode-error:" + err.Error()
	}
	b, err := proto.Marshal(p)
	if err != nil {
		return "marshal-error:" + err.Error()
	}
	return hex.EncodeToString(b)
}

// mempoolWitness lists the wire bytes of every transaction handed to the pool
// that has not been seen in a delivered block yet.
func (d *drv) mempoolWitness() []string {
	var out []string
	for _, tx := range d.sent {
		out = append(out, txBytes(tx))
	}
	sort.Strings(out)
	return out
}

func (d *drv) submit(kind string, tx *types.Transaction) bool {
	if err := d.n.Zone().Core.TxPool().AddLocal(tx); err != nil {
		d.refused[kind]++
		d.lastErr[kind] = err.Error()
		return false
	}
	d.sent[tx.Hash()] = tx
	return true
}

func opKey(u hnet.Utxo) string { return fmt.Sprintf("%x:%d", u.Hash[:], u.Index) }

// price returns a gas price of 2..6 x base fee plus a small per-transaction
// jitter, so that transactions of one block carry different prices.
func (d *drv) price(base *big.Int) *big.Int {
	p := new(big.Int).Mul(base, big.NewInt(int64(2+d.r.Intn(5))))
	p.Add(p, big.NewInt(int64(d.r.Intn(1000))))
	if p.Sign() == 0 {
		p = big.NewInt(1e15)
	}
	return p
}

// syncNonces sets the wallet's nonce view to the pool's pending nonce (state
// nonce of the pool's head plus the executable transactions it holds).
func (d *drv) syncNonces() {
	pool := d.n.Zone().Core.TxPool()
	pool.VerifQuiesce()
	for _, k := range d.w.Quai {
		ia, e := k.Addr.InternalAndQuaiAddress()
		if e != nil {
			continue
		}
		d.w.SyncNonce(k, pool.Nonce(ia))
	}
}

// settle runs the pending-header pipeline (with fill) on the current heads: the
// zone executes its head block and builds the next pending block from the pool.
func (d *drv) settle() error {
	_, err := d.n.BuildPending(d.n.Heads(), true)
	return err
}

// traffic submits this step's transactions to the zone's pool.
func (d *drv) traffic() {
	d.step++
	n, w, r := d.n, d.w, d.r
	head := n.Heads()[2]
	zoneNum := head.NumberU64(2)
	if zoneNum < 2 {
		return
	}
	base := head.BaseFee()
	d.syncNonces()
	// Quai transactions: several accounts, several nonces, different prices
	nAcc := 2 + r.Intn(len(w.Quai)-2)
	perm := r.Perm(len(w.Quai) - 1)
	samePrice := d.price(base)
	for a := 0; a < nAcc; a++ {
		from := w.Quai[1+perm[a]]
		nTx := 1 + r.Intn(3)
		for i := 0; i < nTx; i++ {
			gp := d.price(base)
			if r.Intn(3) == 0 {
				gp = samePrice // equal prices across senders occur too
			}
			var (
				to   *common.Address
				val  = big.NewInt(int64(1 + r.Intn(1_000_000)))
				gas  = uint64(21000)
				data []byte
				kind = "quai-transfer"
			)
			switch x := r.Intn(10); {
			case x < 5:
				t := w.Quai[r.Intn(len(w.Quai))].Addr
				to = &t
			case x < 7:
				t := w.Quai[r.Intn(len(w.Quai))].Addr
				to = &t
				data = make([]byte, 1+r.Intn(40))
				r.Read(data)
				gas = 21000 + 16*uint64(len(data)) + 5000
				kind = "quai-transfer-data"
			case x < 8:
				// contract creation of a tiny contract
				codes := [][]byte{{0x00}, {0x60, 0x00, 0x60, 0x00, 0xf3}, {0x60, 0x01, 0x60, 0x00, 0x55, 0x00}}
				data = codes[r.Intn(len(codes))]
				val = big.NewInt(0)
				gas = 800000
				kind = "quai-create"
			default:
				// Quai -> Qi conversion
				t := w.Qi[1+r.Intn(len(w.Qi)-1)].Addr
				to = &t
				val = new(big.Int).Mul(big.NewInt(1e18), big.NewInt(int64(20+r.Intn(300))))
				gas = 200000
				kind = "quai-to-qi"
			}
			tx, err := w.QuaiTx(from, w.NextNonce(from), to, val, gas, gp, data, nil)
			if err != nil {
				d.refused["build-"+kind]++
				continue
			}
			d.submit(kind, tx)
		}
	}
	// Qi spends of matured outputs owned by the wallet
	var usable []hnet.Utxo
	for _, u := range w.OwnedUTXOs(n) {
		if u.Lock != nil && u.Lock.Sign() > 0 && u.Lock.Uint64() > zoneNum+1 {
			continue
		}
		if s, ok := d.inFlight[opKey(u)]; ok && d.step-s < 12 {
			continue
		}
		if u.Denom >= 4 {
			usable = append(usable, u)
		}
	}
	r.Shuffle(len(usable), func(i, j int) { usable[i], usable[j] = usable[j], usable[i] })
	for i := 0; i < 3 && len(usable) > 0; i++ {
		nIn := 1
		if len(usable) >= 2 && r.Intn(3) == 0 {
			nIn = 2
		}
		ins := usable[:nIn]
		usable = usable[nIn:]
		tx, err := d.qiSpend(ins)
		if err != nil {
			d.refused["qi-build"]++
			d.lastErr["qi-build"] = err.Error()
			continue
		}
		if d.submit("qi-transfer", tx) {
			for _, u := range ins {
				d.inFlight[opKey(u)] = d.step
			}
		}
	}
	n.Zone().Core.TxPool().VerifQuiesce()
}

// qiSpend spends ins into 1-2 outputs of lower denominations owned by other
// wallet keys (inputs >= outputs, the difference is the fee).
func (d *drv) qiSpend(ins []hnet.Utxo) (*types.Transaction, error) {
	w, r := d.w, d.r
	used := map[string]bool{}
	for _, u := range ins {
		used[string(u.Addr)] = true
	}
	pick := func() []byte {
		for try := 0; try < 50; try++ {
			k := w.Qi[r.Intn(len(w.Qi))]
			if !used[string(k.Addr.Bytes())] {
				used[string(k.Addr.Bytes())] = true
				return k.Addr.Bytes()
			}
		}
		return nil
	}
	minD := ins[0].Denom
	for _, u := range ins {
		if u.Denom < minD {
			minD = u.Denom
		}
	}
	var outs []hnet.QiOut
	for i, nOut := 0, 1+r.Intn(2); i < nOut; i++ {
		ad := pick()
		if ad == nil {
			break
		}
		dn := minD - 1
		if i > 0 && dn > 0 {
			dn--
		}
		outs = append(outs, hnet.QiOut{Denom: dn, Addr: ad})
	}
	if len(outs) == 0 {
		return nil, fmt.Errorf("no outputs")
	}
	return w.QiTx(ins, outs, nil)
}

// noteBlock records what a delivered zone block contained.
func (d *drv) noteBlock(b *types.WorkObject, order int) {
	d.blocks++
	d.lastOrder = order
	if order >= 0 && order < 3 {
		d.orders[order]++
	}
	for _, tx := range b.Transactions() {
		delete(d.sent, tx.Hash())
		switch tx.Type() {
		case types.QuaiTxType:
			switch {
			case tx.To() == nil:
				d.included["quai-create"]++
			case tx.To().IsInQiLedgerScope():
				d.included["quai-to-qi"]++
			case len(tx.Data()) > 0:
				d.included["quai-transfer-data"]++
			default:
				d.included["quai-transfer"]++
			}
		case types.QiTxType:
			d.included["qi-tx"]++
		case types.ExternalTxType:
			d.included[fmt.Sprintf("inbound-etx-type%d", tx.EtxType())]++
		}
	}
	if len(b.Uncles()) > 0 {
		d.included["uncles"] += len(b.Uncles())
	}
	d.included["outbound-etx"] += len(b.OutboundEtxs())
}

var (
	reHex = regexp.MustCompile(`0x[0-9a-fA-F]+|\b[0-9a-fA-F]{8,}\b`)
	reNum = regexp.MustCompile(`\b\d+\b`)
)

// errClass turns an error message into a stable class (no hashes, no numbers).
func errClass(err error) string {
	if err == nil {
		return "nil"
	}
	s := err.Error()
	s = reHex.ReplaceAllString(s, "#")
	s = reNum.ReplaceAllString(s, "#")
	s = strings.Join(strings.Fields(s), " ")
	if len(s) > 90 {
		s = s[:90]
	}
	return s
}
