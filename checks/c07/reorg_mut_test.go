//go:build verif

package c07

// Stage reorg-mutants: a state-invalid block inside a SIDE BRANCH. The node is
// asked to switch its head to the tip of a competing branch (the reorg path of
// HeaderChain.SetCurrentHeader: roll the old branch back, roll the new branch
// forward, executing every block) in which one block is a single-component
// mutant of a valid block that header verification and Append accept and that
// only execution / state validation can reject.

import (
	"fmt"
	"sort"
	"strings"
	"testing"
	"time"

	"github.com/dominant-strategies/go-quai/common"
	"github.com/dominant-strategies/go-quai/core/rawdb"
	"github.com/dominant-strategies/go-quai/core/types"

	"verif/internal/hnet"
	"verif/internal/mon"
)

const (
	rmWarmup      = 12 // blocks before the first case (all ledgers active, outputs matured)
	rmCasesPerNet = 12
	rmMaxExtra    = 4
)

// kinds of mut_test.go that are not used here: refused by Append (never reach the
// roll-forward), accepted by the node (listed findings of the mutants stage) or
// not an execution result.
var rmExcluded = map[string]string{
	"add-uncle-ancestor":      "refused by Append",
	"wrong-manifest-hash":     "refused by Append",
	"wrong-outbound-etx-hash": "refused by Append",
	"wrong-tx-hash":           "refused by Append",
	"wrong-uncle-hash":        "refused by Append",
	"add-uncle-without-work":  "accepted (listed finding of the mutants stage)",
	"wrong-etx-rollup-hash":   "accepted (listed finding of the mutants stage)",
	"wo-header-tx-hash":       "not an execution result",
}

type rmRun struct {
	m      *mon.M
	queue  []mutation // rotating: the next case takes the first applicable kind
	qpos   int
	benign int // nets given up because an equivalent valid variant became the head (not a violation)
	cases  int // cases in which the head switch was requested with a stored mutant
	kinds  map[string]bool
	prefix int // cases in which the roll-forward executed >= 1 valid block before the mutant
}

// tm accumulates wall time per phase (reported in the evidence extras; never read by an oracle).
func (r *rmRun) tm(phase string) func() {
	t0 := time.Now()
	return func() { r.m.AddExtra("ms:"+phase, time.Since(t0).Milliseconds()) }
}

type rmNet struct {
	r     *rmRun
	d     *drv      // builder: assembles every valid block (main chain and side branches); never sees a mutant
	y     *hnet.Net // subject: follows the main chain, is handed the side branch with the mutant
	valid map[common.Hash]*hnet.Mined
	maxH  uint64
}

func TestC07ReorgMutants(t *testing.T) {
	m := mon.New(t, "C07", "reorg-mutants")
	defer m.Finish()
	m.Rule("two nodes: a builder assembles a history with traffic (Quai txs, Qi txs, inbound ETXs) and a subject follows it; at sampled points the builder " +
		"makes, from an ancestor (depth 1-5) of the head, a valid side branch of 1-4 zone blocks; ONE block of it is replaced by a single-component mutant " +
		"(kinds of the mutants stage that Append stores and only execution rejects, re-sealed), its successors are re-parented onto the mutant and re-sealed; the " +
		"subject stores the branch and is asked to make its tip the head (GeneratePendingHeader -> SetCurrentHeader reorg path). Required: the head is not the " +
		"mutant or a descendant; the head is the old head or the last valid block before the mutant; the canonical number->hash index names exactly the chain of " +
		"the reported head and nothing above it; head pointers name the reported, executed head; the Qi ledger matches the head's commitments; canonical index, head " +
		"pointers, unspent outputs and lockup records are byte-identical to the builder (which never saw the mutant) brought to the same head; the chain continues " +
		"(next block on the reported head, or switching back to the old head) and a fresh follower fed only the final canonical chain agrees byte for byte")
	m.Assume("zone state executes lazily: Append stores the side branch, execution happens in the roll-forward loop of the head switch",
		"the head left at the fork point (mutant first in the branch) is the listed finding rejected-sibling-left-trace:head-rolled-back; a head left at the last valid block before the mutant is allowed (the switch stops before the mutant)",
		"body/header/termini/pending-ETX store entries keyed by the rejected hash are not chain state",
		"branches are zone-order blocks only, so the dominant chains' heads are common to both branches",
		"chains are not reproducible from the seed (wall-clock timestamps): witnesses carry the block bytes")
	r := &rmRun{m: m, kinds: map[string]bool{}}
	for _, mu := range mutations() {
		if _, skip := rmExcluded[mu.kind]; !skip && !mu.free {
			r.queue = append(r.queue, mu)
		}
	}
	rr := m.Rand("kind-order")
	rr.Shuffle(len(r.queue), func(i, j int) { r.queue[i], r.queue[j] = r.queue[j], r.queue[i] })
	nets := m.N(8, 300)
	extra := 0
	for i := 0; i < nets; i++ {
		tag := fmt.Sprintf("rm%d", i)
		for !r.runNet(tag) {
			extra++
			allowed := rmMaxExtra + r.benign
			if allowed > rmMaxExtra+8 {
				allowed = rmMaxExtra + 8
			}
			if extra > allowed {
				m.Inconclusive(fmt.Sprintf("gave up after %d abandoned nets", extra))
				i = nets
				break
			}
			tag = fmt.Sprintf("rm%d-r%d", i, extra)
		}
	}
	m.Extra("cases_switch_requested", int64(r.cases))
	m.Extra("cases_rollforward_executed_valid_prefix", int64(r.prefix))
	m.Extra("nets_abandoned", int64(extra))
	want := nets * rmCasesPerNet
	m.Floor(int64(want), 50)
	m.Need("position:first", "position:middle", "position:last", "depth:1", "depth:2-3", "depth:4-5",
		"rollforward:executed-valid-prefix-then-hit-mutant", "children-on-mutant:stored", "audit:clean", "twin:identical",
		"continue:next-block-on-reported-head", "continue:switch-back-to-old-head", "fresh-follower:agrees")
	if r.cases < want*2/3 {
		m.Inconclusive(fmt.Sprintf("only %d of %d cases reached the head switch with a stored mutant", r.cases, want))
	}
	needKinds := len(r.queue) * 3 / 4
	if want/3 < needKinds {
		needKinds = want / 3
	}
	if len(r.kinds) < needKinds {
		m.Inconclusive(fmt.Sprintf("only %d of %d mutation kinds reached the head switch (floor %d)", len(r.kinds), len(r.queue), needKinds))
	}
	m.Extra("mutation_kinds_switched", int64(len(r.kinds)))
	if r.prefix < want/6 {
		m.Inconclusive(fmt.Sprintf("only %d cases in which the roll-forward executed a valid block before the mutant", r.prefix))
	}
}

func (r *rmRun) runNet(tag string) (completed bool) {
	m := r.m
	t0 := r.tm("net-start")
	d, err := newDrv(m, tag)
	if err != nil {
		m.Inconclusive("hnet.New: " + err.Error())
		return true
	}
	defer d.n.Stop()
	o := d.n.Opts
	y, err := hnet.New(hnet.Options{GenAllocs: o.GenAllocs, QuaiCoinbase: o.QuaiCoinbase, QiCoinbase: o.QiCoinbase})
	if err != nil {
		m.Inconclusive("hnet.New (subject): " + err.Error())
		return true
	}
	defer y.Stop()
	t0()
	rn := &rmNet{r: r, d: d, y: y, valid: map[common.Hash]*hnet.Mined{}}
	ok := true
	crashed := m.Guard("node-panicked-while-driving-chain:reorg-mutants", func() any { return map[string]any{"net": tag, "block": d.blocks} }, func() {
		for d.blocks < rmWarmup && ok {
			_, ok = rn.step(-1)
		}
		for c := 0; c < rmCasesPerNet && ok; c++ {
			ok = rn.runCase(c)
			// 1-4 blocks of natural order between cases; stop early at a prime-order block: the next fork
			// point then releases ETXs that the first blocks of both branches execute (grinding for a
			// prime-order block right after another one is too expensive to do on purpose)
			for i, k := 0, 1+d.r.Intn(4); i < k && ok; i++ {
				_, ok = rn.step(-1)
				if d.lastOrder == 0 {
					break
				}
			}
		}
		if ok {
			ok = rn.freshFollower()
		}
	})
	for k, v := range d.included {
		m.AddExtra("included:"+k, int64(v))
	}
	return ok && !crashed
}

// step: the builder assembles, seals, appends and executes its next block on its
// tips; the subject follows it.
func (rn *rmNet) step(want int) (*hnet.Mined, bool) {
	m, d, x, y := rn.r.m, rn.d, rn.d.n, rn.y
	defer rn.r.tm(fmt.Sprintf("step-want%d", want))()
	t1 := rn.r.tm("step-traffic")
	d.traffic()
	t1()
	t2 := rn.r.tm("step-mine")
	mm, err := x.Mine(hnet.MineOpts{WantOrder: want, Fill: true})
	t2()
	if mm == nil || err != nil {
		w := map[string]any{"net": d.tag, "block_index": d.blocks, "head": x.Heads()[2].Hash().Hex(), "error": fmt.Sprint(err), "mempool": d.mempoolWitness()}
		stage := "build"
		if mm != nil {
			stage = "append"
			w["wire_zone"] = wireHex(mm.Wire[2])
		}
		m.Violation("own-block-rejected:"+stage+":"+errClass(err), fmt.Sprintf("the builder's own block failed at %s: %v", stage, err), w)
		return nil, false
	}
	wit := func(e error) map[string]any {
		return map[string]any{"net": d.tag, "error": e.Error(), "order": mm.Order, "block": describe(mm.Blocks[2]), "wire_zone": wireHex(mm.Wire[2]), "mempool": d.mempoolWitness()}
	}
	if err := d.settle(); err != nil {
		m.Violation("own-block-rejected:execute:"+errClass(err), fmt.Sprintf("own appended block (order %d, number %v) failed state execution: %v", mm.Order, mm.Number, err), wit(err))
		return nil, false
	}
	if cur := x.Zone().Core.CurrentHeader().Hash(); cur != mm.Hash {
		e := fmt.Errorf("pending-header pipeline succeeded but the zone head is %x, not the own block %x", cur[:4], mm.Hash[:4])
		m.Violation("own-block-rejected:execute:head-not-advanced", e.Error(), wit(e))
		return nil, false
	}
	d.noteBlock(mm.Blocks[2], mm.Order)
	rn.valid[mm.Hash] = mm
	if h := mm.Number[2]; h > rn.maxH {
		rn.maxH = h
	}
	if err := y.Follow(mm); err != nil {
		m.Violation("follower-rejected-own-block:append:"+errClass(err), fmt.Sprintf("the subject refused the builder's block (order %d, number %v): %v", mm.Order, mm.Number, err), wit(err))
		return nil, false
	}
	if err := y.Settle(); err != nil {
		m.Violation("follower-rejected-own-block:execute:"+errClass(err), fmt.Sprintf("the subject could not execute the builder's block (order %d, number %v): %v", mm.Order, mm.Number, err), wit(err))
		return nil, false
	}
	if cur := y.Zone().Core.CurrentHeader().Hash(); cur != mm.Hash {
		e := fmt.Errorf("subject head is %x, not the followed block %x", cur[:4], mm.Hash[:4])
		m.Violation("follower-rejected-own-block:execute:head-not-advanced", e.Error(), wit(e))
		return nil, false
	}
	m.Eval(fmt.Sprintf("own-block:order%d:accepted-by-builder-and-follower", mm.Order), mm.Hash.Hex())
	return mm, true
}

func depthBucket(d int) string {
	switch {
	case d <= 1:
		return "1"
	case d <= 3:
		return "2-3"
	}
	return "4-5"
}

// moveBuilder makes the builder's zone head the given valid block (the dominant
// chains' tips are common to the branches of a case).
func (rn *rmNet) moveBuilder(dom [3]*types.WorkObject, h common.Hash) error {
	x := rn.d.n
	b := x.Block(2, h)
	if b == nil {
		return fmt.Errorf("builder does not have block %x", h[:4])
	}
	x.SetTips([3]*types.WorkObject{dom[0], dom[1], b})
	if err := rn.d.settle(); err != nil {
		return err
	}
	if cur := x.Zone().Core.CurrentHeader().Hash(); cur != h {
		return fmt.Errorf("builder head is %x after switching to %x", cur[:4], h[:4])
	}
	x.Zone().Core.TxPool().VerifQuiesce()
	return nil
}

type rmBlock struct {
	Role  string `json:"role"` // valid | mutant | child-of-mutant
	Hash  string `json:"hash"`
	Num   uint64 `json:"number"`
	Wire  string `json:"wire_zone"`
	Store string `json:"append_result"`
	hash  common.Hash
}

// runCase builds one fork with a mutant in the side branch and evaluates the
// subject's state after the requested head switch. false: abandon the net.
func (rn *rmNet) runCase(idx int) bool {
	r, m, d, x, y := rn.r, rn.r.m, rn.d, rn.d.n, rn.y
	rnd := d.r
	defer r.tm("case-total")()
	if d.lastOrder == 0 {
		m.Eval("fork-point:prime-order-block", "")
	}
	fTips, yFTips := x.Heads(), y.Heads()
	fork := fTips[2]
	depth, length := 1+rnd.Intn(5), 1+rnd.Intn(4)
	for i := 0; i < depth; i++ {
		if _, ok := rn.step(2); !ok {
			return false
		}
	}
	aTips, yATips := x.Heads(), y.Heads()
	aTip := aTips[2].Hash()
	base := map[string]any{"net": d.tag, "case": idx, "fork_point": fork.Hash().Hex(), "fork_number": fork.NumberArray(), "old_head": aTip.Hex(), "depth": depth}

	// ---- the builder makes a valid side branch from the fork point, then returns to the old head
	if err := rn.moveBuilder(fTips, fork.Hash()); err != nil {
		m.Violation("valid-reorg-failed:builder-to-fork-point", err.Error(), base)
		return false
	}
	var bv []*hnet.Mined
	for i := 0; i < length; i++ {
		d.traffic()
		mm, err := x.Mine(hnet.MineOpts{WantOrder: 2, Fill: true})
		if mm == nil || err != nil {
			m.Violation("own-block-rejected:side-branch:"+errClass(err), fmt.Sprintf("side branch block %d: %v", i, err), base)
			return false
		}
		if err := d.settle(); err != nil || x.Zone().Core.CurrentHeader().Hash() != mm.Hash {
			base["wire_zone"] = wireHex(mm.Wire[2])
			m.Violation("own-block-rejected:side-branch-execute:"+errClass(err), fmt.Sprintf("side branch block %d did not execute: %v", i, err), base)
			return false
		}
		rn.valid[mm.Hash] = mm
		if h := mm.Number[2]; h > rn.maxH {
			rn.maxH = h
		}
		bv = append(bv, mm)
	}
	if err := rn.moveBuilder(aTips, aTip); err != nil {
		m.Violation("valid-reorg-failed:builder-back-to-old-head", err.Error(), base)
		return false
	}

	// ---- choose (kind, position): the first kind of the rotating queue that applies to some block of the branch
	var (
		mu     mutation
		pos    = -1
		mutant *types.WorkObject
		params map[string]any
		c      *mutCtx
	)
	for t := 0; t < len(r.queue) && pos < 0; t++ {
		cand := r.queue[(r.qpos+t)%len(r.queue)]
		for _, p := range rnd.Perm(length) {
			parent := fork
			if p > 0 {
				parent = bv[p-1].Blocks[2]
			}
			orig := bv[p].Blocks[2]
			cc := &mutCtx{d: d, orig: orig, parent: parent, r: rnd, woTxHashTracksBody: orig.WorkObjectHeader().TxHash() == orig.Header().TxHash()}
			b := types.CopyWorkObject(orig)
			pr, ok := cand.apply(cc, b)
			if !ok {
				continue
			}
			finish(b)
			if _, err := y.Reseal(b, 2); err != nil || b.Hash() == orig.Hash() {
				continue
			}
			mu, pos, mutant, params, c = cand, p, b, pr, cc
			// the chosen kind goes to the end of the queue
			i := (r.qpos + t) % len(r.queue)
			r.queue = append(append(append([]mutation{}, r.queue[:i]...), r.queue[i+1:]...), cand)
			if i < r.qpos {
				r.qpos--
			}
			break
		}
	}
	if pos < 0 {
		m.Trivial()
		m.AddExtra("case-without-applicable-mutation", 1)
		return true
	}
	if r.qpos >= len(r.queue) {
		r.qpos = 0
	}
	kind := mu.kind
	base["mutation"], base["params"], base["mutant_position_in_branch"], base["branch_length_built"] = kind, params, pos, length
	base["original_of_mutant"] = describe(c.orig)

	// ---- the subject receives the branch: valid blocks, the mutant, re-parented successors (stored, not executed)
	var branch []*rmBlock
	deliver := func(role string, b *types.WorkObject) (*types.WorkObject, error) {
		rt, wire, err := hnet.WireRoundTrip(b, hnet.ZoneLoc)
		e := &rmBlock{Role: role, Hash: b.Hash().Hex(), Num: b.NumberU64(2), Wire: wireHex(wire), hash: b.Hash()}
		if err != nil {
			e.Store = "wire decode: " + err.Error()
			branch = append(branch, e)
			return nil, err
		}
		e.Hash, e.hash = rt.Hash().Hex(), rt.Hash()
		_, err = y.Deliver(2, [3]*types.WorkObject{nil, nil, rt})
		e.Store = fmt.Sprint(err)
		branch = append(branch, e)
		if err != nil {
			return nil, err
		}
		if h := rt.NumberU64(2); h > rn.maxH {
			rn.maxH = h
		}
		if sb := y.Block(2, rt.Hash()); sb != nil {
			return sb, nil
		}
		return rt, nil
	}
	base["branch"] = &branch
	for i := 0; i < pos; i++ {
		if _, err := deliver("valid", bv[i].Blocks[2]); err != nil {
			m.Violation("valid-side-block-refused:append:"+errClass(err), fmt.Sprintf("the subject refused valid side-branch block %d: %v", i, err), base)
			return false
		}
	}
	var tip *types.WorkObject
	var derr error
	if m.Guard("mutant-crashed-node:append:"+kind, func() any { return base }, func() { tip, derr = deliver("mutant", mutant) }) {
		return false
	}
	if derr != nil {
		// not a block that only execution rejects: nothing to switch to
		m.Eval("reorg-mutant:"+kind+":rejected-at-append", "")
		m.AddExtra("reject-reason:"+kind+":append:"+errClass(derr), 1)
		return true
	}
	mutHash := tip.Hash()
	rejected := map[common.Hash]string{mutHash: "mutant"}
	children := 0
	for i := pos + 1; i < length; i++ {
		cb := types.CopyWorkObject(bv[i].Blocks[2])
		if err := y.RebaseZoneChild(cb, tip); err != nil {
			m.AddExtra("child-not-built:"+errClass(err), 1)
			break
		}
		if _, err := y.Reseal(cb, 2); err != nil {
			m.AddExtra("child-not-built:reseal", 1)
			break
		}
		var st *types.WorkObject
		var cerr error
		if m.Guard("mutant-crashed-node:append-child:"+kind, func() any { return base }, func() { st, cerr = deliver("child-of-mutant", cb) }) {
			return false
		}
		if cerr != nil {
			m.AddExtra("child-not-storable:"+errClass(cerr), 1)
			break
		}
		tip = st
		rejected[st.Hash()] = "child-of-mutant"
		children++
	}
	stored := pos + 1 + children
	position := "middle"
	switch {
	case stored == 1:
		position = "single"
	case pos == 0:
		position = "first"
	case pos == stored-1:
		position = "last"
	}
	base["position"], base["children_on_mutant"] = position, children
	lastValid := fork.Hash()
	if pos > 0 {
		lastValid = bv[pos-1].Hash
	}
	psBefore := 0
	for i := 0; i < pos; i++ {
		if rawdb.ReadProcessedState(y.Zone().DB, bv[i].Hash) {
			psBefore++
		}
	}
	if cur := y.Zone().Core.CurrentHeader().Hash(); cur != aTip {
		m.Violation("rejected-block-left-trace:head-moved-by-append:reorg-rollforward", fmt.Sprintf("storing the side branch moved the subject's head from %x to %x", aTip[:4], cur[:4]), base)
		return false
	}

	// ---- the head switch is requested the way production does it
	heads := y.Heads()
	heads[2] = tip
	var berr error
	if m.Guard("mutant-crashed-node:reorg-rollforward:"+kind, func() any { return base }, func() { _, berr = y.BuildPending(heads, false) }) {
		return false
	}
	r.cases++
	r.kinds[kind] = true
	base["switch_error"] = fmt.Sprint(berr)
	cur := y.Zone().Core.CurrentHeader().Hash()
	headDB := rawdb.ReadHeadBlockHash(y.Zone().DB)
	base["head_after"], base["db_head_after"] = cur.Hex(), headDB.Hex()
	cls := fmt.Sprintf("reorg-mutant:%s:%s:depth%s", kind, position, depthBucket(depth))
	m.Eval(cls, mutHash.Hex())
	m.SampleClass(cls, map[string]any{"switch_error": fmt.Sprint(berr), "params": params, "depth": depth, "stored_branch": stored, "mutant_at": pos})
	m.Eval("position:"+position, "")
	m.Eval("depth:"+depthBucket(depth), "")
	if children > 0 {
		m.Eval("children-on-mutant:stored", "")
	}
	m.AddExtra("reject-reason:"+kind+":"+errClass(berr), 1)

	if role, bad := rejected[cur]; bad {
		if why := rn.equivalentVariant(kind, params, mutHash); why != "" {
			// the changed component has no effect on any result: a different valid block, not a mutant. The
			// builder does not have it, so this net cannot go on
			m.Eval("reorg-mutant:"+kind+":accepted-equivalent-block("+why+")", "")
			r.benign++
			return false
		}
		m.Violation("mutant-accepted:reorg-rollforward:"+kind, fmt.Sprintf("after the head switch to a side branch containing mutant %s (position %d of %d, fork depth %d) the zone head is the %s %x",
			kind, pos, stored, depth, role, cur[:4]), base)
		return false
	}
	if berr == nil {
		m.Violation("mutant-needs-triage:reorg-rollforward:pending-built-on-unexecuted-block:"+kind,
			fmt.Sprintf("GeneratePendingHeader on the tip of a branch containing a state-invalid block returned no error (head %x)", cur[:4]), base)
		return false
	}
	executedPrefix := 0
	for i := 0; i < pos; i++ {
		if rawdb.ReadProcessedState(y.Zone().DB, bv[i].Hash) {
			executedPrefix++
		}
	}
	if pos > 0 && psBefore == 0 && executedPrefix > 0 {
		r.prefix++
		m.Eval("rollforward:executed-valid-prefix-then-hit-mutant", "")
	}
	switch {
	case cur == aTip:
		m.Eval("outcome:refused-old-head-kept", "")
	case pos > 0 && cur == lastValid:
		m.Eval("outcome:stopped-at-last-valid-block-before-mutant", "")
	case pos == 0 && cur == fork.Hash():
		// the listed finding of the mutants stage (there: depth 1, branch of one block), same signature
		m.Eval("outcome:head-left-at-fork-point", "")
		m.Violation("rejected-sibling-left-trace:head-rolled-back", fmt.Sprintf("mutant %s, first block of a side branch forking %d below the head, was rejected (%v) but the zone head moved from %x back to the fork point %x (db head pointer %x)",
			kind, depth, berr, aTip[:4], cur[:4], headDB[:4]), base)
	default:
		m.Violation("rejected-block-left-trace:head-moved:reorg-rollforward", fmt.Sprintf("mutant %s (position %d of %d, fork depth %d) was rejected (%v) but the zone head is %x: neither the old head %x nor the last valid block before the mutant %x",
			kind, pos, stored, depth, berr, cur[:4], aTip[:4], lastValid[:4]), base)
		return false
	}

	// ---- (i)-(iii): what the subject's chain state says after the refused switch
	clean := rn.audit("reorg-rollforward", kind, rejected, base)
	// ---- twin: the builder never saw the mutant; at the same head the chain-state ranges must be byte-identical
	if err := rn.moveBuilder(aTips, cur); err != nil {
		m.Violation("valid-reorg-failed:builder-to-reported-head", err.Error(), base)
		return false
	}
	if !rn.twin("reorg-rollforward", kind, rejected, base) {
		clean = false
	}
	if clean {
		m.Eval("audit:clean", "")
	}

	// ---- (iv): the chain goes on
	if cur != aTip && rnd.Intn(2) == 0 {
		// back to the old head (it is still the heavier valid chain)
		y.SetTips(yATips)
		err := y.Settle()
		if now := y.Zone().Core.CurrentHeader().Hash(); err != nil || now != aTip {
			m.Violation("valid-head-not-restorable-after-rejected-branch", fmt.Sprintf("re-selecting the old head %x after the refused switch failed: %v (head %x)", aTip[:4], err, now[:4]), base)
			return false
		}
		if err := rn.moveBuilder(aTips, aTip); err != nil {
			m.Violation("valid-reorg-failed:builder-back-to-old-head", err.Error(), base)
			return false
		}
		ok := rn.audit("after-switching-back", kind, rejected, base)
		ok = rn.twin("after-switching-back", kind, rejected, base) && ok
		if !ok {
			return false
		}
		m.Eval("continue:switch-back-to-old-head", "")
	} else {
		if hb := y.Block(2, cur); hb != nil {
			y.SetTips([3]*types.WorkObject{yFTips[0], yFTips[1], hb})
		}
		if _, ok := rn.step(-1); !ok {
			return false
		}
		ok := rn.audit("after-next-block", kind, rejected, base)
		ok = rn.twin("after-next-block", kind, rejected, base) && ok
		if !ok {
			return false
		}
		m.Eval("continue:next-block-on-reported-head", "")
	}
	return clean
}

// equivalentVariant: see run.equivalent of the mutants stage (a re-signed transaction whose value or
// recipient was changed has the same effect as the original iff it fails either way).
func (rn *rmNet) equivalentVariant(kind string, params map[string]any, mutant common.Hash) string {
	if kind != "alter-tx-value-resigned" && kind != "alter-tx-to-resigned" {
		return ""
	}
	idx, ok := params["index"].(int)
	if !ok {
		return ""
	}
	rcpts := rn.y.Zone().Core.GetReceiptsByHash(mutant)
	if idx >= len(rcpts) || rcpts[idx] == nil {
		return ""
	}
	if rcpts[idx].Status != types.ReceiptStatusSuccessful {
		return "altered-tx-fails-either-way"
	}
	return ""
}

// audit checks (i) the canonical index against the reported head's chain, (ii)
// the head pointers, (iii) the Qi ledger against the head's commitments.
func (rn *rmNet) audit(when, kind string, rejected map[common.Hash]string, base map[string]any) bool {
	m, y := rn.r.m, rn.y
	defer rn.r.tm("audit")()
	ok := true
	wit := func(extra map[string]any) map[string]any {
		w := map[string]any{"checked": when}
		for k, v := range base {
			w[k] = v
		}
		for k, v := range extra {
			w[k] = v
		}
		return w
	}
	cur := y.Zone().Core.CurrentHeader()
	bad, _, err := y.AuditCanonical(rn.maxH + 2)
	if err != nil {
		m.Violation("rejected-block-left-trace:head-chain-broken:"+when, err.Error(), wit(nil))
		return false
	}
	seen := map[string]bool{}
	for _, e := range bad {
		sig := ""
		switch role := rejected[e.StoredHash()]; {
		case role == "mutant":
			sig = "rejected-block-left-trace:canonical-hash:" + when + ":" + kind
		case role != "":
			sig = "rejected-block-left-trace:canonical-hash-of-descendant:" + when + ":" + kind
		case e.What == "above-head":
			sig = "rejected-block-left-trace:canonical-entry-above-head:" + when
		case e.What == "missing":
			sig = "rejected-block-left-trace:canonical-entry-missing:" + when
		default:
			sig = "rejected-block-left-trace:canonical-entry-off-head-chain:" + when
		}
		ok = false
		if seen[sig] {
			continue
		}
		seen[sig] = true
		m.Violation(sig, fmt.Sprintf("%s: the canonical number->hash index at height %d names %s (%s) while the reported head %x is at height %d and its chain has %s there",
			when, e.Height, orNone(e.Stored), orNone(rejected[e.StoredHash()]), cur.Hash().Bytes()[:4], cur.NumberU64(2), orNone(e.Want)), wit(map[string]any{"canonical_index_findings": bad}))
	}
	// (ii)
	headDB := rawdb.ReadHeadBlockHash(y.Zone().DB)
	if headDB != cur.Hash() {
		ok = false
		sub := "differs-from-current-header"
		if rejected[headDB] != "" {
			sub = "names-rejected-block"
		}
		m.Violation("rejected-block-left-trace:head-pointer:"+when+":"+sub, fmt.Sprintf("%s: stored head block hash %x (%s), CurrentHeader %x", when, headDB[:4], orNone(rejected[headDB]), cur.Hash().Bytes()[:4]),
			wit(map[string]any{"db_head": headDB.Hex(), "current_header": cur.Hash().Hex()}))
	}
	if !y.Zone().Core.Slice().HeaderChain().IsGenesisHash(cur.Hash()) && !rawdb.ReadProcessedState(y.Zone().DB, cur.Hash()) {
		ok = false
		m.Violation("rejected-block-left-trace:head-pointer:"+when+":head-not-executed", fmt.Sprintf("%s: the reported head %x has no processed-state record", when, cur.Hash().Bytes()[:4]), wit(nil))
	}
	for h, role := range rejected {
		if rawdb.ReadProcessedState(y.Zone().DB, h) {
			ok = false
			m.Violation("rejected-block-left-trace:exec-result:processed-state:"+when, fmt.Sprintf("%s: the rejected %s %x is marked as processed", when, role, h[:4]), wit(nil))
		}
	}
	// (iii)
	disc, scan, err := y.CheckHeadCommitment()
	if err != nil {
		ok = false
		m.Violation("rejected-block-left-trace:ledger-commitment:"+when+":unreadable", err.Error(), wit(nil))
	}
	for _, dsc := range disc {
		ok = false
		m.Violation("rejected-block-left-trace:ledger-commitment:"+when+":"+dsc[:strings.IndexByte(dsc, ':')], fmt.Sprintf("%s: the Qi ledger in the database does not match the reported head %x: %s", when, cur.Hash().Bytes()[:4], dsc),
			wit(map[string]any{"discrepancies": disc, "scan": scan}))
	}
	return ok
}

func orNone(s string) string {
	if s == "" {
		return "none"
	}
	return s
}

// twin compares the subject's chain-state key ranges with the builder's; both
// must be at the same head.
func (rn *rmNet) twin(when, kind string, rejected map[common.Hash]string, base map[string]any) bool {
	m, x, y := rn.r.m, rn.d.n, rn.y
	defer rn.r.tm("twin")()
	hx, hy := x.Zone().Core.CurrentHeader().Hash(), y.Zone().Core.CurrentHeader().Hash()
	if hx != hy {
		m.Inconclusive(fmt.Sprintf("twin comparison skipped: builder head %x, subject head %x", hx[:4], hy[:4]))
		return true
	}
	a, b := hnet.ChainStateRanges(y.Zone().DB), hnet.ChainStateRanges(x.Zone().DB)
	onlyBuilder, removed, changed := hnet.DiffImage(a, b) // a = subject, b = builder: removed = only the subject has it
	type df struct {
		Class, Op, Key, Subject, Builder string
	}
	byClass := map[string][]df{}
	add := func(op, k string) {
		c := hnet.RangeClass(k)
		byClass[c] = append(byClass[c], df{Class: c, Op: op, Key: short([]byte(k)), Subject: short(a[k]), Builder: short(b[k])})
	}
	for _, k := range removed {
		add("only-subject", k)
	}
	for _, k := range onlyBuilder {
		add("only-builder", k)
	}
	for _, k := range changed {
		add("differs", k)
	}
	m.AddExtra("twin_keys_compared", int64(len(b)))
	if len(byClass) == 0 {
		m.Eval("twin:identical", "")
		return true
	}
	var classes []string
	for c := range byClass {
		classes = append(classes, c)
	}
	sort.Strings(classes)
	for _, c := range classes {
		dfs := byClass[c]
		n := len(dfs)
		if len(dfs) > 12 {
			dfs = dfs[:12]
		}
		w := map[string]any{"checked": when, "differences": dfs, "all_classes": classes, "head": hy.Hex()}
		for k, v := range base {
			w[k] = v
		}
		m.Violation("rejected-block-left-trace:differs-from-node-that-never-saw-it:"+c+":"+when, fmt.Sprintf("%s: at the same head %x the subject (was handed a side branch with mutant %s) and the builder (never saw it) differ in %d %s entries, e.g. %s key %s",
			when, hy[:4], kind, n, c, dfs[0].Op, dfs[0].Key), w)
	}
	return false
}

// freshFollower: a new node fed only the canonical chain of the final head must
// accept it and hold the same chain-state ranges as the subject.
func (rn *rmNet) freshFollower() bool {
	m, d, x, y := rn.r.m, rn.d, rn.d.n, rn.y
	defer rn.r.tm("fresh-follower")()
	hx, hy := x.Zone().Core.CurrentHeader(), y.Zone().Core.CurrentHeader()
	if hx.Hash() != hy.Hash() {
		m.Inconclusive("fresh follower skipped: builder and subject heads differ at the end of the net")
		return true
	}
	var chain []*hnet.Mined
	hc := y.Zone().Core.Slice().HeaderChain()
	for h := hy; !hc.IsGenesisHash(h.Hash()); {
		mm := rn.valid[h.Hash()]
		if mm == nil {
			m.Violation("rejected-block-left-trace:final-chain-contains-unknown-block", fmt.Sprintf("block %x (height %d) of the subject's final chain was not built by the builder", h.Hash().Bytes()[:4], h.NumberU64(2)), map[string]any{"net": d.tag})
			return false
		}
		chain = append(chain, mm)
		h = hc.GetHeaderByHash(h.ParentHash(common.ZONE_CTX))
		if h == nil {
			m.Inconclusive("fresh follower skipped: parent header missing")
			return true
		}
	}
	o := x.Opts
	f, err := hnet.New(hnet.Options{GenAllocs: o.GenAllocs, QuaiCoinbase: o.QuaiCoinbase, QiCoinbase: o.QiCoinbase})
	if err != nil {
		m.Inconclusive("fresh follower did not start: " + err.Error())
		return true
	}
	defer f.Stop()
	for i := len(chain) - 1; i >= 0; i-- {
		mm := chain[i]
		err := f.Follow(mm)
		if err == nil {
			err = f.Settle()
		}
		if err != nil {
			m.Violation("fresh-follower-rejects-final-chain:"+errClass(err), fmt.Sprintf("block %x (order %d, number %v): %v", mm.Hash[:4], mm.Order, mm.Number, err),
				map[string]any{"net": d.tag, "wire_zone": wireHex(mm.Wire[2]), "block": describe(mm.Blocks[2])})
			return false
		}
	}
	a, b := hnet.ChainStateRanges(y.Zone().DB), hnet.ChainStateRanges(f.Zone().DB)
	onlyF, onlyY, changed := hnet.DiffImage(a, b)
	if len(onlyF)+len(onlyY)+len(changed) > 0 {
		ex := append(append(append([]string{}, onlyY...), onlyF...), changed...)
		cl := map[string]int{}
		for _, k := range ex {
			cl[hnet.RangeClass(k)]++
		}
		var names []string
		for c := range cl {
			names = append(names, c)
		}
		sort.Strings(names)
		m.Violation("rejected-block-left-trace:differs-from-fresh-follower:"+names[0], fmt.Sprintf("at the final head %x the subject and a fresh follower of the canonical chain differ: %v (e.g. key %s)", hy.Hash().Bytes()[:4], cl, short([]byte(ex[0]))),
			map[string]any{"net": d.tag, "only_subject": len(onlyY), "only_follower": len(onlyF), "differing": len(changed), "classes": cl})
		return false
	}
	m.Eval("fresh-follower:agrees", hy.Hash().Hex())
	m.AddExtra("fresh_follower_blocks", int64(len(chain)))
	return true
}
