//go:build verif

package c07

import (
	"bytes"
	"encoding/hex"
	"sort"

	"github.com/dominant-strategies/go-quai/common"

	"verif/internal/hnet"
)

// Key classes of a go-quai database (core/rawdb/schema.go). Order matters:
// longer / more specific prefixes first.
var keyPrefixes = []struct {
	prefix string
	name   string
}{
	{"LastHeader", "head-header-pointer"},
	{"LastWorkObject", "head-block-pointer"},
	{"HeadersHash", "heads-hashes"},
	{"PhHead", "pending-header-head"},
	{"DatabaseVersion", "db-version"},
	{"GenesisHashes", "genesis-hashes"},
	{"SnapshotRoot", "snapshot"},
	{"SnapshotJournal", "snapshot"},
	{"SnapshotGenerator", "snapshot"},
	{"SnapshotRecovery", "snapshot"},
	{"unclean-shutdown", "unclean-shutdown"},
	{"secure-key-", "preimage"},
	{"quai-config-", "chain-config"},
	{"wsh2bh", "workshare-to-block"},
	{"pbKey", "pending-body-keys"},
	{"sutxo", "spent-utxos-of-block"},
	{"tutxo", "trimmed-utxos-of-block"},
	{"cutxo", "created-utxos-of-block"},
	{"putxo", "pruned-utxo-keys"},
	{"auwh", "address-utxos"},
	{"ltb", "last-trimmed-block"},
	{"pru", "pruned"},
	{"ccl", "created-lockups-of-block"},
	{"dcl", "deleted-lockups-of-block"},
	{"dh", "donor-hash"},
	{"ph", "pending-header"},
	{"pb", "pending-body"},
	{"tk", "termini"},
	{"wb", "workobject-body"},
	{"bh", "bad-hashes"},
	{"ie", "inbound-etxs"},
	{"au", "address-utxos"},
	{"al", "address-lockups"},
	{"ub", "utxo-to-height"},
	{"ps", "processed-state"},
	{"ms", "multiset"},
	{"ut", "utxo"},
	{"tc", "token-choice"},
	{"us", "utxo-set-size"},
	{"pe", "pending-etxs"},
	{"pr", "pending-etxs-rollup"},
	{"ma", "manifest"},
	{"il", "interlink"},
	{"bl", "bloom"},
	{"cl", "coinbase-lockup"},
	{"sa", "supply-analytics"},
	{"ld", "lockup-deltas"},
	{"iB", "bloombits-index"},
}

// keyClass names the class of a database key.
func keyClass(k []byte) string {
	// canonical number index: "h" + num(8) + "n"
	if len(k) == 10 && k[0] == 'h' && k[9] == 'n' {
		return "canonical-number-to-hash"
	}
	if len(k) == 41 && k[0] == 'h' {
		return "header"
	}
	if len(k) == 42 && k[0] == 'h' && k[41] == 't' {
		return "header-td"
	}
	if len(k) == 33 && k[0] == 'H' {
		return "header-number-of-hash"
	}
	if len(k) == 41 && k[0] == 'r' {
		return "receipts"
	}
	if len(k) == 33 && k[0] == 'l' {
		return "tx-lookup"
	}
	if len(k) == 33 && k[0] == 'c' {
		return "contract-code"
	}
	if len(k) == common.HashLength {
		return "trie-node"
	}
	for _, p := range keyPrefixes {
		if bytes.HasPrefix(k, []byte(p.prefix)) {
			return p.name
		}
	}
	if len(k) > 0 && k[0] == 'B' {
		return "bloombits"
	}
	return "unknown"
}

// execResultClasses: records that exist only for a block whose state was
// executed and committed (written by StateProcessor.Apply's batch).
var execResultClasses = map[string]bool{
	"processed-state": true, "multiset": true, "utxo-set-size": true, "receipts": true, "spent-utxos-of-block": true,
	"trimmed-utxos-of-block": true, "created-utxos-of-block": true, "created-lockups-of-block": true, "deleted-lockups-of-block": true,
	"bloom": true, "supply-analytics": true, "lockup-deltas": true,
}

// pendingClasses: the miner's pending header / pending body store. It is not
// chain state (it is rebuilt on every head change and by a 1 s ticker).
var pendingClasses = map[string]bool{"pending-header": true, "pending-body": true, "pending-body-keys": true, "pending-header-head": true}

type traceDiff struct {
	Level   int    `json:"level"`
	Op      string `json:"op"` // added / removed / changed
	Class   string `json:"class"`
	Key     string `json:"key"`
	Old     string `json:"old,omitempty"`
	New     string `json:"new,omitempty"`
	Verdict string `json:"verdict"`
}

func short(b []byte) string {
	if len(b) > 48 {
		return hex.EncodeToString(b[:48]) + "…"
	}
	return hex.EncodeToString(b)
}

// classifyDiff compares two images of one level's database taken around the
// submission of a rejected block and classifies every difference:
//
//	own-entry        keyed by the rejected block's hash, not an execution result (candidate header/body store, termini, manifest, pending ETXs …)
//	pending-cache    the miner's pending header/body store
//	exec-result      keyed by the rejected hash but only written when a block's state is committed
//	trace            anything else: chain state changed although the block was rejected
func classifyDiff(level int, before, after map[string][]byte, rejected common.Hash) []traceDiff {
	added, removed, changed := hnet.DiffImage(before, after)
	var out []traceDiff
	add := func(op, k string) {
		kb := []byte(k)
		cl := keyClass(kb)
		d := traceDiff{Level: level, Op: op, Class: cl, Key: short(kb)}
		if v, ok := before[k]; ok {
			d.Old = short(v)
		}
		if v, ok := after[k]; ok {
			d.New = short(v)
		}
		switch {
		case pendingClasses[cl]:
			d.Verdict = "pending-cache"
		case bytes.Contains(kb, rejected.Bytes()):
			if execResultClasses[cl] {
				d.Verdict = "exec-result"
			} else {
				d.Verdict = "own-entry"
			}
		default:
			d.Verdict = "trace"
		}
		out = append(out, d)
	}
	for _, k := range added {
		add("added", k)
	}
	for _, k := range removed {
		add("removed", k)
	}
	for _, k := range changed {
		add("changed", k)
	}
	sort.Slice(out, func(i, j int) bool {
		if out[i].Class != out[j].Class {
			return out[i].Class < out[j].Class
		}
		return out[i].Key < out[j].Key
	})
	return out
}
