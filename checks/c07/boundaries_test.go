//go:build verif

// C07, stage `boundaries` — worker/validator agreement ACROSS every
// height-dependent rule boundary.
//
// The protocol timeline of go-quai is a set of package-level variables in
// /repo/params (TimeToStartTx, ControllerKickInBlock, *ForkBlock, ...). The
// worker (core/worker.go) and the validating side (core/state_processor.go,
// core/block_validator.go, core/headerchain*.go, consensus/misc) each read
// them on their own, against the block's number, the parent's number, the
// prime terminus number or the prime number. The `mutants` stage runs with the
// compressed hnet regime in which all these boundaries sit at heights 2..3,
// where blocks carry no content yet. This stage places ONE boundary at a time
// in the middle of a short history with real content on both sides and
// requires what the first sentence of the property requires: the node accepts
// and executes every block its own worker assembled, and so does a fresh node
// that is only given the blocks.
package c07

import (
	"fmt"
	"math/rand"
	"os"
	"regexp"
	"sort"
	"strings"
	"testing"

	"github.com/dominant-strategies/go-quai/common"
	"github.com/dominant-strategies/go-quai/core/rawdb"
	"github.com/dominant-strategies/go-quai/core/types"
	"github.com/dominant-strategies/go-quai/params"

	"verif/internal/hnet"
	"verif/internal/mon"
)

// ---------------------------------------------------------------- boundary table

type ctxKind int

const (
	zoneHeight   ctxKind = iota // the rule is read against a zone block number
	primeTermNum                // the rule is read against the prime terminus number / the prime number
)

func (k ctxKind) String() string {
	if k == zoneHeight {
		return "zone-height"
	}
	return "prime-terminus-number"
}

// bspec describes one settable height/fork parameter.
type bspec struct {
	name string
	kind ctxKind
	// set moves the boundary to p (zone height or prime number) and returns the restore function.
	set func(p uint64) func()
	// pos picks the boundary for net k
	pos func(r *rand.Rand, k int) uint64
	// multiples: the parameter is a period, every multiple of p is a boundary (offset = distance to the nearest one)
	multiples bool
	// net options
	lockupContract bool              // coinbases are paid into lockup records of an owner contract
	lockByte       func(k int) uint8 // coinbase lockup byte
	shares         int               // own work shares ground per block
	minerPref      float64
	trimEvery      int // every trimEvery-th net of the spec runs with compressed TrimDepths (0: never)
	convEvery      int
	extra          []string // extra traffic: "qi-to-quai", "qi-wrap"
	// need: content kinds that must have been observed at every offset in needOffs
	need     []string
	needOffs []int
	// needAt: content kinds needed at specific offsets only
	needAt map[int][]string
	note   string
}

// kawpowRegime puts the KawPow fork at prime number fork and the k-quai reset at reset. Blocks without AuxPow stay
// admissible for the whole history (transition period), the reward divisor is scaled to the harness difficulty and the
// conversion hold interval is 2 prime blocks.
func kawpowRegime(fork, reset uint64) func() {
	ok, or, ot, od, oh := params.KawPowForkBlock, params.KQuaiResetAfterKawPowForkBlock, params.KawPowTransitionPeriod, params.KQuaiDifficultyDivisor, params.KQuaiChangeHoldInterval
	params.KawPowForkBlock, params.KQuaiResetAfterKawPowForkBlock, params.KawPowTransitionPeriod, params.KQuaiDifficultyDivisor, params.KQuaiChangeHoldInterval = fork, reset, 1<<40, 2, 2
	return func() {
		params.KawPowForkBlock, params.KQuaiResetAfterKawPowForkBlock, params.KawPowTransitionPeriod, params.KQuaiDifficultyDivisor, params.KQuaiChangeHoldInterval = ok, or, ot, od, oh
	}
}

func setU64(v *uint64) func(p uint64) func() {
	return func(p uint64) func() {
		old := *v
		*v = p
		return func() { *v = old }
	}
}

func zonePos(r *rand.Rand, k int) uint64  { return uint64(15 + r.Intn(4)) }
func primePos(r *rand.Rand, k int) uint64 { return uint64(5 + r.Intn(2)) }

// latePrimePos: boundaries that need matured Qi outputs (conversions back to Quai, wrapping) on both sides
func latePrimePos(r *rand.Rand, k int) uint64 { return uint64(7 + r.Intn(2)) }

var allOffs = []int{-1, 0, 1, 2}

func boundarySpecs() []*bspec {
	coin := "inbound-etx-coinbase"
	return []*bspec{
		{name: "TimeToStartTx", kind: zoneHeight, set: setU64(&params.TimeToStartTx), pos: zonePos, trimEvery: 3,
			need: []string{coin}, needOffs: allOffs, needAt: map[int][]string{1: {"user-tx"}},
			note: "no gas, no user transactions and count-limited coinbase ETXs up to the boundary; gas-metered ETXs after it (worker: parent number, processor: block number)"},
		{name: "CoinbaseLockupPrecompileKickInHeight", kind: zoneHeight, set: setU64(&params.CoinbaseLockupPrecompileKickInHeight), pos: zonePos,
			lockupContract: true, lockByte: func(k int) uint8 { return uint8(1 + k%3) }, shares: 1, minerPref: 0.3,
			need: []string{coin, coin + "-to-contract"}, needOffs: allOffs, needAt: map[int][]string{0: {"user-tx"}},
			note: "coinbase paid to a contract: reward lost before the height, lockup record created from it on"},
		{name: "BlocksPerMonth(x2)", kind: zoneHeight, pos: func(r *rand.Rand, k int) uint64 { return uint64(14 + 2*r.Intn(3)) },
			set: func(p uint64) func() {
				old := params.BlocksPerMonth
				params.BlocksPerMonth = p / 2
				return func() { params.BlocksPerMonth = old }
			},
			lockByte: func(k int) uint8 { return uint8(1 + k%3) }, minerPref: 0.4, trimEvery: 2,
			need: []string{coin, coin + "-lockbyte>0"}, needOffs: allOffs, needAt: map[int][]string{0: {"user-tx"}},
			note: "2*BlocksPerMonth: header lock byte forced to 0 before it, lockup reward multiple and gas/state limit ramp end at it (also the monthly genesis unlock period)"},
		{name: "BlocksPerYear", kind: zoneHeight, pos: zonePos, multiples: true,
			set: func(p uint64) func() {
				oy, om := params.BlocksPerYear, params.BlocksPerMonth
				params.BlocksPerYear, params.BlocksPerMonth = p, 2 // the lockup reward multiple only applies from 2*BlocksPerMonth on
				return func() { params.BlocksPerYear, params.BlocksPerMonth = oy, om }
			},
			lockupContract: true, lockByte: func(k int) uint8 { return uint8(1 + k%3) }, shares: 1, minerPref: 0.3,
			need: []string{coin, coin + "-lockbyte>0"}, needOffs: allOffs,
			note: "year of the lockup reward multiple (blockNumber / BlocksPerYear) and the exchange-rate update pause (parent <= BlocksPerYear)"},
		{name: "CoinbaseEpochBlocks", kind: zoneHeight, set: setU64(&params.CoinbaseEpochBlocks), pos: zonePos, multiples: true,
			lockupContract: true, lockByte: func(k int) uint8 { return uint8(k % 4) }, shares: 1, minerPref: 0.3,
			need: []string{coin, coin + "-to-contract"}, needOffs: allOffs,
			note: "epoch number of the lockup records (number / CoinbaseEpochBlocks + 1), worker: proposed block, processor: block"},
		{name: "ControllerKickInBlock", kind: primeTermNum, set: setU64(&params.ControllerKickInBlock), pos: primePos, convEvery: 1, trimEvery: 2,
			need: []string{coin}, needOffs: allOffs, needAt: map[int][]string{-1: {"user-tx"}, 0: {"user-tx"}, 1: {"user-tx"}},
			note: "Qi coinbases, uncles with Qi coinbase, conversions and the exchange-rate/miner-difficulty fields start at it (prime terminus number in the zone, prime number in prime)"},
		{name: "MinerDifficultyWindow", kind: primeTermNum, set: setU64(&params.MinerDifficultyWindow), pos: primePos, convEvery: 2,
			need: []string{coin}, needOffs: allOffs,
			note: "prime number > window: conversion-flow / miner-difficulty averages start to subtract the block leaving the window"},
		{name: "ConversionSlipChangeBlock", kind: primeTermNum, set: setU64(&params.ConversionSlipChangeBlock), pos: primePos, convEvery: 1, extra: []string{"qi-to-quai"},
			need: []string{coin}, needOffs: allOffs, needAt: map[int][]string{0: {"user-tx"}},
			note: "argument order of the cubic conversion discount changes for prime number > block (worker.go and slice.go each compute it)"},
		{name: "InclusionDepthChangeBlock", kind: primeTermNum, set: setU64(&params.InclusionDepthChangeBlock), pos: primePos, shares: 2, trimEvery: 2,
			need: []string{coin, "outbound-etx"}, needOffs: allOffs, needAt: map[int][]string{0: {"user-tx"}},
			note: "work share inclusion depth 3 -> 4: which ancestor's coinbases a block emits, which uncles are admissible"},
		{name: "SingularityForkBlock", kind: primeTermNum, set: setU64(&params.SingularityForkBlock), pos: primePos, shares: 3,
			need: []string{coin}, needOffs: allOffs,
			note: "max work share count 16 -> 32 (limits only bind with > 16 shares per block, which this harness does not reach), forfeiture addresses of genesis unlocks"},
		{name: "QiWrappingChangeBlock", kind: primeTermNum, set: setU64(&params.QiWrappingChangeBlock), pos: latePrimePos, convEvery: 1, extra: []string{"qi-wrap"},
			need: []string{coin}, needOffs: allOffs,
			note: "Qi wrapping output no longer creates a local UTXO from it on (worker.processQiTx and ProcessQiTx are separate code)"},
		{name: "ShaEquivalentDifficultyForkBlock", kind: primeTermNum, pos: latePrimePos, convEvery: 1, extra: []string{"qi-to-quai"},
			set: func(p uint64) func() {
				os, oh := params.ShaEquivalentDifficultyForkBlock, params.KQuaiChangeHoldInterval
				params.ShaEquivalentDifficultyForkBlock, params.KQuaiChangeHoldInterval = p, 2
				return func() { params.ShaEquivalentDifficultyForkBlock, params.KQuaiChangeHoldInterval = os, oh }
			},
			need: []string{coin}, needOffs: allOffs, needAt: map[int][]string{-1: {"user-tx"}, 2: {"user-tx"}},
			note: "conversions are refused for KQuaiChangeHoldInterval (set to 2) prime blocks from the fork on: start of the window at offset 0, end at offset +2 (worker skips, processor rejects)"},
		{name: "KawPowForkBlock", kind: primeTermNum, pos: primePos, convEvery: 1, shares: 2,
			set:  func(p uint64) func() { return kawpowRegime(p, p) },
			need: []string{coin}, needOffs: allOffs,
			note: "KawPow fork (with the k-quai reset at the same height, as on mainnet) crossed inside its transition period with AuxPow-less (blake3-sealed) blocks: share reward split, progpow penalty, SHA/Scrypt share fields, reward difficulty, conversion hold window"},
		{name: "KQuaiResetAfterKawPowForkBlock", kind: primeTermNum, pos: primePos, convEvery: 2, shares: 1,
			set:  func(p uint64) func() { return kawpowRegime(2, p) },
			need: []string{coin}, needOffs: allOffs,
			note: "after the KawPow fork (at prime 2): reward log-difficulty divisor and share difficulty lower bounds start at it"},
		{name: "ShaEquivalentDifficultyForkBlock(after KawPow)", kind: primeTermNum, pos: primePos, convEvery: 2, shares: 1,
			set: func(p uint64) func() {
				r1 := kawpowRegime(2, 2)
				r2 := setU64(&params.ShaEquivalentDifficultyForkBlock)(p)
				return func() { r2(); r1() }
			},
			need: []string{coin}, needOffs: allOffs,
			note: "after the KawPow fork (at prime 2): block reward difficulty switches to the SHA-anchored equivalent, conversions held for KQuaiChangeHoldInterval (2)"},
		{name: "ConversionStabilityForkBlock(after KawPow)", kind: primeTermNum, pos: primePos, shares: 1,
			set: func(p uint64) func() {
				r1 := kawpowRegime(2, 2)
				r2 := setU64(&params.ConversionStabilityForkBlock)(p)
				return func() { r2(); r1() }
			},
			need: []string{coin}, needOffs: allOffs,
			note: "after the KawPow fork (at prime 2): EMA length and adjustment factor of the SHA/Scrypt share difficulty fields in every zone header"},
		{name: "InclusionDepthChangeBlock(after KawPow)", kind: primeTermNum, pos: primePos, shares: 2,
			set: func(p uint64) func() {
				r1 := kawpowRegime(2, 2)
				r2 := setU64(&params.InclusionDepthChangeBlock)(p)
				r3 := setU64(&params.InclusionDepthUpdatePeriod)(2)
				return func() { r3(); r2(); r1() }
			},
			need: []string{coin, "outbound-etx"}, needOffs: allOffs,
			note: "after the KawPow fork (at prime 2): share target ramp over InclusionDepthUpdatePeriod (2) prime blocks from the change block on, liveness rule of share rewards"},
		{name: "SelfDestructRefundForkBlock", kind: primeTermNum, set: setU64(&params.SelfDestructRefundForkBlock), pos: primePos,
			need: []string{coin}, needOffs: allOffs,
			note: "EVM rule (same interpreter for worker and processor); crossed with ordinary traffic only"},
	}
}

// notCoverable lists the height/fork parameters this stage does not move, with the reason (goes into the evidence).
var notCoverable = []string{
	"MaxCodeSizeForkHeight: const",
	"TokenChoiceSetSize: const 4000 prime blocks; the exchange-rate controller (KQuaiChangeBlock, KQuaiChangeTable, KQuaiChangeHoldInterval in CalculateBetaFromMiningChoiceAndConversions, the KQuaiReset/ShaEquivalent exchange-rate resets) only runs after ControllerKickInBlock+4000 prime blocks",
	"KawPowForkBlock+KawPowTransitionPeriod (end of the transition) and every rule on AuxPow-carrying blocks or SHA/Scrypt shares (share count limits, liveness penalties): need KawPow/AuxPow sealed blocks, which the blake3 harness cannot produce; the fork itself is crossed inside the transition period",
	"QiActivationBlock: var, but at harness difficulty the Qi reward is 1 qit on both sides of it (not observable)",
	"MaxGrindIncreaseForkBlock: var (*big.Int); contract address grinding bound inside the EVM, shared by worker and processor",
	"ConversionLockPeriod, LockupByteToBlockDepth, types.TrimDepths: depths relative to the creating block, not heights; every coinbase/conversion output of every net carries a lock computed by both sides (a disagreement changes the UTXO root), TrimDepths is compressed in part of the nets",
	"WorkSharesInclusionDepth / NewWorkSharesInclusionDepth: var int; the height > depth boundary (first coinbase emission) lies at genesis+3 where no inbound ETX can exist yet",
	"TREE_EXPANSION_*: const, single-slice harness",
}

// ---------------------------------------------------------------- one net

type bnet struct {
	m    *mon.M
	spec *bspec
	k    int
	p    uint64
	r    *rand.Rand
	a    *hnet.Activity
	f    *hnet.Net // the follower
	pat  string
	trim bool

	lastPrime  uint64 // zone height of the last prime-order block
	gap        uint64
	extraUsed  map[string]int
	step       int
	extraSent  map[string]int
	extraErr   map[string]string
	seenOffs   map[int]bool
	blocks     int
	prevOrder  int
	cov        map[string]bool // classes observed (shared by all nets of the stage)
	paramsDump map[string]any
}

func offStr(o int) string {
	switch {
	case o < -3:
		return "<-3"
	case o > 3:
		return ">+3"
	}
	return fmt.Sprintf("%+d", o)
}

// offset of a zone block from the boundary of the net's parameter.
func (d *bnet) offset(b *types.WorkObject) int {
	var x uint64
	if d.spec.kind == zoneHeight {
		x = b.NumberU64(common.ZONE_CTX)
	} else {
		x = b.PrimeTerminusNumber().Uint64()
	}
	p := d.p
	if d.spec.multiples && p > 0 {
		// nearest multiple of p (at least p)
		q := (x + p/2) / p
		if q == 0 {
			q = 1
		}
		p = q * p
	}
	return int(int64(x) - int64(p))
}

func compressedTrim() map[uint8]uint64 { return map[uint8]uint64{0: 2, 1: 3, 2: 4, 3: 5, 4: 6, 5: 7} }

// plan returns the order the next zone block (number next) is ground to.
func (d *bnet) plan(next uint64, headPT uint64) int {
	nonPrime := func() int {
		if d.r.Intn(4) == 0 {
			return 1
		}
		return 2
	}
	if d.spec.kind == zoneHeight {
		var primes []uint64
		switch d.pat {
		case "A": // inbound ETXs in the blocks at offsets -1 and +1
			primes = []uint64{d.p - 2, d.p}
		case "B": // ... at offsets 0 and +2
			primes = []uint64{d.p - 1, d.p + 1}
		default:
			return -1
		}
		if d.spec.multiples {
			// the same pattern around every multiple
			q := (next + d.p/2) / d.p
			if q >= 1 {
				for i := range primes {
					primes[i] = primes[i] - d.p + q*d.p
				}
			}
		}
		for _, h := range primes {
			if next == h {
				return 0
			}
		}
		// the two blocks before a ground prime block and the block between two of them are not prime
		// (consecutive prime blocks cost minutes of grinding: the prime entropy threshold is cumulative)
		lo, hi := primes[0], primes[len(primes)-1]
		if next+2 >= lo && next <= hi {
			return nonPrime()
		}
		return -1
	}
	// prime-terminus parameters: a prime block every 2..4 zone blocks so that the net stays short
	if d.pat == "natural" {
		return -1
	}
	if next-d.lastPrime >= d.gap {
		return 0
	}
	if next < 4 {
		return -1
	}
	return nonPrime()
}

func (d *bnet) done(head *types.WorkObject, lastOrder int) bool {
	if d.blocks >= 60 {
		return true
	}
	if d.spec.kind == zoneHeight {
		end := d.p + 3
		if d.spec.multiples && d.m.Thorough() {
			end = 2*d.p + 3
		}
		return head.NumberU64(common.ZONE_CTX) >= end
	}
	// one non-prime block with terminus p+2 and one more
	return head.PrimeTerminusNumber().Uint64() >= d.p+2 && d.seenOffs[2] && lastOrder != 0
}

func opKeyB(h common.Hash, i uint16) string { return fmt.Sprintf("%x:%d", h[:], i) }

// extraTraffic submits the spec's additional Qi transactions (conversions to Quai, wrapping).
func (d *bnet) extraTraffic() {
	if len(d.spec.extra) == 0 {
		return
	}
	n, w := d.a.N, d.a.W
	zoneNum := n.Heads()[2].NumberU64(common.ZONE_CTX)
	var usable []hnet.Utxo
	for _, u := range w.OwnedUTXOs(n) {
		if u.Lock != nil && u.Lock.Sign() > 0 && u.Lock.Uint64() > zoneNum+1 {
			continue
		}
		if s, ok := d.extraUsed[opKeyB(u.Hash, u.Index)]; ok && d.step-s < 12 {
			continue
		}
		if u.Denom >= 6 {
			usable = append(usable, u)
		}
	}
	d.r.Shuffle(len(usable), func(i, j int) { usable[i], usable[j] = usable[j], usable[i] })
	for _, kind := range d.spec.extra {
		if len(usable) == 0 {
			return
		}
		u := usable[0]
		usable = usable[1:]
		var refund []byte
		for try := 0; try < 50 && refund == nil; try++ {
			if k := w.Qi[d.r.Intn(len(w.Qi))]; string(k.Addr.Bytes()) != string(u.Addr) {
				refund = k.Addr.Bytes()
			}
		}
		to := w.Quai[1+d.r.Intn(len(w.Quai)-1)].Addr.Bytes()
		var data []byte
		switch kind {
		case "qi-to-quai": // slip(2) | refund Qi address(20)
			data = append([]byte{byte(d.r.Intn(0x23)), byte(d.r.Intn(256))}, refund...)
		case "qi-wrap": // owner contract address(20)
			data = append([]byte{}, w.Quai[1+d.r.Intn(len(w.Quai)-1)].Addr.Bytes()...)
		}
		tx, err := w.QiTx([]hnet.Utxo{u}, []hnet.QiOut{{Denom: u.Denom - 1, Addr: to}}, data)
		if err != nil {
			d.extraErr[kind] = "build: " + err.Error()
			continue
		}
		if err := n.Zone().Core.TxPool().AddLocal(tx); err != nil {
			d.extraErr[kind] = err.Error()
			d.m.AddExtra("extra-traffic-refused:"+kind, 1)
			continue
		}
		d.extraUsed[opKeyB(u.Hash, u.Index)] = d.step
		d.extraSent[kind]++
		d.m.AddExtra("extra-traffic-submitted:"+kind, 1)
	}
	n.Zone().Core.TxPool().VerifQuiesce()
}

// kinds lists the content kinds of an own block.
func (d *bnet) kinds(b *types.WorkObject, order int) []string {
	seen := map[string]bool{"block": true, fmt.Sprintf("order%d", order): true}
	for _, tx := range b.Transactions() {
		switch tx.Type() {
		case types.QuaiTxType:
			seen["user-tx"], seen["quai-tx"] = true, true
			if tx.To() == nil {
				seen["quai-create"] = true
			} else if tx.To().IsInQiLedgerScope() {
				seen["quai-to-qi-request"] = true
			}
		case types.QiTxType:
			seen["user-tx"], seen["qi-tx"] = true, true
			switch len(tx.Data()) {
			case params.MaxQiTxDataLength:
				seen["qi-to-quai-request"] = true
			case common.AddressLength:
				seen["qi-wrap-request"] = true
			}
		case types.ExternalTxType:
			switch {
			case types.IsCoinBaseTx(tx):
				c := "inbound-etx-coinbase"
				seen[c] = true
				if tx.To() != nil && tx.To().IsInQiLedgerScope() {
					seen[c+"-qi"] = true
				} else {
					seen[c+"-quai"] = true
				}
				if len(tx.Data()) > 0 && tx.Data()[0] > 0 {
					seen[c+"-lockbyte>0"] = true
				}
				if len(tx.Data()) >= 1+common.AddressLength+common.HashLength {
					seen[c+"-to-contract"] = true
				}
			case types.IsQuaiToQiConversionTx(tx):
				seen["inbound-etx-conversion"], seen["inbound-etx-conversion-to-qi"] = true, true
			case types.IsQiToQuaiConversionTx(tx):
				seen["inbound-etx-conversion"], seen["inbound-etx-conversion-to-quai"] = true, true
			default:
				seen[fmt.Sprintf("inbound-etx-type%d", tx.EtxType())] = true
			}
		}
	}
	if len(b.Uncles()) > 0 {
		seen["uncles"] = true
	}
	if len(b.OutboundEtxs()) > 0 {
		seen["outbound-etx"] = true
	}
	if len(b.Transactions()) == 0 {
		seen["empty"] = true
	}
	if tr, _ := rawdb.ReadTrimmedUTXOs(d.a.N.Zone().DB, b.Hash()); len(tr) > 0 {
		seen["trims-utxos"] = true
	}
	var out []string
	for k := range seen {
		out = append(out, k)
	}
	sort.Strings(out)
	return out
}

func (d *bnet) witness(stage string, e error, mm *hnet.Mined, off int) map[string]any {
	w := map[string]any{"parameter": d.spec.name, "context": d.spec.kind.String(), "boundary": d.p, "offset": off, "net": d.k, "order_pattern": d.pat,
		"stage": stage, "error": fmt.Sprint(e), "params": d.paramsDump, "options": d.optionsDump(), "compressed_trim_depths": d.trim}
	if mm != nil && mm.Blocks[2] != nil {
		w["order"] = mm.Order
		w["block"] = describe(mm.Blocks[2])
		w["content"] = d.kinds(mm.Blocks[2], mm.Order)
		w["prime_terminus_number"] = mm.Blocks[2].PrimeTerminusNumber().Uint64()
	}
	// the whole history, as the wire bytes a peer would be sent (first to last; the last entry is the failing block if it was sealed)
	var chain []map[string]any
	trace := d.a.N.Trace
	if mm != nil && (len(trace) == 0 || trace[len(trace)-1] != mm) {
		trace = append(append([]*hnet.Mined{}, trace...), mm)
	}
	for _, t := range trace {
		e := map[string]any{"order": t.Order, "number": t.Number}
		for lvl, name := range []string{"wire_prime", "wire_region", "wire_zone"} {
			if t.Wire[lvl] != nil {
				e[name] = wireHex(t.Wire[lvl])
			}
		}
		chain = append(chain, e)
	}
	w["chain"] = chain
	return w
}

func (d *bnet) optionsDump() map[string]any {
	o := d.a.N.Opts
	out := map[string]any{"coinbase_lockup_byte": o.CoinbaseLockup, "miner_preference": o.MinerPreference, "own_shares_per_block": d.a.Shares,
		"quai_coinbase": o.QuaiCoinbase.Hex(), "qi_coinbase": o.QiCoinbase.Hex()}
	if o.LockupContract != nil {
		out["lockup_contract"] = o.LockupContract.Hex()
	}
	return out
}

func dumpParams() map[string]any {
	return map[string]any{"TimeToStartTx": params.TimeToStartTx, "ControllerKickInBlock": params.ControllerKickInBlock,
		"CoinbaseLockupPrecompileKickInHeight": params.CoinbaseLockupPrecompileKickInHeight, "BlocksPerMonth": params.BlocksPerMonth,
		"BlocksPerYear": params.BlocksPerYear, "CoinbaseEpochBlocks": params.CoinbaseEpochBlocks, "MinerDifficultyWindow": params.MinerDifficultyWindow,
		"ConversionSlipChangeBlock": params.ConversionSlipChangeBlock, "InclusionDepthChangeBlock": params.InclusionDepthChangeBlock,
		"SingularityForkBlock": params.SingularityForkBlock, "QiWrappingChangeBlock": params.QiWrappingChangeBlock,
		"ShaEquivalentDifficultyForkBlock": params.ShaEquivalentDifficultyForkBlock, "KQuaiChangeHoldInterval": params.KQuaiChangeHoldInterval,
		"SelfDestructRefundForkBlock": params.SelfDestructRefundForkBlock, "KawPowForkBlock": params.KawPowForkBlock,
		"KQuaiResetAfterKawPowForkBlock": params.KQuaiResetAfterKawPowForkBlock, "KawPowTransitionPeriod": params.KawPowTransitionPeriod, "KQuaiDifficultyDivisor": params.KQuaiDifficultyDivisor,
		"ConversionStabilityForkBlock": params.ConversionStabilityForkBlock, "InclusionDepthUpdatePeriod": params.InclusionDepthUpdatePeriod,
		"ConversionLockPeriod": params.ConversionLockPeriod, "LockupByteToBlockDepth": params.LockupByteToBlockDepth, "TrimDepths": fmt.Sprint(types.TrimDepths)}
}

// runBoundaryNet drives one chain across the boundary of spec.
func runBoundaryNet(m *mon.M, spec *bspec, k int, cov map[string]bool) {
	r := m.Rand(fmt.Sprintf("boundary-%s-%d", spec.name, k))
	p := spec.pos(r, k)
	restore := spec.set(p)
	defer restore()
	d := &bnet{m: m, spec: spec, k: k, p: p, r: r, extraUsed: map[string]int{}, extraSent: map[string]int{}, extraErr: map[string]string{},
		seenOffs: map[int]bool{}, cov: cov, prevOrder: -1}
	switch {
	case k%2 == 0:
		d.pat = "A"
	default:
		d.pat = "B"
	}
	if m.Thorough() && k >= 4 && k%3 == 2 && k < m.N(2, 100) {
		d.pat = "natural"
	}
	if spec.trimEvery > 0 && k%spec.trimEvery == spec.trimEvery-1 {
		old := types.TrimDepths
		types.TrimDepths = compressedTrim()
		defer func() { types.TrimDepths = old }()
		d.trim = true
	}
	d.paramsDump = dumpParams()
	opts := hnet.Options{IndexAddressUtxos: k%2 == 1, MinerPreference: spec.minerPref}
	var lb uint8
	if spec.lockByte != nil {
		lb = spec.lockByte(k)
	}
	shares := spec.shares
	if m.Thorough() && k >= 2 {
		shares += r.Intn(3)
		if spec.minerPref == 0 {
			opts.MinerPreference = []float64{0.5, 0.2, 0.8}[r.Intn(3)]
		}
	}
	var err error
	if spec.lockupContract {
		d.a, err = hnet.NewActivityLockup(r, opts, lb, shares)
	} else {
		opts.CoinbaseLockup = lb
		d.a, err = hnet.NewActivity(r, opts)
		if d.a != nil {
			d.a.Shares = shares
		}
	}
	if err != nil {
		m.Inconclusive("hnet.New: " + err.Error())
		return
	}
	defer d.a.N.Stop()
	a := d.a
	a.QiPerStep = 2
	a.ConvEvery = 3
	if spec.convEvery > 0 {
		a.ConvEvery = spec.convEvery
	}
	o := a.N.Opts
	d.f, err = hnet.New(hnet.Options{IndexAddressUtxos: o.IndexAddressUtxos, GenAllocs: o.GenAllocs, QuaiCoinbase: o.QuaiCoinbase, QiCoinbase: o.QiCoinbase,
		CoinbaseLockup: o.CoinbaseLockup, LockupContract: o.LockupContract, MinerPreference: o.MinerPreference})
	if err != nil {
		m.Inconclusive("follower hnet.New: " + err.Error())
		return
	}
	defer d.f.Stop()
	d.gap = uint64(2 + r.Intn(3))
	lastOrder := -1
	pfx := "own-block-rejected:" + spec.name + ":"
	for !d.done(a.N.Heads()[2], lastOrder) {
		head := a.N.Heads()[2]
		next := head.NumberU64(common.ZONE_CTX) + 1
		want := d.plan(next, head.PrimeTerminusNumber().Uint64())
		var (
			mm     *hnet.Mined
			serr   error
			failed bool
		)
		nextOff := d.offsetOfNext(head, want)
		crashed := m.Guard("own-block-crashed-node:"+spec.name+":"+offStr(nextOff)+":while-building-and-appending-it", func() any { return d.witness("panic", nil, mm, nextOff) }, func() {
			d.step++
			d.extraTraffic()
			mm, serr = a.Step(hnet.MineOpts{WantOrder: want})
		})
		if crashed {
			m.AddExtra("nets_abandoned", 1)
			return
		}
		appendedOff := nextOff
		if mm != nil && mm.Blocks[2] != nil {
			appendedOff = d.offset(mm.Blocks[2])
		}
		// after the append the node executes the block and assembles its successor in one pipeline run
		crashed = m.Guard("own-block-crashed-node:"+spec.name+":"+offStr(appendedOff)+":while-executing-it-or-assembling-its-successor", func() any { return d.witness("panic", nil, mm, appendedOff) }, func() {
			if mm == nil || mm.Blocks[2] == nil {
				// the worker could not produce a block on the node's own executed head; attributed to the block being built
				off := d.offsetOfNext(head, want)
				m.Violation(pfx+offStr(off)+":"+stageErr("build", serr), fmt.Sprintf("%s=%d: the node could not assemble/seal block %d on its own head: %v", spec.name, p, next, serr),
					d.witness("build", serr, nil, off))
				failed = true
				return
			}
			b := mm.Blocks[2]
			off := d.offset(b)
			if serr != nil {
				m.Violation(pfx+offStr(off)+":"+stageErr("append", serr), fmt.Sprintf("%s=%d: own sealed block %v (order %d, prime terminus %d) was refused by Append: %v", spec.name, p, mm.Number, mm.Order, b.PrimeTerminusNumber(), serr),
					d.witness("append", serr, mm, off))
				failed = true
				return
			}
			if e := a.N.Settle(); e != nil {
				m.Violation(pfx+offStr(off)+":"+stageErr("execute", e), fmt.Sprintf("%s=%d: own appended block %v (order %d, prime terminus %d, content %v) failed execution on the node that built it: %v", spec.name, p, mm.Number, mm.Order, b.PrimeTerminusNumber(), d.kinds(b, mm.Order), e),
					d.witness("execute", e, mm, off))
				failed = true
				return
			}
			if cur := a.N.Zone().Core.CurrentHeader().Hash(); cur != mm.Hash {
				e := fmt.Errorf("pending-header pipeline succeeded but the zone head is %x, not the own block %x", cur[:4], mm.Hash[:4])
				m.Violation(pfx+offStr(off)+":execute: head-not-advanced", e.Error(), d.witness("execute", e, mm, off))
				failed = true
				return
			}
			// a fresh node that is only given the blocks
			fpfx := "follower-rejected-own-block:" + spec.name + ":" + offStr(off)
			if e := d.f.Follow(mm); e != nil {
				m.Violation(fpfx+":"+stageErr("append", e), fmt.Sprintf("%s=%d: a fresh node refused the block %v the miner accepted: %v", spec.name, p, mm.Number, e), d.witness("follower-append", e, mm, off))
				failed = true
				return
			}
			if e := d.f.Settle(); e != nil {
				m.Violation(fpfx+":"+stageErr("execute", e), fmt.Sprintf("%s=%d: a fresh node could not execute the block %v the miner executed: %v", spec.name, p, mm.Number, e), d.witness("follower-execute", e, mm, off))
				failed = true
				return
			}
			if cur := d.f.Zone().Core.CurrentHeader().Hash(); cur != mm.Hash {
				e := fmt.Errorf("the fresh node's zone head is %x, not the block %x", cur[:4], mm.Hash[:4])
				m.Violation(fpfx+":execute: head-not-advanced", e.Error(), d.witness("follower-execute", e, mm, off))
				failed = true
				return
			}
			d.note(mm, off)
		})
		if crashed || failed {
			m.AddExtra("nets_abandoned", 1)
			return
		}
		lastOrder = mm.Order
		d.prevOrder = mm.Order
		if mm.Order == 0 {
			d.lastPrime = mm.Number[2]
			d.gap = uint64(2 + r.Intn(3))
		}
	}
	m.AddExtra("nets_completed", 1)
	for k, v := range d.extraErr {
		m.Extra("extra-traffic-last-error:"+spec.name+":"+k, v)
	}
}

// offsetOfNext: offset of the block that would be built on head.
func (d *bnet) offsetOfNext(head *types.WorkObject, want int) int {
	x := head.NumberU64(common.ZONE_CTX) + 1
	if d.spec.kind == primeTermNum {
		x = head.PrimeTerminusNumber().Uint64()
		if tip := d.a.N.Heads()[0]; tip != nil && tip.Hash() == head.Hash() {
			x = head.NumberU64(common.PRIME_CTX) // the head is itself a prime block: it is the terminus of the next one
		}
	}
	p := d.p
	if d.spec.multiples && p > 0 {
		q := (x + p/2) / p
		if q == 0 {
			q = 1
		}
		p = q * p
	}
	return int(int64(x) - int64(p))
}

// note records an accepted own block as evidence.
func (d *bnet) note(mm *hnet.Mined, off int) {
	m, b := d.m, mm.Blocks[2]
	d.blocks++
	if os.Getenv("VERIF_C07_DEBUG") != "" {
		fmt.Fprintf(os.Stderr, "DBG %s p=%d net=%d pat=%s block %v order %d pt %d off %+d kinds %v\n", d.spec.name, d.p, d.k, d.pat, mm.Number, mm.Order, b.PrimeTerminusNumber(), off, d.kinds(b, mm.Order))
	}
	m.Eval("own-block-accepted-and-followed:"+d.spec.name, b.Hash().Hex())
	if off < -2 || off > 3 {
		return
	}
	d.seenOffs[off] = true
	kinds := d.kinds(b, mm.Order)
	if d.prevOrder == 0 && d.blocks > 1 && mm.Number[2] > 8 && !strings.Contains(strings.Join(kinds, ","), "inbound-etx") {
		m.AddExtra("successor-of-prime-block-without-inbound-etx", 1)
	}
	for _, k := range kinds {
		c := fmt.Sprintf("%s:off%+d:%s", d.spec.name, off, k)
		m.Eval(c, b.Hash().Hex())
		d.cov[c] = true
	}
	if d.trim {
		m.Eval(fmt.Sprintf("%s:off%+d:compressed-trim-depths", d.spec.name, off), b.Hash().Hex())
	}
}

var rePendingPfx = regexp.MustCompile(`^GeneratePendingHeader level (\d) on [0-9a-fA-F]+: `)

// stageErr: stable class of an error of a pipeline stage (the harness prefix "GeneratePendingHeader level N on <hash>" becomes "levelN").
func stageErr(stage string, err error) string {
	s := fmt.Sprint(err)
	if mt := rePendingPfx.FindStringSubmatch(s); mt != nil {
		return stage + "(level" + mt[1] + "): " + errClass(fmt.Errorf("%s", s[len(mt[0]):]))
	}
	return stage + ": " + errClass(err)
}

// ---------------------------------------------------------------- the stage

func TestC07Boundaries(t *testing.T) {
	m := mon.New(t, "C07", "boundaries")
	defer m.Finish()
	m.Rule("for each settable height/fork parameter P of /repo/params that both the worker and the validating side read, short hnet histories with mixed traffic " +
		"(Quai transfers, creations, Quai<->Qi conversions, Qi spends, coinbases of both ledgers, lockup-contract coinbases, own work shares) in which the boundary of P lies INSIDE the history " +
		"(zone height 14..18, or prime number 5..8 for parameters read against the prime terminus number; the post-KawPow parameters with the KawPow fork at prime 2, inside its transition period), " +
		"with the order of the blocks around the boundary chosen so that blocks at offsets -1..+2 carry inbound coinbase ETXs; every block the node's worker builds must be appended and executed by that node (it becomes the executed zone head) and by a fresh follower node that is " +
		"only given the wire bytes; class = (parameter, offset of the block from the boundary, content kind)")
	m.Assume("the parameters are process-global Go variables: one net (plus its follower) at a time, set before the net is created and restored afterwards",
		"the other timeline parameters stay at hnet.DefaultRegime (boundaries at heights 2..3)",
		"consecutive prime-order blocks cannot be ground in reasonable time, so inbound ETXs are placed at offsets {-1,+1} or {0,+2} of one net",
		"chains are not reproducible from the seed (pending headers carry the wall clock): a witness carries the wire bytes of the whole history")
	hnet.ApplyRegime(hnet.DefaultRegime()) // fire the once-only default so that the per-net settings below are not overwritten by hnet.New
	specs := boundarySpecs()
	only := envList("VERIF_C07_BOUNDARY")
	nets := m.N(2, 100)
	var names []string
	cov := map[string]bool{}
	for _, s := range specs {
		if len(only) > 0 && !only[s.name] {
			continue
		}
		names = append(names, fmt.Sprintf("%s (%s)", s.name, s.kind))
		m.Extra("parameter:"+s.name, s.note)
		for k := 0; k < nets; k++ {
			runBoundaryNet(m, s, k, cov)
		}
		var needed []string
		for _, off := range s.needOffs {
			for _, kind := range s.need {
				needed = append(needed, fmt.Sprintf("%s:off%+d:%s", s.name, off, kind))
			}
		}
		for off, kinds := range s.needAt {
			for _, kind := range kinds {
				needed = append(needed, fmt.Sprintf("%s:off%+d:%s", s.name, off, kind))
			}
		}
		sort.Strings(needed)
		// chains are not a function of the seed (wall-clock stamps, the worker's own coin flips for the coinbase ledger): if an
		// essential class was not met by the scheduled nets, up to three more nets are run before the run is declared inconclusive
		for extra := 0; extra < 3; extra++ {
			missing := ""
			for _, c := range needed {
				if !cov[c] {
					missing = c
					break
				}
			}
			if missing == "" {
				break
			}
			k := nets + extra
			if s.kind == zoneHeight {
				// order pattern A (even k) puts the inbound ETXs at offsets -1/+1, B (odd k) at 0/+2
				wantA := strings.Contains(missing, ":off-1:") || strings.Contains(missing, ":off+1:")
				if (k%2 == 0) != wantA {
					k++
				}
			}
			m.AddExtra("top-up-nets", 1)
			m.Extra("top-up-for:"+s.name, missing)
			runBoundaryNet(m, s, k+10*extra, cov)
		}
		m.Need(needed...)
	}
	m.Extra("parameters_covered", names)
	m.Extra("parameters_not_covered", notCoverable)
	if len(only) == 0 {
		m.Floor(int64(m.N(1500, 30000)), 300)
	}
}

func envList(k string) map[string]bool {
	out := map[string]bool{}
	for _, s := range strings.Split(os.Getenv(k), ",") {
		if s = strings.TrimSpace(s); s != "" {
			out[s] = true
		}
	}
	return out
}
