//go:build verif

package c07

import (
	"testing"
	"time"

	"verif/internal/hnet"
	"verif/internal/mon"
)

func TestExplore(t *testing.T) {
	m := mon.New(t, "C07", "explore")
	d, err := newDrv(m, "x")
	if err != nil {
		t.Fatal(err)
	}
	defer d.n.Stop()
	t0 := time.Now()
	for i := 0; i < 60; i++ {
		d.traffic()
		mm, err := d.n.Mine(hnet.MineOpts{WantOrder: -1, Fill: true})
		if err != nil {
			t.Fatalf("block %d mine: %v", i, err)
		}
		if err := d.settle(); err != nil {
			t.Fatalf("block %d settle: %v", i, err)
		}
		d.noteBlock(mm.Blocks[2], mm.Order)
		t.Logf("block %d order %d num %v txs %d etxs %d uncles %d", i, mm.Order, mm.Number, len(mm.Blocks[2].Transactions()), len(mm.Blocks[2].OutboundEtxs()), len(mm.Blocks[2].Uncles()))
	}
	t.Logf("elapsed %v included %v orders %v refused %v lastErr %v unsent %d", time.Since(t0), d.included, d.orders, d.refused, d.lastErr, len(d.sent))
	img := d.n.MemImage(2)
	sz := 0
	for k, v := range img {
		sz += len(k) + len(v)
	}
	t.Logf("zone image keys %d bytes %d", len(img), sz)
}
