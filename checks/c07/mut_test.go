//go:build verif

package c07

import (
	"fmt"
	"math/big"
	"math/rand"

	"github.com/dominant-strategies/go-quai/common"
	"github.com/dominant-strategies/go-quai/core/types"
	"github.com/dominant-strategies/go-quai/params"
	"github.com/dominant-strategies/go-quai/trie"

	"verif/internal/hnet"
)

// mutCtx is what a mutation may look at: the valid sealed block, its parent
// (the zone's executed head), the wallet and a PRNG.
type mutCtx struct {
	d      *drv
	orig   *types.WorkObject
	parent *types.WorkObject
	r      *rand.Rand
	// woTxHashTracksBody: the original's work-object-header tx hash equals the
	// body tx root, so a body mutation moves both (what the block's miner would do)
	woTxHashTracksBody bool
}

// mutation changes ONE component of b (a private copy of a valid sealed
// block) in place and keeps every other commitment consistent the way an
// attacker could: body roots are recomputed with the node's own DeriveSha,
// declared execution results are left as the worker produced them. It returns
// the parameters of the change; ok=false when the block has no such component.
type mutation struct {
	kind string
	// free: the field is not a result of executing the block (acceptance is
	// recorded, not reported)
	free  bool
	apply func(c *mutCtx, b *types.WorkObject) (map[string]any, bool)
}

func signer(c *mutCtx) types.Signer { return types.NewSigner(c.d.w.ChainID, hnet.ZoneLoc) }

func deriveTxRoot(txs []*types.Transaction) common.Hash {
	return types.DeriveSha(types.Transactions(txs), trie.NewStackTrie(nil))
}

// setTxs replaces the body's transaction list and recomputes the tx root(s).
func (c *mutCtx) setTxs(b *types.WorkObject, txs []*types.Transaction) {
	b.Body().SetTransactions(txs)
	root := deriveTxRoot(txs)
	b.Header().SetTxHash(root)
	if c.woTxHashTracksBody {
		b.WorkObjectHeader().SetTxHash(root)
	}
}

func (c *mutCtx) setOutbound(b *types.WorkObject, etxs []*types.Transaction) {
	b.Body().SetOutboundEtxs(etxs)
	b.Header().SetOutboundEtxHash(types.DeriveSha(types.Transactions(etxs), trie.NewStackTrie(nil)))
}

// finish re-links the work object header to the (possibly changed) header.
func finish(b *types.WorkObject) {
	b.WorkObjectHeader().SetHeaderHash(b.Header().Hash())
}

func cloneTxs(b *types.WorkObject) []*types.Transaction {
	return append([]*types.Transaction{}, b.Transactions()...)
}

func idxOfType(b *types.WorkObject, typ byte) []int {
	var out []int
	for i, tx := range b.Transactions() {
		if tx.Type() == typ {
			out = append(out, i)
		}
	}
	return out
}

func pickIdx(r *rand.Rand, idx []int) (int, bool) {
	if len(idx) == 0 {
		return 0, false
	}
	return idx[r.Intn(len(idx))], true
}

func flipHash(r *rand.Rand, h common.Hash) common.Hash {
	h[r.Intn(len(h))] ^= byte(1 << uint(r.Intn(8)))
	return h
}

func (c *mutCtx) senderOf(tx *types.Transaction) (common.Address, bool) {
	a, err := types.Sender(signer(c), tx)
	return a, err == nil
}

func (c *mutCtx) keyOf(a common.Address) *hnet.QuaiKey {
	for _, k := range c.d.w.Quai {
		if k.Addr.Equal(a) {
			return k
		}
	}
	return nil
}

// otherQiAddr returns a wallet Qi address that is neither an output address nor
// an input owner of tx.
func (c *mutCtx) otherQiAddr(tx *types.Transaction) []byte {
	used := map[string]bool{}
	for _, o := range tx.TxOut() {
		used[string(o.Address)] = true
	}
	for _, ti := range tx.TxIn() {
		for _, k := range c.d.w.Qi {
			if string(k.Pub) == string(ti.PubKey) {
				used[string(k.Addr.Bytes())] = true
			}
		}
	}
	for _, k := range c.d.w.Qi {
		if !used[string(k.Addr.Bytes())] {
			return common.CopyBytes(k.Addr.Bytes())
		}
	}
	return common.CopyBytes(c.d.w.Qi[0].Addr.Bytes())
}

func quaiInner(tx *types.Transaction) *types.QuaiTx {
	v, r, s := tx.GetEcdsaSignatureValues()
	in := &types.QuaiTx{ChainID: new(big.Int).Set(tx.ChainId()), Nonce: tx.Nonce(), GasPrice: new(big.Int).Set(tx.GasPrice()), Gas: tx.Gas(),
		Value: new(big.Int).Set(tx.Value()), Data: common.CopyBytes(tx.Data()), AccessList: tx.AccessList(),
		V: new(big.Int).Set(v), R: new(big.Int).Set(r), S: new(big.Int).Set(s)}
	if tx.To() != nil {
		t := *tx.To()
		in.To = &t
	}
	return in
}

func etxInner(tx *types.Transaction) *types.ExternalTx {
	in := &types.ExternalTx{OriginatingTxHash: tx.OriginatingTxHash(), ETXIndex: tx.ETXIndex(), Gas: tx.Gas(), Value: new(big.Int).Set(tx.Value()),
		Data: common.CopyBytes(tx.Data()), AccessList: tx.AccessList(), Sender: tx.ETXSender(), EtxType: tx.EtxType()}
	if tx.To() != nil {
		t := *tx.To()
		in.To = &t
	}
	return in
}

// sameShape: two Quai transactions whose swap cannot change any declared
// result (equal price, both plain value transfers to plain accounts).
func sameShape(a, b *types.Transaction) bool {
	plain := func(t *types.Transaction) bool {
		return t.To() != nil && t.To().IsInQuaiLedgerScope() && len(t.Data()) == 0 && len(t.AccessList()) == 0
	}
	return a.GasPrice().Cmp(b.GasPrice()) == 0 && plain(a) && plain(b)
}

// alterQuai returns a mutation changing one field of a wallet Quai transaction.
func alterQuai(kind string, resign bool, change func(c *mutCtx, in *types.QuaiTx)) mutation {
	return mutation{kind: kind, apply: func(c *mutCtx, b *types.WorkObject) (map[string]any, bool) {
		var cand []int
		for _, i := range idxOfType(b, types.QuaiTxType) {
			tx := b.Transactions()[i]
			if tx.To() == nil {
				continue
			}
			// a transfer to oneself has the same effect for every value: the
			// re-signed variant would be a different valid block, not a mutant
			if from, ok := c.senderOf(tx); !ok || from.Equal(*tx.To()) {
				continue
			}
			// a conversion request before the controller kicks in fails whatever its value
			if resign && tx.To().IsInQiLedgerScope() && b.PrimeTerminusNumber().Uint64() < params.ControllerKickInBlock {
				continue
			}
			cand = append(cand, i)
		}
		i, ok := pickIdx(c.r, cand)
		if !ok {
			return nil, false
		}
		tx := b.Transactions()[i]
		in := quaiInner(tx)
		change(c, in)
		var ntx *types.Transaction
		if resign {
			from, ok := c.senderOf(tx)
			if !ok {
				return nil, false
			}
			k := c.keyOf(from)
			if k == nil {
				return nil, false
			}
			in.V, in.R, in.S = nil, nil, nil
			var err error
			ntx, err = types.SignNewTx(k.Priv, signer(c), in)
			if err != nil {
				return nil, false
			}
		} else {
			ntx = types.NewTx(in)
		}
		txs := cloneTxs(b)
		txs[i] = ntx
		c.setTxs(b, txs)
		return map[string]any{"index": i, "old_tx": txBytes(tx), "new_tx": txBytes(ntx)}, true
	}}
}

func headerHashMut(kind string, get func(h *types.Header) common.Hash, set func(h *types.Header, v common.Hash)) mutation {
	return mutation{kind: kind, apply: func(c *mutCtx, b *types.WorkObject) (map[string]any, bool) {
		old := get(b.Header())
		nv := flipHash(c.r, old)
		set(b.Header(), nv)
		return map[string]any{"old": old.Hex(), "new": nv.Hex()}, true
	}}
}

func headerU64Mut(kind string, delta int, get func(h *types.Header) uint64, set func(h *types.Header, v uint64)) mutation {
	return mutation{kind: kind, apply: func(c *mutCtx, b *types.WorkObject) (map[string]any, bool) {
		old := get(b.Header())
		if delta < 0 && old == 0 {
			return nil, false
		}
		nv := old + 1
		if delta < 0 {
			nv = old - 1
		}
		set(b.Header(), nv)
		return map[string]any{"old": old, "new": nv}, true
	}}
}

func headerBigMut(kind string, delta int64, get func(h *types.Header) *big.Int, set func(h *types.Header, v *big.Int)) mutation {
	return mutation{kind: kind, apply: func(c *mutCtx, b *types.WorkObject) (map[string]any, bool) {
		old := get(b.Header())
		if old == nil {
			return nil, false
		}
		nv := new(big.Int).Add(old, big.NewInt(delta))
		if nv.Sign() < 0 {
			return nil, false
		}
		set(b.Header(), nv)
		return map[string]any{"old": old.String(), "new": nv.String()}, true
	}}
}

func sign2(delta int) string {
	if delta < 0 {
		return "-1"
	}
	return "+1"
}

// mutations is the single-component mutation list.
func mutations() []mutation {
	ms := []mutation{
		// ------------------------------------------------ body: transactions
		{kind: "drop-quai-tx", apply: func(c *mutCtx, b *types.WorkObject) (map[string]any, bool) {
			i, ok := pickIdx(c.r, idxOfType(b, types.QuaiTxType))
			if !ok {
				return nil, false
			}
			txs := cloneTxs(b)
			dropped := txs[i]
			txs = append(txs[:i], txs[i+1:]...)
			c.setTxs(b, txs)
			return map[string]any{"index": i, "tx": txBytes(dropped)}, true
		}},
		{kind: "drop-qi-tx", apply: func(c *mutCtx, b *types.WorkObject) (map[string]any, bool) {
			i, ok := pickIdx(c.r, idxOfType(b, types.QiTxType))
			if !ok {
				return nil, false
			}
			txs := cloneTxs(b)
			dropped := txs[i]
			txs = append(txs[:i], txs[i+1:]...)
			c.setTxs(b, txs)
			return map[string]any{"index": i, "tx": txBytes(dropped)}, true
		}},
		{kind: "dup-quai-tx", apply: func(c *mutCtx, b *types.WorkObject) (map[string]any, bool) {
			i, ok := pickIdx(c.r, idxOfType(b, types.QuaiTxType))
			if !ok {
				return nil, false
			}
			txs := cloneTxs(b)
			txs = append(txs[:i+1], append([]*types.Transaction{txs[i]}, txs[i+1:]...)...)
			c.setTxs(b, txs)
			return map[string]any{"index": i}, true
		}},
		{kind: "dup-qi-tx", apply: func(c *mutCtx, b *types.WorkObject) (map[string]any, bool) {
			i, ok := pickIdx(c.r, idxOfType(b, types.QiTxType))
			if !ok {
				return nil, false
			}
			txs := cloneTxs(b)
			txs = append(txs[:i+1], append([]*types.Transaction{txs[i]}, txs[i+1:]...)...)
			c.setTxs(b, txs)
			return map[string]any{"index": i}, true
		}},
		{kind: "swap-adjacent-diff-sender", apply: func(c *mutCtx, b *types.WorkObject) (map[string]any, bool) {
			txs := cloneTxs(b)
			var cand []int
			for i := 0; i+1 < len(txs); i++ {
				if txs[i].Type() != types.QuaiTxType || txs[i+1].Type() != types.QuaiTxType {
					continue
				}
				a, ok1 := c.senderOf(txs[i])
				bb, ok2 := c.senderOf(txs[i+1])
				if !ok1 || !ok2 || a.Equal(bb) {
					continue
				}
				if sameShape(txs[i], txs[i+1]) {
					// the swapped block could be a different valid block: not a mutant
					continue
				}
				cand = append(cand, i)
			}
			i, ok := pickIdx(c.r, cand)
			if !ok {
				return nil, false
			}
			eq := txs[i].GasPrice().Cmp(txs[i+1].GasPrice()) == 0
			txs[i], txs[i+1] = txs[i+1], txs[i]
			c.setTxs(b, txs)
			return map[string]any{"index": i, "equal_price": eq}, true
		}},
		{kind: "swap-adjacent-same-sender", apply: func(c *mutCtx, b *types.WorkObject) (map[string]any, bool) {
			txs := cloneTxs(b)
			var cand []int
			for i := 0; i+1 < len(txs); i++ {
				if txs[i].Type() != types.QuaiTxType || txs[i+1].Type() != types.QuaiTxType {
					continue
				}
				a, ok1 := c.senderOf(txs[i])
				bb, ok2 := c.senderOf(txs[i+1])
				if ok1 && ok2 && a.Equal(bb) {
					cand = append(cand, i)
				}
			}
			i, ok := pickIdx(c.r, cand)
			if !ok {
				return nil, false
			}
			txs[i], txs[i+1] = txs[i+1], txs[i]
			c.setTxs(b, txs)
			return map[string]any{"index": i}, true
		}},
		{kind: "swap-quai-with-qi-neighbour", apply: func(c *mutCtx, b *types.WorkObject) (map[string]any, bool) {
			txs := cloneTxs(b)
			var cand []int
			for i := 0; i+1 < len(txs); i++ {
				a, bb := txs[i].Type(), txs[i+1].Type()
				if (a == types.QuaiTxType && bb == types.QiTxType) || (a == types.QiTxType && bb == types.QuaiTxType) {
					cand = append(cand, i)
				}
			}
			i, ok := pickIdx(c.r, cand)
			if !ok {
				return nil, false
			}
			txs[i], txs[i+1] = txs[i+1], txs[i]
			c.setTxs(b, txs)
			return map[string]any{"index": i}, true
		}},
		alterQuai("alter-tx-value-keep-sig", false, func(c *mutCtx, in *types.QuaiTx) { in.Value = new(big.Int).Add(in.Value, big.NewInt(1)) }),
		alterQuai("alter-tx-to-keep-sig", false, func(c *mutCtx, in *types.QuaiTx) {
			t := c.d.w.Quai[0].Addr
			if in.To != nil && in.To.Equal(t) {
				t = c.d.w.Quai[1].Addr
			}
			in.To = &t
		}),
		alterQuai("alter-tx-value-resigned", true, func(c *mutCtx, in *types.QuaiTx) { in.Value = new(big.Int).Add(in.Value, big.NewInt(1)) }),
		alterQuai("alter-tx-to-resigned", true, func(c *mutCtx, in *types.QuaiTx) {
			// keep the ledger of the recipient (a conversion stays a conversion)
			if in.To != nil && in.To.IsInQiLedgerScope() {
				t := c.d.w.Qi[0].Addr
				if in.To.Equal(t) {
					t = c.d.w.Qi[1].Addr
				}
				in.To = &t
				return
			}
			t := c.d.w.Quai[0].Addr
			if in.To != nil && in.To.Equal(t) {
				t = c.d.w.Quai[1].Addr
			}
			in.To = &t
		}),
		{kind: "add-extra-valid-tx", apply: func(c *mutCtx, b *types.WorkObject) (map[string]any, bool) {
			txs := cloneTxs(b)
			// position: right after the last Quai tx (same price keeps the price order),
			// or at the end when the block carries no Quai/Qi transaction
			pos, price := -1, (*big.Int)(nil)
			for i := len(txs) - 1; i >= 0; i-- {
				if txs[i].Type() == types.QuaiTxType {
					pos, price = i+1, new(big.Int).Set(txs[i].GasPrice())
					break
				}
			}
			if pos < 0 {
				if len(idxOfType(b, types.QiTxType)) > 0 {
					return nil, false
				}
				pos, price = len(txs), new(big.Int).Mul(b.BaseFee(), big.NewInt(2))
			}
			k := c.d.w.Quai[1+c.r.Intn(len(c.d.w.Quai)-1)]
			st, err := c.d.n.ZoneStateAt(c.parent)
			if err != nil {
				return nil, false
			}
			ia, err := k.Addr.InternalAndQuaiAddress()
			if err != nil {
				return nil, false
			}
			nonce := st.GetNonce(ia)
			for _, tx := range txs {
				if tx.Type() == types.QuaiTxType {
					if a, ok := c.senderOf(tx); ok && a.Equal(k.Addr) && tx.Nonce() >= nonce {
						nonce = tx.Nonce() + 1
					}
				}
			}
			to := c.d.w.Quai[0].Addr
			ntx, err := c.d.w.QuaiTx(k, nonce, &to, big.NewInt(12345), 21000, price, nil, nil)
			if err != nil {
				return nil, false
			}
			txs = append(txs[:pos], append([]*types.Transaction{ntx}, txs[pos:]...)...)
			c.setTxs(b, txs)
			return map[string]any{"index": pos, "tx": txBytes(ntx)}, true
		}},
		{kind: "alter-qi-tx-recipient-keep-sig", apply: func(c *mutCtx, b *types.WorkObject) (map[string]any, bool) {
			i, ok := pickIdx(c.r, idxOfType(b, types.QiTxType))
			if !ok {
				return nil, false
			}
			txs := cloneTxs(b)
			old := txs[i]
			in := &types.QiTx{ChainID: new(big.Int).Set(old.ChainId()), TxIn: append(types.TxIns{}, old.TxIn()...), Signature: old.GetSchnorrSignature(), Data: common.CopyBytes(old.Data())}
			for _, o := range old.TxOut() {
				in.TxOut = append(in.TxOut, types.TxOut{Denomination: o.Denomination, Address: common.CopyBytes(o.Address), Lock: o.Lock})
			}
			if len(in.TxOut) == 0 {
				return nil, false
			}
			in.TxOut[0].Address = c.otherQiAddr(old)
			ntx := types.NewTx(in)
			txs[i] = ntx
			c.setTxs(b, txs)
			return map[string]any{"index": i, "old_tx": txBytes(old), "new_tx": txBytes(ntx)}, true
		}},
		{kind: "alter-qi-tx-recipient-resigned", apply: func(c *mutCtx, b *types.WorkObject) (map[string]any, bool) {
			i, ok := pickIdx(c.r, idxOfType(b, types.QiTxType))
			if !ok {
				return nil, false
			}
			txs := cloneTxs(b)
			old := txs[i]
			var ins []hnet.Utxo
			for _, ti := range old.TxIn() {
				var key *hnet.QiKey
				for _, k := range c.d.w.Qi {
					if string(k.Pub) == string(ti.PubKey) {
						key = k
					}
				}
				if key == nil {
					return nil, false
				}
				ins = append(ins, hnet.Utxo{Hash: ti.PreviousOutPoint.TxHash, Index: ti.PreviousOutPoint.Index, Key: key})
			}
			var outs []hnet.QiOut
			for _, o := range old.TxOut() {
				outs = append(outs, hnet.QiOut{Denom: o.Denomination, Addr: common.CopyBytes(o.Address)})
			}
			if len(outs) == 0 {
				return nil, false
			}
			outs[0].Addr = c.otherQiAddr(old)
			ntx, err := c.d.w.QiTx(ins, outs, old.Data())
			if err != nil {
				return nil, false
			}
			txs[i] = ntx
			c.setTxs(b, txs)
			return map[string]any{"index": i, "old_tx": txBytes(old), "new_tx": txBytes(ntx)}, true
		}},
		// ------------------------------------------------ body: inbound ETXs
		{kind: "alter-inbound-etx-value", apply: func(c *mutCtx, b *types.WorkObject) (map[string]any, bool) {
			i, ok := pickIdx(c.r, idxOfType(b, types.ExternalTxType))
			if !ok {
				return nil, false
			}
			txs := cloneTxs(b)
			in := etxInner(txs[i])
			in.Value = new(big.Int).Add(in.Value, big.NewInt(1))
			ntx := types.NewTx(in)
			old := txs[i]
			txs[i] = ntx
			c.setTxs(b, txs)
			return map[string]any{"index": i, "etx_type": old.EtxType(), "old_tx": txBytes(old), "new_tx": txBytes(ntx)}, true
		}},
		{kind: "alter-inbound-etx-recipient", apply: func(c *mutCtx, b *types.WorkObject) (map[string]any, bool) {
			i, ok := pickIdx(c.r, idxOfType(b, types.ExternalTxType))
			if !ok {
				return nil, false
			}
			txs := cloneTxs(b)
			in := etxInner(txs[i])
			if in.To == nil {
				return nil, false
			}
			var t common.Address
			if in.To.IsInQiLedgerScope() {
				t = c.d.w.Qi[2].Addr
				if in.To.Equal(t) {
					t = c.d.w.Qi[3].Addr
				}
			} else {
				t = c.d.w.Quai[2].Addr
				if in.To.Equal(t) {
					t = c.d.w.Quai[3].Addr
				}
			}
			in.To = &t
			ntx := types.NewTx(in)
			old := txs[i]
			txs[i] = ntx
			c.setTxs(b, txs)
			return map[string]any{"index": i, "etx_type": old.EtxType(), "old_tx": txBytes(old), "new_tx": txBytes(ntx)}, true
		}},
		{kind: "drop-first-inbound-etx", apply: func(c *mutCtx, b *types.WorkObject) (map[string]any, bool) {
			idx := idxOfType(b, types.ExternalTxType)
			if len(idx) == 0 {
				return nil, false
			}
			txs := cloneTxs(b)
			i := idx[0]
			old := txs[i]
			txs = append(txs[:i], txs[i+1:]...)
			c.setTxs(b, txs)
			return map[string]any{"index": i, "etx_type": old.EtxType(), "remaining_inbound": len(idx) - 1}, true
		}},
		{kind: "dup-inbound-etx", apply: func(c *mutCtx, b *types.WorkObject) (map[string]any, bool) {
			i, ok := pickIdx(c.r, idxOfType(b, types.ExternalTxType))
			if !ok {
				return nil, false
			}
			txs := cloneTxs(b)
			txs = append(txs[:i+1], append([]*types.Transaction{txs[i]}, txs[i+1:]...)...)
			c.setTxs(b, txs)
			return map[string]any{"index": i}, true
		}},
		{kind: "swap-inbound-etxs", apply: func(c *mutCtx, b *types.WorkObject) (map[string]any, bool) {
			txs := cloneTxs(b)
			var cand []int
			for i := 0; i+1 < len(txs); i++ {
				if txs[i].Type() == types.ExternalTxType && txs[i+1].Type() == types.ExternalTxType && txs[i].Hash() != txs[i+1].Hash() {
					cand = append(cand, i)
				}
			}
			i, ok := pickIdx(c.r, cand)
			if !ok {
				return nil, false
			}
			txs[i], txs[i+1] = txs[i+1], txs[i]
			c.setTxs(b, txs)
			return map[string]any{"index": i}, true
		}},
		// ------------------------------------------------ body: outbound set (header EtxHash recomputed)
		{kind: "alter-outbound-etx-value", apply: func(c *mutCtx, b *types.WorkObject) (map[string]any, bool) {
			etxs := append([]*types.Transaction{}, b.OutboundEtxs()...)
			if len(etxs) == 0 {
				return nil, false
			}
			i := c.r.Intn(len(etxs))
			in := etxInner(etxs[i])
			in.Value = new(big.Int).Add(in.Value, big.NewInt(1))
			old := etxs[i]
			etxs[i] = types.NewTx(in)
			c.setOutbound(b, etxs)
			return map[string]any{"index": i, "etx_type": old.EtxType(), "old_tx": txBytes(old), "new_tx": txBytes(etxs[i])}, true
		}},
		{kind: "drop-outbound-etx", apply: func(c *mutCtx, b *types.WorkObject) (map[string]any, bool) {
			etxs := append([]*types.Transaction{}, b.OutboundEtxs()...)
			if len(etxs) == 0 {
				return nil, false
			}
			i := c.r.Intn(len(etxs))
			old := etxs[i]
			etxs = append(etxs[:i], etxs[i+1:]...)
			c.setOutbound(b, etxs)
			return map[string]any{"index": i, "etx_type": old.EtxType()}, true
		}},
		{kind: "dup-outbound-etx", apply: func(c *mutCtx, b *types.WorkObject) (map[string]any, bool) {
			etxs := append([]*types.Transaction{}, b.OutboundEtxs()...)
			if len(etxs) == 0 {
				return nil, false
			}
			i := c.r.Intn(len(etxs))
			etxs = append(etxs, etxs[i])
			c.setOutbound(b, etxs)
			return map[string]any{"index": i}, true
		}},
		// ------------------------------------------------ body: uncles (header UncleHash recomputed)
		{kind: "add-uncle-without-work", apply: func(c *mutCtx, b *types.WorkObject) (map[string]any, bool) {
			// a sibling header whose nonce was never ground: its PoW hash meets no target
			u := types.CopyWorkObjectHeader(c.orig.WorkObjectHeader())
			var bad types.BlockNonce
			hc := c.d.n.Zone().Core.Slice().HeaderChain()
			found := false
			for try := 0; try < 64 && !found; try++ {
				c.r.Read(bad[:])
				u.SetNonce(bad)
				// by the node's own classification neither a block nor a work share nor a sub share
				found = hc.UncleWorkShareClassification(u) == types.Invalid
			}
			if !found {
				return nil, false
			}
			uncles := append(append([]*types.WorkObjectHeader{}, b.Uncles()...), u)
			b.Body().SetUncles(uncles)
			b.Header().SetUncleHash(types.CalcUncleHash(uncles))
			return map[string]any{"uncle_hash": u.Hash().Hex(), "uncles": len(uncles), "node_classification": "types.Invalid (UncleWorkShareClassification)"}, true
		}},
		{kind: "add-uncle-ancestor", apply: func(c *mutCtx, b *types.WorkObject) (map[string]any, bool) {
			u := types.CopyWorkObjectHeader(c.parent.WorkObjectHeader())
			uncles := append(append([]*types.WorkObjectHeader{}, b.Uncles()...), u)
			b.Body().SetUncles(uncles)
			b.Header().SetUncleHash(types.CalcUncleHash(uncles))
			return map[string]any{"uncle_hash": u.Hash().Hex(), "uncles": len(uncles)}, true
		}},
		{kind: "drop-uncle", apply: func(c *mutCtx, b *types.WorkObject) (map[string]any, bool) {
			if len(b.Uncles()) == 0 {
				return nil, false
			}
			uncles := append([]*types.WorkObjectHeader{}, b.Uncles()...)
			i := c.r.Intn(len(uncles))
			uncles = append(uncles[:i], uncles[i+1:]...)
			b.Body().SetUncles(uncles)
			b.Header().SetUncleHash(types.CalcUncleHash(uncles))
			return map[string]any{"index": i}, true
		}},
		// ------------------------------------------------ header: declared results and body roots
		headerHashMut("wrong-evm-root", (*types.Header).EVMRoot, (*types.Header).SetEVMRoot),
		headerHashMut("wrong-utxo-root", (*types.Header).UTXORoot, (*types.Header).SetUTXORoot),
		headerHashMut("wrong-etx-set-root", (*types.Header).EtxSetRoot, (*types.Header).SetEtxSetRoot),
		headerHashMut("wrong-receipt-hash", (*types.Header).ReceiptHash, (*types.Header).SetReceiptHash),
		headerHashMut("wrong-outbound-etx-hash", (*types.Header).OutboundEtxHash, (*types.Header).SetOutboundEtxHash),
		headerHashMut("wrong-tx-hash", (*types.Header).TxHash, (*types.Header).SetTxHash),
		headerHashMut("wrong-uncle-hash", (*types.Header).UncleHash, (*types.Header).SetUncleHash),
		headerHashMut("wrong-etx-rollup-hash", (*types.Header).EtxRollupHash, (*types.Header).SetEtxRollupHash),
		headerHashMut("wrong-manifest-hash", func(h *types.Header) common.Hash { return h.ManifestHash(common.ZONE_CTX) },
			func(h *types.Header, v common.Hash) { h.SetManifestHash(v, common.ZONE_CTX) }),
	}
	for _, dl := range []int{+1, -1} {
		dl := dl
		ms = append(ms,
			headerU64Mut("gas-used"+sign2(dl), dl, (*types.Header).GasUsed, (*types.Header).SetGasUsed),
			headerU64Mut("state-used"+sign2(dl), dl, (*types.Header).StateUsed, (*types.Header).SetStateUsed),
			headerBigMut("quai-state-size"+sign2(dl), int64(dl), (*types.Header).QuaiStateSize, (*types.Header).SetQuaiStateSize),
			headerBigMut("avg-tx-fees"+sign2(dl), int64(dl), (*types.Header).AvgTxFees, (*types.Header).SetAvgTxFees),
			headerBigMut("total-fees"+sign2(dl), int64(dl), (*types.Header).TotalFees, (*types.Header).SetTotalFees),
			headerBigMut("uncled-entropy"+sign2(dl), int64(dl), (*types.Header).UncledEntropy, (*types.Header).SetUncledEntropy),
		)
	}
	// the work object header's own tx hash commits to the miner's broadcast set
	// (work shares), not to a result of executing the block: recorded only
	ms = append(ms, mutation{kind: "wo-header-tx-hash", free: true, apply: func(c *mutCtx, b *types.WorkObject) (map[string]any, bool) {
		old := b.WorkObjectHeader().TxHash()
		nv := flipHash(c.r, old)
		b.WorkObjectHeader().SetTxHash(nv)
		return map[string]any{"old": old.Hex(), "new": nv.Hex()}, true
	}})
	return ms
}

// describe summarises a block for witnesses and samples.
func describe(b *types.WorkObject) map[string]any {
	kinds := map[string]int{}
	for _, tx := range b.Transactions() {
		switch tx.Type() {
		case types.QuaiTxType:
			kinds["quai"]++
		case types.QiTxType:
			kinds["qi"]++
		case types.ExternalTxType:
			kinds[fmt.Sprintf("inbound-etx-type%d", tx.EtxType())]++
		}
	}
	return map[string]any{"hash": b.Hash().Hex(), "number": b.NumberArray(), "parent": b.ParentHash(common.ZONE_CTX).Hex(), "txs": kinds,
		"outbound_etxs": len(b.OutboundEtxs()), "uncles": len(b.Uncles()), "gas_used": b.GasUsed()}
}
