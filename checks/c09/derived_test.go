//go:build verif

// C09, stage "derived" — every parent-derived expectation the node computes is
// a function of the parent (and the chain below it) only.
//
// The statement's clause "... difficulty, gas limit, state limit, base fee,
// prime-terminus reference, expansion number and share-difficulty fields equal
// the values the protocol derives from the parent" is monitored as PURITY of the
// derivations that verifyHeader and the worker's header preparation call
// (derived_fns_test.go): for one parent the result must be the same
//
//	warm-repeat         called again at once on the mining node,
//	after-other-parent  called again after other parents were evaluated,
//	after-cache-drop    after HeaderChain.VerifDropCaches,
//	second-node         on a second node that received the same blocks by wire,
//	restart             on cores opened on copies of the databases, in this
//	                    process and in a fresh OS process (package-level state
//	                    of the node starts from scratch there),
//
// in PRNG-chosen evaluation orders that differ between the nodes. Parents are
// (a) the real blocks of hnet histories that cross the (compressed) KawPow fork,
// (b) in one dedicated net, real blocks found more than 100 s of wall time
// after their parent (twice), (c) synthetic parents: copies of real stored
// blocks whose header time is moved to {0,1,2,50,99,100,101,102,150,1000,10^6}
// seconds after their parent's, chained on top of each other, and with single
// fields changed (regimes of each rule); they are resealed and stored under
// their new hash in both nodes' databases with the production writers, never
// appended: they are only the `parent` ARGUMENT of the derivations.
//
// Further oracles, none of which recomputes a formula:
//   - a returned *big.Int is changed by the monitor and the function evaluated
//     again on a fresh argument: the result must not move (aliasing of internal
//     state);
//   - the fields recorded in every accepted child equal the value derived from
//     its parent before the child existed;
//   - the fields of an accepted header stay acceptable: a never-stored copy of
//     an accepted block (new nonce only) passes HeaderChain.VerifyHeader on
//     every node, at any later time, in a fresh process;
//   - the protocol's bound on the time difference (params.MaxTimeDiffBetweenBlocks):
//     parents that differ only in a header time at or beyond the bound derive
//     the same difficulty.
package c09

import (
	"encoding/binary"
	"encoding/json"
	"fmt"
	"math/big"
	"math/rand"
	"os"
	"os/exec"
	"path/filepath"
	"sort"
	"strings"
	"sync"
	"sync/atomic"
	"testing"
	"time"

	"lukechampine.com/blake3"

	"github.com/dominant-strategies/go-quai/common"
	"github.com/dominant-strategies/go-quai/core"
	"github.com/dominant-strategies/go-quai/core/rawdb"
	"github.com/dominant-strategies/go-quai/core/types"
	"github.com/dominant-strategies/go-quai/ethdb"
	"github.com/dominant-strategies/go-quai/p2p/pb"
	"github.com/dominant-strategies/go-quai/params"

	"verif/internal/hnet"
	"verif/internal/mon"
)

const drvFork = 4 // prime number of the KawPow fork in this stage's process

// drvApplyRegime: hnet's compressed timeline with the KawPow fork (and the k-quai reset, as on mainnet) at prime block
// drvFork, crossed inside the transition period by AuxPow-less blocks, a 3-block miner-difficulty window, and a
// 12-block "month" (the gas / state limit rule then passes through all its regimes within 24 zone blocks: zero, the
// minimum, the ramp, the ceiling). Process wide; set before the first net exists, restored when the last one is stopped.
func drvApplyRegime() func() {
	hnet.ApplyRegime(hnet.DefaultRegime()) // fire the once-only default so that hnet.New does not overwrite what follows
	ok, or, ot, od, oh, ow, om := params.KawPowForkBlock, params.KQuaiResetAfterKawPowForkBlock, params.KawPowTransitionPeriod, params.KQuaiDifficultyDivisor, params.KQuaiChangeHoldInterval, params.MinerDifficultyWindow, params.BlocksPerMonth
	params.KawPowForkBlock, params.KQuaiResetAfterKawPowForkBlock, params.KawPowTransitionPeriod, params.KQuaiDifficultyDivisor, params.KQuaiChangeHoldInterval, params.MinerDifficultyWindow, params.BlocksPerMonth = drvFork, drvFork, 1<<40, 2, 2, 3, 12
	return func() {
		params.KawPowForkBlock, params.KQuaiResetAfterKawPowForkBlock, params.KawPowTransitionPeriod, params.KQuaiDifficultyDivisor, params.KQuaiChangeHoldInterval, params.MinerDifficultyWindow, params.BlocksPerMonth = ok, or, ot, od, oh, ow, om
	}
}

var drvGaps = []int64{0, 1, 2, 50, 99, 100, 101, 102, 150, 1000, 1000000}

type drvSibling struct {
	ID     int
	Of     common.Hash // the accepted block it copies (new nonce only)
	Hash   common.Hash
	Levels [3]bool
	View   [3][]byte
	Bucket string // gap bucket of the accepted block's parent (whose derived values the verification needs)
	First  bool
}

type drvNode struct {
	label string
	kind  string // "" = the mining node (kind decided per evaluation)
	net   *hnet.Net
	hcs   [3]*core.HeaderChain
	last  map[string]int
	epoch int
	log   []string
	// kept: per function, the big.Int objects the previous evaluation returned, as they were rendered then
	kept map[string]*drvKept
}

type drvKept struct {
	parent *drvParent
	bigs   []*big.Int
	strs   []string
	desc   string
}

func newDrvNode(label, kind string, n *hnet.Net) *drvNode {
	return &drvNode{label: label, kind: kind, net: n, hcs: drvHCs(n), last: map[string]int{}, kept: map[string]*drvKept{}}
}

func (n *drvNode) note(s string) {
	n.log = append(n.log, s)
	if len(n.log) > 14 {
		n.log = n.log[len(n.log)-14:]
	}
}

func (n *drvNode) dropCaches() {
	for _, hc := range n.hcs {
		hc.VerifDropCaches()
	}
	n.epoch++
}

type drvShared struct {
	nextID   atomic.Int64
	mu       sync.Mutex
	slowEval map[int]int // parent id (gap > 100 s) -> CalcDifficulty evaluations
	realSlow map[int]int // the same for real blocks found > 100 s after their parent
	consts   map[string]int
	children int
}

type drvRun struct {
	t   *testing.T
	m   *mon.M
	sh  *drvShared
	rng *rand.Rand
	tag string

	netIdx     int
	walletSeed int64
	live, fol  *hnet.Net
	opts       hnet.Options
	ln, fn     *drvNode
	fns        []*drvFn
	fnByName   map[string]*drvFn
	parents    []*drvParent
	byHash     map[common.Hash]*drvParent
	siblings   []*drvSibling
	genesis    *drvParent
	failed     bool
	dead       bool
	seq        int
	lastPrime  int
	blocks     int
	synthetic  int
	restarts   int
	gapHist    map[string]int
	workDir    string
	families   map[common.Hash][]*drvParent // base -> its time-only synthetic copies
	noChildRun bool
}

func (x *drvRun) fail(format string, a ...any) {
	x.failed = true
	x.m.Inconclusive("harness (" + x.tag + "): " + fmt.Sprintf(format, a...))
}

// ---------------------------------------------------------------- net life cycle

func (x *drvRun) newNet(idx int) bool {
	x.stopNets()
	x.netIdx = idx
	x.walletSeed = x.m.Seed()*7919 + int64(idx)*104729 + 13
	w := hnet.NewWallet(rand.New(rand.NewSource(x.walletSeed)), 3, 2)
	x.opts = drvOpts(w)
	live, err := hnet.New(x.opts)
	if err != nil {
		x.fail("hnet.New: %v", err)
		return false
	}
	x.live = live
	fol, err := hnet.New(x.opts)
	if err != nil {
		x.fail("hnet.New (second net): %v", err)
		return false
	}
	x.fol = fol
	x.ln, x.fn = newDrvNode("the mining node", "", live), newDrvNode("a second node that received the blocks by wire", "second-node", fol)
	x.parents, x.byHash, x.siblings, x.dead, x.lastPrime = nil, map[common.Hash]*drvParent{}, nil, false, 0
	x.families = map[common.Hash][]*drvParent{}
	// the genesis block as a parent
	g := &drvParent{ID: int(x.sh.nextID.Add(1)), Net: idx, Kind: "genesis", Hash: live.GenHash, Base: live.GenHash, Order: 0, Gap: -1, ChildPTN: -1}
	for lvl := 0; lvl < 3; lvl++ {
		gb := x.ln.hcs[lvl].GetBlockByHash(live.GenHash)
		if gb == nil {
			continue
		}
		if data, err := pb.ConvertAndMarshal(gb.ConvertToBlockView()); err == nil {
			if rt, err := entDecode(data, lvl); err == nil && rt.Hash() == live.GenHash {
				g.View[lvl], g.Levels[lvl], g.Time = data, true, gb.Time()
			}
		}
	}
	x.genesis = g
	if g.Levels[2] {
		x.register(g)
		x.evalAll(x.ln, g, false)
		x.evalAll(x.fn, g, false)
	}
	return true
}

func drvOpts(w *hnet.Wallet) hnet.Options {
	fund := new(big.Int).Mul(big.NewInt(1e18), big.NewInt(1e6))
	return hnet.Options{GenAllocs: w.GenAllocs(fund), QuaiCoinbase: w.Quai[0].Addr, QiCoinbase: w.Qi[0].Addr}
}

func (x *drvRun) stopNets() {
	if x.live != nil {
		x.live.Stop()
		x.live = nil
	}
	if x.fol != nil {
		x.fol.Stop()
		x.fol = nil
	}
}

func (x *drvRun) register(p *drvParent) {
	p.ref, p.refHow, p.nEval, p.epoch = map[string]string{}, map[string]string{}, map[string]int{}, map[string]int{}
	x.parents = append(x.parents, p)
	x.byHash[p.Hash] = p
}

// ---------------------------------------------------------------- one evaluation

func (x *drvRun) evalOne(n *drvNode, p *drvParent, f *drvFn, stored bool) {
	v, how, ok := drvCall(n.hcs, f, p, stored)
	if !ok {
		return
	}
	m := x.m
	x.seq++
	ref, has := p.ref[f.name]
	kind := n.kind
	if kind == "" {
		switch {
		case !has:
			kind = "first"
		case n.epoch > p.epoch[f.name]:
			kind = "after-cache-drop"
		case n.last[f.name] == p.ID:
			kind = "warm-repeat"
		default:
			kind = "after-other-parent"
		}
		p.epoch[f.name] = n.epoch
	}
	desc := fmt.Sprintf("evaluation #%d, on %s, %s, argument %s", x.seq, n.label, kind, how)
	// a result handed out earlier must not move when the function is evaluated again (for whatever parent)
	if k := n.kept[f.name]; k != nil {
		m.Eval("retained-result:"+f.name, fmt.Sprintf("%x/%d", k.parent.Hash, x.seq))
		for i, b := range k.bigs {
			if now := entStr(b); now != k.strs[i] {
				m.Violation("derived-value-aliases-internal-state:"+f.name+":retained-result-moved",
					fmt.Sprintf("%s of %s returned %s (%s); the returned object reads %s after %s", f.name, k.parent.describe(), k.strs[i], k.desc, now, desc),
					k.parent.witness(map[string]any{"function": f.name, "returned": k.strs[i], "returned_object_later": now, "first_evaluation": k.desc, "later_evaluation": desc, "later_parent": p.witness(nil)}))
				break
			}
		}
	}
	if len(v.bigs) > 0 {
		k := &drvKept{parent: p, bigs: v.bigs, desc: desc}
		for _, b := range v.bigs {
			k.strs = append(k.strs, entStr(b))
		}
		n.kept[f.name] = k
	}
	n.last[f.name] = p.ID
	n.note(fmt.Sprintf("#%d %s(parent #%d gap=%d) = %s", x.seq, f.name, p.ID, p.Gap, v.s))
	p.nEval[f.name]++
	if f.name == "CalcDifficulty" && p.Gap > params.MaxTimeDiffBetweenBlocks && p.Number[2] >= 2 {
		x.sh.mu.Lock()
		x.sh.slowEval[p.ID]++
		if p.Kind == "real-slow" {
			x.sh.realSlow[p.ID]++
		}
		x.sh.mu.Unlock()
	}
	if !has {
		p.ref[f.name], p.refHow[f.name] = v.s, desc
		m.Eval(fmt.Sprintf("%s:gap=%s:first", f.name, p.bucket()), fmt.Sprintf("%x", p.Hash))
		return
	}
	m.Eval(fmt.Sprintf("%s:gap=%s:%s", f.name, p.bucket(), kind), fmt.Sprintf("%x/%d", p.Hash, x.seq))
	if p.Kind == "real-slow" {
		m.Eval(fmt.Sprintf("real-gap:%s:%s", f.name, kind), fmt.Sprintf("%x/%d", p.Hash, x.seq))
	}
	if v.s != ref {
		x.unstable(p, f.name, kind, ref, v.s, desc, n.log)
	}
}

func (x *drvRun) unstable(p *drvParent, fn, kind, ref, got, desc string, hist []string) {
	x.m.Violation(fmt.Sprintf("derived-value-depends-on-evaluation-history:%s:%s:gap=%s", fn, kind, p.bucket()),
		fmt.Sprintf("%s of %s: %s on its first evaluation (%s), %s on %s", fn, p.describe(), ref, p.refHow[fn], got, desc),
		p.witness(map[string]any{"function": fn, "reference": ref, "reference_evaluation": p.refHow[fn], "observed": got, "observed_evaluation": desc, "comparison": kind,
			"last_evaluations_on_that_node": append([]string(nil), hist...)}))
}

// evalAll evaluates every applicable derivation for p, starting at a PRNG-chosen function.
func (x *drvRun) evalAll(n *drvNode, p *drvParent, stored bool) {
	rot := x.rng.Intn(len(x.fns))
	for i := range x.fns {
		x.evalOne(n, p, x.fns[(i+rot)%len(x.fns)], stored)
	}
}

func (x *drvRun) shuffled() []*drvParent {
	ps := append([]*drvParent(nil), x.parents...)
	x.rng.Shuffle(len(ps), func(i, j int) { ps[i], ps[j] = ps[j], ps[i] })
	return ps
}

// aliasProbe: the result is written to (+1 on every returned big.Int) and the function evaluated again on a fresh
// argument. Only on arguments nobody else holds: a derivation may hand out a field of the argument it was given.
func (x *drvRun) aliasProbe(p *drvParent, f *drvFn) {
	v1, _, ok := drvCall(x.ln.hcs, f, p, false)
	if !ok || len(v1.bigs) == 0 {
		return
	}
	wrote := 0
	for _, b := range v1.bigs {
		if b == nil {
			continue
		}
		if c := drvSharedConstant(b); c != "" {
			x.sh.mu.Lock()
			x.sh.consts[f.name+" returns "+c]++
			x.sh.mu.Unlock()
			continue
		}
		b.Add(b, big.NewInt(1))
		wrote++
	}
	if wrote == 0 {
		x.m.Eval("alias-shared-protocol-constant:"+f.name, fmt.Sprintf("%x", p.Hash))
		return
	}
	v2, _, ok := drvCall(x.ln.hcs, f, p, false)
	if !ok {
		return
	}
	x.seq++
	x.ln.last[f.name] = p.ID
	x.m.Eval(fmt.Sprintf("alias:%s:gap=%s", f.name, p.bucket()), fmt.Sprintf("%x/%d", p.Hash, x.seq))
	if v2.s != v1.s {
		x.m.Violation("derived-value-aliases-internal-state:"+f.name,
			fmt.Sprintf("%s of %s returned %s; after the caller added 1 to the returned big.Int(s) the next evaluation (fresh argument) returns %s", f.name, p.describe(), v1.s, v2.s),
			p.witness(map[string]any{"function": f.name, "first": v1.s, "after_writing_to_the_result": v2.s}))
	}
	if ref, has := p.ref[f.name]; has && v1.s != ref {
		x.unstable(p, f.name, "after-other-parent", ref, v1.s, fmt.Sprintf("evaluation before the aliasing probe, on %s", x.ln.label), x.ln.log)
	}
}

// ---------------------------------------------------------------- real blocks

func (x *drvRun) timeOf(h common.Hash) (uint64, bool) {
	if p := x.byHash[h]; p != nil {
		return p.Time, true
	}
	return 0, false
}

func (x *drvRun) mine(k, want int) *drvParent {
	if want == common.PRIME_CTX && x.lastPrime < 2 {
		want = common.ZONE_CTX
	}
	heads := x.live.Heads()
	mm, _, err := x.live.MineWithShares(heads, k, want, 600, x.rng)
	if err != nil {
		if mm != nil && mm.AppendErr != nil {
			pb := "none"
			var pw map[string]any
			if pp := x.byHash[mm.Parent[2]]; pp != nil {
				pb, pw = pp.bucket(), pp.witness(nil)
			}
			w := map[string]any{"net": x.netIdx, "order": mm.Order, "number": mm.Number, "error": err.Error(), "parent": pw}
			for ctx := mm.Order; ctx < 3; ctx++ {
				w["wire_"+ctxName[ctx]] = mon.Short(mm.Wire[ctx], 1<<15)
			}
			x.m.Violation(fmt.Sprintf("own-block-rejected:order%d:parent-gap=%s:%s", mm.Order, pb, errClass(mm.AppendErr)),
				fmt.Sprintf("%s: the node refuses the block it mined on its own pending header (parent gap bucket %s): %v", x.tag, pb, mm.AppendErr), w)
			x.dead = true
			return nil
		}
		x.fail("mine: %v", err)
		return nil
	}
	if mm.Order == common.PRIME_CTX {
		x.lastPrime = 0
	} else {
		x.lastPrime++
	}
	return x.addReal(mm)
}

func (x *drvRun) addReal(mm *hnet.Mined) *drvParent {
	p := &drvParent{ID: int(x.sh.nextID.Add(1)), Net: x.netIdx, Kind: "real", Hash: mm.Hash, Base: mm.Hash, Order: mm.Order, Number: mm.Number, ChildPTN: -1, Gap: -1}
	var views [3]*types.WorkObject
	for lvl := mm.Order; lvl < 3; lvl++ {
		v, err := entDecode(mm.Wire[lvl], lvl)
		if err != nil || v.Hash() != mm.Hash {
			x.fail("decode of own wire bytes: %v", err)
			return nil
		}
		p.View[lvl], p.Levels[lvl], views[lvl] = mm.Wire[lvl], true, v
	}
	p.Time = views[2].Time()
	if pt, ok := x.timeOf(mm.Parent[2]); ok && mm.Parent[2] != x.live.GenHash {
		p.Gap = int64(p.Time) - int64(pt) // (a child of the genesis block has no gap: the genesis header time is not a block time)
	}
	if p.Gap > params.MaxTimeDiffBetweenBlocks {
		p.Kind = "real-slow"
	}
	x.blocks++
	x.gapHist[p.bucket()]++
	x.register(p)
	// the parent's derivations that need the child header's prime terminus number, then the recorded fields
	if zp := x.byHash[mm.Parent[2]]; zp != nil {
		if zp.ChildPTN < 0 {
			zp.ChildPTN, zp.child = int64(views[2].PrimeTerminusNumber().Uint64()), mm.Hash
			x.evalAll(x.ln, zp, false)
			x.evalAll(x.ln, zp, true)
		}
		x.recorded(p, views, zp)
	}
	// first evaluations of the new block as a parent: before any child of it exists
	x.evalAll(x.ln, p, false)
	x.evalAll(x.ln, p, true)
	if o := x.parents[x.rng.Intn(len(x.parents))]; o != p {
		x.evalAll(x.ln, o, x.rng.Intn(2) == 0)
		x.evalAll(x.ln, p, x.rng.Intn(2) == 0)
	}
	// the second node
	err := x.fol.Follow(mm)
	stage := "append"
	if err == nil {
		err = x.fol.Settle()
		stage = "execute"
	}
	if err != nil {
		x.m.Violation(fmt.Sprintf("second-node-rejects-block:%s:order%d:parent-gap=%s:%s", stage, mm.Order, drvBucketOf(x.byHash[mm.Parent[2]]), errClass(err)),
			fmt.Sprintf("%s: a second node given the wire bytes of every block refuses (%s) block %v that the mining node appended: %v", x.tag, stage, mm.Hash.Hex(), err), p.witness(map[string]any{"error": err.Error()}))
		x.dead = true
		return p
	}
	if zp := x.byHash[mm.Parent[2]]; zp != nil && zp.child == mm.Hash {
		x.evalAll(x.fn, zp, true)
	}
	x.evalAll(x.fn, p, true)
	x.evalAll(x.fn, p, false)
	return p
}

func drvBucketOf(p *drvParent) string {
	if p == nil {
		return "none"
	}
	return p.bucket()
}

// recorded: the fields the accepted child carries against the values derived from its parent (first evaluation on the
// mining node; every other evaluation is compared with that one).
func (x *drvRun) recorded(c *drvParent, views [3]*types.WorkObject, zp *drvParent) {
	m := x.m
	z := views[2]
	cmp := func(par *drvParent, fn, field, have string) {
		want, ok := par.ref[fn]
		if !ok {
			return
		}
		m.Eval("recorded:"+field+":parent-gap="+par.bucket(), fmt.Sprintf("%x", c.Hash))
		if have != want {
			m.Violation(fmt.Sprintf("recorded-field-differs-from-derived:%s:order%d:parent-gap=%s", field, c.Order, par.bucket()),
				fmt.Sprintf("accepted block %v (order %d) records %s = %s; %s of its parent gave %s (%s)", c.Hash.Hex(), c.Order, field, have, fn, want, par.refHow[fn]),
				c.witness(map[string]any{"field": field, "recorded": have, "derived": want, "function": fn, "parent_record": par.witness(nil)}))
		}
	}
	three := func(d *types.PowShareDiffAndCount) string {
		return entStr(d.Difficulty()) + "|" + entStr(d.Count()) + "|" + entStr(d.Uncled())
	}
	cmp(zp, "CalcDifficulty", "difficulty", entStr(z.Difficulty()))
	cmp(zp, "CalcBaseFee", "baseFee", entStr(z.BaseFee()))
	cmp(zp, "CalcGasLimit", "gasLimit", fmt.Sprint(z.GasLimit()))
	cmp(zp, "CalcStateLimit", "stateLimit", fmt.Sprint(z.StateLimit()))
	cmp(zp, "ComputeExpansionNumber", "expansionNumber", fmt.Sprintf("%d err=<nil>", z.ExpansionNumber()))
	if z.PrimeTerminusNumber().Uint64() >= params.KawPowForkBlock {
		wh := z.WorkObjectHeader()
		cmp(zp, "CalculatePowDiffAndCount:sha", "shaDiffAndCount", three(wh.ShaDiffAndCount()))
		cmp(zp, "CalculatePowDiffAndCount:scrypt", "scryptDiffAndCount", three(wh.ScryptDiffAndCount()))
		cmp(zp, "CalculateShareTarget", "shaShareTarget", entStr(wh.ShaShareTarget()))
		cmp(zp, "CalculateShareTarget", "scryptShareTarget", entStr(wh.ScryptShareTarget()))
		cmp(zp, "CalculateKawpowDifficulty", "kawpowDifficulty", entStr(wh.KawpowDifficulty()))
	}
	if c.Order == common.PRIME_CTX && views[0] != nil {
		if pp := x.byHash[views[0].ParentHash(common.PRIME_CTX)]; pp != nil {
			pv := views[0]
			cmp(pp, "ComputeMinerDifficulty", "minerDifficulty", entStr(pv.MinerDifficulty()))
			if pp.Kind != "genesis" {
				cmp(pp, "ComputeEfficiencyScore", "efficiencyScore", fmt.Sprintf("%d err=<nil>", pv.EfficiencyScore()))
				cmp(pp, "UpdateEtxEligibleSlices", "etxEligibleSlices", pv.EtxEligibleSlices().Hex())
			}
		}
	}
}

// ---------------------------------------------------------------- synthetic parents

// drvSeal grinds a nonce so that the PoW of wh meets its declared difficulty (blake3: mix||sealHash||nonce; the result
// is confirmed with the production engine).
func (x *drvRun) seal(wh *types.WorkObjectHeader) bool {
	if wh.Difficulty() == nil || wh.Difficulty().Sign() <= 0 {
		return false
	}
	target := new(big.Int).Div(big2e256, wh.Difficulty())
	var buf [72]byte
	copy(buf[:32], wh.MixHash().Bytes())
	copy(buf[32:64], wh.SealHash().Bytes())
	nonce := x.rng.Uint64()
	for i := 0; i < 20_000_000; i++ {
		nonce++
		binary.BigEndian.PutUint64(buf[64:], nonce)
		sum := blake3.Sum256(buf[:])
		if new(big.Int).SetBytes(sum[:]).Cmp(target) > 0 {
			continue
		}
		wh.SetNonce(types.EncodeNonce(nonce))
		ph, err := x.live.Engine.ComputePowHash(wh)
		return err == nil && ph == common.Hash(sum)
	}
	return false
}

// synth copies every stored view of base, applies mut (the same on every level) and the new header time, rebinds the
// header hash, reseals, and stores the result under its new hash on both nodes. zoneOnly: only the zone view.
func (x *drvRun) synth(base *drvParent, kind, variant string, newTime *uint64, zoneOnly bool, mut func(b *types.WorkObject)) *drvParent {
	var cp [3]*types.WorkObject
	for lvl := 0; lvl < 3; lvl++ {
		if !base.Levels[lvl] || (zoneOnly && lvl != 2) {
			continue
		}
		b := base.fresh(lvl)
		if b == nil {
			continue
		}
		if mut != nil {
			mut(b)
		}
		if newTime != nil {
			b.WorkObjectHeader().SetTime(*newTime)
		}
		b.WorkObjectHeader().SetHeaderHash(b.Header().Hash())
		cp[lvl] = b
	}
	if cp[2] == nil || !x.seal(cp[2].WorkObjectHeader()) {
		x.m.Trivial()
		return nil
	}
	p := &drvParent{ID: int(x.sh.nextID.Add(1)), Net: x.netIdx, Kind: kind, Variant: variant, Hash: cp[2].Hash(), Base: base.Hash, ChildPTN: base.ChildPTN, Gap: -1}
	if x.byHash[p.Hash] != nil {
		return nil
	}
	for lvl := 0; lvl < 3; lvl++ {
		if cp[lvl] == nil {
			continue
		}
		cp[lvl].WorkObjectHeader().SetNonce(cp[2].Nonce())
		data, err := pb.ConvertAndMarshal(cp[lvl].ConvertToBlockView())
		if err != nil {
			continue
		}
		rt, err := entDecode(data, lvl)
		if err != nil || rt.Hash() != p.Hash {
			continue // (the views of one block share the header; anything else is not stored)
		}
		termini := rawdb.ReadTermini(x.live.Nodes[lvl].DB, base.Hash)
		if termini == nil {
			continue
		}
		// production writers: the mining node through Slice.WriteBlock (what it does with a gossiped block: block cache
		// and database), the second node through rawdb only
		x.live.Nodes[lvl].Core.Slice().WriteBlock(rt)
		rawdb.WriteTermini(x.live.Nodes[lvl].DB, p.Hash, *termini)
		rt2, _ := entDecode(data, lvl)
		rawdb.WriteWorkObject(x.fol.Nodes[lvl].DB, p.Hash, rt2, types.BlockObject, lvl)
		rawdb.WriteTermini(x.fol.Nodes[lvl].DB, p.Hash, *termini)
		p.View[lvl], p.Levels[lvl] = data, true
		p.Number[lvl] = rt.NumberU64(lvl)
	}
	if !p.Levels[2] {
		x.m.Trivial()
		return nil
	}
	z := p.fresh(2)
	p.Time = z.Time()
	for lvl := 0; lvl < 2; lvl++ {
		p.Number[lvl] = z.NumberU64(lvl)
	}
	if pt, ok := x.timeOf(z.ParentHash(common.ZONE_CTX)); ok {
		p.Gap = int64(p.Time) - int64(pt)
	}
	if _, o, err := x.ln.hcs[2].CalcOrder(z); err == nil {
		p.Order = o
	} else {
		p.Order = -1
	}
	for _, n := range []*drvNode{x.ln, x.fn} {
		if h := n.hcs[2].GetHeaderByHash(p.Hash); h == nil || h.Hash() != p.Hash {
			x.fail("synthetic parent %x is not readable on %s after it was stored", p.Hash.Bytes()[:4], n.label)
			return nil
		}
	}
	x.synthetic++
	x.register(p)
	return p
}

type drvMut struct {
	name string
	ok   func(b *types.WorkObject, base *drvParent) bool
	mut  func(b *types.WorkObject)
}

func (x *drvRun) fieldMuts(base *drvParent) []drvMut {
	anyB := func(b *types.WorkObject, base *drvParent) bool { return true }
	post := func(b *types.WorkObject, base *drvParent) bool { return drvHasShareFields(b.WorkObjectHeader()) }
	prime := func(b *types.WorkObject, base *drvParent) bool { return base.Levels[0] }
	mulB := func(v *big.Int, k int64) *big.Int { return new(big.Int).Mul(v, big.NewInt(k)) }
	var otherPrime common.Hash
	for _, p := range x.parents {
		if p.Kind == "real" && p.Order == common.PRIME_CTX && p.Hash != base.Hash {
			if z := base.fresh(2); z != nil && z.PrimeTerminusHash() != p.Hash {
				otherPrime = p.Hash
			}
		}
	}
	var unknown common.Hash
	x.rng.Read(unknown[:])
	ms := []drvMut{
		{"difficulty*3", anyB, func(b *types.WorkObject) { b.WorkObjectHeader().SetDifficulty(mulB(b.Difficulty(), 3)) }},
		{"difficulty+1", anyB, func(b *types.WorkObject) {
			b.WorkObjectHeader().SetDifficulty(new(big.Int).Add(b.Difficulty(), big.NewInt(1)))
		}},
		{"gasLimit=0", anyB, func(b *types.WorkObject) { b.Header().SetGasLimit(0) }},
		{"gasLimit+1", anyB, func(b *types.WorkObject) { b.Header().SetGasLimit(b.GasLimit() + 1) }},
		{"stateLimit=0", anyB, func(b *types.WorkObject) { b.Header().SetStateLimit(0) }},
		{"stateLimit+7", anyB, func(b *types.WorkObject) { b.Header().SetStateLimit(b.StateLimit() + 7) }},
		{"zoneNumber=1", func(b *types.WorkObject, base *drvParent) bool { return b.NumberU64(2) > 1 }, func(b *types.WorkObject) { b.SetNumber(big.NewInt(1), common.ZONE_CTX) }},
		{"primeTerminus=unknown", anyB, func(b *types.WorkObject) { b.Header().SetPrimeTerminusHash(unknown) }},
		{"shaCount*2+1", post, func(b *types.WorkObject) {
			d := b.WorkObjectHeader().ShaDiffAndCount()
			b.WorkObjectHeader().SetShaDiffAndCount(types.NewPowShareDiffAndCount(d.Difficulty(), new(big.Int).Add(mulB(d.Count(), 2), big.NewInt(1)), d.Uncled()))
		}},
		{"scryptDifficulty*3", post, func(b *types.WorkObject) {
			d := b.WorkObjectHeader().ScryptDiffAndCount()
			b.WorkObjectHeader().SetScryptDiffAndCount(types.NewPowShareDiffAndCount(mulB(d.Difficulty(), 3), d.Count(), d.Uncled()))
		}},
		{"shaShareTarget=max", post, func(b *types.WorkObject) {
			b.WorkObjectHeader().SetShaShareTarget(new(big.Int).Set(params.MaxShaShares))
		}},
		{"kawpowDifficulty/2", post, func(b *types.WorkObject) {
			b.WorkObjectHeader().SetKawpowDifficulty(new(big.Int).Div(b.WorkObjectHeader().KawpowDifficulty(), big.NewInt(2)))
		}},
		{"efficiencyScore=77", prime, func(b *types.WorkObject) { b.Header().SetEfficiencyScore(77) }},
		{"thresholdCount=1", prime, func(b *types.WorkObject) { b.Header().SetThresholdCount(1) }},
		{"minerDifficulty*2", prime, func(b *types.WorkObject) { b.Header().SetMinerDifficulty(mulB(b.MinerDifficulty(), 2)) }},
		{"exchangeRate*2", prime, func(b *types.WorkObject) { b.Header().SetExchangeRate(mulB(b.ExchangeRate(), 2)) }},
		{"uncledDelta=delta/3+1", prime, func(b *types.WorkObject) {
			b.Header().SetParentUncledDeltaEntropy(new(big.Int).Add(new(big.Int).Div(b.ParentDeltaEntropy(common.ZONE_CTX), big.NewInt(3)), big.NewInt(1)), common.ZONE_CTX)
		}},
		{"kQuaiDiscount=5", prime, func(b *types.WorkObject) { b.Header().SetKQuaiDiscount(big.NewInt(5)) }},
		{"conversionFlow*3", prime, func(b *types.WorkObject) { b.Header().SetConversionFlowAmount(mulB(b.ConversionFlowAmount(), 3)) }},
		{"primeNumber=1", func(b *types.WorkObject, base *drvParent) bool { return base.Levels[0] && b.NumberU64(0) > 1 }, func(b *types.WorkObject) { b.SetNumber(big.NewInt(1), common.PRIME_CTX) }},
	}
	if otherPrime != (common.Hash{}) {
		op := otherPrime
		ms = append(ms, drvMut{"primeTerminus=another-prime-block", anyB, func(b *types.WorkObject) { b.Header().SetPrimeTerminusHash(op) }})
	}
	return ms
}

// family builds the synthetic parents of one base block.
func (x *drvRun) family(base *drvParent, withFields bool) {
	z := base.fresh(2)
	if z == nil {
		return
	}
	pt, ok := x.timeOf(z.ParentHash(common.ZONE_CTX))
	if !ok {
		return
	}
	var fam []*drvParent
	for _, g := range drvGaps {
		t := pt + uint64(g)
		if s := x.synth(base, "synthetic-time", fmt.Sprintf("time = its parent's + %d s", g), &t, false, nil); s != nil {
			fam = append(fam, s)
		}
		if x.failed {
			return
		}
	}
	x.families[base.Hash] = fam
	// chained: a copy of the base block's real child on top of a synthetic copy of the base block
	if c := x.byHash[base.child]; c != nil && len(fam) > 0 {
		for k := 0; k < 3; k++ {
			s1 := fam[x.rng.Intn(len(fam))]
			g2 := drvGaps[x.rng.Intn(len(drvGaps))]
			if k == 0 {
				g2 = 101
			}
			t := s1.Time + uint64(g2)
			h := s1.Hash
			x.synth(c, "synthetic-chain", fmt.Sprintf("parent = synthetic parent #%d (itself %d s after its parent), time = that parent's + %d s", s1.ID, s1.Gap, g2), &t, true,
				func(b *types.WorkObject) { b.SetParentHash(h, common.ZONE_CTX) })
		}
	}
	if !withFields {
		return
	}
	for _, mu := range x.fieldMuts(base) {
		if !mu.ok(z, base) {
			continue
		}
		g := drvGaps[x.rng.Intn(len(drvGaps))]
		t := pt + uint64(g)
		x.synth(base, "synthetic-field", fmt.Sprintf("%s, time = its parent's + %d s", mu.name, g), &t, false, mu.mut)
		if x.failed {
			return
		}
	}
}

// boundCheck: the protocol bounds the time difference used by the difficulty rule (params.MaxTimeDiffBetweenBlocks):
// copies of one block that differ only in a header time at or beyond the bound derive the same difficulty.
func (x *drvRun) boundCheck() {
	for base, fam := range x.families {
		var at *drvParent
		for _, s := range fam {
			if s.Gap == params.MaxTimeDiffBetweenBlocks {
				at = s
			}
		}
		if at == nil {
			continue
		}
		cands := append([]*drvParent(nil), fam...)
		if b := x.byHash[base]; b != nil && b.Gap > params.MaxTimeDiffBetweenBlocks {
			cands = append(cands, b) // a real block found more than 100 s after its parent against its own copy at the bound
		}
		for _, s := range cands {
			if s.Gap <= params.MaxTimeDiffBetweenBlocks {
				continue
			}
			for _, fn := range []string{"CalcDifficulty", "Prepare"} {
				a, okA := at.ref[fn]
				b, okB := s.ref[fn]
				if !okA || !okB {
					continue
				}
				x.m.Eval(fmt.Sprintf("time-bound:%s:gap=%s:%s", fn, s.bucket(), strings.SplitN(s.Kind, "-", 2)[0]), fmt.Sprintf("%x", s.Hash))
				if a != b {
					x.m.Violation(fmt.Sprintf("difficulty-time-bound-not-applied:%s:gap=%s", fn, s.bucket()),
						fmt.Sprintf("%s: %s for %s; %s for its copy whose header time is exactly %d s (the protocol's bound) after the same parent (%s)", fn, b, s.describe(), a, params.MaxTimeDiffBetweenBlocks, at.describe()),
						s.witness(map[string]any{"function": fn, "value": b, "value_at_the_bound": a, "copy_at_the_bound": at.witness(nil)}))
				}
			}
		}
	}
}

// ---------------------------------------------------------------- accepted fields stay acceptable

// makeSibling: a never-stored copy of accepted block c with a new nonce (every level's view).
func (x *drvRun) makeSibling(c *drvParent, first bool) {
	if c == nil || c.Kind == "genesis" || !strings.HasPrefix(c.Kind, "real") || c.sibling != nil {
		return
	}
	z := c.fresh(2)
	if z == nil || !x.seal(z.WorkObjectHeader()) {
		return
	}
	s := &drvSibling{ID: len(x.siblings), Of: c.Hash, Hash: z.Hash(), First: first}
	if zp := x.byHash[z.ParentHash(common.ZONE_CTX)]; zp != nil {
		s.Bucket = zp.bucket()
	} else {
		s.Bucket = "none"
	}
	for lvl := 0; lvl < 3; lvl++ {
		b := c.fresh(lvl)
		if b == nil {
			continue
		}
		b.WorkObjectHeader().SetNonce(z.Nonce())
		data, err := pb.ConvertAndMarshal(b.ConvertToBlockView())
		if err != nil {
			continue
		}
		if rt, err := entDecode(data, lvl); err != nil || rt.Hash() != s.Hash {
			continue
		}
		s.View[lvl], s.Levels[lvl] = data, true
	}
	if !s.Levels[2] {
		return
	}
	c.sibling = s
	x.siblings = append(x.siblings, s)
}

func drvVerifySibling(hcs [3]*core.HeaderChain, s *drvSibling, lvl int) (string, bool) {
	if !s.Levels[lvl] {
		return "", false
	}
	b, err := entDecode(s.View[lvl], lvl)
	if err != nil {
		return "", false
	}
	if err := hcs[lvl].VerifyHeader(b); err != nil {
		return err.Error(), true
	}
	return "", true
}

func (x *drvRun) siblingRefused(s *drvSibling, lvl int, kind, where, errs string) {
	c := x.byHash[s.Of]
	w := map[string]any{"accepted_block": s.Of.Hex(), "copy": s.Hash.Hex(), "ctx": ctxName[lvl], "error": errs, "copy_view": mon.Short(s.View[lvl], 1<<15)}
	if c != nil {
		w["accepted_block_record"] = c.witness(nil)
		if zp := x.byHash[c.fresh(2).ParentHash(common.ZONE_CTX)]; zp != nil {
			w["parent_record"] = zp.witness(nil)
		}
	}
	x.m.Violation(fmt.Sprintf("accepted-header-fields-later-refused:%s:%s:parent-gap=%s", errClass(fmt.Errorf("%s", errs)), kind, s.Bucket),
		fmt.Sprintf("block %v was accepted by the mining node; HeaderChain.VerifyHeader at the %s level of %s refuses a never-stored copy that differs in the nonce only: %s", s.Of.Hex(), ctxName[lvl], where, errs), w)
}

func (x *drvRun) verifySiblings(n *drvNode, kind string) {
	for _, s := range x.siblings {
		for lvl := 0; lvl < 3; lvl++ {
			errs, ok := drvVerifySibling(n.hcs, s, lvl)
			if !ok {
				continue
			}
			x.m.Eval(fmt.Sprintf("acceptance:%s:parent-gap=%s", kind, s.Bucket), fmt.Sprintf("%x/%d/%d", s.Hash, lvl, x.seq))
			x.seq++
			if errs != "" {
				x.siblingRefused(s, lvl, kind, n.label, errs)
			}
		}
	}
}

// ---------------------------------------------------------------- restart: same process, fresh process

func (x *drvRun) restartCheck() {
	var dbs [3]ethdb.Database
	for lvl := 0; lvl < 3; lvl++ {
		if x.live.Nodes[lvl].MemDB == nil {
			return
		}
		dbs[lvl] = hnet.WrapMem(hnet.CopyMem(x.live.Nodes[lvl].MemDB, x.live.Logger), hnet.Locs[lvl])
	}
	opts := x.opts
	opts.DBs = dbs
	n2, err := hnet.New(opts)
	if err != nil {
		x.fail("reopen: %v", err)
		return
	}
	defer n2.Stop()
	x.restarts++
	rn := newDrvNode("cores opened on copies of the mining node's databases (same process)", "restart", n2)
	for _, p := range x.shuffled() {
		x.evalAll(rn, p, true)
		x.evalAll(rn, p, false)
	}
	x.verifySiblings(rn, "restart")
}

type drvJob struct {
	Tag        string
	Seed       int64
	WalletSeed int64
	DB         [3]string
	Parents    []*drvParent
	Siblings   []*drvSibling
	Out        string
}

type drvChildOut struct {
	Values   map[int]map[string][]string // parent id -> function -> values in evaluation order
	Siblings map[int]map[int]string      // sibling id -> level -> error ("" accepted)
	Order    []int
	Err      string
}

const drvEnvJob = "VERIF_C09_DERIVED_JOB"

func drvDump(path string, it ethdb.Iterator) error {
	f, err := os.Create(path)
	if err != nil {
		return err
	}
	defer f.Close()
	var l [4]byte
	for it.Next() {
		for _, b := range [][]byte{it.Key(), it.Value()} {
			binary.BigEndian.PutUint32(l[:], uint32(len(b)))
			f.Write(l[:])
			f.Write(b)
		}
	}
	it.Release()
	return nil
}

// childProcess: a fresh OS process opens cores on dumps of the mining node's databases and evaluates every parent in
// its own order. Whatever goes wrong with the process itself makes the run inconclusive, never a violation.
func (x *drvRun) childProcess() {
	if x.noChildRun {
		return
	}
	dir := filepath.Join(x.workDir, x.tag)
	os.MkdirAll(dir, 0o755)
	job := &drvJob{Tag: x.tag, Seed: x.m.Seed(), WalletSeed: x.walletSeed, Parents: x.parents, Siblings: x.siblings, Out: filepath.Join(dir, "out.json")}
	for lvl := 0; lvl < 3; lvl++ {
		job.DB[lvl] = filepath.Join(dir, fmt.Sprintf("l%d.db", lvl))
		if err := drvDump(job.DB[lvl], x.live.Nodes[lvl].DB.NewIterator(nil, nil)); err != nil {
			x.m.Inconclusive("fresh process: cannot dump the database: " + err.Error())
			return
		}
	}
	jb, err := json.Marshal(job)
	if err != nil {
		x.m.Inconclusive("fresh process: " + err.Error())
		return
	}
	jp := filepath.Join(dir, "job.json")
	os.WriteFile(jp, jb, 0o644)
	bin := os.Getenv("VERIF_BIN")
	if bin == "" {
		bin, _ = os.Executable()
	}
	lf, _ := os.Create(filepath.Join(dir, "child.log"))
	defer lf.Close()
	cmd := exec.Command(bin, "-test.run", "^TestC09DerivedChild$", "-test.count", "1", "-test.timeout", "0")
	cmd.Dir = dir
	for _, e := range os.Environ() {
		if !strings.HasPrefix(e, "VERIF_OUT=") {
			cmd.Env = append(cmd.Env, e)
		}
	}
	cmd.Env = append(cmd.Env, drvEnvJob+"="+jp)
	cmd.Stdout, cmd.Stderr = lf, lf
	if err := cmd.Start(); err != nil {
		x.m.Inconclusive("fresh process: cannot start: " + err.Error())
		return
	}
	done := make(chan error, 1)
	go func() { done <- cmd.Wait() }()
	select {
	case <-done:
	case <-time.After(10 * time.Minute): // watchdog only
		cmd.Process.Kill()
		<-done
		x.m.Inconclusive("fresh process (" + x.tag + "): watchdog expired")
		return
	}
	ob, err := os.ReadFile(job.Out)
	var out drvChildOut
	if err == nil {
		err = json.Unmarshal(ob, &out)
	}
	if err != nil || out.Err != "" {
		x.m.Inconclusive(fmt.Sprintf("fresh process (%s): no result (%v %s), see %s", x.tag, err, out.Err, filepath.Join(dir, "child.log")))
		return
	}
	x.sh.mu.Lock()
	x.sh.children++
	x.sh.mu.Unlock()
	where := "cores opened in a fresh OS process on dumps of the mining node's databases"
	for _, p := range x.parents {
		for fn, vals := range out.Values[p.ID] {
			ref, has := p.ref[fn]
			if !has {
				continue
			}
			for i, v := range vals {
				x.seq++
				x.m.Eval(fmt.Sprintf("%s:gap=%s:restart", fn, p.bucket()), fmt.Sprintf("%x/child/%d", p.Hash, i))
				x.m.Eval(fmt.Sprintf("fresh-process:%s", fn), fmt.Sprintf("%x/%d", p.Hash, i))
				if p.Kind == "real-slow" {
					x.m.Eval(fmt.Sprintf("real-gap:%s:restart", fn), fmt.Sprintf("%x/child/%d", p.Hash, i))
				}
				if v != ref {
					x.unstable(p, fn, "restart", ref, v, fmt.Sprintf("evaluation %d of this parent on %s (its evaluation order, by parent id: %v)", i+1, where, out.Order), nil)
				}
			}
		}
	}
	for _, s := range x.siblings {
		for lvl, errs := range out.Siblings[s.ID] {
			x.m.Eval(fmt.Sprintf("acceptance:restart:parent-gap=%s", s.Bucket), fmt.Sprintf("%x/child/%d", s.Hash, lvl))
			x.m.Eval("fresh-process:acceptance", fmt.Sprintf("%x/%d", s.Hash, lvl))
			if errs != "" {
				x.siblingRefused(s, lvl, "restart", where, errs)
			}
		}
	}
}

// ---------------------------------------------------------------- the passes over all parents of a net

func (x *drvRun) passes() {
	if x.failed || x.dead {
		return
	}
	// mining node: every parent twice in a row, in a fresh order; then the aliasing probes
	for _, p := range x.shuffled() {
		x.evalAll(x.ln, p, false)
		x.evalAll(x.ln, p, x.rng.Intn(2) == 0)
	}
	for _, p := range x.shuffled() {
		for _, f := range x.fns {
			x.aliasProbe(p, f)
		}
	}
	for _, p := range x.shuffled() {
		x.evalAll(x.ln, p, true)
	}
	x.ln.dropCaches()
	for _, p := range x.shuffled() {
		x.evalAll(x.ln, p, x.rng.Intn(2) == 0)
		x.evalAll(x.ln, p, true)
	}
	x.verifySiblings(x.ln, "mining-node")
	// the second node, its own order
	for _, p := range x.shuffled() {
		x.evalAll(x.fn, p, false)
	}
	x.fn.dropCaches()
	for _, p := range x.shuffled() {
		x.evalAll(x.fn, p, true)
	}
	x.verifySiblings(x.fn, "second-node")
	x.restartCheck()
	if x.failed {
		return
	}
	x.childProcess()
	// and once more on the mining node, after everything every other node of this process did
	for _, p := range x.shuffled() {
		x.evalAll(x.ln, p, x.rng.Intn(2) == 0)
	}
	x.ln.dropCaches()
	for _, p := range x.shuffled() {
		x.evalAll(x.ln, p, false)
	}
	x.verifySiblings(x.ln, "mining-node")
	x.boundCheck()
	for _, p := range x.parents {
		if p.Gap > params.MaxTimeDiffBetweenBlocks || p.Kind == "synthetic-field" {
			x.m.SampleClass(x.tag+":"+p.Kind+":gap="+p.bucket(), map[string]any{"parent": p.describe(), "values": p.ref, "evaluations_of_CalcDifficulty": p.nEval["CalcDifficulty"]})
		}
	}
}

// ---------------------------------------------------------------- scenarios

// drvCycle: (shares ground on the step's pending header, wanted order)
var drvCycle = [][2]int{{0, -1}, {0, 2}, {1, 2}, {0, 1}, {1, 2}, {0, 0}, {0, 2}, {2, 2}, {0, 1}, {1, 0}, {0, 2}, {0, -1}}

// synthNet: a history across the KawPow fork; synthetic families on bases of every regime.
func (x *drvRun) synthNet(idx, blocks, bases int) {
	if !x.newNet(idx) {
		return
	}
	defer x.stopNets()
	for i := 0; i < blocks && !x.dead && !x.failed; i++ {
		c := drvCycle[i%len(drvCycle)]
		k := c[0]
		if i < 3 {
			k = 0
		}
		p := x.mine(k, c[1])
		if p != nil && i%3 == 2 {
			x.makeSibling(p, false)
		}
	}
	if x.dead || x.failed {
		return
	}
	// bases: real blocks with a real child and a non-genesis parent; at least two prime-order ones, both sides of the fork
	var cand, primes, pre, post []*drvParent
	for _, p := range x.parents {
		if p.Kind != "real" || p.Number[2] < 2 || p.child == (common.Hash{}) {
			continue
		}
		cand = append(cand, p)
		if p.Order == common.PRIME_CTX {
			primes = append(primes, p)
		}
		if z := p.fresh(2); z != nil && drvHasShareFields(z.WorkObjectHeader()) {
			post = append(post, p)
		} else {
			pre = append(pre, p)
		}
	}
	pick := map[int]*drvParent{}
	take := func(from []*drvParent, k int) {
		for i := 0; i < k && len(from) > 0; i++ {
			p := from[x.rng.Intn(len(from))]
			pick[p.ID] = p
		}
	}
	take(primes, 2)
	take(pre, 1)
	take(post, 2)
	for tries := 0; len(pick) < bases && tries < 100 && len(cand) > 0; tries++ {
		take(cand, 1)
	}
	ids := make([]int, 0, len(pick))
	for id := range pick {
		ids = append(ids, id)
	}
	sort.Ints(ids)
	// a low-numbered block too: its grandparent is the genesis block
	for _, p := range x.parents {
		if p.Kind == "real" && p.Number[2] == 1 {
			x.family(p, false)
		}
	}
	for _, id := range ids {
		x.family(pick[id], true)
		if x.failed {
			return
		}
	}
	x.passes()
}

// realGapNet: the faithful variant. Twice, the net stays idle until the wall clock is more than 100 s past the head's
// header time; the block mined then is a parent whose own parent is more than 100 s older.
func (x *drvRun) realGapNet(idx, slow int) {
	if !x.newNet(idx) {
		return
	}
	defer x.stopNets()
	for i := 0; i < 3 && !x.dead && !x.failed; i++ {
		x.mine(0, -1)
	}
	var slows []*drvParent
	for s := 0; s < slow && !x.dead && !x.failed; s++ {
		head := x.live.Heads()[2]
		target := int64(head.Time()) + params.MaxTimeDiffBetweenBlocks + 1
		deadline := time.Now().Add(150 * time.Second) // watchdog
		for time.Now().Unix() < target {
			if time.Now().After(deadline) {
				x.m.Inconclusive("real-gap net: the wall clock did not pass the head's time + 101 s within the watchdog")
				return
			}
			time.Sleep(200 * time.Millisecond)
		}
		var sp *drvParent
		for tries := 0; tries < 3 && sp == nil && !x.dead && !x.failed; tries++ {
			// (a pending header built before the pause may be handed out once more: then the next block is the slow one)
			if p := x.mine(0, -1); p != nil && p.Gap > params.MaxTimeDiffBetweenBlocks {
				sp = p
			}
		}
		if sp == nil {
			if !x.dead && !x.failed {
				x.m.Inconclusive("real-gap net: no block more than 100 s after its parent was obtained")
			}
			return
		}
		slows = append(slows, sp)
		// the slow parent several times, between other parents, before its child exists
		for r := 0; r < 2; r++ {
			o := x.parents[x.rng.Intn(len(x.parents))]
			x.evalAll(x.ln, o, r == 0)
			x.evalAll(x.ln, sp, r == 1)
		}
		for _, earlier := range slows {
			x.evalAll(x.ln, earlier, false)
		}
		// its child: the miner's Prepare and the same node's verifyHeader meet
		c := x.mine(1, -1)
		if c == nil {
			break
		}
		x.makeSibling(c, true)
		x.makeSibling(x.mine(0, -1), false)
	}
	if x.dead || x.failed {
		return
	}
	for _, sp := range slows {
		x.family(sp, false)
	}
	if len(x.parents) > 3 {
		x.family(x.parents[3], false)
	}
	x.passes()
}

func TestC09Derived(t *testing.T) {
	m := mon.New(t, "C09", "derived")
	defer m.Finish()
	m.Rule("Every parent-derived expectation the node computes (CalcDifficulty, HeaderChain.Prepare, CalcBaseFee, core.CalcGasLimit, misc.CalcStateLimit, ComputeExpansionNumber, CalculatePowDiffAndCount sha/scrypt, CalculateShareTarget, CalculateKawpowDifficulty, CalculateKawpowShareDiff in the zone; " +
		"ComputeEfficiencyScore, ComputeMinerDifficulty, UpdateEtxEligibleSlices, ComputeKQuaiDiscount, ComputeConversionFlowAmount, CalculateBetaFromMiningChoiceAndConversions, misc.CalculateKQuai in prime) is a function of the parent: for one parent the rendered result is identical on the first evaluation on the mining node, " +
		"again at once (warm-repeat), after other parents (after-other-parent), after VerifDropCaches (after-cache-drop), on a second node fed the wire bytes (second-node), on cores opened on copies of the databases in this process and in a fresh OS process (restart), in PRNG-chosen orders that differ per node, with the node's own object and with a freshly decoded object as the argument. " +
		"Parents: real blocks of histories across the KawPow fork, real blocks mined more than 100 s of wall time after their parent (twice in one net), and resealed synthetic copies of stored blocks (header time 0..10^6 s after the parent, chained, single fields changed) stored with the production writers on both nodes. " +
		"Also: adding 1 to a returned big.Int does not change the next result; every accepted child records the value derived from its parent before the child existed; a nonce-only copy of an accepted block passes VerifyHeader on every node later on and in a fresh process; " +
		"copies that differ only in a header time at or beyond params.MaxTimeDiffBetweenBlocks derive the same difficulty")
	m.Assume("blake3 PoW at difficulty ~4000, hnet's compressed timeline with the KawPow fork and k-quai reset at prime block 4 (AuxPow-less blocks inside the transition period), miner-difficulty window 3, BlocksPerMonth 12 (gas / state limit: zero below block 2, minimum, ramp from block 6, ceiling from block 24), single slice",
		"synthetic parents are arguments only: they are never appended; their gap bucket is the header time minus the zone parent's header time (also for the prime-context functions)",
		"derivations that hand out an exported protocol constant (params.*, common.Big*) are counted (extra: returns_shared_protocol_constant), the probe does not write into those",
		"GetKQuaiAndUpdateBit (reads executed zone state, sends chain events on failure) and the token-choice-set path of the exchange rate (needs 4000 prime blocks) are not evaluated",
		"package-level state is shared by every node of one OS process: only the fresh-process comparison separates it; a watchdog that expires makes the run inconclusive",
		"pending headers carry time.Now(): histories are not reproducible from the seed, witnesses are the recorded block views")
	restore := drvApplyRegime()
	defer restore()

	work := os.Getenv("VERIF_WORK")
	if work == "" {
		work = t.TempDir()
	}
	work = filepath.Join(work, "c09-derived")
	os.RemoveAll(work)
	os.MkdirAll(work, 0o755)
	sh := &drvShared{slowEval: map[int]int{}, realSlow: map[int]int{}, consts: map[string]int{}}
	newRun := func(tag string) *drvRun {
		x := &drvRun{t: t, m: m, sh: sh, rng: m.Rand("c09-derived-" + tag), tag: tag, fns: drvFns(), fnByName: map[string]*drvFn{}, gapHist: map[string]int{}, workDir: work}
		for _, f := range x.fns {
			x.fnByName[f.name] = f
		}
		return x
	}
	// The real-gap net sleeps 2 x 101 s of wall time. The synthetic parents (time-shifted copies of stored
	// blocks) take the same clamp path and are what the quick tier relies on; the faithful variant runs in the
	// thorough tier (or in quick with VERIF_C09_REALGAP=1).
	realGap := os.Getenv("VERIF_C09_NO_REALGAP") == "" && (m.Thorough() || os.Getenv("VERIF_C09_REALGAP") != "")
	var wg sync.WaitGroup
	rg := newRun("realgap")
	t0 := time.Now()
	if realGap {
		wg.Add(1)
		go func() {
			defer wg.Done()
			rg.realGapNet(100, m.N(2, 3))
		}()
	}
	nets := m.N(2, 8)
	var runs []*drvRun
	for ni := 0; ni < nets; ni++ {
		x := newRun(fmt.Sprintf("net%d", ni+1))
		runs = append(runs, x)
		x.synthNet(ni+1, m.N(34, 80), m.N(6, 12))
		if x.failed {
			break
		}
	}
	m.Extra("synthetic_part_wall_s", time.Since(t0).Seconds())
	wg.Wait()
	runs = append(runs, rg)

	blocks, synth, restarts := 0, 0, 0
	gaps := map[string]int{}
	for _, x := range runs {
		blocks, synth, restarts = blocks+x.blocks, synth+x.synthetic, restarts+x.restarts
		for k, v := range x.gapHist {
			gaps[k] += v
		}
	}
	m.Extra("real_blocks", int64(blocks))
	m.Extra("real_blocks_by_gap_bucket", fmt.Sprint(gaps))
	m.Extra("synthetic_parents", int64(synth))
	m.Extra("restarts_in_process", int64(restarts))
	m.Extra("fresh_processes", int64(sh.children))
	m.Extra("returns_shared_protocol_constant", fmt.Sprint(sh.consts))
	twice, realTwice := 0, 0
	for _, n := range sh.slowEval {
		if n >= 2 {
			twice++
		}
	}
	for _, n := range sh.realSlow {
		if n >= 2 {
			realTwice++
		}
	}
	m.Extra("parents_gap_over_100s_CalcDifficulty_twice", int64(twice))
	m.Extra("real_parents_gap_over_100s_CalcDifficulty_twice", int64(realTwice))
	if twice < 2 {
		m.Inconclusive(fmt.Sprintf("CalcDifficulty was evaluated at least twice for only %d parents more than 100 s after their own parent (floor 2)", twice))
	}
	if realGap && realTwice < 2 {
		m.Inconclusive(fmt.Sprintf("real-gap net: CalcDifficulty was evaluated at least twice for only %d real parents mined more than 100 s after their own parent (floor 2)", realTwice))
	}
	if sh.children < nets {
		m.Inconclusive(fmt.Sprintf("only %d fresh-process comparisons", sh.children))
	}
	m.Floor(int64(m.N(20000, 100000)), 300)
	var need []string
	grid := func(fns []string, buckets []string) {
		for _, f := range fns {
			for _, b := range buckets {
				for _, k := range drvKinds {
					need = append(need, fmt.Sprintf("%s:gap=%s:%s", f, b, k))
				}
			}
		}
	}
	grid([]string{"CalcDifficulty", "Prepare", "CalcBaseFee", "CalcGasLimit", "CalcStateLimit", "ComputeExpansionNumber", "CalculateKawpowShareDiff",
		"CalculatePowDiffAndCount:sha", "CalculatePowDiffAndCount:scrypt", "CalculateShareTarget", "CalculateKawpowDifficulty",
		"ComputeEfficiencyScore", "ComputeMinerDifficulty", "UpdateEtxEligibleSlices", "ComputeKQuaiDiscount", "ComputeConversionFlowAmount", "CalculateBetaFromMiningChoiceAndConversions", "CalculateKQuai"}, drvBuckets)
	for _, b := range drvBuckets {
		need = append(need, "alias:CalcDifficulty:gap="+b, "alias:Prepare:gap="+b, "alias:CalcBaseFee:gap="+b)
	}
	need = append(need, "alias:ComputeMinerDifficulty:gap=<=1s", "alias:CalculateKQuai:gap=<=1s", "alias:CalculatePowDiffAndCount:sha:gap=<=1s", "alias:CalculateKawpowDifficulty:gap=<=1s",
		"recorded:difficulty:parent-gap=<=1s", "recorded:baseFee:parent-gap=<=1s", "recorded:gasLimit:parent-gap=<=1s", "recorded:stateLimit:parent-gap=<=1s", "recorded:expansionNumber:parent-gap=<=1s",
		"recorded:shaDiffAndCount:parent-gap=<=1s", "recorded:scryptDiffAndCount:parent-gap=<=1s", "recorded:shaShareTarget:parent-gap=<=1s", "recorded:kawpowDifficulty:parent-gap=<=1s",
		"recorded:minerDifficulty:parent-gap=<=1s", "recorded:efficiencyScore:parent-gap=<=1s", "recorded:etxEligibleSlices:parent-gap=<=1s",
		"acceptance:mining-node:parent-gap=<=1s", "acceptance:second-node:parent-gap=<=1s", "acceptance:restart:parent-gap=<=1s", "fresh-process:acceptance", "fresh-process:CalcDifficulty",
		"time-bound:CalcDifficulty:gap=101..1000:synthetic", "time-bound:CalcDifficulty:gap=>1000:synthetic", "time-bound:Prepare:gap=101..1000:synthetic")
	if realGap {
		for _, k := range drvKinds {
			need = append(need, "real-gap:CalcDifficulty:"+k, "real-gap:Prepare:"+k)
		}
		need = append(need, "recorded:difficulty:parent-gap=101..1000", "acceptance:mining-node:parent-gap=101..1000", "acceptance:second-node:parent-gap=101..1000", "acceptance:restart:parent-gap=101..1000",
			"time-bound:CalcDifficulty:gap=101..1000:real")
	} else {
		m.Assume("quick tier: parents more than 100 s after their own parent are time-shifted copies of stored blocks; the net that really idles 101 s twice runs in the thorough tier")
	}
	m.Need(need...)
}
