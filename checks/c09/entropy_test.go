//go:build verif

// C09, stage "entropy" — entropy and order of accepted blocks are functions of
// the block, not of the evaluating node's history.
//
// hnet histories in which zone blocks carry work shares (ground at the
// work-share threshold and handed in through ReceiveWorkShare/SendWorkShare,
// so the worker includes them as uncles), with zone-, region- and prime-order
// blocks, competing branches and reorgs. For every appended block, at every
// level that appends it:
//
//  1. every entropy/order function of the acceptance path (CalcOrder,
//     TotalLogEntropy, DeltaLogEntropy, UncledDeltaLogEntropy, UncledLogEntropy,
//     WorkShareLogEntropy, HeaderIntrinsicLogEntropy, CalcRank) returns the same
//     value on repeated calls on the mining node (interleaved with evaluations
//     of other blocks, on the stored object and on the block decoded again from
//     its wire bytes), after HeaderChain.VerifDropCaches, on a second net that
//     received the blocks by wire, on that net after a cache drop, and on cores
//     opened on copies of the databases;
//  2. the recorded ParentEntropy(ctx) (and parent delta / uncled delta, and the
//     zone body's UncledEntropy) equals what the cold node computes for the
//     parent; the accumulated entropy of a zone-order block is its parent's
//     plus its own intrinsic entropy (recomputed from the seal through the PoW
//     engine) plus that of its shares; the delta entropy of a block equals the
//     accumulated entropy gained since the last dominant-coincident ancestor;
//  3. accumulated entropy strictly increases from parent to child in every
//     context, also on abandoned branches;
//  4. CalcOrder agrees on all those nodes, across levels, with the order the
//     block was appended at, and — for never-stored resealed siblings that
//     differ in nonce / expansion number / recorded deltas — between a warm and
//     a cold cache.
package c09

import (
	"fmt"
	"math/big"
	"math/rand"
	"sort"
	"strings"
	"testing"

	"github.com/dominant-strategies/go-quai/common"
	"github.com/dominant-strategies/go-quai/core"
	"github.com/dominant-strategies/go-quai/core/types"
	"github.com/dominant-strategies/go-quai/ethdb"
	"github.com/dominant-strategies/go-quai/p2p/pb"

	"verif/internal/hnet"
	"verif/internal/mon"
)

// entVals: function name -> rendered result. Keys starting with "_" are parts
// of a result kept for arithmetic, they are not compared on their own.
type entVals map[string]string

var entFuncs = []string{"CalcOrder", "TotalLogEntropy", "DeltaLogEntropy", "UncledDeltaLogEntropy", "UncledLogEntropy", "WorkShareLogEntropy", "HeaderIntrinsicLogEntropy", "CalcRank"}

func entStr(v *big.Int) string {
	if v == nil {
		return "nil"
	}
	return v.String() // rendered at once: a returned *big.Int may be the cache's own object
}

func entBig(s string) *big.Int {
	v, ok := new(big.Int).SetString(s, 10)
	if !ok {
		return nil
	}
	return v
}

// entEval calls the functions in an order that starts at position rot, so that
// every pair of functions is met in both call orders over a run.
func entEval(hc *core.HeaderChain, b *types.WorkObject, lvl, order, rot int) entVals {
	v := entVals{}
	n := len(entFuncs)
	for i := 0; i < n; i++ {
		switch fn := entFuncs[((i+rot)%n+n)%n]; fn {
		case "CalcOrder":
			intr, o, err := hc.CalcOrder(b)
			v[fn] = fmt.Sprintf("order=%d intrinsic=%s err=%v", o, entStr(intr), err)
			v["_order"], v["_intr"] = fmt.Sprint(o), entStr(intr)
		case "TotalLogEntropy":
			v[fn] = entStr(hc.TotalLogEntropy(b))
		case "DeltaLogEntropy":
			v[fn] = entStr(hc.DeltaLogEntropy(b))
		case "UncledDeltaLogEntropy":
			v[fn] = entStr(hc.UncledDeltaLogEntropy(b))
		case "UncledLogEntropy":
			if lvl == common.ZONE_CTX {
				v[fn] = entStr(hc.UncledLogEntropy(b))
			}
		case "WorkShareLogEntropy":
			if lvl == common.ZONE_CTX {
				ws, err := hc.WorkShareLogEntropy(b)
				v[fn] = fmt.Sprintf("%s err=%v", entStr(ws), err)
				v["_ws"] = entStr(ws)
			}
		case "HeaderIntrinsicLogEntropy":
			x, err := hc.HeaderIntrinsicLogEntropy(b.WorkObjectHeader())
			v[fn] = fmt.Sprintf("%s err=%v", entStr(x), err)
		case "CalcRank":
			if order == common.PRIME_CTX {
				rk, err := hc.CalcRank(b)
				v[fn] = fmt.Sprintf("%d err=%v", rk, err)
			}
		}
	}
	return v
}

func entDecode(data []byte, lvl int) (*types.WorkObject, error) {
	var out interface{}
	if err := pb.UnmarshalAndConvert(data, hnet.Locs[lvl], &out, &types.WorkObjectBlockView{}); err != nil {
		return nil, err
	}
	switch bv := out.(type) {
	case *types.WorkObjectBlockView:
		return bv.WorkObject, nil
	case types.WorkObjectBlockView:
		return bv.WorkObject, nil
	}
	return nil, fmt.Errorf("unexpected decoded type %T", out)
}

func entBucket(shares int) string {
	switch {
	case shares == 0:
		return "0"
	case shares == 1:
		return "1"
	}
	return "2+"
}

type entRec struct {
	net, idx int
	hash     common.Hash
	order    int
	shares   int
	side     bool // mined on a branch that was (or may be) abandoned
	number   [3]uint64
	parent   [3]common.Hash
	wire     [3][]byte
	view     [3]*types.WorkObject // decoded from the wire bytes: the recorded fields
	first    [3]entVals           // first evaluation on the mining node
	cold     [3]entVals           // first evaluation after a cache drop on the node that received the block by wire
	intr     *big.Int             // intrinsic entropy recomputed from the seal (PoW engine, no node cache)
}

type entRun struct {
	t   *testing.T
	m   *mon.M
	rng *rand.Rand

	netIdx    int
	live, fol *hnet.Net
	w         *hnet.Wallet
	opts      hnet.Options
	recs      []*entRec
	byHash    map[common.Hash]*entRec
	step      int
	dead      bool // this net cannot be continued
	failed    bool // harness failure: stop the run
	seq       int
	lastPrime int // steps since the last prime-order block

	blocks       int
	byOrder      [3]int
	shareCarry   [3]int
	kindCarry    map[string]*[3]int // kind -> share-carrying blocks compared, by order
	restarts     int
	reorgs       int
	sharesGround int
	uncleBlocks  int // uncles that are full blocks (entropy above the block threshold)
	domGap       int // dominant-order blocks whose zone-context accumulated entropy is not parent+own+shares
	domGapMax    *big.Int
	siblings     int
}

func (x *entRun) hc(n *hnet.Net, lvl int) *core.HeaderChain {
	return n.Nodes[lvl].Core.Slice().HeaderChain()
}

func (x *entRun) fail(format string, a ...any) {
	x.failed = true
	x.m.Inconclusive("harness: " + fmt.Sprintf(format, a...))
}

func (x *entRun) witness(rec *entRec, more map[string]any) map[string]any {
	w := map[string]any{"net": rec.net, "block": rec.hash.Hex(), "order": rec.order, "number": rec.number, "shares_in_body": rec.shares, "side_branch": rec.side}
	for ctx := rec.order; ctx < 3; ctx++ {
		w["parent_"+ctxName[ctx]] = rec.parent[ctx].Hex()
		w["wire_"+ctxName[ctx]] = mon.Short(rec.wire[ctx], 1<<15)
	}
	if rec.view[2] != nil {
		var us []string
		for _, u := range rec.view[2].Uncles() {
			us = append(us, u.Hash().Hex())
		}
		w["uncles"] = us
	}
	for k, v := range more {
		w[k] = v
	}
	return w
}

// compare reports every function whose result differs between a (the first
// evaluation on the mining node unless stated otherwise) and b.
func (x *entRun) compare(kind string, rec *entRec, lvl int, a, b entVals, what string) {
	x.seq++
	cls := fmt.Sprintf("stable:%s:order%d:shares%s", kind, rec.order, entBucket(rec.shares))
	x.m.Eval(cls, fmt.Sprintf("%x/%d/%d", rec.hash, lvl, x.seq))
	if rec.shares > 0 {
		c := x.kindCarry[kind]
		if c == nil {
			c = &[3]int{}
			x.kindCarry[kind] = c
		}
		c[rec.order]++
	}
	var fns []string
	for fn := range a {
		if !strings.HasPrefix(fn, "_") {
			fns = append(fns, fn)
		}
	}
	sort.Strings(fns)
	for _, fn := range fns {
		bv, ok := b[fn]
		if !ok || bv == a[fn] {
			continue
		}
		x.m.Violation(fmt.Sprintf("entropy-unstable:%s:%s:order%d:shares=%s", fn, kind, rec.order, entBucket(rec.shares)),
			fmt.Sprintf("%s(%v) at the %s level: %s on the first evaluation by the mining node, %s %s", fn, rec.hash.Hex(), ctxName[lvl], a[fn], bv, what),
			x.witness(rec, map[string]any{"function": fn, "ctx": ctxName[lvl], "reference": a[fn], "observed": bv, "comparison": what}))
	}
}

// ---------------------------------------------------------------- net life cycle

func (x *entRun) newNet() bool {
	x.stopNets()
	x.netIdx++
	x.w = hnet.NewWallet(x.rng, 3, 2)
	fund := new(big.Int).Mul(big.NewInt(1e18), big.NewInt(1e6))
	x.opts = hnet.Options{GenAllocs: x.w.GenAllocs(fund), QuaiCoinbase: x.w.Quai[0].Addr, QiCoinbase: x.w.Qi[0].Addr}
	live, err := hnet.New(x.opts)
	if err != nil {
		x.fail("hnet.New: %v", err)
		return false
	}
	x.live = live
	fol, err := hnet.New(x.opts)
	if err != nil {
		x.fail("hnet.New (second net): %v", err)
		return false
	}
	x.fol = fol
	x.recs, x.byHash, x.step, x.dead, x.lastPrime = nil, map[common.Hash]*entRec{}, 0, false, 0
	return true
}

func (x *entRun) stopNets() {
	if x.live != nil {
		x.live.Stop()
		x.live = nil
	}
	if x.fol != nil {
		x.fol.Stop()
		x.fol = nil
	}
}

// traffic: a few Quai transfers so that blocks are not empty.
func (x *entRun) traffic() {
	if x.step < 3 {
		return
	}
	head := x.live.Heads()[2]
	price := new(big.Int).Mul(head.BaseFee(), big.NewInt(3))
	if price.Sign() == 0 {
		price = big.NewInt(3)
	}
	for j := x.rng.Intn(3); j > 0; j-- {
		from, to := x.w.Quai[1], x.w.Quai[2].Addr
		if tx, err := x.w.QuaiTx(from, x.w.NextNonce(from), &to, big.NewInt(1000), 21000, price, nil, nil); err == nil {
			x.live.Zone().Core.TxPool().AddLocal(tx)
		}
	}
	x.live.Zone().Core.TxPool().VerifQuiesce()
}

// mine: one block on the current heads with k shares ground on its pending
// header; observed on the mining node, followed and observed on the second net.
func (x *entRun) mine(k, want int, side, traffic bool) *entRec {
	x.step++
	if traffic {
		x.traffic()
	}
	if want == common.PRIME_CTX && x.lastPrime < 2 {
		want = common.ZONE_CTX // a prime block needs entropy accumulated since the last one
	}
	mm, shares, err := x.live.MineWithShares(x.live.Heads(), k, want, 600, x.rng)
	x.sharesGround += len(shares)
	if err != nil {
		if mm != nil && mm.AppendErr != nil {
			// the miner refuses the block it built from its own pending header
			pshares := -1
			if p := x.byHash[mm.Parent[2]]; p != nil {
				pshares = p.shares
			}
			w := map[string]any{"net": x.netIdx, "order": mm.Order, "number": mm.Number, "error": err.Error(), "parent_zone": mm.Parent[2].Hex(), "parent_shares_in_body": pshares}
			for ctx := mm.Order; ctx < 3; ctx++ {
				w["wire_"+ctxName[ctx]] = mon.Short(mm.Wire[ctx], 1<<15)
			}
			x.m.Violation(fmt.Sprintf("own-block-rejected:order%d:parent-shares=%s:%s", mm.Order, entBucket(pshares), errClass(mm.AppendErr)),
				fmt.Sprintf("net %d step %d: the node refuses the block it mined on its own pending header: %v", x.netIdx, x.step, mm.AppendErr), w)
			x.dead = true
			return nil
		}
		x.fail("mine (net %d step %d): %v", x.netIdx, x.step, err)
		return nil
	}
	if mm.Order == common.PRIME_CTX {
		x.lastPrime = 0
	} else {
		x.lastPrime++
	}
	rec := x.observe(mm, side)
	if rec == nil || x.failed {
		return nil
	}
	x.follow(mm, rec)
	if x.dead || x.failed {
		return rec
	}
	if rec.idx%4 == 1 {
		x.siblingProbes(rec)
	}
	return rec
}

// ---------------------------------------------------------------- the mining node

func (x *entRun) olderAt(lvl int) *entRec {
	var cand []*entRec
	for _, r := range x.recs {
		if r.order <= lvl && r.first[lvl] != nil {
			cand = append(cand, r)
		}
	}
	if len(cand) == 0 {
		return nil
	}
	return cand[x.rng.Intn(len(cand))]
}

// recheck evaluates an earlier block again on the mining node.
func (x *entRun) recheck(rec *entRec, lvl int, what string) {
	blk := x.live.Block(lvl, rec.hash)
	if blk == nil || rec.first[lvl] == nil {
		return
	}
	v := entEval(x.hc(x.live, lvl), blk, lvl, rec.order, x.rng.Intn(len(entFuncs)))
	x.compare("warm-vs-repeat", rec, lvl, rec.first[lvl], v, what)
}

func (x *entRun) observe(mm *hnet.Mined, side bool) *entRec {
	m := x.m
	rec := &entRec{net: x.netIdx, idx: len(x.recs), hash: mm.Hash, order: mm.Order, side: side, number: mm.Number, parent: mm.Parent, wire: mm.Wire}
	for lvl := mm.Order; lvl < 3; lvl++ {
		v, err := entDecode(mm.Wire[lvl], lvl)
		if err != nil {
			x.fail("decode of own wire bytes: %v", err)
			return nil
		}
		rec.view[lvl] = v
	}
	rec.shares = len(rec.view[2].Uncles())
	x.blocks++
	x.byOrder[rec.order]++
	if rec.shares > 0 {
		x.shareCarry[rec.order]++
	}
	// intrinsic entropy from the seal, through the PoW engine only
	ph, err := x.live.Engine.ComputePowHash(types.CopyWorkObjectHeader(rec.view[2].WorkObjectHeader()))
	if err != nil {
		x.fail("ComputePowHash: %v", err)
		return nil
	}
	rec.intr = common.IntrinsicLogEntropy(ph)
	target := new(big.Int).Div(big2e256, rec.view[2].Difficulty())
	for _, u := range rec.view[2].Uncles() {
		if uh, err := x.live.Engine.ComputePowHash(types.CopyWorkObjectHeader(u)); err == nil && new(big.Int).SetBytes(uh.Bytes()).Cmp(target) <= 0 {
			x.uncleBlocks++
		}
	}

	type lo struct {
		lvl         int
		order, intr string
	}
	var seen []lo
	for lvl := rec.order; lvl < 3; lvl++ {
		hc := x.hc(x.live, lvl)
		blk := x.live.Block(lvl, rec.hash)
		if blk == nil {
			x.fail("appended block %x not readable at level %d", rec.hash.Bytes()[:4], lvl)
			return nil
		}
		rot := x.rng.Intn(len(entFuncs))
		v1 := entEval(hc, blk, lvl, rec.order, rot)
		if p := x.byHash[rec.parent[lvl]]; p != nil {
			x.recheck(p, lvl, "when evaluated again after its child was appended")
		}
		v2 := entEval(hc, blk, lvl, rec.order, rot+3)
		if o := x.olderAt(lvl); o != nil {
			x.recheck(o, lvl, "when evaluated again later on the same node")
		}
		v3 := entEval(hc, rec.view[lvl], lvl, rec.order, rot+5)
		rec.first[lvl] = v1
		x.compare("warm-vs-repeat", rec, lvl, v1, v2, "on the second evaluation by the same node")
		x.compare("warm-vs-repeat", rec, lvl, v1, v3, "on the same node for the block decoded again from its wire bytes")
		m.Eval(fmt.Sprintf("order:append-vs-calc:order%d", rec.order), fmt.Sprintf("%x/%d", rec.hash, lvl))
		if v1["_order"] != fmt.Sprint(rec.order) {
			m.Violation(fmt.Sprintf("order-differs-from-append-order:order%d:shares=%s", rec.order, entBucket(rec.shares)),
				fmt.Sprintf("block %v was appended as order %d, CalcOrder at the %s level says %s", rec.hash.Hex(), rec.order, ctxName[lvl], v1["CalcOrder"]), x.witness(rec, map[string]any{"ctx": ctxName[lvl]}))
		}
		if x.rng.Intn(2) == 0 {
			hc.VerifDropCaches()
			v4 := entEval(hc, blk, lvl, rec.order, rot+1)
			v5 := entEval(hc, rec.view[lvl], lvl, rec.order, rot+6)
			x.compare("warm-vs-cold", rec, lvl, v1, v4, "on the same node after VerifDropCaches")
			x.compare("warm-vs-cold", rec, lvl, v1, v5, "on the same node after VerifDropCaches, second evaluation")
		}
		seen = append(seen, lo{lvl, v1["_order"], v1["_intr"]})
	}
	for i := 1; i < len(seen); i++ {
		m.Eval("order:cross-level", fmt.Sprintf("%x/%d", rec.hash, i))
		if seen[i].order != seen[0].order || seen[i].intr != seen[0].intr {
			m.Violation(fmt.Sprintf("order-differs-between-levels:order%d", rec.order), fmt.Sprintf("CalcOrder(%v): (%s,%s) at the %s level, (%s,%s) at the %s level", rec.hash.Hex(), seen[0].order, seen[0].intr, ctxName[seen[0].lvl], seen[i].order, seen[i].intr, ctxName[seen[i].lvl]),
				x.witness(rec, nil))
		}
	}
	m.Eval(fmt.Sprintf("intrinsic-from-seal:order%d", rec.order), rec.hash.Hex())
	if seen[len(seen)-1].intr != rec.intr.String() {
		m.Violation(fmt.Sprintf("intrinsic-entropy-differs-from-seal:order%d:shares=%s", rec.order, entBucket(rec.shares)),
			fmt.Sprintf("CalcOrder(%v) reports intrinsic entropy %s; the entropy of its PoW hash is %v", rec.hash.Hex(), seen[len(seen)-1].intr, rec.intr), x.witness(rec, nil))
	}
	x.recs = append(x.recs, rec)
	x.byHash[rec.hash] = rec
	if len(x.recs) <= 3 || (rec.shares > 1 && rec.order < 2 && rec.idx < 40) {
		m.SampleClass(fmt.Sprintf("order%d:shares%s", rec.order, entBucket(rec.shares)), map[string]any{"block": rec.hash.Hex(), "number": rec.number, "values_zone": rec.first[2]})
	}
	return rec
}

// ---------------------------------------------------------------- the net that receives the blocks by wire

// coldOf returns the cold values of the level-lvl parent; nil for genesis.
func (x *entRun) coldParent(rec *entRec, lvl int) (*entRec, entVals) {
	p := x.byHash[rec.parent[lvl]]
	if p == nil || p.cold[lvl] == nil {
		return nil, nil
	}
	return p, p.cold[lvl]
}

func (x *entRun) follow(mm *hnet.Mined, rec *entRec) {
	m := x.m
	err := x.fol.Follow(mm)
	stage := "append"
	if err == nil {
		err = x.fol.Settle()
		stage = "execute"
	}
	if err != nil {
		m.Violation(fmt.Sprintf("second-node-rejects-block:%s:order%d:shares=%s:%s", stage, rec.order, entBucket(rec.shares), errClass(err)),
			fmt.Sprintf("a fresh node given the wire bytes of every block refuses (%s) block %v that the mining node appended: %v", stage, rec.hash.Hex(), err), x.witness(rec, map[string]any{"error": err.Error()}))
		x.dead = true
		return
	}
	for lvl := rec.order; lvl < 3; lvl++ {
		fhc := x.hc(x.fol, lvl)
		fblk := x.fol.Block(lvl, rec.hash)
		if fblk == nil {
			x.fail("followed block %x not readable at level %d", rec.hash.Bytes()[:4], lvl)
			return
		}
		rot := x.rng.Intn(len(entFuncs))
		fv1 := entEval(fhc, fblk, lvl, rec.order, rot)
		x.compare("warm-vs-follower", rec, lvl, rec.first[lvl], fv1, "on a second node that received the blocks by wire")
		fhc.VerifDropCaches()
		fv2 := entEval(fhc, fblk, lvl, rec.order, rot+2)
		x.compare("warm-vs-cold", rec, lvl, rec.first[lvl], fv2, "on a second node that received the blocks by wire, after VerifDropCaches")
		rec.cold[lvl] = fv2
		fv3 := entEval(fhc, rec.view[lvl], lvl, rec.order, rot+5)
		x.compare("warm-vs-follower", rec, lvl, rec.first[lvl], fv3, "on a second node that received the blocks by wire, evaluated again")
	}
	x.recorded(rec)
}

// recorded: (2) recorded parent fields against the cold node's values for the
// parent, (3) strict growth, running sums.
func (x *entRun) recorded(rec *entRec) {
	m := x.m
	ordTag := fmt.Sprintf("order%d", rec.order)
	for lvl := rec.order; lvl < 3; lvl++ {
		hdr := rec.view[lvl]
		p, pc := x.coldParent(rec, lvl)
		pTotal, pDelta, pUncled := big.NewInt(0), big.NewInt(0), big.NewInt(0)
		pOrder, pShares := -1, 0 // genesis: coincident with everything
		var pFirstTotal *big.Int
		if p != nil {
			pTotal, pDelta, pUncled = entBig(pc["TotalLogEntropy"]), entBig(pc["DeltaLogEntropy"]), entBig(pc["UncledDeltaLogEntropy"])
			pOrder, pShares = p.order, p.shares
			pFirstTotal = entBig(p.first[lvl]["TotalLogEntropy"])
			if pTotal == nil || pDelta == nil || pUncled == nil {
				x.fail("unparsable cold values of %x", p.hash.Bytes()[:4])
				return
			}
		} else if x.live.GenHash != rec.parent[lvl] {
			m.Trivial() // parent not observed (cannot happen in these histories)
			continue
		}
		wit := func(more map[string]any) map[string]any {
			w := x.witness(rec, map[string]any{"ctx": ctxName[lvl], "parent_order": pOrder, "parent_shares_in_body": pShares})
			if p != nil {
				w["parent_wire_"+ctxName[lvl]] = mon.Short(p.wire[lvl], 1<<15)
			}
			for k, v := range more {
				w[k] = v
			}
			return w
		}
		key := fmt.Sprintf("%x/%d", rec.hash, lvl)
		m.Eval(fmt.Sprintf("recorded:parent-entropy:ctx-%s:parent-shares%s", ctxName[lvl], entBucket(pShares)), key)
		if hdr.ParentEntropy(lvl).Cmp(pTotal) != 0 {
			m.Violation(fmt.Sprintf("recorded-parent-entropy-mismatch:ctx-%s:%s:parent-shares=%s", ctxName[lvl], ordTag, entBucket(pShares)),
				fmt.Sprintf("appended block %v records ParentEntropy(%s)=%v; a cold node computes accumulated entropy %v for the parent", rec.hash.Hex(), ctxName[lvl], hdr.ParentEntropy(lvl), pTotal),
				wit(map[string]any{"recorded": hdr.ParentEntropy(lvl).String(), "cold_parent_total": pTotal.String()}))
		}
		if lvl > common.PRIME_CTX {
			wantD, wantU := pDelta, pUncled
			if pOrder < lvl {
				wantD, wantU = big.NewInt(0), big.NewInt(0) // parent coincident with the dominant chain: the delta starts again
			}
			m.Eval(fmt.Sprintf("recorded:parent-delta:ctx-%s:parent-shares%s", ctxName[lvl], entBucket(pShares)), key)
			if hdr.ParentDeltaEntropy(lvl).Cmp(wantD) != 0 {
				m.Violation(fmt.Sprintf("recorded-parent-delta-mismatch:ctx-%s:%s:parent-shares=%s", ctxName[lvl], ordTag, entBucket(pShares)),
					fmt.Sprintf("appended block %v records ParentDeltaEntropy(%s)=%v; a cold node computes %v for the parent (parent order %d)", rec.hash.Hex(), ctxName[lvl], hdr.ParentDeltaEntropy(lvl), wantD, pOrder),
					wit(map[string]any{"recorded": hdr.ParentDeltaEntropy(lvl).String(), "cold_parent_delta": wantD.String()}))
			}
			m.Eval(fmt.Sprintf("recorded:parent-uncled-delta:ctx-%s", ctxName[lvl]), key)
			if hdr.ParentUncledDeltaEntropy(lvl).Cmp(wantU) != 0 {
				m.Violation(fmt.Sprintf("recorded-parent-uncled-delta-mismatch:ctx-%s:%s", ctxName[lvl], ordTag),
					fmt.Sprintf("appended block %v records ParentUncledDeltaEntropy(%s)=%v; a cold node computes %v for the parent (parent order %d)", rec.hash.Hex(), ctxName[lvl], hdr.ParentUncledDeltaEntropy(lvl), wantU, pOrder),
					wit(map[string]any{"recorded": hdr.ParentUncledDeltaEntropy(lvl).String(), "cold_parent_uncled_delta": wantU.String()}))
			}
		}
		// (3) strict growth, cold and warm
		cTotal := entBig(rec.cold[lvl]["TotalLogEntropy"])
		wTotal := entBig(rec.first[lvl]["TotalLogEntropy"])
		br := "main"
		if rec.side {
			br = "side-branch"
		}
		m.Eval(fmt.Sprintf("monotone:%s:ctx-%s:%s", ordTag, ctxName[lvl], br), key)
		if cTotal == nil || cTotal.Cmp(pTotal) <= 0 {
			m.Violation(fmt.Sprintf("entropy-not-increasing:%s:ctx-%s:cold", ordTag, ctxName[lvl]),
				fmt.Sprintf("accumulated entropy of appended block %v (%v) is not greater than its %s parent's (%v) on a cold node", rec.hash.Hex(), cTotal, ctxName[lvl], pTotal), wit(nil))
		}
		if pFirstTotal != nil && (wTotal == nil || wTotal.Cmp(pFirstTotal) <= 0) {
			m.Violation(fmt.Sprintf("entropy-not-increasing:%s:ctx-%s:warm", ordTag, ctxName[lvl]),
				fmt.Sprintf("accumulated entropy of appended block %v (%v) is not greater than its %s parent's (%v) on the mining node", rec.hash.Hex(), wTotal, ctxName[lvl], pFirstTotal), wit(nil))
		}
		// delta entropy == accumulated entropy gained since the last ancestor coincident with the dominant chain
		if lvl > common.PRIME_CTX && rec.order == lvl && cTotal != nil {
			anchor := big.NewInt(0)
			hops := 0
			for cur := rec; ; hops++ {
				a := x.byHash[cur.parent[lvl]]
				if a == nil {
					break // genesis
				}
				if a.order < lvl {
					anchor = entBig(a.cold[lvl]["TotalLogEntropy"])
					break
				}
				cur = a
			}
			cDelta := entBig(rec.cold[lvl]["DeltaLogEntropy"])
			if anchor != nil && cDelta != nil {
				m.Eval(fmt.Sprintf("delta-is-gain-since-coincident:ctx-%s:shares%s", ctxName[lvl], entBucket(rec.shares)), key)
				if gain := new(big.Int).Sub(cTotal, anchor); gain.Cmp(cDelta) != 0 {
					m.Violation(fmt.Sprintf("delta-entropy-differs-from-accumulated-gain:ctx-%s:%s:shares=%s", ctxName[lvl], ordTag, entBucket(rec.shares)),
						fmt.Sprintf("block %v at the %s level: DeltaLogEntropy=%v, accumulated entropy gained since the last dominant-coincident ancestor (%d blocks back) = %v", rec.hash.Hex(), ctxName[lvl], cDelta, hops+1, gain), wit(nil))
				}
			}
		}
		if lvl != common.ZONE_CTX {
			continue
		}
		// zone context: uncled entropy of the body, running sum
		cold := rec.cold[lvl]
		m.Eval("recorded:uncled-entropy:shares"+entBucket(rec.shares), key)
		if ue := entBig(cold["UncledLogEntropy"]); ue == nil || hdr.UncledEntropy().Cmp(ue) != 0 {
			m.Violation(fmt.Sprintf("recorded-uncled-entropy-mismatch:%s:shares=%s", ordTag, entBucket(rec.shares)),
				fmt.Sprintf("appended block %v records UncledEntropy=%v; a cold node computes %v for its body", rec.hash.Hex(), hdr.UncledEntropy(), ue), wit(nil))
		}
		ws := entBig(cold["_ws"])
		if ws == nil || cTotal == nil {
			continue
		}
		sum := new(big.Int).Add(pTotal, rec.intr)
		sum.Add(sum, ws)
		if rec.order == common.ZONE_CTX {
			m.Eval("running-sum:zone-order:shares"+entBucket(rec.shares), key)
			if sum.Cmp(cTotal) != 0 {
				m.Violation(fmt.Sprintf("accumulated-entropy-not-parent-plus-own:%s:shares=%s", ordTag, entBucket(rec.shares)),
					fmt.Sprintf("zone-order block %v: accumulated entropy %v; parent's accumulated entropy %v + intrinsic entropy of the seal %v + entropy of its %d shares %v = %v", rec.hash.Hex(), cTotal, pTotal, rec.intr, rec.shares, ws, sum),
					wit(map[string]any{"total": cTotal.String(), "parent_total": pTotal.String(), "intrinsic": rec.intr.String(), "shares_entropy": ws.String()}))
			}
		} else if gap := new(big.Int).Sub(sum, cTotal); gap.Sign() != 0 {
			// not decided by the statement: recorded for the report (the zone view of a dominant-order block
			// takes the dominant chain's accumulated entropy, which does not count the shares of coincident blocks)
			x.domGap++
			if x.domGapMax == nil || gap.CmpAbs(x.domGapMax) > 0 {
				x.domGapMax = gap
			}
		}
	}
}

// ---------------------------------------------------------------- never-stored siblings: order as a function of the header

func (x *entRun) reseal(b *types.WorkObject) bool {
	target := new(big.Int).Div(big2e256, b.Difficulty())
	nonce := x.rng.Uint64()
	for tries := 0; tries < 20_000_000; tries++ {
		nonce++
		b.WorkObjectHeader().SetNonce(types.EncodeNonce(nonce))
		h, err := x.live.Engine.ComputePowHash(b.WorkObjectHeader())
		if err != nil {
			return false
		}
		if new(big.Int).SetBytes(h.Bytes()).Cmp(target) <= 0 {
			return true
		}
	}
	return false
}

func (x *entRun) siblingProbes(rec *entRec) {
	m := x.m
	type variant struct {
		name string
		mut  func(b *types.WorkObject)
	}
	vars := []variant{
		{"nonce", func(b *types.WorkObject) {}},
		{"nonce-again", func(b *types.WorkObject) {}},
		{"expansion-number+1", func(b *types.WorkObject) { b.Header().SetExpansionNumber(b.ExpansionNumber() + 1) }},
		{"expansion-number+2", func(b *types.WorkObject) { b.Header().SetExpansionNumber(b.ExpansionNumber() + 2) }},
		{"parent-delta-zone=0", func(b *types.WorkObject) { b.Header().SetParentDeltaEntropy(big.NewInt(0), common.ZONE_CTX) }},
		{"parent-delta-zone*64", func(b *types.WorkObject) {
			b.Header().SetParentDeltaEntropy(new(big.Int).Mul(new(big.Int).Add(b.ParentDeltaEntropy(common.ZONE_CTX), rec.intr), big.NewInt(64)), common.ZONE_CTX)
		}},
		{"parent-delta-region*64", func(b *types.WorkObject) {
			b.Header().SetParentDeltaEntropy(new(big.Int).Mul(new(big.Int).Add(b.ParentDeltaEntropy(common.REGION_CTX), rec.intr), big.NewInt(64)), common.REGION_CTX)
		}},
	}
	var sibs []*types.WorkObject
	var names []string
	var wires [][]byte
	for _, v := range vars {
		b := types.CopyWorkObject(rec.view[2])
		v.mut(b)
		b.WorkObjectHeader().SetHeaderHash(b.Header().Hash())
		if !x.reseal(b) {
			continue
		}
		// what a peer would receive
		rt, data, err := hnet.WireRoundTrip(b, hnet.ZoneLoc)
		if err != nil || rt.Hash() != b.Hash() {
			m.Trivial()
			continue
		}
		sibs, names, wires = append(sibs, rt), append(names, v.name), append(wires, data)
	}
	lhc, fhc := x.hc(x.live, 2), x.hc(x.fol, 2)
	render := func(hc *core.HeaderChain, b *types.WorkObject) string {
		intr, o, err := hc.CalcOrder(b)
		return fmt.Sprintf("order=%d intrinsic=%s err=%v", o, entStr(intr), err)
	}
	// warm: all siblings one after the other on the mining node, twice
	warm := make([]string, len(sibs))
	for i, b := range sibs {
		warm[i] = render(lhc, b)
	}
	for i := len(sibs) - 1; i >= 0; i-- {
		x.siblings++
		again := render(lhc, sibs[i])
		fhc.VerifDropCaches()
		fresh, err := entDecode(wires[i], 2)
		if err != nil {
			continue
		}
		cold := render(fhc, fresh)
		ph, err := x.live.Engine.ComputePowHash(types.CopyWorkObjectHeader(fresh.WorkObjectHeader()))
		if err != nil {
			continue
		}
		m.Eval("order-function:sibling:"+names[i], sibs[i].Hash().Hex())
		wit := func() map[string]any {
			return x.witness(rec, map[string]any{"variant": names[i], "sibling_wire_zone": mon.Short(wires[i], 1<<15), "sibling": sibs[i].Hash().Hex(), "warm": warm[i], "warm_again": again, "cold": cold})
		}
		if warm[i] != again {
			m.Violation("order-nondeterministic:sibling:"+names[i]+":warm-vs-repeat", fmt.Sprintf("CalcOrder of a resealed sibling of %v (%s): %s, then %s on the same node", rec.hash.Hex(), names[i], warm[i], again), wit())
		}
		if warm[i] != cold {
			m.Violation("order-nondeterministic:sibling:"+names[i]+":warm-vs-cold", fmt.Sprintf("CalcOrder of a resealed sibling of %v (%s): %s on the mining node (evaluated after the original and other siblings), %s on a cold node", rec.hash.Hex(), names[i], warm[i], cold), wit())
		}
		if want := "intrinsic=" + common.IntrinsicLogEntropy(ph).String() + " "; !strings.Contains(cold, want) {
			m.Violation("intrinsic-entropy-differs-from-seal:sibling:"+names[i], fmt.Sprintf("CalcOrder of a resealed sibling of %v (%s) on a cold node: %s; entropy of its PoW hash: %s", rec.hash.Hex(), names[i], cold, want), wit())
		}
	}
}

// ---------------------------------------------------------------- restart, late repeats, forks

func (x *entRun) restartCheck() {
	var dbs [3]ethdb.Database
	for lvl := 0; lvl < 3; lvl++ {
		if x.live.Nodes[lvl].MemDB == nil {
			return
		}
		dbs[lvl] = hnet.WrapMem(hnet.CopyMem(x.live.Nodes[lvl].MemDB, x.live.Logger), hnet.Locs[lvl])
	}
	opts := x.opts
	opts.DBs = dbs
	n2, err := hnet.New(opts)
	if err != nil {
		x.fail("reopen: %v", err)
		return
	}
	defer n2.Stop()
	x.restarts++
	for _, rec := range x.recs {
		for lvl := rec.order; lvl < 3; lvl++ {
			blk := n2.Block(lvl, rec.hash)
			if blk == nil || rec.first[lvl] == nil {
				x.m.Trivial()
				continue
			}
			hc := x.hc(n2, lvl)
			rot := x.rng.Intn(len(entFuncs))
			v := entEval(hc, blk, lvl, rec.order, rot)
			x.compare("warm-vs-restart", rec, lvl, rec.first[lvl], v, "on a core opened on a copy of the databases")
			v2 := entEval(hc, blk, lvl, rec.order, rot+3)
			x.compare("warm-vs-restart", rec, lvl, rec.first[lvl], v2, "on a core opened on a copy of the databases, second evaluation")
		}
	}
}

func (x *entRun) lateRepeat(what string) {
	for _, rec := range x.recs {
		for lvl := rec.order; lvl < 3; lvl++ {
			x.recheck(rec, lvl, what)
		}
	}
}

func (x *entRun) mirrorTips(t [3]*types.WorkObject) bool {
	var ft [3]*types.WorkObject
	for lvl := 0; lvl < 3; lvl++ {
		ft[lvl] = x.fol.Block(lvl, t[lvl].Hash())
		if ft[lvl] == nil {
			x.fail("second net lacks head %x of level %d", t[lvl].Hash().Bytes()[:4], lvl)
			return false
		}
	}
	x.fol.SetTips(ft)
	return true
}

func (x *entRun) switchTo(t [3]*types.WorkObject, what string) bool {
	x.live.SetTips(t)
	if err := x.live.Settle(); err != nil {
		x.fail("switch to %s: %v", what, err)
		return false
	}
	if !x.mirrorTips(t) {
		return false
	}
	if err := x.fol.Settle(); err != nil {
		x.fail("second net: switch to %s: %v", what, err)
		return false
	}
	x.reorgs++
	return true
}

func (x *entRun) randStep() (k, want int) {
	k = []int{0, 1, 1, 2, 2, 3}[x.rng.Intn(6)]
	want = []int{-1, -1, 2, 2, 1, 0}[x.rng.Intn(6)]
	return
}

// forkRound: branch A (shares, natural and wanted orders), back to the
// ancestor, longer branch B, then head switched A -> B once more; everything
// recorded so far is evaluated again after each switch.
func (x *entRun) forkRound() bool {
	anc := x.live.Heads()
	ka := 2 + x.rng.Intn(3)
	for i := 0; i < ka; i++ {
		k, want := x.randStep()
		if i == 0 {
			k = 1 + x.rng.Intn(2) // the second block of the branch carries shares
		}
		if x.mine(k, want, true, false) == nil || x.dead || x.failed {
			return false
		}
	}
	tipsA := x.live.Heads()
	if !x.switchTo(anc, "the fork ancestor") {
		return false
	}
	x.lateRepeat("when evaluated again after the head was rolled back to the fork ancestor")
	for i := 0; i < ka+1; i++ {
		k, want := x.randStep()
		if i == 0 {
			k = 2
		}
		if x.mine(k, want, false, false) == nil || x.dead || x.failed {
			return false
		}
	}
	tipsB := x.live.Heads()
	if !x.switchTo(tipsA, "branch A") {
		return false
	}
	x.lateRepeat("when evaluated again after a reorg to the other branch")
	if !x.switchTo(tipsB, "branch B") {
		return false
	}
	x.lateRepeat("when evaluated again after a reorg back")
	x.m.Eval("reorg-round", fmt.Sprintf("%d/%x", x.netIdx, tipsB[2].Hash()))
	return true
}

// ---------------------------------------------------------------- the check

// entCycle: (shares ground on this step's pending header, wanted order). The
// shares ground at step i are carried by the block of step i+1, so the cycle
// meets every (order) x (0 / 1 / >=2 shares) cell.
var entCycle = [][2]int{
	{1, 2}, {2, 2}, {1, 2}, {3, 1}, {0, 1}, {0, 2}, {1, 1}, {1, 2},
	{2, 0}, {2, 2}, {2, 2}, {0, 0}, {0, 2}, {0, -1}, {1, 0}, {2, -1},
}

func TestC09Entropy(t *testing.T) {
	m := mon.New(t, "C09", "entropy")
	defer m.Finish()
	m.Rule("hnet histories whose zone blocks carry work shares (0 / 1 / >=2 per body) at zone, region and prime order, with competing branches and reorgs. For every appended block at every level that appends it: " +
		"(1) CalcOrder, TotalLogEntropy, DeltaLogEntropy, UncledDeltaLogEntropy, UncledLogEntropy, WorkShareLogEntropy, HeaderIntrinsicLogEntropy, CalcRank return identical results on >=3 calls on the mining node (call order rotated, interleaved with other blocks, stored object and re-decoded wire bytes), later on the same node (after children, reorgs), after VerifDropCaches, on a second net fed the wire bytes (as is and after a cache drop) and on cores opened on copies of the databases; " +
		"(2) recorded ParentEntropy / ParentDeltaEntropy / ParentUncledDeltaEntropy (each context of the block's order) and UncledEntropy equal the cold node's values for the parent / body; accumulated entropy of a zone-order block = parent's + intrinsic entropy of its seal (via the PoW engine) + entropy of its shares; DeltaLogEntropy = accumulated entropy gained since the last dominant-coincident ancestor; " +
		"(3) accumulated entropy strictly increases parent->child in every context on every branch; " +
		"(4) CalcOrder equals the append order, agrees across levels and nodes, its intrinsic entropy is that of the PoW hash, and for never-stored resealed siblings (nonce, expansion number, recorded deltas changed) a warm node agrees with a cold one")
	m.Assume("blake3 PoW at difficulty ~4000, compressed timeline (hnet.DefaultRegime), single slice, pre-KawPow-fork (every share in the body has entropy)",
		"the rule 'parent delta is zero when the parent is coincident with the dominant chain' is taken from the protocol (delta = entropy since the last coincident block)",
		"the zone-context accumulated entropy of a region/prime-order block is not required to be parent+own+shares (the dominant chain's figure does not count shares of coincident blocks): recorded as dom_order_running_sum_gap, not decided",
		"pending headers carry time.Now(): histories are not reproducible from the seed, witnesses are the recorded wire bytes")
	x := &entRun{t: t, m: m, rng: m.Rand("c09-entropy"), kindCarry: map[string]*[3]int{}}
	defer x.stopNets()

	nets := m.N(4, 16)
	tail := m.N(12, 60)
	for ni := 0; ni < nets && !x.failed; ni++ {
		if !x.newNet() {
			break
		}
		// warm-up without shares (shares are accepted from zone block 2 on)
		for i := 0; i < 3 && !x.dead && !x.failed; i++ {
			x.mine(0, -1, false, true)
		}
		for i := 0; i < len(entCycle) && !x.dead && !x.failed; i++ {
			x.mine(entCycle[i][0], entCycle[i][1], false, true)
		}
		if x.dead || x.failed {
			continue
		}
		x.restartCheck()
		if !x.forkRound() {
			continue
		}
		for i := 0; i < tail && !x.dead && !x.failed; i++ {
			k, want := x.randStep()
			x.mine(k, want, false, false)
			if i == tail/2 && ni%2 == 1 && !x.dead && !x.failed {
				x.forkRound()
			}
		}
		if x.dead || x.failed {
			continue
		}
		x.lateRepeat("when evaluated again at the end of the history")
		x.restartCheck()
	}
	m.Extra("blocks_appended", int64(x.blocks))
	m.Extra("blocks_by_order", fmt.Sprintf("prime=%d region=%d zone=%d", x.byOrder[0], x.byOrder[1], x.byOrder[2]))
	m.Extra("share_carrying_blocks_by_order", fmt.Sprintf("prime=%d region=%d zone=%d", x.shareCarry[0], x.shareCarry[1], x.shareCarry[2]))
	m.Extra("shares_ground", int64(x.sharesGround))
	m.Extra("uncles_that_are_full_blocks", int64(x.uncleBlocks))
	m.Extra("restarts", int64(x.restarts))
	m.Extra("head_switches", int64(x.reorgs))
	m.Extra("sibling_headers_probed", int64(x.siblings))
	m.Extra("dom_order_running_sum_gap", int64(x.domGap))
	if x.domGapMax != nil {
		m.Extra("dom_order_running_sum_gap_max", x.domGapMax.String())
	}
	// floors: share-carrying blocks at zone order AND at a dominant-coincident order, in every comparison kind
	for _, kind := range []string{"warm-vs-repeat", "warm-vs-cold", "warm-vs-follower", "warm-vs-restart"} {
		c := x.kindCarry[kind]
		if c == nil {
			c = &[3]int{}
		}
		if c[2] == 0 {
			m.Inconclusive("no share-carrying zone-order block compared (" + kind + ")")
		}
		if c[0]+c[1] == 0 {
			m.Inconclusive("no share-carrying region- or prime-order block compared (" + kind + ")")
		}
	}
	if x.blocks < m.N(120, 900) {
		m.Inconclusive(fmt.Sprintf("only %d blocks appended", x.blocks))
	}
	m.Floor(int64(m.N(4000, 40000)), 60)
	var need []string
	for _, kind := range []string{"warm-vs-repeat", "warm-vs-cold", "warm-vs-follower", "warm-vs-restart"} {
		for _, cell := range []string{"order2:shares0", "order2:shares1", "order2:shares2+", "order1:shares1", "order1:shares2+", "order0:shares0"} {
			need = append(need, "stable:"+kind+":"+cell)
		}
	}
	need = append(need, "recorded:parent-entropy:ctx-zone:parent-shares1", "recorded:parent-entropy:ctx-zone:parent-shares2+", "recorded:parent-entropy:ctx-region:parent-shares0", "recorded:parent-entropy:ctx-prime:parent-shares0",
		"recorded:parent-delta:ctx-zone:parent-shares1", "recorded:uncled-entropy:shares1", "running-sum:zone-order:shares1", "running-sum:zone-order:shares2+",
		"delta-is-gain-since-coincident:ctx-zone:shares1", "delta-is-gain-since-coincident:ctx-region:shares0",
		"monotone:order2:ctx-zone:side-branch", "monotone:order2:ctx-zone:main", "monotone:order1:ctx-region:main", "monotone:order0:ctx-prime:main",
		"order:cross-level", "order:append-vs-calc:order0", "order:append-vs-calc:order1", "order:append-vs-calc:order2",
		"order-function:sibling:nonce", "order-function:sibling:expansion-number+1", "order-function:sibling:parent-delta-zone=0", "reorg-round")
	m.Need(need...)
}
