//go:build verif

package c09

import (
	"fmt"
	"math/big"

	"github.com/dominant-strategies/go-quai/common"
	"github.com/dominant-strategies/go-quai/core/types"
	"github.com/dominant-strategies/go-quai/params"
)

// devEnv is what a deviation may look at: the valid child (per-level views),
// the parent / grandparent of the child in every context the child is
// appended in, and one random hash that is the same for all views.
type devEnv struct {
	o    int
	par  [3]*types.WorkObject
	gpar [3]*types.WorkObject
	rnd  common.Hash
}

// deviation is one single-field change of a valid child header.
//
// ctx is the context whose rule set derives the field from the parent: a
// block of order o is verified in the contexts o..2, so the deviation is
// applied to blocks of order o <= ctx only (at the other orders the field is
// legitimately unconstrained and must not be flagged).
type deviation struct {
	field    string
	dir      string
	ctx      int
	inMemory bool // not representable in the wire encoding before the KawPow fork
	apply    func(e *devEnv, b *types.WorkObject) (orig, mut string, ok bool)
}

func (d deviation) name() string { return d.field + ":" + d.dir }

var ctxName = [3]string{"prime", "region", "zone"}

func bigStep(get func(b *types.WorkObject) *big.Int, set func(b *types.WorkObject, v *big.Int), delta int64) func(e *devEnv, b *types.WorkObject) (string, string, bool) {
	return func(e *devEnv, b *types.WorkObject) (string, string, bool) {
		old := get(b)
		if old == nil {
			return "", "", false
		}
		nv := new(big.Int).Add(old, big.NewInt(delta))
		if nv.Sign() < 0 {
			// a negative value has no encoding (Bytes() drops the sign)
			return "", "", false
		}
		o := old.String()
		set(b, nv)
		return o, nv.String(), true
	}
}

func u64Step(get func(b *types.WorkObject) uint64, set func(b *types.WorkObject, v uint64), f func(uint64) uint64) func(e *devEnv, b *types.WorkObject) (string, string, bool) {
	return func(e *devEnv, b *types.WorkObject) (string, string, bool) {
		old := get(b)
		nv := f(old)
		if nv == old {
			return "", "", false
		}
		set(b, nv)
		return fmt.Sprint(old), fmt.Sprint(nv), true
	}
}

func hashSet(get func(b *types.WorkObject) common.Hash, set func(b *types.WorkObject, v common.Hash), val func(e *devEnv) (common.Hash, bool)) func(e *devEnv, b *types.WorkObject) (string, string, bool) {
	return func(e *devEnv, b *types.WorkObject) (string, string, bool) {
		nv, ok := val(e)
		old := get(b)
		if !ok || nv == old {
			return "", "", false
		}
		set(b, nv)
		return old.Hex(), nv.Hex(), true
	}
}

// deviations builds the list. Every entry changes exactly one header field.
func deviations() []deviation {
	var ds []deviation
	add := func(field, dir string, ctx int, f func(e *devEnv, b *types.WorkObject) (string, string, bool)) {
		ds = append(ds, deviation{field: field, dir: dir, ctx: ctx, apply: f})
	}
	pm := func(field string, ctx int, get func(b *types.WorkObject) *big.Int, set func(b *types.WorkObject, v *big.Int)) {
		add(field, "+1", ctx, bigStep(get, set, 1))
		add(field, "-1", ctx, bigStep(get, set, -1))
	}
	inc := func(v uint64) uint64 { return v + 1 }
	dec := func(v uint64) uint64 { return v - 1 }

	// ---- per-context fields: number, parent hash, parent entropy, deltas
	for c := 0; c < 3; c++ {
		c := c
		pm("number("+ctxName[c]+")", c,
			func(b *types.WorkObject) *big.Int { return b.Number(c) },
			func(b *types.WorkObject, v *big.Int) { b.SetNumber(v, c) })
		add("parentHash("+ctxName[c]+")", "random", c, hashSet(
			func(b *types.WorkObject) common.Hash { return b.ParentHash(c) },
			func(b *types.WorkObject, v common.Hash) { b.SetParentHash(v, c) },
			func(e *devEnv) (common.Hash, bool) { return e.rnd, true }))
		add("parentHash("+ctxName[c]+")", "grandparent", c, hashSet(
			func(b *types.WorkObject) common.Hash { return b.ParentHash(c) },
			func(b *types.WorkObject, v common.Hash) { b.SetParentHash(v, c) },
			func(e *devEnv) (common.Hash, bool) {
				if e.gpar[c] == nil {
					return common.Hash{}, false
				}
				return e.gpar[c].Hash(), true
			}))
		pm("parentEntropy("+ctxName[c]+")", c,
			func(b *types.WorkObject) *big.Int { return b.ParentEntropy(c) },
			func(b *types.WorkObject, v *big.Int) { b.Header().SetParentEntropy(v, c) })
		if c > common.PRIME_CTX {
			// verifyHeader derives the deltas from the parent in region and zone context only
			pm("parentDeltaEntropy("+ctxName[c]+")", c,
				func(b *types.WorkObject) *big.Int { return b.ParentDeltaEntropy(c) },
				func(b *types.WorkObject, v *big.Int) { b.Header().SetParentDeltaEntropy(v, c) })
			pm("parentUncledDeltaEntropy("+ctxName[c]+")", c,
				func(b *types.WorkObject) *big.Int { return b.ParentUncledDeltaEntropy(c) },
				func(b *types.WorkObject, v *big.Int) { b.Header().SetParentUncledDeltaEntropy(v, c) })
		}
	}

	// ---- time (every context compares with its own parent; the zone parent is the latest one)
	add("time", "<parent", common.ZONE_CTX, func(e *devEnv, b *types.WorkObject) (string, string, bool) {
		p := e.par[common.ZONE_CTX]
		if p == nil || p.Time() == 0 {
			return "", "", false
		}
		old := b.Time()
		b.WorkObjectHeader().SetTime(p.Time() - 1)
		return fmt.Sprint(old), fmt.Sprintf("%d (zone parent %d)", p.Time()-1, p.Time()), true
	})
	add("time", "+1h", common.ZONE_CTX, u64Step(
		func(b *types.WorkObject) uint64 { return b.Time() },
		func(b *types.WorkObject, v uint64) { b.WorkObjectHeader().SetTime(v) },
		func(v uint64) uint64 { return v + 3600 }))

	// boundary values of the 64-bit time field: far-future values must be refused whatever their bit pattern
	// (2^63 and above are negative when read as a signed number)
	for _, bv := range []struct {
		name string
		f    func(v uint64) uint64
	}{
		{"+1y", func(v uint64) uint64 { return v + 365*24*3600 }},
		{"=MaxInt64", func(uint64) uint64 { return 1<<63 - 1 }},
		{"=2^63", func(uint64) uint64 { return 1 << 63 }},
		{"=2^63+now", func(v uint64) uint64 { return 1<<63 + v }},
		{"=MaxUint64-1", func(uint64) uint64 { return ^uint64(0) - 1 }},
		{"=MaxUint64", func(uint64) uint64 { return ^uint64(0) }},
	} {
		add("time", bv.name, common.ZONE_CTX, u64Step(
			func(b *types.WorkObject) uint64 { return b.Time() },
			func(b *types.WorkObject, v uint64) { b.WorkObjectHeader().SetTime(v) },
			bv.f))
	}

	// ---- zone-derived fields (every block is verified in zone context)
	z := common.ZONE_CTX
	getDiff := func(b *types.WorkObject) *big.Int { return b.Difficulty() }
	setDiff := func(b *types.WorkObject, v *big.Int) { b.WorkObjectHeader().SetDifficulty(v) }
	pm("difficulty", z, getDiff, setDiff)
	add("difficulty", "x2", z, func(e *devEnv, b *types.WorkObject) (string, string, bool) {
		old := b.Difficulty()
		nv := new(big.Int).Mul(old, big.NewInt(2))
		o := old.String()
		setDiff(b, nv)
		return o, nv.String(), true
	})
	getGL := func(b *types.WorkObject) uint64 { return b.GasLimit() }
	setGL := func(b *types.WorkObject, v uint64) { b.Header().SetGasLimit(v) }
	add("gasLimit", "+1", z, u64Step(getGL, setGL, inc))
	add("gasLimit", "-1", z, func(e *devEnv, b *types.WorkObject) (string, string, bool) {
		if b.GasLimit() == 0 || b.GasLimit()-1 < b.GasUsed() {
			return "", "", false
		}
		return u64Step(getGL, setGL, dec)(e, b)
	})
	add("gasLimit", "x2", z, u64Step(getGL, setGL, func(v uint64) uint64 { return v * 2 }))
	add("gasLimit", "=2^63", z, u64Step(getGL, setGL, func(uint64) uint64 { return 1 << 63 }))
	add("gasLimit", "=MaxUint64", z, u64Step(getGL, setGL, func(uint64) uint64 { return ^uint64(0) }))
	add("gasLimit", "parent*(1+2/1024)", z, func(e *devEnv, b *types.WorkObject) (string, string, bool) {
		// just outside the classic +-1/1024 band around the parent's limit
		p := e.par[z]
		if p == nil || p.GasLimit() == 0 {
			return "", "", false
		}
		nv := p.GasLimit() + 2*(p.GasLimit()/params.GasLimitBoundDivisor)
		if nv == b.GasLimit() {
			return "", "", false
		}
		old := b.GasLimit()
		setGL(b, nv)
		return fmt.Sprint(old), fmt.Sprint(nv), true
	})
	getSL := func(b *types.WorkObject) uint64 { return b.StateLimit() }
	setSL := func(b *types.WorkObject, v uint64) { b.Header().SetStateLimit(v) }
	add("stateLimit", "+1", z, u64Step(getSL, setSL, inc))
	add("stateLimit", "=2^63", z, u64Step(getSL, setSL, func(uint64) uint64 { return 1 << 63 }))
	add("stateLimit", "=MaxUint64", z, u64Step(getSL, setSL, func(uint64) uint64 { return ^uint64(0) }))
	add("stateLimit", "-1", z, func(e *devEnv, b *types.WorkObject) (string, string, bool) {
		if b.StateLimit() == 0 || b.StateLimit()-1 < b.StateUsed() {
			return "", "", false
		}
		return u64Step(getSL, setSL, dec)(e, b)
	})
	pm("baseFee", z,
		func(b *types.WorkObject) *big.Int { return b.BaseFee() },
		func(b *types.WorkObject, v *big.Int) { b.Header().SetBaseFee(v) })
	getPTH := func(b *types.WorkObject) common.Hash { return b.PrimeTerminusHash() }
	setPTH := func(b *types.WorkObject, v common.Hash) { b.Header().SetPrimeTerminusHash(v) }
	add("primeTerminusHash", "random", z, hashSet(getPTH, setPTH, func(e *devEnv) (common.Hash, bool) { return e.rnd, true }))
	add("primeTerminusHash", "zone-parent", z, hashSet(getPTH, setPTH, func(e *devEnv) (common.Hash, bool) {
		if e.par[z] == nil {
			return common.Hash{}, false
		}
		return e.par[z].Hash(), true // skipped by hashSet when this is the legitimate value
	}))
	pm("primeTerminusNumber", z,
		func(b *types.WorkObject) *big.Int { return b.PrimeTerminusNumber() },
		func(b *types.WorkObject, v *big.Int) { b.WorkObjectHeader().SetPrimeTerminusNumber(v) })
	add("expansionNumber", "+1", z, func(e *devEnv, b *types.WorkObject) (string, string, bool) {
		old := b.ExpansionNumber()
		b.Header().SetExpansionNumber(old + 1)
		return fmt.Sprint(old), fmt.Sprint(old + 1), true
	})
	add("location", "zone{0,1}", z, func(e *devEnv, b *types.WorkObject) (string, string, bool) {
		old := b.Location()
		b.WorkObjectHeader().SetLocation(common.Location{0, 1})
		return fmt.Sprint(old), "[0 1]", true
	})
	add("extra", ">max", z, func(e *devEnv, b *types.WorkObject) (string, string, bool) {
		old := b.Extra()
		nv := make([]byte, params.MaximumExtraDataSize+1)
		copy(nv, old)
		b.Header().SetExtra(nv)
		return fmt.Sprintf("len %d", len(old)), fmt.Sprintf("len %d", len(nv)), true
	})
	add("lock", ">max", z, func(e *devEnv, b *types.WorkObject) (string, string, bool) {
		old := b.Lock()
		nv := uint8(len(params.LockupByteToBlockDepth))
		b.WorkObjectHeader().SetLock(nv)
		return fmt.Sprint(old), fmt.Sprint(nv), true
	})
	add("lock", "nonzero-first-two-months", z, func(e *devEnv, b *types.WorkObject) (string, string, bool) {
		if b.NumberU64(z) >= 2*params.BlocksPerMonth || b.Lock() != 0 {
			return "", "", false
		}
		b.WorkObjectHeader().SetLock(1)
		return "0", "1", true
	})
	add("data[0](lock byte)", ">max", z, func(e *devEnv, b *types.WorkObject) (string, string, bool) {
		old := b.Data()
		if len(old) == 0 {
			return "", "", false
		}
		nv := append([]byte{}, old...)
		nv[0] = uint8(len(params.LockupByteToBlockDepth))
		b.WorkObjectHeader().SetData(nv)
		return fmt.Sprint(old[0]), fmt.Sprint(nv[0]), true
	})

	// ---- share-difficulty fields: must be nil before the KawPow fork. They are
	// neither part of the seal nor of the wire encoding before the fork, so the
	// mutant exists in memory only (the path of a locally mined header).
	share := func(field string, f func(b *types.WorkObject) bool) {
		ds = append(ds, deviation{field: field, dir: "non-nil-pre-fork", ctx: z, inMemory: true,
			apply: func(e *devEnv, b *types.WorkObject) (string, string, bool) {
				if b.PrimeTerminusNumber().Uint64() >= params.KawPowForkBlock || !f(b) {
					return "", "", false
				}
				return "nil", "1", true
			}})
	}
	one := func() *big.Int { return big.NewInt(1) }
	share("shaDiffAndCount", func(b *types.WorkObject) bool {
		b.WorkObjectHeader().SetShaDiffAndCount(types.NewPowShareDiffAndCount(one(), one(), one()))
		return true
	})
	share("scryptDiffAndCount", func(b *types.WorkObject) bool {
		b.WorkObjectHeader().SetScryptDiffAndCount(types.NewPowShareDiffAndCount(one(), one(), one()))
		return true
	})
	share("shaShareTarget", func(b *types.WorkObject) bool { b.WorkObjectHeader().SetShaShareTarget(one()); return true })
	share("scryptShareTarget", func(b *types.WorkObject) bool { b.WorkObjectHeader().SetScryptShareTarget(one()); return true })
	share("kawpowDifficulty", func(b *types.WorkObject) bool { b.WorkObjectHeader().SetKawpowDifficulty(one()); return true })

	// ---- prime-derived fields (prime-order blocks only)
	p := common.PRIME_CTX
	u16 := func(field string, get func(b *types.WorkObject) uint16, set func(b *types.WorkObject, v uint16)) {
		add(field, "+1", p, func(e *devEnv, b *types.WorkObject) (string, string, bool) {
			old := get(b)
			set(b, old+1)
			return fmt.Sprint(old), fmt.Sprint(old + 1), true
		})
		add(field, "-1(mod 2^16)", p, func(e *devEnv, b *types.WorkObject) (string, string, bool) {
			old := get(b)
			set(b, old-1)
			return fmt.Sprint(old), fmt.Sprint(old - 1), true
		})
	}
	u16("efficiencyScore", func(b *types.WorkObject) uint16 { return b.EfficiencyScore() }, func(b *types.WorkObject, v uint16) { b.Header().SetEfficiencyScore(v) })
	u16("thresholdCount", func(b *types.WorkObject) uint16 { return b.ThresholdCount() }, func(b *types.WorkObject, v uint16) { b.Header().SetThresholdCount(v) })
	add("etxEligibleSlices", "random", p, hashSet(
		func(b *types.WorkObject) common.Hash { return b.EtxEligibleSlices() },
		func(b *types.WorkObject, v common.Hash) { b.Header().SetEtxEligibleSlices(v) },
		func(e *devEnv) (common.Hash, bool) { return e.rnd, true }))
	pm("minerDifficulty", p,
		func(b *types.WorkObject) *big.Int { return b.MinerDifficulty() },
		func(b *types.WorkObject, v *big.Int) { b.Header().SetMinerDifficulty(v) })
	pm("exchangeRate", p,
		func(b *types.WorkObject) *big.Int { return b.ExchangeRate() },
		func(b *types.WorkObject, v *big.Int) { b.Header().SetExchangeRate(v) })
	pm("kQuaiDiscount", p,
		func(b *types.WorkObject) *big.Int { return b.KQuaiDiscount() },
		func(b *types.WorkObject, v *big.Int) { b.Header().SetKQuaiDiscount(v) })
	pm("conversionFlowAmount", p,
		func(b *types.WorkObject) *big.Int { return b.ConversionFlowAmount() },
		func(b *types.WorkObject, v *big.Int) { b.Header().SetConversionFlowAmount(v) })
	return ds
}
