//go:build verif

// C09, stage "derived" — the fresh OS process of the restart comparison. It is
// started by TestC09Derived (never by a stage on its own): it opens cores on
// dumps of the mining node's databases and evaluates every parent of the job
// in its own order; the values go back to the parent process, which compares.
package c09

import (
	"encoding/binary"
	"encoding/json"
	"fmt"
	"io"
	"math/rand"
	"os"
	"testing"

	"github.com/dominant-strategies/go-quai/ethdb"
	"github.com/dominant-strategies/go-quai/ethdb/memorydb"

	"verif/internal/hnet"
)

func drvLoad(path string, dst *memorydb.Database) error {
	f, err := os.Open(path)
	if err != nil {
		return err
	}
	defer f.Close()
	var l [4]byte
	read := func() ([]byte, error) {
		if _, err := io.ReadFull(f, l[:]); err != nil {
			return nil, err
		}
		b := make([]byte, binary.BigEndian.Uint32(l[:]))
		_, err := io.ReadFull(f, b)
		return b, err
	}
	for {
		k, err := read()
		if err == io.EOF {
			return nil
		}
		if err != nil {
			return err
		}
		v, err := read()
		if err != nil {
			return err
		}
		dst.Put(k, v)
	}
}

func TestC09DerivedChild(t *testing.T) {
	jp := os.Getenv(drvEnvJob)
	if jp == "" {
		t.Skip("helper process of TestC09Derived")
	}
	var job drvJob
	out := &drvChildOut{Values: map[int]map[string][]string{}, Siblings: map[int]map[int]string{}}
	finish := func(err error) {
		if err != nil {
			out.Err = err.Error()
		}
		b, _ := json.Marshal(out)
		tmp := job.Out + ".tmp"
		os.WriteFile(tmp, b, 0o644)
		os.Rename(tmp, job.Out)
	}
	jb, err := os.ReadFile(jp)
	if err == nil {
		err = json.Unmarshal(jb, &job)
	}
	if err != nil {
		t.Fatalf("job: %v", err)
	}
	defer func() {
		if r := recover(); r != nil {
			finish(fmt.Errorf("panic: %v", r))
			panic(r)
		}
	}()
	restore := drvApplyRegime()
	defer restore()
	logger := hnet.QuietLogger("")
	w := hnet.NewWallet(rand.New(rand.NewSource(job.WalletSeed)), 3, 2)
	opts := drvOpts(w)
	var dbs [3]ethdb.Database
	for lvl := 0; lvl < 3; lvl++ {
		mem := memorydb.New(logger)
		if err := drvLoad(job.DB[lvl], mem); err != nil {
			finish(fmt.Errorf("load level %d: %w", lvl, err))
			return
		}
		dbs[lvl] = hnet.WrapMem(mem, hnet.Locs[lvl])
	}
	opts.DBs = dbs
	n, err := hnet.New(opts)
	if err != nil {
		finish(fmt.Errorf("reopen: %w", err))
		return
	}
	defer n.Stop()
	hcs := drvHCs(n)
	fns := drvFns()
	rng := rand.New(rand.NewSource(job.Seed*31 + 977))

	verify := func(first bool) {
		for _, s := range job.Siblings {
			if s.First != first {
				continue
			}
			for lvl := 0; lvl < 3; lvl++ {
				if errs, ok := drvVerifySibling(hcs, s, lvl); ok {
					if out.Siblings[s.ID] == nil {
						out.Siblings[s.ID] = map[int]string{}
					}
					out.Siblings[s.ID][lvl] = errs
				}
			}
		}
	}
	// the acceptance path first, for the copies of blocks whose parent was found late: nothing else has been evaluated
	// in this process yet
	verify(true)
	ps := append([]*drvParent(nil), job.Parents...)
	rng.Shuffle(len(ps), func(i, j int) { ps[i], ps[j] = ps[j], ps[i] })
	eval := func(p *drvParent, stored bool) {
		rot := rng.Intn(len(fns))
		for i := range fns {
			f := fns[(i+rot)%len(fns)]
			v, _, ok := drvCall(hcs, f, p, stored)
			if !ok {
				continue
			}
			if out.Values[p.ID] == nil {
				out.Values[p.ID] = map[string][]string{}
			}
			out.Values[p.ID][f.name] = append(out.Values[p.ID][f.name], v.s)
		}
	}
	for _, p := range ps {
		out.Order = append(out.Order, p.ID)
		eval(p, true)
	}
	verify(false)
	for i := len(ps) - 1; i >= 0; i-- {
		eval(ps[i], false)
	}
	finish(nil)
}
