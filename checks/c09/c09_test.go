//go:build verif

// C09 — accepted headers extend their parent by the protocol's rules.
//
// (A) differential single-field deviations: a valid sealed child that the
// node would accept is copied, one header field is changed in every per-level
// view, the header-hash binding and the PoW are redone (so that neither is
// what rejects it), the order is kept, and the mutant is delivered through
// the production append path of its order. Acceptance is the violation. The
// monitor never computes an expected value itself.
//
// (B) on every appended block of every chain: accumulated entropy (the
// production accessor TotalLogEntropy of the context's HeaderChain) strictly
// increases from parent to child in every context the block is appended in,
// the recorded ParentEntropy(ctx) equals the parent's accumulated entropy,
// and CalcOrder returns the same (order, intrinsic entropy) on a repeated
// call, after dropping the caches, on every level that knows the block and
// on a fresh core opened on a copy of the databases.
package c09

import (
	"bytes"
	"encoding/binary"
	"encoding/hex"
	"fmt"
	"math/big"
	"math/rand"
	"regexp"
	"strings"
	"testing"

	"lukechampine.com/blake3"

	"github.com/dominant-strategies/go-quai/common"
	"github.com/dominant-strategies/go-quai/core"
	"github.com/dominant-strategies/go-quai/core/types"
	"github.com/dominant-strategies/go-quai/ethdb"
	"github.com/dominant-strategies/go-quai/p2p/pb"

	"verif/internal/hnet"
	"verif/internal/mon"
)

var big2e256 = new(big.Int).Lsh(big.NewInt(1), 256)

// blockRec is what was observed for an appended block on the live net; the
// restart check compares a fresh core against it.
type blockRec struct {
	hash  common.Hash
	order int
	intr  *big.Int
	total [3]*big.Int // accumulated entropy per context (nil above the order)
}

type runner struct {
	t    *testing.T
	m    *mon.M
	rng  *rand.Rand
	devs []deviation

	netIdx   int
	n        *hnet.Net
	w        *hnet.Wallet
	opts     hnet.Options
	step     int
	recs     []*blockRec
	polluted bool
	failed   bool

	reported map[string]bool // deviation:order already reported as accepted: not delivered again

	blocks   int
	byOrder  [3]int
	mutants  int
	restarts int
}

func (r *runner) hc(lvl int) *core.HeaderChain { return r.n.Nodes[lvl].Core.Slice().HeaderChain() }

func (r *runner) fail(format string, a ...any) {
	r.failed = true
	r.m.Inconclusive("harness: " + fmt.Sprintf(format, a...))
}

// ---------------------------------------------------------------- net life cycle

func (r *runner) newNet() bool {
	if r.n != nil {
		r.n.Stop()
		r.n = nil
	}
	r.netIdx++
	r.w = hnet.NewWallet(r.rng, 3, 2)
	fund := new(big.Int).Mul(big.NewInt(1e18), big.NewInt(1e6))
	r.opts = hnet.Options{GenAllocs: r.w.GenAllocs(fund), QuaiCoinbase: r.w.Quai[0].Addr, QiCoinbase: r.w.Qi[0].Addr}
	n, err := hnet.New(r.opts)
	if err != nil {
		r.fail("hnet.New: %v", err)
		return false
	}
	r.n, r.step, r.recs, r.polluted = n, 0, nil, false
	return true
}

// activity submits a few Quai transfers (and now and then a Quai->Qi
// conversion) so that gas used, base fee, state use and the prime-level
// exchange-rate inputs move.
func (r *runner) activity() {
	i := r.step
	r.step++
	if i < 2 {
		return
	}
	head := r.n.Heads()[2]
	price := new(big.Int).Mul(head.BaseFee(), big.NewInt(3))
	if price.Sign() == 0 {
		price = big.NewInt(3)
	}
	k := r.rng.Intn(4)
	for j := 0; j < k; j++ {
		from, to := r.w.Quai[1], r.w.Quai[2].Addr
		tx, err := r.w.QuaiTx(from, r.w.NextNonce(from), &to, big.NewInt(1000), 21000, price, nil, nil)
		if err == nil {
			r.n.Zone().Core.TxPool().AddLocal(tx)
		}
	}
	if i%5 == 0 {
		from, to := r.w.Quai[2], r.w.Qi[1].Addr
		val := new(big.Int).Mul(big.NewInt(1e18), big.NewInt(100))
		tx, err := r.w.QuaiTx(from, r.w.NextNonce(from), &to, val, 200000, price, nil, nil)
		if err == nil {
			r.n.Zone().Core.TxPool().AddLocal(tx)
		}
	}
	r.n.Zone().Core.TxPool().VerifQuiesce()
}

// plain mines one block of natural order through the production path.
func (r *runner) plain() bool {
	r.activity()
	m, err := r.n.Mine(hnet.MineOpts{WantOrder: -1, Fill: true})
	if err != nil {
		r.fail("mine (net %d step %d): %v", r.netIdx, r.step, err)
		return false
	}
	r.observe(m.Hash, m.Order, m.Blocks)
	return true
}

// ---------------------------------------------------------------- grinding

// grind searches a nonce for which the header's PoW is valid for its declared
// difficulty and CalcOrder (production) says wantOrder (-1: any). At most
// maxSeals valid seals are tried. The candidate search hashes
// mix||sealHash||nonce directly (the blake3 engine's PoW function), every
// candidate is confirmed with the production engine.
func (r *runner) grind(b *types.WorkObject, wantOrder, maxSeals int) (bool, error) {
	wh := b.WorkObjectHeader()
	if wh.Difficulty().Sign() <= 0 {
		return false, fmt.Errorf("non-positive difficulty")
	}
	target := new(big.Int).Div(big2e256, wh.Difficulty())
	var tb [32]byte
	if target.BitLen() > 256 {
		for i := range tb {
			tb[i] = 0xff
		}
	} else {
		target.FillBytes(tb[:])
	}
	var buf [72]byte
	copy(buf[:32], wh.MixHash().Bytes())
	copy(buf[32:64], wh.SealHash().Bytes())
	nonce := r.rng.Uint64()
	seals := 0
	zc := r.n.Zone().Core
	for attempts := 0; attempts < 50_000_000; attempts++ {
		nonce++
		binary.BigEndian.PutUint64(buf[64:], nonce)
		sum := blake3.Sum256(buf[:])
		if bytes.Compare(sum[:], tb[:]) > 0 {
			continue
		}
		wh.SetNonce(types.EncodeNonce(nonce))
		ph, err := r.n.Engine.ComputePowHash(wh)
		if err != nil {
			return false, err
		}
		if ph != common.Hash(sum) {
			return false, fmt.Errorf("fast grinder disagrees with the engine's PoW hash")
		}
		seals++
		_, order, err := zc.CalcOrder(b)
		if err != nil {
			return false, fmt.Errorf("CalcOrder of a sealed candidate: %w", err)
		}
		if wantOrder < 0 || order == wantOrder {
			return true, nil
		}
		if seals >= maxSeals {
			return false, nil
		}
	}
	return false, nil
}

// feasibleOrder: can a block of order `want` be mined on the current heads?
// (a prime block directly after a prime block usually cannot: the entropy
// delta since the last prime block is too small.) Workload steering only.
func (r *runner) feasibleOrder(want int) int {
	wo, err := r.n.BuildPending(r.n.Heads(), true)
	if err != nil || wo == nil {
		return -1
	}
	ok, err := r.grind(types.CopyWorkObject(wo), want, 160)
	if err != nil || !ok {
		return -1
	}
	return want
}

// ---------------------------------------------------------------- (B) monitor on appended blocks

func (r *runner) observe(hash common.Hash, order int, views [3]*types.WorkObject) {
	m := r.m
	r.blocks++
	r.byOrder[order]++
	rec := &blockRec{hash: hash, order: order}
	ordTag := fmt.Sprintf("order%d", order)
	type oc struct {
		intr  *big.Int
		order int
	}
	var seen []oc
	for ctx := order; ctx < 3; ctx++ {
		hc := r.hc(ctx)
		blk := r.n.Block(ctx, hash)
		if blk == nil {
			r.fail("appended block %x not readable at level %d", hash.Bytes()[:4], ctx)
			return
		}
		wit := func() any {
			w := map[string]any{"block": hash.Hex(), "order": order, "ctx": ctx, "number": blk.NumberArray(), "parent": blk.ParentHash(ctx).Hex()}
			if v := views[ctx]; v != nil {
				if data, err := pb.ConvertAndMarshal(v.ConvertToBlockView()); err == nil {
					w["wire"] = hex.EncodeToString(data)
				}
			}
			return w
		}
		parent := hc.GetBlockByHash(blk.ParentHash(ctx))
		if parent == nil {
			parent = hc.GetHeaderByHash(blk.ParentHash(ctx))
		}
		if parent == nil {
			r.fail("parent of appended block %x unknown at level %d", hash.Bytes()[:4], ctx)
			return
		}
		eC := hc.TotalLogEntropy(blk)
		eP := hc.TotalLogEntropy(parent)
		rec.total[ctx] = new(big.Int).Set(eC)
		m.Eval("entropy-monotone:"+ordTag, fmt.Sprintf("%x/%d", hash, ctx))
		if eC.Cmp(eP) <= 0 {
			m.Violation(fmt.Sprintf("entropy-not-increasing:%s:ctx-%s", ordTag, ctxName[ctx]),
				fmt.Sprintf("accumulated entropy of appended block %v (%v) is not greater than its %s parent's (%v)", hash.Hex(), eC, ctxName[ctx], eP), wit())
		}
		m.Eval("parent-entropy-recorded:ctx-"+ctxName[ctx], fmt.Sprintf("%x/%d", hash, ctx))
		if blk.ParentEntropy(ctx).Cmp(eP) != 0 {
			m.Violation(fmt.Sprintf("recorded-parent-entropy-mismatch:%s:ctx-%s", ordTag, ctxName[ctx]),
				fmt.Sprintf("appended block %v records ParentEntropy(%s)=%v, the parent's accumulated entropy is %v", hash.Hex(), ctxName[ctx], blk.ParentEntropy(ctx), eP), wit())
		}
		// order stability: repeated, cold
		i1, o1, err1 := hc.CalcOrder(blk)
		i2, o2, err2 := hc.CalcOrder(blk)
		hc.VerifDropCaches()
		i3, o3, err3 := hc.CalcOrder(blk)
		if err1 != nil || err2 != nil || err3 != nil {
			m.Violation("calcorder-error-on-appended-block:ctx-"+ctxName[ctx], fmt.Sprintf("CalcOrder errors %v / %v / %v on appended block %v", err1, err2, err3, hash.Hex()), wit())
			continue
		}
		m.Eval("order-stable:repeat", fmt.Sprintf("%x/%d", hash, ctx))
		if o1 != o2 || i1.Cmp(i2) != 0 {
			m.Violation("order-unstable:repeat:ctx-"+ctxName[ctx], fmt.Sprintf("CalcOrder(%v) = (%v,%d) then (%v,%d)", hash.Hex(), i1, o1, i2, o2), wit())
		}
		m.Eval("order-stable:cold-cache", fmt.Sprintf("%x/%d", hash, ctx))
		if o1 != o3 || i1.Cmp(i3) != 0 {
			m.Violation("order-unstable:cold-cache:ctx-"+ctxName[ctx], fmt.Sprintf("CalcOrder(%v) = (%v,%d) warm, (%v,%d) after dropping the caches", hash.Hex(), i1, o1, i3, o3), wit())
		}
		m.Eval("order-stable:append-order", fmt.Sprintf("%x/%d", hash, ctx))
		if o1 != order {
			m.Violation("order-unstable:append-order:ctx-"+ctxName[ctx], fmt.Sprintf("block %v was appended as order %d, CalcOrder at level %s says %d", hash.Hex(), order, ctxName[ctx], o1), wit())
		}
		seen = append(seen, oc{i1, o1})
		rec.intr = new(big.Int).Set(i1)
	}
	for i := 1; i < len(seen); i++ {
		m.Eval("order-stable:cross-level", fmt.Sprintf("%x/%d", hash, i))
		if seen[i].order != seen[0].order || seen[i].intr.Cmp(seen[0].intr) != 0 {
			m.Violation("order-unstable:cross-level", fmt.Sprintf("CalcOrder(%v) differs between levels: (%v,%d) vs (%v,%d)", hash.Hex(), seen[0].intr, seen[0].order, seen[i].intr, seen[i].order),
				map[string]any{"block": hash.Hex(), "order": order})
		}
	}
	r.recs = append(r.recs, rec)
}

// restartCheck opens fresh cores on copies of the three databases and asks
// them for the order and accumulated entropy of every block recorded so far.
func (r *runner) restartCheck() {
	m := r.m
	var dbs [3]ethdb.Database
	for lvl := 0; lvl < 3; lvl++ {
		if r.n.Nodes[lvl].MemDB == nil {
			return
		}
		dbs[lvl] = hnet.WrapMem(hnet.CopyMem(r.n.Nodes[lvl].MemDB, r.n.Logger), hnet.Locs[lvl])
	}
	opts := r.opts
	opts.DBs = dbs
	n2, err := hnet.New(opts)
	if err != nil {
		r.fail("reopen: %v", err)
		return
	}
	defer n2.Stop()
	r.restarts++
	for _, rec := range r.recs {
		for ctx := rec.order; ctx < 3; ctx++ {
			hc := n2.Nodes[ctx].Core.Slice().HeaderChain()
			blk := n2.Block(ctx, rec.hash)
			if blk == nil {
				// a block the copy does not have yet is not this property's concern
				m.Trivial()
				continue
			}
			intr, ord, err := hc.CalcOrder(blk)
			m.Eval("order-stable:restart", fmt.Sprintf("%x/%d/%d", rec.hash, ctx, r.restarts))
			if err != nil || ord != rec.order || intr.Cmp(rec.intr) != 0 {
				m.Violation("order-unstable:restart:ctx-"+ctxName[ctx],
					fmt.Sprintf("block %v: live core said (%v,%d); a fresh core on a copy of the database says (%v,%d,%v)", rec.hash.Hex(), rec.intr, rec.order, intr, ord, err),
					map[string]any{"block": rec.hash.Hex(), "ctx": ctx, "order": rec.order})
			}
			tot := hc.TotalLogEntropy(blk)
			m.Eval("entropy-stable:restart", fmt.Sprintf("%x/%d/%d", rec.hash, ctx, r.restarts))
			if rec.total[ctx] != nil && tot.Cmp(rec.total[ctx]) != 0 {
				m.Violation("entropy-unstable:restart:ctx-"+ctxName[ctx],
					fmt.Sprintf("block %v: accumulated entropy %v on the live core, %v on a fresh core on a copy of the database", rec.hash.Hex(), rec.total[ctx], tot),
					map[string]any{"block": rec.hash.Hex(), "ctx": ctx, "order": rec.order})
			}
		}
	}
}

// ---------------------------------------------------------------- (A) single-field deviations

var reDigits = regexp.MustCompile(`0x[0-9a-fA-F]+|[0-9]+`)

func errClass(err error) string {
	s := err.Error()
	if i := strings.Index(s, ":"); i > 0 {
		s = s[:i]
	}
	if i := strings.Index(s, "("); i > 0 {
		s = s[:i]
	}
	s = reDigits.ReplaceAllString(s, "#")
	s = strings.TrimSpace(s)
	if len(s) > 48 {
		s = s[:48]
	}
	return strings.ReplaceAll(s, " ", "-")
}

func wireOf(b *types.WorkObject) string {
	data, err := pb.ConvertAndMarshal(b.ConvertToBlockView())
	if err != nil {
		return "encode error: " + err.Error()
	}
	return hex.EncodeToString(data)
}

func (r *runner) env(mined *hnet.Mined) *devEnv {
	e := &devEnv{o: mined.Order}
	for ctx := mined.Order; ctx < 3; ctx++ {
		hc := r.hc(ctx)
		if p := hc.GetBlockByHash(mined.Parent[ctx]); p != nil && !hc.IsGenesisHash(p.Hash()) {
			e.par[ctx] = p
			if g := hc.GetBlockByHash(p.ParentHash(ctx)); g != nil {
				e.gpar[ctx] = g
			}
		}
	}
	return e
}

// deliver runs the production append; a panic is reported as an error of
// class "panic" (the block was not accepted).
func (r *runner) deliver(o int, views [3]*types.WorkObject) (err error, panicked string) {
	defer func() {
		if rec := recover(); rec != nil {
			panicked = fmt.Sprint(rec)
			err = fmt.Errorf("panic")
		}
	}()
	_, err = r.n.Deliver(o, views)
	return err, ""
}

// tryMutant builds, seals and delivers one mutant; r.polluted is set when it
// was accepted (the net must not be used any more).
func (r *runner) tryMutant(d deviation, mined *hnet.Mined, e *devEnv, triage bool) {
	m := r.m
	o := mined.Order
	if r.reported[fmt.Sprintf("%s:order%d", d.name(), o)] {
		// already reported on this run; delivering it again would only end
		// another net before the remaining deviations are tried
		return
	}
	var views [3]*types.WorkObject
	var origV, mutV string
	r.rng.Read(e.rnd[:])
	for lvl := o; lvl < 3; lvl++ {
		views[lvl] = types.CopyWorkObject(mined.Blocks[lvl])
		var ok bool
		origV, mutV, ok = d.apply(e, views[lvl])
		if !ok {
			m.Trivial()
			return
		}
		views[lvl].WorkObjectHeader().SetHeaderHash(views[lvl].Header().Hash())
	}
	ok, err := r.grind(views[2], o, 600)
	if err != nil {
		// e.g. difficulty-1 == 0: cannot be sealed at all
		m.Trivial()
		return
	}
	if !ok {
		r.m.AddExtra("not_minable:"+d.name()+fmt.Sprintf(":order%d", o), 1)
		m.Trivial()
		return
	}
	for lvl := o; lvl < 2; lvl++ {
		views[lvl].WorkObjectHeader().SetNonce(views[2].WorkObjectHeader().Nonce())
		views[lvl].WorkObjectHeader().SetMixHash(views[2].WorkObjectHeader().MixHash())
	}
	mh := views[2].Hash()
	for lvl := o; lvl < 3; lvl++ {
		if views[lvl].Hash() != mh || views[lvl].HeaderHash() != views[lvl].Header().Hash() {
			r.fail("mutant views of %s disagree on the hash", d.name())
			return
		}
	}
	// the mutant as a peer would receive it
	deliverViews := views
	via := "wire"
	if d.inMemory {
		via = "memory"
	} else {
		for lvl := o; lvl < 3; lvl++ {
			rt, _, err := hnet.WireRoundTrip(views[lvl], hnet.Locs[lvl])
			if err != nil || rt.Hash() != mh || rt.Header().Hash() != views[lvl].Header().Hash() {
				via = "memory(wire-lossy)"
				deliverViews = views
				break
			}
			deliverViews[lvl] = rt
		}
	}
	r.mutants++
	derr, panicked := r.deliver(o, deliverViews)
	key := mh.Hex()
	tag := fmt.Sprintf("%s:order%d", d.name(), o)
	witness := func() map[string]any {
		w := map[string]any{
			"field": d.field, "direction": d.dir, "order": o, "original_value": origV, "mutated_value": mutV,
			"valid_block": mined.Hash.Hex(), "mutant_block": mh.Hex(), "delivered_via": via,
			"number": views[2].NumberArray(),
		}
		for ctx := o; ctx < 3; ctx++ {
			w["parent_"+ctxName[ctx]] = mined.Parent[ctx].Hex()
			w["mutant_wire_"+ctxName[ctx]] = wireOf(views[ctx])
		}
		return w
	}
	if panicked != "" {
		m.Eval("dev:"+tag+":rejected[panic]", key)
		m.SampleClass("panic:"+tag, map[string]any{"panic": panicked, "witness": witness()})
		r.m.AddExtra("append_panics", 1)
		return
	}
	if derr != nil {
		m.Eval("dev:"+tag+":rejected["+errClass(derr)+"]", key)
		return
	}
	// accepted
	r.polluted = true
	if triage {
		m.Eval("triage:"+tag+":accepted", key)
		m.SampleClass("triage:"+tag, witness())
		return
	}
	m.Eval("dev:"+tag+":ACCEPTED", key)
	r.reported[tag] = true
	m.Violation("deviation-accepted:"+tag,
		fmt.Sprintf("a valid order-%d block whose %s was changed (%s: %s -> %s), re-sealed, was accepted by Append at the %s level", o, d.field, d.dir, origV, mutV, ctxName[o]),
		witness())
}

// pairRound: one valid child of the wanted order, all applicable deviations,
// then the valid child itself.
func (r *runner) pairRound(want int) bool {
	r.activity()
	o := r.feasibleOrder(want)
	mined, err := r.n.Mine(hnet.MineOpts{WantOrder: o, Fill: true, NoAppend: true})
	if err != nil {
		r.fail("mine NoAppend (net %d step %d want %d): %v", r.netIdx, r.step, o, err)
		return false
	}
	o = mined.Order
	e := r.env(mined)
	r.m.Eval(fmt.Sprintf("pair:order%d", o), mined.Hash.Hex())
	for _, d := range r.devs {
		if d.ctx < o {
			continue // the field is not derived from the parent in any context this block is verified in
		}
		if d.field == "location" && o < common.ZONE_CTX {
			continue // see terminalProbes
		}
		r.tryMutant(d, mined, e, false)
		if r.polluted || r.failed {
			return !r.failed
		}
	}
	// the valid block must still be accepted
	derr, panicked := r.deliver(o, mined.Blocks)
	r.m.Eval(fmt.Sprintf("valid-after-mutants:order%d", o), mined.Hash.Hex())
	if derr != nil {
		w := map[string]any{"order": o, "block": mined.Hash.Hex(), "error": derr.Error(), "panic": panicked}
		for ctx := o; ctx < 3; ctx++ {
			w["wire_"+ctxName[ctx]] = hex.EncodeToString(mined.Wire[ctx])
		}
		r.m.Violation(fmt.Sprintf("valid-block-rejected-after-mutants:order%d", o),
			fmt.Sprintf("the unmodified block %v was rejected after its rejected mutants had been delivered: %v %s", mined.Hash.Hex(), derr, panicked), w)
		r.polluted = true
		return true
	}
	tips := r.n.Heads()
	for lvl := o; lvl < 3; lvl++ {
		if b := r.n.Block(lvl, mined.Hash); b != nil {
			tips[lvl] = b
		} else {
			tips[lvl] = mined.Blocks[lvl]
		}
	}
	r.n.SetTips(tips)
	r.observe(mined.Hash, o, mined.Blocks)
	return true
}

// terminalProbes: a block whose location names another zone of the same
// region ({0,1}) delivered at region / prime order. Whether a region or prime
// node has to reject it is not decided by the statement (it is in their
// slice; the zone that would verify it is not run here), so acceptance is
// recorded for triage, not as a violation. It is the last thing done on a net
// because an accepted probe leaves the hierarchy inconsistent.
func (r *runner) terminalProbes() {
	var loc *deviation
	for i := range r.devs {
		if r.devs[i].field == "location" {
			loc = &r.devs[i]
		}
	}
	if loc == nil {
		return
	}
	wants := []int{common.REGION_CTX, common.PRIME_CTX}
	if r.netIdx%2 == 0 {
		// an accepted probe ends the net: alternate which order goes first
		wants = []int{common.PRIME_CTX, common.REGION_CTX}
	}
	for _, want := range wants {
		if r.polluted || r.failed {
			return
		}
		r.activity()
		o := r.feasibleOrder(want)
		if o != want {
			if !r.plain() {
				return
			}
			if o = r.feasibleOrder(want); o != want {
				continue
			}
		}
		mined, err := r.n.Mine(hnet.MineOpts{WantOrder: o, Fill: true, NoAppend: true})
		if err != nil {
			r.fail("mine NoAppend (terminal probe): %v", err)
			return
		}
		r.tryMutant(*loc, mined, r.env(mined), true)
	}
}

// ---------------------------------------------------------------- the check

func TestC09(t *testing.T) {
	m := mon.New(t, "C09", "headers")
	defer m.Finish()
	m.Rule("differential: a valid sealed child is accepted; the same child with exactly one parent-derived header field changed (re-sealed, same order, header-hash binding redone) must be rejected by the production append path of its order; on every appended block accumulated entropy (TotalLogEntropy of the context's HeaderChain) strictly increases, the recorded parent entropy equals the parent's accumulated entropy, and CalcOrder is stable across repeated calls, dropped caches, levels and restarts")
	m.Assume("blake3 PoW at difficulty ~4000, compressed protocol timeline (hnet.DefaultRegime), single slice prime/region-0/zone-0-0, pre-KawPow-fork",
		"a deviation is applied only at orders whose verification contexts derive the field from the parent; fields that are unconstrained at an order are not probed there",
		"share-difficulty fields before the fork are neither sealed nor wire-encoded: those mutants are delivered in memory",
		"location {0,1} at region/prime order is recorded for triage only")
	r := &runner{t: t, m: m, rng: m.Rand("c09"), devs: deviations(), reported: map[string]bool{}}
	defer func() {
		if r.n != nil {
			r.n.Stop()
		}
	}()
	nets := m.N(3, 10)
	pairs := m.N(40, 360)
	// wanted order of the k-th pair of a net
	pattern := []int{2, 1, 2, 0, 2, 2, 1, 2, 2, 0}
	for ni := 0; ni < nets && !r.failed; ni++ {
		if !r.newNet() {
			break
		}
		done := 0
		restartAt := map[int]bool{pairs / 2: true}
		warm := func() bool {
			for i := 0; i < 6; i++ {
				if !r.plain() {
					return false
				}
			}
			return true
		}
		if !warm() {
			break
		}
		for done < pairs && !r.failed {
			if r.polluted {
				// an accepted deviation (or a poisoned cache) leaves the chain state unusable
				if !r.newNet() || !warm() {
					break
				}
			}
			if !r.pairRound(pattern[done%len(pattern)]) {
				break
			}
			done++
			if r.polluted {
				continue
			}
			if restartAt[done] {
				r.restartCheck()
			}
			if done%2 == 0 {
				if !r.plain() {
					break
				}
			}
		}
		if r.failed {
			break
		}
		if !r.polluted {
			r.restartCheck()
			r.terminalProbes()
		}
	}
	m.Extra("blocks_appended", int64(r.blocks))
	m.Extra("blocks_by_order", fmt.Sprintf("prime=%d region=%d zone=%d", r.byOrder[0], r.byOrder[1], r.byOrder[2]))
	m.Extra("mutants_delivered", int64(r.mutants))
	m.Extra("restarts", int64(r.restarts))
	if r.blocks < m.N(150, 3000) {
		m.Inconclusive(fmt.Sprintf("only %d blocks appended", r.blocks))
	}
	m.Floor(int64(m.N(2000, 60000)), 60)
	m.Need("entropy-monotone:order0", "entropy-monotone:order1", "entropy-monotone:order2",
		"order-stable:repeat", "order-stable:cold-cache", "order-stable:restart",
		"pair:order0", "pair:order1", "pair:order2")
}
