//go:build verif

// C09, stage "derived" — the table of parent-derived expectations (the
// functions verifyHeader and the worker's header preparation call) and the
// machinery that evaluates one of them for one parent on one node.
package c09

import (
	"encoding/hex"
	"fmt"
	"math/big"
	"sync"

	"github.com/dominant-strategies/go-quai/common"
	"github.com/dominant-strategies/go-quai/consensus/misc"
	"github.com/dominant-strategies/go-quai/core"
	"github.com/dominant-strategies/go-quai/core/types"
	"github.com/dominant-strategies/go-quai/params"

	"verif/internal/hnet"
)

// drvVal is one evaluation's result: rendered at once (a returned *big.Int may
// be somebody's internal object) plus the returned big.Int objects themselves
// for the aliasing probe.
type drvVal struct {
	s    string
	bigs []*big.Int
}

// drvParent is a block used as the `parent` argument of the derivations.
type drvParent struct {
	ID      int
	Net     int
	Kind    string // genesis | real | real-slow | synthetic-time | synthetic-chain | synthetic-field
	Variant string // what was changed relative to the base block
	Hash    common.Hash
	Base    common.Hash // the real block a synthetic parent was copied from
	Order   int         // order of the real block / order the synthetic one has after resealing
	Levels  [3]bool     // levels that store a view of it
	View    [3][]byte   // block view (gossip encoding) per level
	Gap     int64       // header time minus the zone parent's header time; -1: no parent (genesis)
	Time    uint64
	Number  [3]uint64
	// ChildPTN: prime terminus number of the (real) child header, the `header` argument of the share-difficulty
	// derivations; -1 while no child is known
	ChildPTN int64
	First    bool // (job for the fresh process) evaluate before anything else

	ref     map[string]string // function -> value of the first evaluation on the mining node
	refHow  map[string]string
	nEval   map[string]int
	epoch   map[string]int // function -> cache-drop epoch of the mining node at the last evaluation there
	child   common.Hash    // first real child (zone)
	sibling *drvSibling
}

func drvBucket(gap int64) string {
	switch {
	case gap < 0:
		return "none"
	case gap <= 1:
		return "<=1s"
	case gap <= 99:
		return "2..99"
	case gap == 100:
		return "100"
	case gap <= 1000:
		return "101..1000"
	}
	return ">1000"
}

var drvBuckets = []string{"<=1s", "2..99", "100", "101..1000", ">1000"}
var drvKinds = []string{"warm-repeat", "after-other-parent", "after-cache-drop", "second-node", "restart"}

func (p *drvParent) bucket() string { return drvBucket(p.Gap) }

func (p *drvParent) fresh(lvl int) *types.WorkObject {
	if p.View[lvl] == nil {
		return nil
	}
	b, err := entDecode(p.View[lvl], lvl)
	if err != nil {
		return nil
	}
	return b
}

func (p *drvParent) describe() string {
	s := fmt.Sprintf("parent #%d %s %v (zone number %d, order %d, gap to its own parent %d s)", p.ID, p.Kind, p.Hash.Hex(), p.Number[2], p.Order, p.Gap)
	if p.Variant != "" {
		s += " [" + p.Variant + "]"
	}
	return s
}

func (p *drvParent) witness(more map[string]any) map[string]any {
	w := map[string]any{"net": p.Net, "parent_id": p.ID, "parent": p.Hash.Hex(), "kind": p.Kind, "variant": p.Variant, "base_block": p.Base.Hex(),
		"order": p.Order, "number": p.Number, "time": p.Time, "gap_to_own_parent_s": p.Gap, "child_prime_terminus_number": p.ChildPTN}
	for lvl := 0; lvl < 3; lvl++ {
		if p.View[lvl] != nil {
			w["view_"+ctxName[lvl]] = hex.EncodeToString(p.View[lvl])
		}
	}
	for k, v := range more {
		w[k] = v
	}
	return w
}

// ---------------------------------------------------------------- the derivations

type drvFn struct {
	name string
	lvl  int // level whose HeaderChain runs it
	// field: header field of the child that the acceptance path compares with the result ("" = none)
	field string
	// applies: regime / argument guards (never evaluate a derivation on arguments the node would not pass)
	applies func(p *drvParent, arg *types.WorkObject) bool
	eval    func(hc *core.HeaderChain, p *drvParent, arg *types.WorkObject) drvVal
}

func drvBig(v *big.Int) drvVal { return drvVal{s: entStr(v), bigs: []*big.Int{v}} }

func drvHasShareFields(wh *types.WorkObjectHeader) bool {
	if wh.ShaShareTarget() == nil || wh.ScryptShareTarget() == nil || wh.KawpowDifficulty() == nil {
		return false
	}
	for _, d := range []*types.PowShareDiffAndCount{wh.ShaDiffAndCount(), wh.ScryptDiffAndCount()} {
		if d == nil || d.Difficulty() == nil || d.Count() == nil || d.Uncled() == nil {
			return false
		}
	}
	return true
}

// drvChildHeader: the `header` argument of the share-difficulty derivations; they read its prime terminus number only.
func drvChildHeader(p *drvParent) *types.WorkObject {
	h := types.EmptyWorkObject(common.ZONE_CTX)
	h.WorkObjectHeader().SetPrimeTerminusNumber(big.NewInt(p.ChildPTN))
	return h
}

var drvTokenSetOnce sync.Once
var drvTokenSet types.TokenChoiceSet

func drvEmptyTokenSet() types.TokenChoiceSet {
	drvTokenSetOnce.Do(func() { drvTokenSet = types.NewTokenChoiceSet() })
	return drvTokenSet
}

func drvFns() []*drvFn {
	zone := func(p *drvParent, arg *types.WorkObject) bool { return true }
	shareArg := func(p *drvParent, arg *types.WorkObject) bool {
		if p.ChildPTN < 0 || uint64(p.ChildPTN) < params.KawPowForkBlock {
			return false
		}
		return uint64(p.ChildPTN) == params.KawPowForkBlock || drvHasShareFields(arg.WorkObjectHeader())
	}
	primeNonGenesis := func(p *drvParent, arg *types.WorkObject) bool { return p.Kind != "genesis" && arg.NumberU64(common.PRIME_CTX) > 0 }
	prime := func(p *drvParent, arg *types.WorkObject) bool { return true }
	three := func(a, b, c *big.Int) drvVal {
		return drvVal{s: entStr(a) + "|" + entStr(b) + "|" + entStr(c), bigs: []*big.Int{a, b, c}}
	}
	return []*drvFn{
		{name: "CalcDifficulty", lvl: 2, field: "difficulty", applies: zone, eval: func(hc *core.HeaderChain, p *drvParent, arg *types.WorkObject) drvVal {
			return drvBig(hc.CalcDifficulty(arg.WorkObjectHeader(), arg.ExpansionNumber()))
		}},
		// the miner's call site: HeaderChain.Prepare stores CalcDifficulty's result in the header it is given
		{name: "Prepare", lvl: 2, field: "difficulty", applies: zone, eval: func(hc *core.HeaderChain, p *drvParent, arg *types.WorkObject) drvVal {
			h := types.EmptyWorkObject(common.ZONE_CTX)
			if err := hc.Prepare(h, arg); err != nil {
				return drvVal{s: "err=" + err.Error()}
			}
			return drvBig(h.Difficulty())
		}},
		{name: "CalcBaseFee", lvl: 2, field: "baseFee", applies: zone, eval: func(hc *core.HeaderChain, p *drvParent, arg *types.WorkObject) drvVal {
			return drvBig(hc.CalcBaseFee(arg))
		}},
		{name: "CalcGasLimit", lvl: 2, field: "gasLimit", applies: zone, eval: func(hc *core.HeaderChain, p *drvParent, arg *types.WorkObject) drvVal {
			return drvVal{s: fmt.Sprint(core.CalcGasLimit(arg, params.LocalGasCeil))}
		}},
		{name: "CalcStateLimit", lvl: 2, field: "stateLimit", applies: zone, eval: func(hc *core.HeaderChain, p *drvParent, arg *types.WorkObject) drvVal {
			return drvVal{s: fmt.Sprint(misc.CalcStateLimit(arg, params.StateCeil))}
		}},
		{name: "ComputeExpansionNumber", lvl: 2, field: "expansionNumber", applies: zone, eval: func(hc *core.HeaderChain, p *drvParent, arg *types.WorkObject) drvVal {
			n, err := hc.ComputeExpansionNumber(arg)
			return drvVal{s: fmt.Sprintf("%d err=%v", n, err)}
		}},
		{name: "CalculatePowDiffAndCount:sha", lvl: 2, field: "shaDiffAndCount", applies: shareArg, eval: func(hc *core.HeaderChain, p *drvParent, arg *types.WorkObject) drvVal {
			return three(hc.CalculatePowDiffAndCount(arg, drvChildHeader(p).WorkObjectHeader(), types.SHA_BTC))
		}},
		{name: "CalculatePowDiffAndCount:scrypt", lvl: 2, field: "scryptDiffAndCount", applies: shareArg, eval: func(hc *core.HeaderChain, p *drvParent, arg *types.WorkObject) drvVal {
			return three(hc.CalculatePowDiffAndCount(arg, drvChildHeader(p).WorkObjectHeader(), types.Scrypt))
		}},
		{name: "CalculateShareTarget", lvl: 2, field: "shaShareTarget", applies: shareArg, eval: func(hc *core.HeaderChain, p *drvParent, arg *types.WorkObject) drvVal {
			return drvBig(hc.CalculateShareTarget(arg, drvChildHeader(p)))
		}},
		{name: "CalculateKawpowDifficulty", lvl: 2, field: "kawpowDifficulty", applies: shareArg, eval: func(hc *core.HeaderChain, p *drvParent, arg *types.WorkObject) drvVal {
			return drvBig(hc.CalculateKawpowDifficulty(arg, drvChildHeader(p)))
		}},
		// the miner-facing share difficulty of a header (a function of the header's own share fields)
		{name: "CalculateKawpowShareDiff", lvl: 2, applies: func(p *drvParent, arg *types.WorkObject) bool {
			return arg.PrimeTerminusNumber().Uint64() < params.KawPowForkBlock || drvHasShareFields(arg.WorkObjectHeader())
		}, eval: func(hc *core.HeaderChain, p *drvParent, arg *types.WorkObject) drvVal {
			return drvBig(core.CalculateKawpowShareDiff(arg.WorkObjectHeader()))
		}},
		// ---- prime context
		{name: "ComputeEfficiencyScore", lvl: 0, field: "efficiencyScore", applies: primeNonGenesis, eval: func(hc *core.HeaderChain, p *drvParent, arg *types.WorkObject) drvVal {
			n, err := hc.ComputeEfficiencyScore(arg)
			return drvVal{s: fmt.Sprintf("%d err=%v", n, err)}
		}},
		{name: "ComputeMinerDifficulty", lvl: 0, field: "minerDifficulty", applies: prime, eval: func(hc *core.HeaderChain, p *drvParent, arg *types.WorkObject) drvVal {
			return drvBig(hc.ComputeMinerDifficulty(arg))
		}},
		{name: "UpdateEtxEligibleSlices", lvl: 0, field: "etxEligibleSlices", applies: primeNonGenesis, eval: func(hc *core.HeaderChain, p *drvParent, arg *types.WorkObject) drvVal {
			return drvVal{s: hc.UpdateEtxEligibleSlices(arg, arg.Location()).Hex()}
		}},
		{name: "ComputeKQuaiDiscount", lvl: 0, applies: primeNonGenesis, eval: func(hc *core.HeaderChain, p *drvParent, arg *types.WorkObject) drvVal {
			r := arg.ExchangeRate()
			return three(hc.ComputeKQuaiDiscount(arg, r), hc.ComputeKQuaiDiscount(arg, new(big.Int).Mul(r, big.NewInt(2))), hc.ComputeKQuaiDiscount(arg, new(big.Int).Div(r, big.NewInt(2))))
		}},
		{name: "ComputeConversionFlowAmount", lvl: 0, applies: primeNonGenesis, eval: func(hc *core.HeaderChain, p *drvParent, arg *types.WorkObject) drvVal {
			e18 := big.NewInt(1e18)
			return three(hc.ComputeConversionFlowAmount(arg, big.NewInt(0)), hc.ComputeConversionFlowAmount(arg, new(big.Int).Mul(e18, big.NewInt(1000))), hc.ComputeConversionFlowAmount(arg, new(big.Int).Mul(e18, big.NewInt(1e9))))
		}},
		{name: "CalculateBetaFromMiningChoiceAndConversions", lvl: 0, applies: primeNonGenesis, eval: func(hc *core.HeaderChain, p *drvParent, arg *types.WorkObject) drvVal {
			r, err := core.CalculateBetaFromMiningChoiceAndConversions(hc, arg, arg.ExchangeRate(), drvEmptyTokenSet())
			return drvVal{s: fmt.Sprintf("%s err=%v", entStr(r), err), bigs: []*big.Int{r}}
		}},
		{name: "CalculateKQuai", lvl: 0, applies: func(p *drvParent, arg *types.WorkObject) bool {
			return p.Kind != "genesis" && arg.MinerDifficulty() != nil && arg.MinerDifficulty().Cmp(big.NewInt(2)) > 0 && arg.ExchangeRate() != nil
		}, eval: func(hc *core.HeaderChain, p *drvParent, arg *types.WorkObject) drvVal {
			d := arg.MinerDifficulty()
			xb := new(big.Int).Div(new(big.Int).Mul(d, common.Big2e64), common.LogBig(d))
			return drvBig(misc.CalculateKQuai(arg.ExchangeRate(), d, arg.NumberU64(common.PRIME_CTX), xb))
		}},
	}
}

// protocol constants (exported package variables of params / common) that derivations hand out as they are; the
// aliasing probe does not write into them (recorded, not decided: nothing in the statement forbids returning them)
func drvSharedConstant(v *big.Int) string {
	for name, c := range map[string]*big.Int{
		"params.ExchangeRate": params.ExchangeRate, "params.StartingKQuaiDiscount": params.StartingKQuaiDiscount,
		"params.StartingConversionFlowAmount": params.StartingConversionFlowAmount, "params.MinConversionFlowAmount": params.MinConversionFlowAmount,
		"params.TargetShaShares": params.TargetShaShares, "params.MaxShaShares": params.MaxShaShares, "params.InitialKawpowDiff": params.InitialKawpowDiff,
		"params.ExchangeRateResetValueAfterKawpowFork":        params.ExchangeRateResetValueAfterKawpowFork,
		"params.ExchangeRateAfterShaEquivalentDifficultyFork": params.ExchangeRateAfterShaEquivalentDifficultyFork,
		"params.ShaDiffLowerBound":                            params.ShaDiffLowerBound, "params.ScryptDiffLowerBound": params.ScryptDiffLowerBound,
		"common.Big0": common.Big0, "common.Big1": common.Big1, "common.Big2": common.Big2, "common.Big3": common.Big3, "common.Big2e32": common.Big2e32, "common.Big2e64": common.Big2e64,
	} {
		if c == v {
			return name
		}
	}
	return ""
}

// drvHCs: the three header chains of a node.
func drvHCs(n *hnet.Net) [3]*core.HeaderChain {
	var h [3]*core.HeaderChain
	for lvl := 0; lvl < 3; lvl++ {
		h[lvl] = n.Nodes[lvl].Core.Slice().HeaderChain()
	}
	return h
}

// drvArg produces the parent argument: stored=false decodes the view again (an object nobody else holds), stored=true
// asks the node for its own object (what verifyHeader is given).
func drvArg(hcs [3]*core.HeaderChain, p *drvParent, lvl int, stored bool) (*types.WorkObject, string) {
	if stored {
		if b := hcs[lvl].GetBlockByHash(p.Hash); b != nil {
			return b, "node's own object"
		}
	}
	return p.fresh(lvl), "decoded again"
}

// drvCall evaluates f for p; ok=false if the function does not apply to p. A panic inside the derivation is part of
// the result (rendered), it is compared like any other value.
func drvCall(hcs [3]*core.HeaderChain, f *drvFn, p *drvParent, stored bool) (v drvVal, how string, ok bool) {
	if !p.Levels[f.lvl] {
		return drvVal{}, "", false
	}
	arg, how := drvArg(hcs, p, f.lvl, stored)
	if arg == nil || !f.applies(p, arg) {
		return drvVal{}, "", false
	}
	defer func() {
		if r := recover(); r != nil {
			v, ok = drvVal{s: fmt.Sprintf("panic: %v", r)}, true
		}
	}()
	return f.eval(hcs[f.lvl], p, arg), how, true
}
