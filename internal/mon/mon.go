// Package mon is the verdict / evidence plumbing shared by every check.
//
// A check is a Go test that creates one *M, reports every oracle evaluation
// through Eval (non-trivial) or Trivial, every refuting observation through
// Violation, and calls Finish. Finish writes a JSON result that cmd/vcheck
// turns into /verif/evidence/<id>.json and into the exit code.
//
// Verdicts are three-valued: violated, held-on-what-was-observed,
// inconclusive. Nothing in this package reads the wall clock to decide.
package mon

import (
	"encoding/hex"
	"encoding/json"
	"fmt"
	"hash/fnv"
	"math/rand"
	"os"
	"path/filepath"
	"runtime/debug"
	"sort"
	"strconv"
	"sync"
	"testing"
	"time"
)

type Violation struct {
	Signature string `json:"signature"`
	Detail    string `json:"detail"`
	Replay    string `json:"replay"`
}

type Result struct {
	Property     string           `json:"property"`
	Stage        string           `json:"stage"`
	Tier         string           `json:"tier"`
	Seed         int64            `json:"seed"`
	Evaluations  int64            `json:"evaluations"`
	Trivial      int64            `json:"trivial"`
	Classes      map[string]int64 `json:"classes"`
	Distinct     int64            `json:"distinct"`
	Rule         string           `json:"rule"`
	Samples      []any            `json:"samples"`
	Assumptions  []string         `json:"assumptions"`
	Violations   []Violation      `json:"violations"`
	Inconclusive []string         `json:"inconclusive"`
	Extra        map[string]any   `json:"extra"`
	WallS        float64          `json:"wall_s"`
	Finished     bool             `json:"finished"`
}

type M struct {
	mu        sync.Mutex
	t         testing.TB
	res       Result
	distinct  map[uint64]struct{}
	start     time.Time
	out       string
	replayDir string
	maxSample int
	maxViol   int
	sigSeen   map[string]int
	floorEv   int64
	floorCl   int
	needCl    []string
}

func envOr(k, d string) string {
	if v := os.Getenv(k); v != "" {
		return v
	}
	return d
}

// New creates the monitor state for one stage of one property's check.
func New(t testing.TB, property, stage string) *M {
	seed, err := strconv.ParseInt(envOr("VERIF_SEED", "1"), 10, 64)
	if err != nil {
		seed = 1
	}
	tier := envOr("VERIF_TIER", "quick")
	if tier != "quick" && tier != "thorough" {
		tier = "quick"
	}
	m := &M{
		t:         t,
		distinct:  map[uint64]struct{}{},
		start:     time.Now(),
		out:       os.Getenv("VERIF_OUT"),
		replayDir: envOr("VERIF_REPLAY_DIR", filepath.Join(os.TempDir(), "verif-replays")),
		maxSample: 6,
		maxViol:   300,
		sigSeen:   map[string]int{},
	}
	m.res = Result{Property: property, Stage: stage, Tier: tier, Seed: seed,
		Classes: map[string]int64{}, Extra: map[string]any{}}
	return m
}

func (m *M) Seed() int64    { return m.res.Seed }
func (m *M) Tier() string   { return m.res.Tier }
func (m *M) Thorough() bool { return m.res.Tier == "thorough" }

// N picks a case count by tier. VERIF_SCALE (float) multiplies it; it is for
// calibration sweeps only and never set by registered commands.
func (m *M) N(quick, thorough int) int {
	n := quick
	if m.Thorough() {
		n = thorough
	}
	if s := os.Getenv("VERIF_SCALE"); s != "" {
		if f, err := strconv.ParseFloat(s, 64); err == nil && f > 0 {
			n = int(float64(n) * f)
			if n < 1 {
				n = 1
			}
		}
	}
	return n
}

// Rand returns a PRNG that is a pure function of (seed, stream).
func (m *M) Rand(stream string) *rand.Rand {
	h := fnv.New64a()
	h.Write([]byte(stream))
	return rand.New(rand.NewSource(m.res.Seed*1000003 + int64(h.Sum64()&0x7fffffffffff)))
}

func (m *M) Rule(s string) { m.mu.Lock(); m.res.Rule = s; m.mu.Unlock() }
func (m *M) Assume(s ...string) {
	m.mu.Lock()
	m.res.Assumptions = append(m.res.Assumptions, s...)
	m.mu.Unlock()
}

// Eval records one non-trivial oracle evaluation in coverage class `class`.
// key, if non-empty, identifies the case for distinct counting.
func (m *M) Eval(class, key string) {
	m.mu.Lock()
	m.res.Evaluations++
	m.res.Classes[class]++
	if key != "" {
		h := fnv.New64a()
		h.Write([]byte(class))
		h.Write([]byte{0})
		h.Write([]byte(key))
		m.distinct[h.Sum64()] = struct{}{}
	}
	m.mu.Unlock()
}

// EvalN records n evaluations of the same class at once.
func (m *M) EvalN(class string, n int64) {
	m.mu.Lock()
	m.res.Evaluations += n
	m.res.Classes[class] += n
	m.mu.Unlock()
}

// Trivial records a generated case on which the oracle had nothing to decide.
func (m *M) Trivial() { m.mu.Lock(); m.res.Evaluations++; m.res.Trivial++; m.mu.Unlock() }

func (m *M) Sample(v any) {
	m.mu.Lock()
	if len(m.res.Samples) < m.maxSample {
		m.res.Samples = append(m.res.Samples, v)
	}
	m.mu.Unlock()
}

// SampleClass keeps at most one sample per class (and at most 12 overall).
func (m *M) SampleClass(class string, v any) {
	m.mu.Lock()
	k := "sample:" + class
	if m.sigSeen[k] == 0 && len(m.res.Samples) < 12 {
		m.sigSeen[k] = 1
		m.res.Samples = append(m.res.Samples, map[string]any{"class": class, "case": v})
	}
	m.mu.Unlock()
}

func (m *M) Extra(k string, v any) { m.mu.Lock(); m.res.Extra[k] = v; m.mu.Unlock() }
func (m *M) AddExtra(k string, d int64) {
	m.mu.Lock()
	old, _ := m.res.Extra[k].(int64)
	m.res.Extra[k] = old + d
	m.mu.Unlock()
}

// Violation records a refuting observation. signature names the specific
// failing input class / call site / history shape (matched against
// known_findings.json by vcheck); witness is written to a replay file.
func (m *M) Violation(signature, detail string, witness any) {
	m.mu.Lock()
	defer m.mu.Unlock()
	m.sigSeen[signature]++
	if m.sigSeen[signature] > 2 || len(m.res.Violations) >= m.maxViol {
		// keep counting but do not flood
		old, _ := m.res.Extra["violations_suppressed"].(int64)
		m.res.Extra["violations_suppressed"] = old + 1
		return
	}
	os.MkdirAll(m.replayDir, 0o755)
	name := fmt.Sprintf("%s-%s-seed%d-%d.json", m.res.Property, m.res.Stage, m.res.Seed, len(m.res.Violations))
	path := filepath.Join(m.replayDir, name)
	w := map[string]any{"property": m.res.Property, "stage": m.res.Stage, "seed": m.res.Seed, "tier": m.res.Tier,
		"signature": signature, "detail": detail, "witness": witness}
	b, err := json.MarshalIndent(w, "", " ")
	if err != nil {
		b, _ = json.MarshalIndent(map[string]any{"property": m.res.Property, "signature": signature, "detail": detail,
			"witness": fmt.Sprintf("%+v", witness)}, "", " ")
	}
	os.WriteFile(path, b, 0o644)
	if len(detail) > 2000 {
		detail = detail[:2000] + "…"
	}
	m.res.Violations = append(m.res.Violations, Violation{Signature: signature, Detail: detail, Replay: path})
	m.flushLocked(false)
}

// Seen reports how often a coverage class has been evaluated so far.
func (m *M) Seen(class string) int64 {
	m.mu.Lock()
	defer m.mu.Unlock()
	return m.res.Classes[class]
}

func (m *M) Violations() int { m.mu.Lock(); defer m.mu.Unlock(); return len(m.res.Violations) }

func (m *M) Inconclusive(reason string) {
	m.mu.Lock()
	m.res.Inconclusive = append(m.res.Inconclusive, reason)
	m.mu.Unlock()
}

// Floor: fewer evaluations or classes than this ⇒ the run is inconclusive.
func (m *M) Floor(evals int64, classes int) { m.floorEv, m.floorCl = evals, classes }

// Need: each named class must have been observed at least once.
func (m *M) Need(classes ...string) { m.needCl = append(m.needCl, classes...) }

// Guard runs f and converts a panic into a violation with the given
// signature prefix. It returns true if f panicked.
func (m *M) Guard(signature string, witness func() any, f func()) (panicked bool) {
	defer func() {
		if r := recover(); r != nil {
			panicked = true
			var w any
			if witness != nil {
				w = witness()
			}
			m.Violation(signature, fmt.Sprintf("panic: %v\n%s", r, debug.Stack()), w)
		}
	}()
	f()
	return false
}

func (m *M) flushLocked(final bool) {
	if m.out == "" {
		return
	}
	m.res.WallS = time.Since(m.start).Seconds()
	m.res.Distinct = int64(len(m.distinct))
	m.res.Finished = final
	b, _ := json.Marshal(&m.res)
	tmp := m.out + ".tmp"
	if os.WriteFile(tmp, b, 0o644) == nil {
		os.Rename(tmp, m.out)
	}
}

// Finish evaluates the floors, writes the result and fails the test on
// violations so that a plain `go test` run shows them too.
func (m *M) Finish() {
	m.mu.Lock()
	nontrivial := m.res.Evaluations - m.res.Trivial
	if nontrivial < m.floorEv {
		m.res.Inconclusive = append(m.res.Inconclusive, fmt.Sprintf("only %d non-trivial evaluations (floor %d)", nontrivial, m.floorEv))
	}
	if len(m.res.Classes) < m.floorCl {
		m.res.Inconclusive = append(m.res.Inconclusive, fmt.Sprintf("only %d coverage classes (floor %d)", len(m.res.Classes), m.floorCl))
	}
	for _, c := range m.needCl {
		if m.res.Classes[c] == 0 {
			m.res.Inconclusive = append(m.res.Inconclusive, "required coverage class never observed: "+c)
		}
	}
	m.flushLocked(true)
	nv, inc := len(m.res.Violations), append([]string(nil), m.res.Inconclusive...)
	cls := make([]string, 0, len(m.res.Classes))
	for c, n := range m.res.Classes {
		cls = append(cls, fmt.Sprintf("%s=%d", c, n))
	}
	sort.Strings(cls)
	ev, dist := m.res.Evaluations, len(m.distinct)
	viol := append([]Violation(nil), m.res.Violations...)
	m.mu.Unlock()
	m.t.Logf("%s/%s: evaluations=%d distinct=%d classes=%d %v", m.res.Property, m.res.Stage, ev, dist, len(cls), cls)
	for _, v := range viol {
		m.t.Errorf("VIOLATION %s: %s", v.Signature, v.Detail)
	}
	for _, r := range inc {
		m.t.Logf("INCONCLUSIVE: %s", r)
	}
	_ = nv
}

// Hex is a small helper for samples/witnesses.
func Hex(b []byte) string { return hex.EncodeToString(b) }

// Short returns at most n bytes of b as hex.
func Short(b []byte, n int) string {
	if len(b) > n {
		return hex.EncodeToString(b[:n]) + fmt.Sprintf("…(%d bytes)", len(b))
	}
	return hex.EncodeToString(b)
}
