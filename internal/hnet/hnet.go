// Package hnet runs a three-level go-quai hierarchy (prime, region-0,
// zone-0-0) inside one process, driven through the production entry points
// in production order: GeneratePendingHeader on each level, MakeFullPendingHeader,
// GetPendingHeader, nonce grinding with the real engine, ReceiveMinedHeader,
// a wire round trip of each level's block, WriteBlock, Append, pending ETXs
// to the dominant chain.
package hnet

import (
	"errors"
	"fmt"
	"strings"
	"math/big"
	"os"
	"sync"
	"time"

	"github.com/dominant-strategies/go-quai/common"
	"github.com/dominant-strategies/go-quai/consensus"
	"github.com/dominant-strategies/go-quai/consensus/blake3pow"
	"github.com/dominant-strategies/go-quai/core"
	"github.com/dominant-strategies/go-quai/core/rawdb"
	"github.com/dominant-strategies/go-quai/core/state"
	"github.com/dominant-strategies/go-quai/core/types"
	"github.com/dominant-strategies/go-quai/core/vm"
	"github.com/dominant-strategies/go-quai/ethdb"
	"github.com/dominant-strategies/go-quai/ethdb/memorydb"
	"github.com/dominant-strategies/go-quai/log"
	"github.com/dominant-strategies/go-quai/p2p/pb"
	"github.com/dominant-strategies/go-quai/params"
	"github.com/dominant-strategies/go-quai/trie"
	"github.com/sirupsen/logrus"
)

var (
	PrimeLoc  = common.Location{}
	RegionLoc = common.Location{0}
	ZoneLoc   = common.Location{0, 0}
	Locs      = []common.Location{PrimeLoc, RegionLoc, ZoneLoc}
)

// ---------------------------------------------------------------- params compression

// Regime is the set of protocol timeline parameters (Go vars in /repo/params)
// compressed so that every regime is reached within ~100 blocks. One regime
// per OS process: the vars are global.
type Regime struct {
	Name                  string
	TimeToStartTx         uint64
	ControllerKickIn      uint64
	ConversionLockPeriod  uint64
	LockupDepths          [4]uint64
	CoinbaseEpochBlocks   uint64
	KawPowForkBlock       uint64
	Far                   uint64 // value used for "never" forks
	LockupPrecompileKick  uint64
	MinerDifficultyWindow uint64
	TrimDepths            map[uint8]uint64
}

func DefaultRegime() Regime {
	const far = uint64(1) << 40
	return Regime{
		Name:                  "pre-kawpow-compressed",
		TimeToStartTx:         2,
		ControllerKickIn:      2,
		ConversionLockPeriod:  4,
		LockupDepths:          [4]uint64{4, 8, 12, 16},
		CoinbaseEpochBlocks:   10,
		KawPowForkBlock:       far,
		Far:                   far,
		LockupPrecompileKick:  3,
		MinerDifficultyWindow: 8,
	}
}

var regimeOnce sync.Once
var regimeApplied Regime

// ApplyRegime sets the global protocol vars. Only the first call has effect.
func ApplyRegime(r Regime) Regime {
	regimeOnce.Do(func() {
		params.TimeToStartTx = r.TimeToStartTx
		params.ControllerKickInBlock = r.ControllerKickIn
		params.ConversionLockPeriod = r.ConversionLockPeriod
		params.LockupByteToBlockDepth = r.LockupDepths
		params.CoinbaseEpochBlocks = r.CoinbaseEpochBlocks
		params.CoinbaseLockupPrecompileKickInHeight = r.LockupPrecompileKick
		params.KawPowForkBlock = r.KawPowForkBlock
		params.KQuaiResetAfterKawPowForkBlock = r.KawPowForkBlock
		params.MinerDifficultyWindow = r.MinerDifficultyWindow
		// forks that are far in the future on a fresh chain stay far unless a
		// regime moves them
		regimeApplied = r
	})
	return regimeApplied
}

// ---------------------------------------------------------------- location-aware memory db

type locMemDB struct {
	*memorydb.Database
	loc common.Location
}

func (d *locMemDB) Location() common.Location { return d.loc }

// NewMemDB returns a rawdb database over memorydb that reports loc, like
// leveldb/pebble do (memorydb.Location() is nil, which would make re-read
// blocks decode their addresses as foreign).
func NewMemDB(loc common.Location, logger *log.Logger) (ethdb.Database, *memorydb.Database) {
	m := memorydb.New(logger)
	return rawdb.NewDatabase(&locMemDB{m, loc}), m
}

// WrapMem gives an existing memorydb (e.g. a copy) the location-aware wrapper.
func WrapMem(m *memorydb.Database, loc common.Location) ethdb.Database {
	return rawdb.NewDatabase(&locMemDB{m, loc})
}

// CopyMem copies every key/value of a memorydb.
func CopyMem(src *memorydb.Database, logger *log.Logger) *memorydb.Database {
	dst := memorydb.New(logger)
	it := src.NewIterator(nil, nil)
	for it.Next() {
		dst.Put(common.CopyBytes(it.Key()), common.CopyBytes(it.Value()))
	}
	it.Release()
	return dst
}

// ---------------------------------------------------------------- adapter: *core.Core as core.CoreBackend

type adapter struct {
	c   *core.Core
	lvl int
	// minedSink receives the block this level constructed when a sub
	// cascaded a mined header up (in production the level's API backend
	// would now broadcast it).
	minedSink func(lvl int, b *types.WorkObject)
	// holdRollup (dom-side adapter of the region): fault injection, see Net.HoldPendingEtxs
	holdRollup func(p types.PendingEtxsRollup) bool
}

func (a *adapter) AddPendingEtxs(p types.PendingEtxs) error { return a.c.AddPendingEtxs(p) }
func (a *adapter) AddPendingEtxsRollup(p types.PendingEtxsRollup) error {
	if a.holdRollup != nil && a.holdRollup(p) {
		return nil // delayed: delivered by Net.ReleaseHeld
	}
	return a.c.AddPendingEtxsRollup(p)
}
func (a *adapter) RequestDomToAppendOrFetch(hash common.Hash, entropy *big.Int, order int) {
	// the harness drives appends itself; a sub asking its dom to fetch is a no-op
}
func (a *adapter) Append(header *types.WorkObject, manifest types.BlockManifest, domTerminus common.Hash, domOrigin bool, newInboundEtxs types.Transactions) (types.Transactions, error) {
	return a.c.Append(header, manifest, domTerminus, domOrigin, newInboundEtxs)
}
func (a *adapter) DownloadBlocksInManifest(hash common.Hash, manifest types.BlockManifest, entropy *big.Int) {
}
func (a *adapter) GenerateRecoveryPendingHeader(ph *types.WorkObject, cp types.Termini) error {
	return a.c.GenerateRecoveryPendingHeader(ph, cp)
}
func (a *adapter) GetPendingEtxsRollupFromSub(hash common.Hash, loc common.Location) (types.PendingEtxsRollup, error) {
	return a.c.GetPendingEtxsRollupFromSub(hash, loc)
}
func (a *adapter) GetPendingEtxsFromSub(hash common.Hash, loc common.Location) (types.PendingEtxs, error) {
	return a.c.GetPendingEtxsFromSub(hash, loc)
}
func (a *adapter) NewGenesisPendingHeader(ph *types.WorkObject, domTerminus common.Hash, hash common.Hash) error {
	return a.c.Slice().NewGenesisPendingHeader(ph, domTerminus, hash)
}
func (a *adapter) GetManifest(h common.Hash) (types.BlockManifest, error) { return a.c.GetManifest(h) }
func (a *adapter) GetPrimeBlock(h common.Hash) *types.WorkObject          { return a.c.GetPrimeBlock(h) }
func (a *adapter) GetKQuaiAndUpdateBit(h common.Hash) (*big.Int, uint8, error) {
	return a.c.GetKQuaiAndUpdateBit(h)
}
func (a *adapter) ReceiveMinedHeader(wo *types.WorkObject) error {
	b, err := a.c.ReceiveMinedHeader(wo)
	if err == nil && a.minedSink != nil {
		a.minedSink(a.lvl, b)
	}
	return err
}

// ---------------------------------------------------------------- the net

type Options struct {
	Backend           string // "memory" (default), "leveldb", "pebble"
	Dir               string // directory for disk backends
	WrapDB            func(level int, db ethdb.Database) ethdb.Database
	MinerPreference   float64
	QuaiCoinbase      common.Address
	QiCoinbase        common.Address
	CoinbaseLockup    uint8
	LockupContract    *common.Address
	GenAllocs         []params.GenesisAccount
	IndexAddressUtxos bool
	Difficulty        int64
	TxPool            *core.TxPoolConfig
	Engines           []consensus.Engine // default: blake3pow twice
	LogLevel          string
	// DBs: reopen on existing databases (restart) instead of creating new ones.
	DBs [3]ethdb.Database
}

type Node struct {
	Ctx   int
	Loc   common.Location
	Core  *core.Core
	DB    ethdb.Database
	MemDB *memorydb.Database // set for the memory backend
}

type Net struct {
	Opts    Options
	Nodes   [3]*Node
	Genesis *core.Genesis
	GenHash common.Hash
	Logger  *log.Logger
	Engine  consensus.Engine
	Regime  Regime

	engines    []consensus.Engine
	powCfgBase params.PowConfig
	chainID    *big.Int

	mu    sync.Mutex
	Trace []*Mined
	// HoldPendingEtxs: level (1 region, 2 zone) whose pending-ETX messages to its dominant chain are held back
	// until ReleaseHeld (0 = none)
	HoldPendingEtxs int
	held            []heldPetxs
	heldRollups     []types.PendingEtxsRollup
	minedBy         [3]*types.WorkObject
	// Tips are the harness's notion of the best head per level (production: the
	// hierarchical coordinator picks them); advanced by every successful append.
	Tips [3]*types.WorkObject
	// GenesisKicks counts how often New had to restart the genesis pending-header hand-down
	GenesisKicks int
	// AppendRetries counts re-deliveries after a transient append error (see submit)
	AppendRetries int
	// StaleTemplates counts sealed headers the node refused with ErrBodyNotFound (template replaced meanwhile)
	StaleTemplates int
}

func (n *Net) Prime() *Node  { return n.Nodes[0] }
func (n *Net) Region() *Node { return n.Nodes[1] }
func (n *Net) Zone() *Node   { return n.Nodes[2] }

var loggerOnce sync.Once
var sharedLogger *log.Logger

// QuietLogger returns a logger writing errors only into ./nodelogs; Fatal
// panics instead of exiting so that a monitor can attribute it.
func QuietLogger(level string) *log.Logger {
	loggerOnce.Do(func() {
		if level == "" {
			level = "error"
		}
		if v := os.Getenv("VERIF_LOGLEVEL"); v != "" {
			level = v
		}
		sharedLogger = log.NewLogger("nodelogs/hnet.log", level, 100)
		sharedLogger.ExitFunc = func(code int) { panic(fmt.Sprintf("logger.Fatal (exit %d)", code)) }
		log.Global.ExitFunc = func(code int) { panic(fmt.Sprintf("log.Global.Fatal (exit %d)", code)) }
		logrus.StandardLogger().ExitFunc = func(code int) { panic(fmt.Sprintf("logrus.Fatal (exit %d)", code)) }
	})
	return sharedLogger
}

// QuaiAddr returns an in-zone (0,0) Quai-ledger address derived from tag.
func QuaiAddr(tag byte, loc common.Location) common.Address {
	b := make([]byte, 20)
	b[0] = 0x00
	b[1] = 0x10 | (tag & 0x0f)
	for i := 2; i < 20; i++ {
		b[i] = tag
	}
	return common.BytesToAddress(b, loc)
}

// QiAddr returns an in-zone (0,0) Qi-ledger address derived from tag.
func QiAddr(tag byte, loc common.Location) common.Address {
	b := make([]byte, 20)
	b[0] = 0x00
	b[1] = 0x80 | (tag & 0x0f)
	for i := 2; i < 20; i++ {
		b[i] = tag
	}
	return common.BytesToAddress(b, loc)
}

func New(opts Options) (*Net, error) {
	logger := QuietLogger(opts.LogLevel)
	n := &Net{Opts: opts, Logger: logger, Regime: ApplyRegime(DefaultRegime())}
	if opts.Difficulty == 0 {
		opts.Difficulty = 4000
	}
	if opts.MinerPreference == 0 {
		opts.MinerPreference = 0.5
	}
	if opts.QuaiCoinbase.Equal(common.Address{}) {
		opts.QuaiCoinbase = QuaiAddr(0xc1, ZoneLoc)
	}
	if opts.QiCoinbase.Equal(common.Address{}) {
		opts.QiCoinbase = QiAddr(0xc2, ZoneLoc)
	}
	n.Opts = opts
	cfg := *params.Blake3PowLocalChainConfig
	cfg.Location = common.Location{}
	n.Genesis = &core.Genesis{
		Config:     &cfg,
		Nonce:      0,
		ExtraData:  []byte("verif"),
		GasLimit:   12000000,
		Difficulty: big.NewInt(opts.Difficulty),
	}
	powCfgBase := params.PowConfig{
		PowMode:       params.ModeNormal,
		DurationLimit: params.LocalDurationLimit,
		GasCeil:       params.LocalGasCeil,
		MinDifficulty: big.NewInt(1000),
		GenAllocs:     opts.GenAllocs,
	}
	engines := opts.Engines
	if engines == nil {
		pc := powCfgBase
		pc.NodeLocation = ZoneLoc
		e := blake3pow.New(pc, nil, false, logger)
		engines = []consensus.Engine{e, e}
	}
	n.Engine = engines[0]
	reopen := opts.DBs[0] != nil
	for lvl := 0; lvl < 3; lvl++ {
		loc := Locs[lvl]
		node := &Node{Ctx: lvl, Loc: loc}
		if reopen {
			node.DB = opts.DBs[lvl]
		} else {
			switch opts.Backend {
			case "", "memory":
				node.DB, node.MemDB = NewMemDB(loc, logger)
			case "leveldb":
				db, err := rawdb.NewLevelDBDatabase(fmt.Sprintf("%s/l%d", opts.Dir, lvl), 16, 16, "", false, logger, loc)
				if err != nil {
					return nil, err
				}
				node.DB = db
			case "pebble":
				db, err := rawdb.NewPebbleDBDatabase(fmt.Sprintf("%s/p%d", opts.Dir, lvl), 16, 16, "", false, logger, loc)
				if err != nil {
					return nil, err
				}
				node.DB = db
			default:
				return nil, fmt.Errorf("unknown backend %q", opts.Backend)
			}
		}
		if opts.WrapDB != nil {
			node.DB = opts.WrapDB(lvl, node.DB)
		}
		_, gh, err := core.SetupGenesisBlockWithOverride(node.DB, n.Genesis, 0, nil, loc, 0, logger)
		if err != nil {
			return nil, fmt.Errorf("genesis level %d: %w", lvl, err)
		}
		n.GenHash = gh
		n.Nodes[lvl] = node
	}
	n.engines, n.powCfgBase, n.chainID = engines, powCfgBase, cfg.ChainID
	for lvl := 0; lvl < 3; lvl++ {
		c, err := n.NewCoreOn(lvl, n.Nodes[lvl].DB)
		if err != nil {
			return nil, fmt.Errorf("NewCore level %d: %w", lvl, err)
		}
		n.Nodes[lvl].Core = c
	}
	// wire the hierarchy
	sink := func(lvl int, b *types.WorkObject) {
		n.mu.Lock()
		n.minedBy[lvl] = b
		n.mu.Unlock()
	}
	n.Nodes[0].Core.SetSubInterface(&adapter{c: n.Nodes[1].Core, lvl: 1, minedSink: sink}, RegionLoc)
	n.Nodes[1].Core.SetDomInterface(&adapter{c: n.Nodes[0].Core, lvl: 0, minedSink: sink, holdRollup: func(p types.PendingEtxsRollup) bool {
		n.mu.Lock()
		defer n.mu.Unlock()
		if n.HoldPendingEtxs != 1 {
			return false
		}
		n.heldRollups = append(n.heldRollups, p)
		return true
	}})
	n.Nodes[1].Core.SetSubInterface(&adapter{c: n.Nodes[2].Core, lvl: 2, minedSink: sink}, ZoneLoc)
	n.Nodes[2].Core.SetDomInterface(&adapter{c: n.Nodes[1].Core, lvl: 1, minedSink: sink})
	if !reopen {
		// the prime's init() goroutine pushes the genesis pending header down
		// once the sub interfaces are set; wait for the zone to have one
		deadline := time.Now().Add(300 * time.Second) // watchdog only (loaded machines)
		kick := time.Now().Add(45 * time.Second)
		for {
			if time.Now().After(kick) {
				// The hand-down is a single fire-and-forget goroutine of the prime slice; on a badly loaded
				// (race-instrumented) machine it was seen not to arrive. Start it again, as a node restart would.
				kick = time.Now().Add(45 * time.Second)
				n.GenesisKicks++
				gh := n.GenHash
				go n.Nodes[0].Core.Slice().NewGenesisPendingHeader(nil, gh, gh)
			}
			// (each level stores its own genesis pending header after handing it down: wait for all three)
			if n.Zone().Core.Slice().ReadBestPh() != nil && n.Nodes[1].Core.Slice().ReadBestPh() != nil && n.Nodes[0].Core.Slice().ReadBestPh() != nil {
				break
			}
			if time.Now().After(deadline) {
				return nil, errors.New("the hierarchy never received its genesis pending headers")
			}
			time.Sleep(5 * time.Millisecond)
		}
	}
	return n, nil
}

// NewCoreOn opens a core for level lvl on db with this net's configuration
// (used for the three live nodes and for twins opened on database copies).
func (n *Net) NewCoreOn(lvl int, db ethdb.Database) (*core.Core, error) {
	opts := n.Opts
	loc := Locs[lvl]
	chainCfg := &params.ChainConfig{
		ChainID:            n.chainID,
		ConsensusEngine:    "blake3",
		Blake3Pow:          params.Blake3PowLocalChainConfig.Blake3Pow,
		Progpow:            params.Blake3PowLocalChainConfig.Progpow,
		Location:           loc,
		DefaultGenesisHash: n.GenHash,
		IndexAddressUtxos:  opts.IndexAddressUtxos,
	}
	powCfg := n.powCfgBase
	powCfg.NodeLocation = loc
	minerCfg := &core.Config{
		QuaiCoinbase:          opts.QuaiCoinbase,
		QiCoinbase:            opts.QiCoinbase,
		CoinbaseLockup:        opts.CoinbaseLockup,
		LockupContractAddress: opts.LockupContract,
		MinerPreference:       opts.MinerPreference,
		ExtraData:             []byte("verif"),
		GasFloor:              12000000,
		GasCeil:               params.LocalGasCeil,
		GasPrice:              big.NewInt(1),
		Recommit:              time.Second,
	}
	txCfg := core.DefaultTxPoolConfig
	if opts.TxPool != nil {
		txCfg = *opts.TxPool
	}
	txCfg.Journal = ""
	txCfg.NoLocals = false
	limit := uint64(0)
	cacheCfg := &core.CacheConfig{TrieCleanLimit: 16, TrieDirtyLimit: 16, TrieTimeLimit: 5 * time.Minute, SnapshotLimit: 0, Preimages: true}
	return core.NewCore(db, minerCfg, powCfg, &txCfg, &limit, chainCfg, []common.Location{ZoneLoc}, 0, nil, n.engines, cacheCfg, vm.Config{}, n.Genesis, n.Logger)
}

// Stop stops all cores (clean shutdown).
func (n *Net) Stop() {
	for _, nd := range n.Nodes {
		if nd != nil && nd.Core != nil {
			func() {
				defer func() { recover() }()
				nd.Core.Stop()
			}()
		}
	}
}

// Close stops and closes disk databases.
func (n *Net) Close() {
	n.Stop()
	for _, nd := range n.Nodes {
		if nd != nil && nd.DB != nil && nd.MemDB == nil {
			nd.DB.Close()
		}
	}
}

// Head returns the current head block of a level.
func (n *Net) Head(lvl int) *types.WorkObject {
	c := n.Nodes[lvl].Core
	h := c.CurrentHeader()
	if h == nil {
		return nil
	}
	if b := c.GetBlockByHash(h.Hash()); b != nil {
		return b
	}
	return h
}

func (n *Net) Heads() [3]*types.WorkObject {
	var h [3]*types.WorkObject
	for lvl := 0; lvl < 3; lvl++ {
		h[lvl] = n.Tips[lvl]
		if h[lvl] == nil {
			h[lvl] = n.Head(lvl)
		}
	}
	return h
}

// SetTips makes the given blocks the heads that the next Mine builds on.
func (n *Net) SetTips(t [3]*types.WorkObject) { n.Tips = t }

// Block returns a level's stored view of a block.
func (n *Net) Block(lvl int, h common.Hash) *types.WorkObject {
	return n.Nodes[lvl].Core.GetBlockByHash(h)
}

// (StaleTemplates, a field of Net, counts sealed headers the node refused with ErrBodyNotFound; see Mine.)

// Mined is the record of one mining step (the event log monitors run over).
type Mined struct {
	Order     int
	Hash      common.Hash
	Number    [3]uint64
	Parent    [3]common.Hash
	Blocks    [3]*types.WorkObject // per level, after the wire round trip (nil above the order)
	Wire      [3][]byte            // the encoded block view per level
	Pending   *types.WorkObject    // the sealed pending header as handed to ReceiveMinedHeader
	AppendErr error
	Etxs      types.Transactions // ETXs emitted by the zone block (returned by the zone's Append)
}

type MineOpts struct {
	Heads     *[3]*types.WorkObject // nil: current heads
	WantOrder int                   // -1: whatever comes; else grind until the order matches
	MaxOrder  bool                  // WantOrder is a lower bound on dominance (order <= WantOrder)
	Fill      bool
	NoAppend  bool // seal and construct the blocks but do not write/append
	Coinbase  common.Address
}

// BuildPending runs the pending-header pipeline on the given heads and
// returns the zone's full pending header (unsealed).
func (n *Net) BuildPending(heads [3]*types.WorkObject, fill bool) (*types.WorkObject, error) {
	var phs [3]*types.WorkObject
	for lvl := 0; lvl < 3; lvl++ {
		ph, err := n.Nodes[lvl].Core.GeneratePendingHeader(heads[lvl], fill)
		if err != nil {
			return nil, fmt.Errorf("GeneratePendingHeader level %d on %x: %w", lvl, heads[lvl].Hash().Bytes()[:4], err)
		}
		phs[lvl] = ph
	}
	n.Zone().Core.MakeFullPendingHeader(phs[0], phs[1], phs[2])
	return n.Zone().Core.GetPendingHeader(types.Progpow, common.Address{})
}

var big2e256 = new(big.Int).Lsh(big.NewInt(1), 256)

// Seal grinds the nonce until the header is a valid zone block of the wanted
// order (-1 = any).
func (n *Net) Seal(wo *types.WorkObject, wantOrder int, maxOrder bool) (int, error) {
	target := new(big.Int).Div(big2e256, wo.Difficulty())
	zc := n.Zone().Core
	for nonce := uint64(time.Now().UnixNano()); ; nonce++ {
		wo.WorkObjectHeader().SetNonce(types.EncodeNonce(nonce))
		h, err := n.Engine.ComputePowHash(wo.WorkObjectHeader())
		if err != nil {
			return 0, err
		}
		if new(big.Int).SetBytes(h.Bytes()).Cmp(target) > 0 {
			continue
		}
		_, order, err := zc.CalcOrder(wo)
		if err != nil {
			return 0, fmt.Errorf("CalcOrder: %w", err)
		}
		if wantOrder < 0 || order == wantOrder || (maxOrder && order <= wantOrder) {
			return order, nil
		}
	}
}

// WireRoundTrip sends a block through the gossip codec.
func WireRoundTrip(b *types.WorkObject, loc common.Location) (*types.WorkObject, []byte, error) {
	view := b.ConvertToBlockView()
	data, err := pb.ConvertAndMarshal(view)
	if err != nil {
		return nil, nil, err
	}
	var out interface{}
	if err := pb.UnmarshalAndConvert(data, loc, &out, &types.WorkObjectBlockView{}); err != nil {
		return nil, data, err
	}
	switch bv := out.(type) {
	case *types.WorkObjectBlockView:
		return bv.WorkObject, data, nil
	case types.WorkObjectBlockView:
		return bv.WorkObject, data, nil
	}
	return nil, data, fmt.Errorf("unexpected decoded type %T", out)
}

// InsertAt does what Core.InsertChain does for one block at its own order's
// level, but returns the Append error.
func (n *Net) InsertAt(lvl int, block *types.WorkObject) (types.Transactions, error) {
	c := n.Nodes[lvl].Core
	etxs, err := c.Slice().Append(block, common.Hash{}, false, nil)
	if err != nil {
		return nil, err
	}
	if lvl > common.PRIME_CTX {
		p := types.PendingEtxs{Header: block.ConvertToPEtxView(), OutboundEtxs: etxs}
		if p.IsValid(trie.NewStackTrie(nil)) {
			n.mu.Lock()
			hold := n.HoldPendingEtxs == lvl
			if hold {
				// fault injection: the message to the dominant chain is delayed until ReleaseHeld
				n.held = append(n.held, heldPetxs{lvl, p})
			}
			n.mu.Unlock()
			if hold {
				return etxs, nil
			}
			if err := c.SendPendingEtxsToDom(p); err != nil {
				return etxs, fmt.Errorf("SendPendingEtxsToDom: %w", err)
			}
		}
	}
	return etxs, nil
}

type heldPetxs struct {
	lvl int
	p   types.PendingEtxs
}

// ReleaseHeld delivers the delayed pending-ETX messages (see HoldPendingEtxs), oldest first.
func (n *Net) ReleaseHeld() error {
	n.mu.Lock()
	held := n.held
	n.held = nil
	rollups := n.heldRollups
	n.heldRollups = nil
	n.mu.Unlock()
	for _, p := range rollups {
		if err := n.Nodes[0].Core.AddPendingEtxsRollup(p); err != nil {
			return fmt.Errorf("AddPendingEtxsRollup (delayed): %w", err)
		}
	}
	for _, h := range held {
		if err := n.Nodes[h.lvl].Core.SendPendingEtxsToDom(h.p); err != nil {
			return fmt.Errorf("SendPendingEtxsToDom (delayed): %w", err)
		}
	}
	return nil
}

// Redeliver offers an already constructed mined block again (after an append
// that failed because the dominant chain lacked data) and moves the tips on success.
func (n *Net) Redeliver(m *Mined) error {
	etxs, err := n.Deliver(m.Order, m.Blocks)
	m.AppendErr = err
	if err != nil {
		return err
	}
	m.Etxs = etxs
	for lvl := m.Order; lvl < 3; lvl++ {
		if b := n.Block(lvl, m.Hash); b != nil {
			n.Tips[lvl] = b
		} else {
			n.Tips[lvl] = m.Blocks[lvl]
		}
	}
	return nil
}

// Deliver writes the per-level block views (as a gossiping peer would) and
// appends at the block's order. blocks[lvl] nil for lvl < order.
func (n *Net) Deliver(order int, blocks [3]*types.WorkObject) (types.Transactions, error) {
	for lvl := 2; lvl >= order; lvl-- {
		if blocks[lvl] == nil {
			return nil, fmt.Errorf("no block view for level %d", lvl)
		}
		n.Nodes[lvl].Core.Slice().WriteBlock(blocks[lvl])
	}
	etxs, err := n.InsertAt(order, blocks[order])
	if err != nil {
		return nil, err
	}
	if order < 2 {
		// the zone's own outbound set is what the dom append returned through the sub chain;
		// read it from the zone's store
		if p := rawdb.ReadPendingEtxs(n.Zone().DB, blocks[2].Hash()); p != nil {
			etxs = p.OutboundEtxs
		}
	}
	return etxs, nil
}

// Mine performs one full mining step.
func (n *Net) Mine(o MineOpts) (*Mined, error) {
	heads := n.Heads()
	if o.Heads != nil {
		heads = *o.Heads
	}
	for attempt := 0; ; attempt++ {
		wo, err := n.BuildPending(heads, o.Fill)
		if err != nil {
			return nil, err
		}
		if wo == nil {
			return nil, errors.New("nil pending header")
		}
		order, err := n.Seal(wo, o.WantOrder, o.MaxOrder)
		if err != nil {
			return nil, err
		}
		m, err := n.submit(wo, order, o.NoAppend)
		// The node answers a sealed header whose template it no longer holds (the worker's background
		// loop replaced the pending body while the nonce was being ground - frequent only in slow,
		// race-instrumented builds) with ErrBodyNotFound and asks for a fresh template: do what a miner
		// does and fetch one. Anything else, or a node that keeps losing its templates, is reported.
		if err != nil && errors.Is(err, core.ErrBodyNotFound) && attempt < 4 {
			n.StaleTemplates++
			continue
		}
		return m, err
	}
}

// Submit hands an already sealed pending header to the hierarchy.
func (n *Net) Submit(wo *types.WorkObject) (*Mined, error) {
	_, order, err := n.Zone().Core.CalcOrder(wo)
	if err != nil {
		return nil, err
	}
	return n.submit(wo, order, false)
}

func (n *Net) submit(wo *types.WorkObject, order int, noAppend bool) (*Mined, error) {
	m := &Mined{Order: order, Pending: types.CopyWorkObject(wo)}
	// the zone constructs its block from its pending-body cache and cascades
	// the mined header to its dominant chains, each of which constructs its own
	// body view (production: Slice.ReceiveMinedHeader)
	n.mu.Lock()
	n.minedBy = [3]*types.WorkObject{}
	n.mu.Unlock()
	zb0, err := n.Zone().Core.ReceiveMinedHeader(types.CopyWorkObject(wo))
	if err != nil {
		return nil, fmt.Errorf("ReceiveMinedHeader: %w", err)
	}
	n.mu.Lock()
	built := n.minedBy
	n.mu.Unlock()
	built[2] = zb0
	for lvl := 2; lvl >= order; lvl-- {
		b := built[lvl]
		if b == nil {
			return nil, fmt.Errorf("level %d did not construct a block for an order-%d header", lvl, order)
		}
		rt, data, err := WireRoundTrip(b, n.Nodes[lvl].Loc)
		if err != nil {
			return nil, fmt.Errorf("wire round trip level %d: %w", lvl, err)
		}
		m.Blocks[lvl] = rt
		m.Wire[lvl] = data
	}
	zb := m.Blocks[2]
	m.Hash = zb.Hash()
	for lvl := 0; lvl < 3; lvl++ {
		m.Number[lvl] = zb.NumberU64(lvl)
		m.Parent[lvl] = zb.ParentHash(lvl)
	}
	if noAppend {
		return m, nil
	}
	etxs, err := n.Deliver(order, m.Blocks)
	// A dominant chain that does not yet hold a subordinate block's pending ETXs refuses the coincident
	// block with a transient error and keeps it in its append queue; every retry bumps a counter and after
	// c_pEtxRetryThreshold (10) failed appends it fetches the data from the subordinate chain itself. The
	// harness has no append queue: it re-delivers, as the queue would, unless the check is deliberately
	// holding those messages back (fault injection), in which case the refusal is what the check wants to see.
	n.mu.Lock()
	holding := n.HoldPendingEtxs != 0 || len(n.held) > 0 || len(n.heldRollups) > 0
	n.mu.Unlock()
	for try := 0; err != nil && !holding && transientAppendError(err) && try < 40; try++ {
		n.AppendRetries++
		etxs, err = n.Deliver(order, m.Blocks)
	}
	m.AppendErr = err
	m.Etxs = etxs
	n.mu.Lock()
	n.Trace = append(n.Trace, m)
	n.mu.Unlock()
	if err != nil {
		return m, fmt.Errorf("append (order %d, number %v): %w", order, m.Number, err)
	}
	for lvl := order; lvl < 3; lvl++ {
		if b := n.Block(lvl, m.Hash); b != nil {
			n.Tips[lvl] = b
		} else {
			n.Tips[lvl] = m.Blocks[lvl]
		}
	}
	return m, nil
}

// transientAppendError: the errors Core.InsertChain turns into "block stays in the append queue".
func transientAppendError(err error) bool {
	return errors.Is(err, core.ErrSubNotSyncedToDom) || errors.Is(err, core.ErrPendingEtxNotFound) || errors.Is(err, core.ErrPendingEtxRollupNotFound) ||
		strings.Contains(err.Error(), core.ErrSubNotSyncedToDom.Error()) || strings.Contains(err.Error(), core.ErrPendingEtxNotFound.Error())
}

// MineN mines k blocks on the current heads with natural orders.
func (n *Net) MineN(k int, fill bool) ([]*Mined, error) {
	var out []*Mined
	for i := 0; i < k; i++ {
		m, err := n.Mine(MineOpts{WantOrder: -1, Fill: fill})
		if err != nil {
			return out, fmt.Errorf("block %d: %w", i, err)
		}
		out = append(out, m)
	}
	return out, nil
}

// Settle runs the pending-header pipeline on the current heads so that the
// zone executes the state of its head (state executes lazily).
func (n *Net) Settle() error {
	// fill=true: the pending header this leaves behind is the one the next Mine
	// on the same heads gets back (Slice.GeneratePendingHeader returns the cached
	// one), so it must carry the pool's transactions like the worker's own
	// asyncStateLoop refresh does.
	_, err := n.BuildPending(n.Heads(), true)
	return err
}

// ---------------------------------------------------------------- helpers for adversarial checks

// Reseal grinds a new nonce for a (mutated) block until its PoW hash is at or
// below the target of its declared difficulty and its order is wantOrder
// (-1 = any). It returns the order.
func (n *Net) Reseal(b *types.WorkObject, wantOrder int) (int, error) {
	return n.Seal(b, wantOrder, false)
}

// MemImage copies every key/value of a level's memory database.
func (n *Net) MemImage(lvl int) map[string][]byte {
	img := map[string][]byte{}
	nd := n.Nodes[lvl]
	it := nd.DB.NewIterator(nil, nil)
	for it.Next() {
		img[string(it.Key())] = append([]byte{}, it.Value()...)
	}
	it.Release()
	return img
}

// DiffImage lists keys that were added, removed or changed between two images.
func DiffImage(a, b map[string][]byte) (added, removed, changed []string) {
	for k, v := range b {
		if av, ok := a[k]; !ok {
			added = append(added, k)
		} else if string(av) != string(v) {
			changed = append(changed, k)
		}
	}
	for k := range a {
		if _, ok := b[k]; !ok {
			removed = append(removed, k)
		}
	}
	return
}

// ZoneStateAt opens the zone's account state at a block's roots.
func (n *Net) ZoneStateAt(b *types.WorkObject) (*state.StateDB, error) {
	return n.Zone().Core.StateAt(b.EVMRoot(), b.EtxSetRoot(), b.QuaiStateSize())
}

// Follow delivers a block mined elsewhere (its per-level wire encodings) to
// this net, as a syncing peer would receive it, and advances the tips.
func (n *Net) Follow(m *Mined) error {
	var blocks [3]*types.WorkObject
	for lvl := m.Order; lvl < 3; lvl++ {
		if m.Wire[lvl] == nil {
			return fmt.Errorf("no wire bytes for level %d", lvl)
		}
		var out interface{}
		if err := pb.UnmarshalAndConvert(m.Wire[lvl], n.Nodes[lvl].Loc, &out, &types.WorkObjectBlockView{}); err != nil {
			return fmt.Errorf("decode level %d: %w", lvl, err)
		}
		switch bv := out.(type) {
		case *types.WorkObjectBlockView:
			blocks[lvl] = bv.WorkObject
		case types.WorkObjectBlockView:
			blocks[lvl] = bv.WorkObject
		default:
			return fmt.Errorf("unexpected decoded type %T", out)
		}
	}
	if _, err := n.Deliver(m.Order, blocks); err != nil {
		return err
	}
	for lvl := m.Order; lvl < 3; lvl++ {
		if b := n.Block(lvl, m.Hash); b != nil {
			n.Tips[lvl] = b
		} else {
			n.Tips[lvl] = blocks[lvl]
		}
	}
	return nil
}

// ZoneTwin opens a second zone core on a copy of a zone database image (cold
// caches); the caller must Stop() it.
func (n *Net) ZoneTwin(img *memorydb.Database) (*core.Core, ethdb.Database, error) {
	db := WrapMem(img, ZoneLoc)
	c, err := n.NewCoreOn(2, db)
	return c, db, err
}
