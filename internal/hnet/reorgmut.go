package hnet

// Helpers for checks that hand a node a side branch containing a block that
// only fails at execution (C07 reorg-mutants).

import (
	"bytes"
	"fmt"

	"github.com/dominant-strategies/go-quai/common"
	"github.com/dominant-strategies/go-quai/core/rawdb"
	"github.com/dominant-strategies/go-quai/core/types"
	"github.com/dominant-strategies/go-quai/ethdb"
	"github.com/dominant-strategies/go-quai/trie"
)

// RebaseZoneChild re-parents a zone-order block onto newParent (a zone block
// the node has stored, e.g. a re-sealed variant of the child's original
// parent): the parent hash and the parent-derived entropy fields are set the
// way the worker derives them from the parent (core/worker.go
// GeneratePendingHeader). The header hash link of the work object header is
// refreshed; the caller re-seals.
func (n *Net) RebaseZoneChild(child, newParent *types.WorkObject) error {
	hc := n.Zone().Core.Slice().HeaderChain()
	_, order, err := hc.CalcOrder(newParent)
	if err != nil {
		return fmt.Errorf("CalcOrder(new parent): %w", err)
	}
	if order != common.ZONE_CTX {
		return fmt.Errorf("new parent is of order %d: only zone-order parents are supported", order)
	}
	child.SetParentHash(newParent.Hash(), common.ZONE_CTX)
	child.Header().SetParentEntropy(hc.TotalLogEntropy(newParent), common.ZONE_CTX)
	child.Header().SetParentDeltaEntropy(hc.DeltaLogEntropy(newParent), common.ZONE_CTX)
	child.Header().SetParentUncledDeltaEntropy(hc.UncledDeltaLogEntropy(newParent), common.ZONE_CTX)
	// the manifest hash commits to the parent's manifest (HeaderChain.AppendHeader), which the node
	// wrote when it stored the parent
	manifest := rawdb.ReadManifest(n.Zone().DB, newParent.Hash())
	if manifest == nil {
		return fmt.Errorf("no manifest stored for the new parent %x", newParent.Hash().Bytes()[:4])
	}
	child.Header().SetManifestHash(types.DeriveSha(manifest, trie.NewStackTrie(nil)), common.ZONE_CTX)
	child.WorkObjectHeader().SetHeaderHash(child.Header().Hash())
	return nil
}

// ChainStateRanges returns the key ranges of a zone database that every node
// at the same head must hold byte-identically whatever else it has seen: the
// canonical number->hash index, the head pointers, the unspent Qi outputs and
// the coinbase lockup records.
func ChainStateRanges(db ethdb.Database) map[string][]byte {
	out := map[string][]byte{}
	scan := func(prefix string, keep func(k []byte) bool) {
		it := db.NewIterator([]byte(prefix), nil)
		defer it.Release()
		for it.Next() {
			k := it.Key()
			if keep(k) {
				out[string(k)] = append([]byte{}, it.Value()...)
			}
		}
	}
	scan("h", func(k []byte) bool { return len(k) == 10 && k[9] == 'n' })
	scan("ut", func(k []byte) bool { return len(k) == rawdb.UtxoKeyLength })
	scan("cl", func(k []byte) bool { return len(k) == rawdb.CoinbaseLockupKeyLength })
	for _, hk := range []string{"LastHeader", "LastWorkObject"} {
		if v, err := db.Get([]byte(hk)); err == nil {
			out[hk] = append([]byte{}, v...)
		}
	}
	return out
}

// RangeClass names the range a ChainStateRanges key belongs to.
func RangeClass(k string) string {
	kb := []byte(k)
	switch {
	case len(kb) == 10 && kb[0] == 'h' && kb[9] == 'n':
		return "canonical-number-to-hash"
	case bytes.HasPrefix(kb, []byte("ut")) && len(kb) == rawdb.UtxoKeyLength:
		return "utxo"
	case bytes.HasPrefix(kb, []byte("cl")) && len(kb) == rawdb.CoinbaseLockupKeyLength:
		return "coinbase-lockup"
	case k == "LastHeader" || k == "LastWorkObject":
		return "head-pointer"
	}
	return "other"
}

// CanonEntry is one finding of AuditCanonical.
type CanonEntry struct {
	Height uint64 `json:"height"`
	Stored string `json:"stored"` // hash the canonical index names ("" = none)
	Want   string `json:"want"`   // hash of the reported head's chain at that height ("" = above the head)
	What   string `json:"what"`   // above-head | off-head-chain | missing
	stored common.Hash
}

// StoredHash returns the hash the index names.
func (c CanonEntry) StoredHash() common.Hash { return c.stored }

// AuditCanonical walks the parents of the zone's reported current header and
// compares every height of the canonical number->hash index up to maxHeight:
// heights on the head's chain must name exactly that chain's block, heights
// above the head must have no entry. It also returns the head's chain as
// height -> hash.
func (n *Net) AuditCanonical(maxHeight uint64) ([]CanonEntry, map[uint64]common.Hash, error) {
	z := n.Zone()
	hc := z.Core.Slice().HeaderChain()
	head := z.Core.CurrentHeader()
	if head == nil {
		return nil, nil, fmt.Errorf("no current header")
	}
	chain := map[uint64]common.Hash{}
	for h := head; ; {
		num := h.NumberU64(common.ZONE_CTX)
		chain[num] = h.Hash()
		if hc.IsGenesisHash(h.Hash()) || num == 0 {
			break
		}
		p := hc.GetHeaderByHash(h.ParentHash(common.ZONE_CTX))
		if p == nil {
			return nil, chain, fmt.Errorf("parent %x of %x (height %d) not found", h.ParentHash(common.ZONE_CTX).Bytes()[:4], h.Hash().Bytes()[:4], num)
		}
		if p.NumberU64(common.ZONE_CTX)+1 != num {
			return nil, chain, fmt.Errorf("parent of height %d has height %d", num, p.NumberU64(common.ZONE_CTX))
		}
		h = p
	}
	headNum := head.NumberU64(common.ZONE_CTX)
	var out []CanonEntry
	for ht := uint64(0); ht <= maxHeight; ht++ {
		got := rawdb.ReadCanonicalHash(z.DB, ht)
		if ht <= headNum {
			want := chain[ht]
			switch {
			case got == (common.Hash{}):
				out = append(out, CanonEntry{Height: ht, Want: want.Hex(), What: "missing"})
			case got != want:
				out = append(out, CanonEntry{Height: ht, Stored: got.Hex(), Want: want.Hex(), What: "off-head-chain", stored: got})
			}
		} else if got != (common.Hash{}) {
			out = append(out, CanonEntry{Height: ht, Stored: got.Hex(), What: "above-head", stored: got})
		}
	}
	return out, chain, nil
}
