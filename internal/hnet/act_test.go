//go:build verif

package hnet

import (
	"math/big"
	"math/rand"
	"testing"

	"github.com/dominant-strategies/go-quai/core/types"
)

func TestActivity(t *testing.T) {
	r := rand.New(rand.NewSource(1))
	w := NewWallet(r, 3, 3)
	fund := new(big.Int).Mul(big.NewInt(1e18), big.NewInt(1e6))
	n, err := New(Options{GenAllocs: w.GenAllocs(fund), QuaiCoinbase: w.Quai[0].Addr, QiCoinbase: w.Qi[0].Addr})
	if err != nil {
		t.Fatal(err)
	}
	defer n.Stop()
	for i := 0; i < 40; i++ {
		// submit a quai transfer and, after kick-in, a conversion
		head := n.Heads()[2]
		baseFee := head.BaseFee()
		price := new(big.Int).Mul(baseFee, big.NewInt(3))
		if i >= 2 {
			k := w.Quai[1]
			to := w.Quai[2].Addr
			tx, err := w.QuaiTx(k, w.NextNonce(k), &to, big.NewInt(1000), 21000, price, nil, nil)
			if err != nil {
				t.Fatal(err)
			}
			if err := n.Zone().Core.TxPool().AddLocal(tx); err != nil {
				t.Logf("block %d addlocal: %v", i, err)
			}
			if i%5 == 0 {
				k := w.Quai[2]
				to := w.Qi[1].Addr
				val := new(big.Int).Mul(big.NewInt(1e18), big.NewInt(100))
				tx, err := w.QuaiTx(k, w.NextNonce(k), &to, val, 200000, price, nil, nil)
				if err != nil {
					t.Fatal(err)
				}
				if err := n.Zone().Core.TxPool().AddLocal(tx); err != nil {
					t.Logf("block %d conversion addlocal: %v", i, err)
				}
			}
		}
		n.Zone().Core.TxPool().VerifQuiesce()
		m, err := n.Mine(MineOpts{WantOrder: -1, Fill: true})
		if err != nil {
			t.Fatalf("block %d: %v", i, err)
		}
		kinds := map[string]int{}
		for _, tx := range m.Blocks[2].Transactions() {
			switch tx.Type() {
			case types.QuaiTxType:
				kinds["quai"]++
			case types.QiTxType:
				kinds["qi"]++
			case types.ExternalTxType:
				kinds["etx"+string(rune('0'+tx.EtxType()))]++
			}
		}
		owned := w.OwnedUTXOs(n)
		t.Logf("block %d order %d num %v basefee %v txs %v etxsOut %d utxos(all/owned) %d/%d lockups %d", i, m.Order, m.Number, baseFee, kinds, len(m.Etxs), len(AllUTXOs(n.Zone().DB)), len(owned), len(AllLockups(n.Zone().DB)))
	}
}
