package hnet

import (
	"encoding/binary"
	"fmt"
	"math/big"

	"github.com/dominant-strategies/go-quai/common"
	"github.com/dominant-strategies/go-quai/core/rawdb"
	"github.com/dominant-strategies/go-quai/core/types"
	"github.com/dominant-strategies/go-quai/crypto/multiset"
	"github.com/dominant-strategies/go-quai/ethdb"
)

// LedgerScan is an independent recomputation of the Qi ledger commitment from
// a database scan: the multiset hash over every unspent output ("ut" prefix)
// and every coinbase lockup record ("cl" prefix), and their number.
type LedgerScan struct {
	Root    common.Hash
	Count   uint64
	Utxos   int
	Lockups int
	// QiValue is the sum of the denominations of all outputs (in qits)
	QiValue *big.Int
	// BadOwners: outputs whose owner is not an in-zone Qi-ledger address (C16)
	BadOwners []string
}

// ScanLedgerMultiset returns the multiset itself (for adjustments).
func ScanLedgerMultiset(db ethdb.Database, loc common.Location) (*multiset.MultiSet, error) {
	_, ms, err := scanLedger(db, loc)
	return ms, err
}

// ScanLedger walks the UTXO and lockup key spaces of a zone database.
func ScanLedger(db ethdb.Database, loc common.Location) (*LedgerScan, error) {
	s, _, err := scanLedger(db, loc)
	return s, err
}

func scanLedger(db ethdb.Database, loc common.Location) (*LedgerScan, *multiset.MultiSet, error) {
	ms := multiset.New()
	s := &LedgerScan{QiValue: new(big.Int)}
	for _, u := range AllUTXOs(db) {
		e := &types.UtxoEntry{Denomination: u.Denom, Address: u.Addr, Lock: u.Lock}
		h := types.UTXOHash(u.Hash, u.Index, e)
		ms.Add(h.Bytes())
		s.Utxos++
		if v, ok := types.Denominations[u.Denom]; ok {
			s.QiValue.Add(s.QiValue, v)
		}
		if len(u.Addr) != common.AddressLength || u.Addr[0] != loc.BytePrefix() || u.Addr[1] < 128 {
			s.BadOwners = append(s.BadOwners, fmt.Sprintf("%x:%d owner %x", u.Hash[:], u.Index, u.Addr))
		}
	}
	for _, l := range AllLockups(db) {
		owner, miner, lockupByte, epoch, err := rawdb.ReverseCoinbaseLockupKey(l.Key, loc)
		if err != nil {
			return nil, nil, fmt.Errorf("lockup key %x: %w", l.Key, err)
		}
		if len(l.Value) < 38 {
			return nil, nil, fmt.Errorf("lockup value of key %x has %d bytes", l.Key, len(l.Value))
		}
		amount := new(big.Int).SetBytes(l.Value[:32])
		height := binary.BigEndian.Uint32(l.Value[32:36])
		elements := binary.BigEndian.Uint16(l.Value[36:38])
		delegate := common.Zero
		if len(l.Value) == 58 {
			delegate = common.BytesToAddress(l.Value[38:], loc)
		}
		h := types.CoinbaseLockupHash(owner, miner, delegate, lockupByte, epoch, amount, height, elements)
		ms.Add(h.Bytes())
		s.Lockups++
	}
	s.Root = ms.Hash()
	s.Count = uint64(s.Utxos + s.Lockups)
	return s, ms, nil
}

// CheckHeadCommitment compares the scan with the executed zone head's header
// (call after Settle: zone state is executed lazily). It returns a list of
// discrepancies.
func (n *Net) CheckHeadCommitment() ([]string, *LedgerScan, error) {
	return n.CheckHeadCommitmentWithDrift(nil)
}

// CheckHeadCommitmentWithDrift is CheckHeadCommitment for a history in which a
// listed finding already made the header commitment count some outputs twice
// (drift = UTXO hashes removed from the commitment once more than from the
// database): the scan is adjusted by exactly those elements, so that any OTHER
// discrepancy is still reported.
func (n *Net) CheckHeadCommitmentWithDrift(drift []common.Hash) ([]string, *LedgerScan, error) {
	z := n.Zone()
	head := z.Core.CurrentHeader()
	if head == nil {
		return nil, nil, fmt.Errorf("no current header")
	}
	block := z.Core.GetBlockByHash(head.Hash())
	if block == nil {
		return nil, nil, fmt.Errorf("head block %x not found", head.Hash().Bytes()[:4])
	}
	scan, err := ScanLedger(z.DB, ZoneLoc)
	if err != nil {
		return nil, nil, err
	}
	var bad []string
	if n.Zone().Core.Slice().HeaderChain().IsGenesisHash(block.Hash()) {
		return nil, scan, nil
	}
	if len(drift) > 0 {
		full, err := ScanLedgerMultiset(z.DB, ZoneLoc)
		if err != nil {
			return nil, nil, err
		}
		for _, h := range drift {
			full.Remove(h.Bytes())
		}
		scan.Root = full.Hash()
		scan.Count -= uint64(len(drift))
	}
	if scan.Root != block.UTXORoot() {
		bad = append(bad, fmt.Sprintf("utxo-root: header %x, multiset of database scan %x (%d outputs, %d lockups)", block.UTXORoot(), scan.Root, scan.Utxos, scan.Lockups))
	}
	if sz := rawdb.ReadUTXOSetSize(z.DB, block.Hash()); sz != scan.Count {
		bad = append(bad, fmt.Sprintf("utxo-set-size: stored %d, database holds %d outputs + %d lockups", sz, scan.Utxos, scan.Lockups))
	}
	if _, err := n.ZoneStateAt(block); err != nil {
		bad = append(bad, fmt.Sprintf("state-not-openable: %v", err))
	}
	return bad, scan, nil
}
