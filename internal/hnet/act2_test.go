//go:build verif

package hnet

import (
	"math/rand"
	"testing"

	"github.com/dominant-strategies/go-quai/core/types"
)

func TestActivity2(t *testing.T) {
	a, err := NewActivity(rand.New(rand.NewSource(2)), Options{})
	if err != nil {
		t.Fatal(err)
	}
	defer a.N.Stop()
	kinds := map[string]int{}
	for i := 0; i < 80; i++ {
		m, err := a.Step(MineOpts{WantOrder: -1})
		if err != nil {
			t.Fatalf("block %d: %v", i, err)
		}
		for _, tx := range m.Blocks[2].Transactions() {
			switch tx.Type() {
			case types.QuaiTxType:
				kinds["quai"]++
			case types.QiTxType:
				kinds["qi"]++
			case types.ExternalTxType:
				kinds["etx"+string(rune('0'+tx.EtxType()))]++
			}
		}
		for _, e := range m.Etxs {
			kinds["out-etx"+string(rune('0'+e.EtxType()))]++
		}
	}
	t.Logf("included %v", kinds)
	t.Logf("submitted %v refused %v", a.Submitted, a.Refused)
	t.Logf("last errors %v", a.LastErr)
	t.Logf("utxos %d owned %d lockups %d", len(AllUTXOs(a.N.Zone().DB)), len(a.W.OwnedUTXOs(a.N)), len(AllLockups(a.N.Zone().DB)))
}
