//go:build verif

package hnet

import (
	"math/rand"
	"testing"
	"time"

	"github.com/dominant-strategies/go-quai/core/types"
)

func TestForeign(t *testing.T) {
	r := rand.New(rand.NewSource(1))
	a, err := NewActivity(r, Options{IndexAddressUtxos: true})
	if err != nil {
		t.Fatal(err)
	}
	defer a.N.Stop()
	a.QiPerStep, a.ConvEvery = 3, 2
	nb, err := a.GrowQi(16, 80, 8, 6, nil)
	t.Logf("prefix: %d blocks, err %v", nb, err)
	den := map[uint8]int{}
	for _, u := range a.W.OwnedUTXOs(a.N) {
		den[u.Denom]++
	}
	t.Logf("owned denominations: %v", den)
	for i, shape := range []string{ShapeChain2, ShapeChain3, ShapeMixed, ShapeDoubleSpend, ShapeSpendBeforeCreate, ShapeChain2, ShapeChain3, ShapeMixed, ShapeChain2} {
		want := -1
		if i == 5 {
			want = 1
		}
		if i == 6 {
			want = 0
		}
		t0 := time.Now()
		f, plan, err := a.StepForeign(MineOpts{WantOrder: want}, shape, nil)
		if err != nil {
			t.Errorf("%s: %v", shape, err)
			if f != nil {
				t.Logf("  twinErr %v applyErr %v deliverErr %v execErr %v fixed %v", f.TwinErr, f.TwinApplyErr, f.DeliverErr, f.ExecErr, f.Fixed)
			}
			if plan != nil {
				t.Logf("  plan %v", plan.Describe())
			}
			continue
		}
		nq := 0
		for _, tx := range f.Base.Transactions() {
			if tx.Type() != types.ExternalTxType {
				nq++
			}
		}
		t.Logf("%s: order %d accepted %v rounds %d positions %v (base non-etx txs %d of %d) twinErr %v deliverErr %v execErr %v in %v timing %v\n  fixed %v\n  plan %v", shape, f.Order, f.Accepted, f.Rounds, f.Positions, nq, len(f.Base.Transactions()), f.TwinErr, f.DeliverErr, f.ExecErr, time.Since(t0), f.Timing, f.Fixed, plan.Describe())
		bad, _, err := a.N.CheckHeadCommitment()
		if err != nil || len(bad) > 0 {
			t.Errorf("commitment: %v %v", bad, err)
		}
		if _, err := a.Step(MineOpts{WantOrder: -1}); err != nil {
			t.Fatalf("after %s: %v", shape, err)
		}
	}
}
