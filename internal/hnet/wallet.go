package hnet

import (
	"bytes"
	"crypto/ecdsa"
	"errors"
	"fmt"
	"io"
	"math/big"
	"math/rand"

	"github.com/btcsuite/btcd/btcec/v2"
	"github.com/btcsuite/btcd/btcec/v2/schnorr"
	"github.com/btcsuite/btcd/btcec/v2/schnorr/musig2"
	orderedmap "github.com/wk8/go-ordered-map/v2"

	"github.com/dominant-strategies/go-quai/common"
	"github.com/dominant-strategies/go-quai/core/rawdb"
	"github.com/dominant-strategies/go-quai/core/types"
	"github.com/dominant-strategies/go-quai/crypto"
	"github.com/dominant-strategies/go-quai/ethdb"
	"github.com/dominant-strategies/go-quai/params"
	"google.golang.org/protobuf/proto"
)

// Wallet holds keys whose addresses are in zone 0-0: Quai-ledger ECDSA keys
// and Qi-ledger Schnorr keys (ground from the PRNG until the derived address
// falls into the right zone and ledger).
type Wallet struct {
	R       *rand.Rand
	ChainID *big.Int
	Quai    []*QuaiKey
	Qi      []*QiKey
	nonces  map[common.AddressBytes]uint64
}

type QuaiKey struct {
	Priv *ecdsa.PrivateKey
	Addr common.Address
}

type QiKey struct {
	Priv *btcec.PrivateKey
	Pub  []byte // 65-byte uncompressed as carried by TxIn.PubKey
	Addr common.Address
}

var curveN, _ = new(big.Int).SetString("fffffffffffffffffffffffffffffffebaaedce6af48a03bbfd25e8cd0364141", 16)

func grindScalar(r *rand.Rand, ok func(addr []byte) bool) []byte {
	for {
		d := make([]byte, 32)
		r.Read(d)
		if x := new(big.Int).SetBytes(d); x.Sign() == 0 || x.Cmp(curveN) >= 0 {
			continue
		}
		_, pub := btcec.PrivKeyFromBytes(d)
		a := crypto.Keccak256(pub.SerializeUncompressed()[1:])[12:]
		if ok(a) {
			return d
		}
	}
}

// NewWallet derives nQuai + nQi keys from the PRNG.
func NewWallet(r *rand.Rand, nQuai, nQi int) *Wallet {
	w := &Wallet{R: r, ChainID: new(big.Int).Set(params.Blake3PowLocalChainConfig.ChainID), nonces: map[common.AddressBytes]uint64{}}
	for i := 0; i < nQuai; i++ {
		d := grindScalar(r, func(a []byte) bool { return a[0] == ZoneLoc.BytePrefix() && a[1] < 128 })
		priv, err := crypto.ToECDSA(d)
		if err != nil {
			panic(err)
		}
		w.Quai = append(w.Quai, &QuaiKey{Priv: priv, Addr: crypto.PubkeyToAddress(priv.PublicKey, ZoneLoc)})
	}
	for i := 0; i < nQi; i++ {
		d := grindScalar(r, func(a []byte) bool { return a[0] == ZoneLoc.BytePrefix() && a[1] >= 128 })
		priv, pub := btcec.PrivKeyFromBytes(d)
		ser := pub.SerializeUncompressed()
		w.Qi = append(w.Qi, &QiKey{Priv: priv, Pub: ser, Addr: common.BytesToAddress(crypto.Keccak256(ser[1:])[12:], ZoneLoc)})
	}
	return w
}

// GenAllocs funds every Quai key with amount, credited in zone block 1.
func (w *Wallet) GenAllocs(amount *big.Int) []params.GenesisAccount {
	var out []params.GenesisAccount
	for _, k := range w.Quai {
		bs := orderedmap.New[uint64, *big.Int]()
		bs.Set(0, new(big.Int).Set(amount))
		out = append(out, params.GenesisAccount{Address: k.Addr, Award: new(big.Int).Set(amount), Vested: new(big.Int).Set(amount), BalanceSchedule: bs})
	}
	return out
}

func (w *Wallet) QiKeyFor(addr []byte) *QiKey {
	for _, k := range w.Qi {
		if bytes.Equal(k.Addr.Bytes(), addr) {
			return k
		}
	}
	return nil
}

// NextNonce returns and bumps the wallet's view of the account nonce.
func (w *Wallet) NextNonce(k *QuaiKey) uint64 {
	n := w.nonces[k.Addr.Bytes20()]
	w.nonces[k.Addr.Bytes20()] = n + 1
	return n
}

// SyncNonce sets the wallet's nonce view from a state nonce.
func (w *Wallet) SyncNonce(k *QuaiKey, n uint64) { w.nonces[k.Addr.Bytes20()] = n }

// QuaiTx builds and signs a Quai transaction.
func (w *Wallet) QuaiTx(from *QuaiKey, nonce uint64, to *common.Address, value *big.Int, gas uint64, gasPrice *big.Int, data []byte, al types.AccessList) (*types.Transaction, error) {
	inner := &types.QuaiTx{ChainID: new(big.Int).Set(w.ChainID), Nonce: nonce, GasPrice: new(big.Int).Set(gasPrice), Gas: gas, To: to, Value: new(big.Int).Set(value), Data: data, AccessList: al}
	return types.SignNewTx(from.Priv, types.NewSigner(w.ChainID, ZoneLoc), inner)
}

// ---------------------------------------------------------------- Qi

// Utxo is a spendable output found in a zone database.
type Utxo struct {
	Hash  common.Hash
	Index uint16
	Denom uint8
	Addr  []byte
	Lock  *big.Int
	Key   *QiKey
}

type prngReader struct{ r *rand.Rand }

func (p prngReader) Read(b []byte) (int, error) { return p.r.Read(b) }

// SignQi signs msg with one key (Schnorr) or several (MuSig2 aggregate, keys
// in input order as the verifier aggregates them).
func SignQi(r *rand.Rand, keys []*QiKey, msg [32]byte) (*schnorr.Signature, error) {
	if len(keys) == 0 {
		return nil, errors.New("no keys")
	}
	if len(keys) == 1 {
		return schnorr.Sign(keys[0].Priv, msg[:])
	}
	var rd io.Reader = prngReader{r}
	pubs := make([]*btcec.PublicKey, len(keys))
	for i, k := range keys {
		pubs[i] = k.Priv.PubKey()
	}
	nonces := make([]*musig2.Nonces, len(keys))
	pubNonces := make([][musig2.PubNonceSize]byte, len(keys))
	for i, k := range keys {
		n, err := musig2.GenNonces(musig2.WithPublicKey(k.Priv.PubKey()), musig2.WithCustomRand(rd))
		if err != nil {
			return nil, err
		}
		nonces[i] = n
		pubNonces[i] = n.PubNonce
	}
	agg, err := musig2.AggregateNonces(pubNonces)
	if err != nil {
		return nil, err
	}
	parts := make([]*musig2.PartialSignature, len(keys))
	for i, k := range keys {
		ps, err := musig2.Sign(nonces[i].SecNonce, k.Priv, agg, pubs, msg)
		if err != nil {
			return nil, err
		}
		parts[i] = ps
	}
	return musig2.CombineSigs(parts[0].R, parts), nil
}

// QiOut describes one output of a Qi transaction.
type QiOut struct {
	Denom uint8
	Addr  []byte
}

// QiTx builds and signs a Qi transaction spending ins (all must carry Key).
func (w *Wallet) QiTx(ins []Utxo, outs []QiOut, data []byte) (*types.Transaction, error) {
	inner := &types.QiTx{ChainID: new(big.Int).Set(w.ChainID)}
	var keys []*QiKey
	for _, u := range ins {
		if u.Key == nil {
			return nil, fmt.Errorf("input %x:%d has no key", u.Hash.Bytes()[:4], u.Index)
		}
		inner.TxIn = append(inner.TxIn, types.TxIn{PreviousOutPoint: types.OutPoint{TxHash: u.Hash, Index: u.Index}, PubKey: append([]byte{}, u.Key.Pub...)})
		keys = append(keys, u.Key)
	}
	for _, o := range outs {
		inner.TxOut = append(inner.TxOut, types.TxOut{Denomination: o.Denom, Address: append([]byte{}, o.Addr...), Lock: big.NewInt(0)})
	}
	if data != nil {
		inner.Data = append([]byte{}, data...)
	}
	unsigned := types.NewTx(inner)
	digest := types.NewSigner(w.ChainID, ZoneLoc).Hash(unsigned)
	// the verifier aggregates the keys of all inputs, in input order
	sig, err := SignQi(w.R, keys, digest)
	if err != nil {
		return nil, err
	}
	inner.Signature = sig
	return types.NewTx(inner), nil
}

// OwnedUTXOs scans the zone database for outputs owned by wallet keys,
// sorted for determinism.
func (w *Wallet) OwnedUTXOs(n *Net) []Utxo {
	var out []Utxo
	for _, u := range AllUTXOs(n.Zone().DB) {
		if k := w.QiKeyFor(u.Addr); k != nil {
			u.Key = k
			out = append(out, u)
		}
	}
	return out
}

// AllUTXOs decodes every entry under the UTXO prefix, in key order.
func AllUTXOs(db ethdb.Database) []Utxo {
	var out []Utxo
	it := db.NewIterator(rawdb.UtxoPrefix, nil)
	defer it.Release()
	for it.Next() {
		if len(it.Key()) != rawdb.UtxoKeyLength {
			continue
		}
		h, idx, err := rawdb.ReverseUtxoKey(it.Key())
		if err != nil {
			continue
		}
		pt := new(types.ProtoTxOut)
		if err := proto.Unmarshal(it.Value(), pt); err != nil {
			continue
		}
		e := new(types.UtxoEntry)
		if err := e.ProtoDecode(pt); err != nil {
			continue
		}
		out = append(out, Utxo{Hash: h, Index: idx, Denom: e.Denomination, Addr: append([]byte{}, e.Address...), Lock: e.Lock})
	}
	return out
}

// Lockup is one record under the coinbase-lockup prefix.
type Lockup struct {
	Key   []byte
	Value []byte
}

// AllLockups lists every coinbase-lockup record, in key order.
func AllLockups(db ethdb.Database) []Lockup {
	var out []Lockup
	it := db.NewIterator(rawdb.CoinbaseLockupPrefix, nil)
	defer it.Release()
	for it.Next() {
		if len(it.Key()) != rawdb.CoinbaseLockupKeyLength {
			continue
		}
		out = append(out, Lockup{Key: append([]byte{}, it.Key()...), Value: append([]byte{}, it.Value()...)})
	}
	return out
}
