//go:build verif

package hnet

// The "foreign miner": valid blocks whose body the node's own worker would
// never build.
//
// The node's worker (core/worker.go processQiTx) and tx pool only look at
// COMMITTED outputs, so a block mined by Net.Mine never contains a Qi
// transaction that spends an output created earlier in the same block. Such a
// block is consensus-valid (StateProcessor.ProcessQiTx reads its inputs through
// the block batch's pending view) and another implementation may produce it.
//
// MineForeign lets the worker assemble and seal its pending block as usual
// (nothing is delivered), adds transactions chosen by the caller to the body,
// obtains the execution results of the new body from the REAL state processor
// of a twin zone core opened on a copy of the zone database, writes them into
// the header the way worker.FinalizeAssemble would have, redoes the proof of
// work, sends the block through the wire codec and delivers it to the live
// hierarchy through the normal path.

import (
	"errors"
	"fmt"
	"math"
	"math/big"
	"regexp"
	"sort"
	"time"

	"github.com/dominant-strategies/go-quai/common"
	"github.com/dominant-strategies/go-quai/consensus/misc"
	"github.com/dominant-strategies/go-quai/core/rawdb"
	"github.com/dominant-strategies/go-quai/core/types"
	"github.com/dominant-strategies/go-quai/ethdb"
	"github.com/dominant-strategies/go-quai/ethdb/memorydb"
	"github.com/dominant-strategies/go-quai/trie"
)

// ForeignOpts configures MineForeignOpts.
type ForeignOpts struct {
	MineOpts // Heads, WantOrder, MaxOrder, Fill, Coinbase; NoAppend is ignored
	// Arrange places the extra transactions into the worker's list. nil: MergeByPrice.
	Arrange func(f *Foreign, base, extras []*types.Transaction) ([]*types.Transaction, error)
	// Force: deliver the block even when the twin's processor refuses its body. The header then keeps the
	// worker's execution commitments with the body roots (and any fee total the processor disclosed before it
	// refused) recomputed - what an attacker can always do. Only for zone-order blocks.
	Force bool
	// KeepImage: keep a copy of the zone database as it was when the block was built (parent executed, block
	// unknown) in Foreign.Image, for replays of the block on further twins
	KeepImage bool
}

// Foreign is the record of one MineForeignOpts call.
type Foreign struct {
	*Mined // the block that was delivered (nil if nothing was delivered)
	// Base is the block the worker assembled (sealed, never delivered)
	Base   *types.WorkObject
	Extras []*types.Transaction
	// Positions[i] is the index of Extras[i] in the delivered body
	Positions []int
	// Fixed lists the header fields whose value had to change, with the place their rule lives
	Fixed []string
	// Rounds is the number of Process runs on the twin that were needed
	Rounds int
	// TwinErr is the verdict of the twin's StateProcessor.Process on the new body (nil: accepted);
	// TwinApplyErr the verdict of the twin's Apply (Process + ValidateState) on the final, re-sealed block
	TwinErr      error
	TwinApplyErr error
	// what the twin's processor computed
	UsedGas, UsedState, SetSize uint64
	UTXORoot                    common.Hash
	// DeliverErr: error of the live hierarchy's append; ExecErr: error of the pending-header pipeline that makes
	// the zone execute the block; Accepted: the live zone executed the block and made it its head
	DeliverErr error
	ExecErr    error
	Accepted   bool
	// RestoreErr: error when bringing a node that refused the block back onto its previous heads
	RestoreErr error
	// Timing: wall time per phase (diagnostics only)
	Timing map[string]time.Duration
	// Image: see ForeignOpts.KeepImage
	Image *memorydb.Database
	// OnLive: the execution results came from the live zone core's processor (disk backends), not from a twin
	OnLive bool
}

var localRe = regexp.MustCompile(`local: (\d+)\)`)

func localOf(err error, what string) (*big.Int, bool) {
	s := err.Error()
	if len(s) < len(what) || s[:len(what)] != what {
		return nil, false
	}
	mm := localRe.FindStringSubmatch(s)
	if mm == nil {
		return nil, false
	}
	v, ok := new(big.Int).SetString(mm[1], 10)
	return v, ok
}

func txRoot(txs []*types.Transaction) common.Hash {
	return types.DeriveSha(types.Transactions(txs), trie.NewStackTrie(nil))
}

// QiPricer computes the gas price the state processor attributes to a Qi
// transaction of a given block (core/state_processor.go Process: fee converted
// to Quai at the prime terminus' rate, divided by the block gas of the
// transaction). It is only used to PLACE transactions (blocks must list their
// non-ETX transactions in non-increasing price order); whether the placement is
// right is decided by the real processor.
type QiPricer struct {
	block   *types.WorkObject
	rate    *big.Int
	scaling float64
	db      ethdb.Reader
	created map[string]uint8
}

func (n *Net) NewQiPricer(block *types.WorkObject, db ethdb.Reader) (*QiPricer, error) {
	pt := n.Zone().Core.GetHeaderByHash(block.PrimeTerminusHash())
	if pt == nil {
		return nil, fmt.Errorf("prime terminus %x of the pending block not found", block.PrimeTerminusHash().Bytes()[:4])
	}
	size := rawdb.ReadUTXOSetSize(db, block.ParentHash(common.ZONE_CTX))
	return &QiPricer{block: block, rate: pt.ExchangeRate(), scaling: math.Log(float64(size)), db: db, created: map[string]uint8{}}, nil
}

// Note records the outputs of tx so that later transactions may spend them.
func (p *QiPricer) Note(tx *types.Transaction) {
	if tx.Type() != types.QiTxType {
		return
	}
	for i, o := range tx.TxOut() {
		p.created[fmt.Sprintf("%x:%d", tx.Hash().Bytes(), i)] = o.Denomination
	}
}

// Fee returns inputs minus outputs in qits.
func (p *QiPricer) Fee(tx *types.Transaction) (*big.Int, error) {
	in, out := new(big.Int), new(big.Int)
	for _, ti := range tx.TxIn() {
		op := ti.PreviousOutPoint
		var d uint8
		if cd, ok := p.created[fmt.Sprintf("%x:%d", op.TxHash.Bytes(), op.Index)]; ok {
			d = cd
		} else if e := rawdb.GetUTXO(p.db, op.TxHash, op.Index); e != nil {
			d = e.Denomination
		} else {
			return nil, fmt.Errorf("input %x:%d is neither committed nor created earlier", op.TxHash.Bytes()[:4], op.Index)
		}
		in.Add(in, types.Denominations[d])
	}
	for _, o := range tx.TxOut() {
		v, ok := types.Denominations[o.Denomination]
		if !ok {
			return nil, fmt.Errorf("output denomination %d", o.Denomination)
		}
		out.Add(out, v)
	}
	return in.Sub(in, out), nil
}

// Price of a non-ETX transaction (Quai: its gas price).
func (p *QiPricer) Price(tx *types.Transaction) (*big.Int, error) {
	switch tx.Type() {
	case types.QuaiTxType:
		return tx.GasPrice(), nil
	case types.QiTxType:
		fee, err := p.Fee(tx)
		if err != nil {
			return nil, err
		}
		if fee.Sign() < 0 {
			return nil, errors.New("outputs exceed inputs")
		}
		inQuai := misc.QiToQuai(p.block, p.rate, p.block.Difficulty(), fee)
		gas := types.CalculateBlockQiTxGas(tx, p.scaling, ZoneLoc)
		if gas == 0 {
			return nil, errors.New("zero gas")
		}
		return inQuai.Div(inQuai, new(big.Int).SetUint64(gas)), nil
	}
	return nil, fmt.Errorf("transaction type %d has no price", tx.Type())
}

// MergeByPrice inserts the extras (kept in their relative order) behind the
// worker's inbound ETXs so that the non-ETX part stays sorted by non-increasing
// gas price, which StateProcessor.Process enforces.
func (n *Net) MergeByPrice(f *Foreign, base, extras []*types.Transaction, db ethdb.Reader) ([]*types.Transaction, error) {
	pr, err := n.NewQiPricer(f.Base, db)
	if err != nil {
		return nil, err
	}
	type item struct {
		tx    *types.Transaction
		price *big.Int
		extra int // index+1 into extras, 0 = worker's own
	}
	var list []item
	lastEtx := -1
	for i, tx := range base {
		if tx.Type() == types.ExternalTxType {
			lastEtx = i
		}
	}
	for i, tx := range base {
		it := item{tx: tx}
		if tx.Type() != types.ExternalTxType {
			if it.price, err = pr.Price(tx); err != nil {
				return nil, fmt.Errorf("price of the worker's transaction %d: %w", i, err)
			}
			pr.Note(tx)
		}
		list = append(list, it)
	}
	lo := lastEtx + 1
	for _, tx := range extras {
		pr.Note(tx) // (an extra may be listed before the extra that creates its input: invalid shapes)
	}
	for ei, tx := range extras {
		price, err := pr.Price(tx)
		if err != nil {
			return nil, fmt.Errorf("price of extra transaction %d: %w", ei, err)
		}
		pr.Note(tx)
		pos := len(list)
		for i := lo; i < len(list); i++ {
			if list[i].price != nil && list[i].price.Cmp(price) < 0 {
				pos = i
				break
			}
		}
		if pos > 0 && list[pos-1].price != nil && list[pos-1].price.Cmp(price) < 0 {
			return nil, fmt.Errorf("extra transaction %d (price %v) cannot follow its predecessor (price %v): extras must come in non-increasing price order", ei, price, list[pos-1].price)
		}
		list = append(list, item{})
		copy(list[pos+1:], list[pos:])
		list[pos] = item{tx: tx, price: price, extra: ei + 1}
		lo = pos + 1
	}
	out := make([]*types.Transaction, len(list))
	f.Positions = make([]int, len(extras))
	for i, it := range list {
		out[i] = it.tx
		if it.extra > 0 {
			f.Positions[it.extra-1] = i
		}
	}
	return out, nil
}

// MineForeign produces, delivers and executes a valid block consisting of the
// worker's pending block plus the transactions returned by extra. It fails if
// the twin's processor or the live hierarchy refuses the block.
func (n *Net) MineForeign(o MineOpts, extra func(base *types.WorkObject) (types.Transactions, error)) (*Mined, error) {
	f, err := n.MineForeignOpts(ForeignOpts{MineOpts: o}, extra)
	if err != nil {
		return nil, err
	}
	return f.Mined, nil
}

func (f *Foreign) fix(name, where string, old, new any) {
	if fmt.Sprint(old) != fmt.Sprint(new) {
		f.Fixed = append(f.Fixed, fmt.Sprintf("%s [%s]: %v -> %v", name, where, old, new))
	}
}

// MineForeignOpts is MineForeign with all knobs and the full record. An error
// is returned when the block could not be constructed, when (without Force)
// the twin's processor refuses the body (nothing is delivered then), or when
// the live hierarchy does not accept a block the twin accepted.
func (n *Net) MineForeignOpts(o ForeignOpts, extra func(base *types.WorkObject) (types.Transactions, error)) (f *Foreign, err error) {
	// memory backend: a twin zone core on a copy of the zone database; disk backends (no cheap copy of an open
	// database): the live zone core's own processor, whose Process does not write anything (no final Apply then)
	onLive := n.Zone().MemDB == nil
	t0 := time.Now()
	timing := map[string]time.Duration{}
	lap := func(name string) { timing[name] += time.Since(t0); t0 = time.Now() }
	mo := o.MineOpts
	mo.NoAppend = true
	if o.Force {
		mo.WantOrder, mo.MaxOrder = common.ZONE_CTX, false
	}
	m0, err := n.Mine(mo)
	if err != nil {
		return nil, fmt.Errorf("worker block: %w", err)
	}
	base := m0.Blocks[common.ZONE_CTX]
	f = &Foreign{Base: base, Timing: timing}
	lap("worker-block")
	// the zone database now has the parent executed as head (the pending-header pipeline ran
	// SetCurrentHeader on it) and does not contain the worker's block
	var img *memorydb.Database
	if !onLive {
		img = CopyMem(n.Zone().MemDB, n.Logger)
		if o.KeepImage {
			f.Image = CopyMem(img, n.Logger)
		}
	}
	extras, err := extra(base)
	if err != nil {
		return f, err
	}
	f.Extras = extras
	lap("plan")
	proc, tdb := n.Zone().Core.Processor(), n.Zone().DB
	f.OnLive = onLive
	if !onLive {
		twin, db, err := n.ZoneTwin(img)
		if err != nil {
			return f, fmt.Errorf("twin: %w", err)
		}
		defer func() {
			// (Slice.Stop dereferences a subscription that a goroutine started by NewSlice assigns: stopping a core
			// right after opening it can panic; the twin is thrown away anyway)
			defer func() { recover() }()
			twin.Stop()
		}()
		proc, tdb = twin.Processor(), db
	}
	lap("twin-open")
	cand := types.CopyWorkObject(base)
	var txs []*types.Transaction
	if o.Arrange != nil {
		txs, err = o.Arrange(f, append([]*types.Transaction{}, base.Transactions()...), extras)
	} else {
		txs, err = n.MergeByPrice(f, append([]*types.Transaction{}, base.Transactions()...), extras, tdb)
	}
	if err != nil {
		return f, fmt.Errorf("arrange: %w", err)
	}
	// body root: core/block_validator.go ValidateBody (DeriveSha over the stack trie, as types.NewWorkObjectBody)
	cand.Body().SetTransactions(txs)
	f.fix("TxHash", "block_validator.go ValidateBody", base.Header().TxHash(), txRoot(txs))
	cand.Header().SetTxHash(txRoot(txs))
	relink := func() { cand.WorkObjectHeader().SetHeaderHash(cand.Header().Hash()) }

	h := cand.Header()
	for f.Rounds < 6 {
		f.Rounds++
		relink()
		var perr error
		func() {
			defer func() {
				if r := recover(); r != nil {
					perr = fmt.Errorf("twin processor panicked: %v", r)
				}
			}()
			batch := tdb.NewBatch()
			receipts, etxs, _, statedb, usedGas, usedState, setSize, ms, _, e := proc.Process(cand, batch)
			batch.Reset()
			if e != nil {
				perr = e
				return
			}
			// execution-derived commitments: core/block_validator.go ValidateState compares each of them with
			// what Process returned; worker.FinalizeAssemble / HeaderChain.Finalize(setRoots) / NewWorkObjectBody
			// derive them the same way
			f.fix("GasUsed", "ValidateState", h.GasUsed(), usedGas)
			h.SetGasUsed(usedGas)
			f.fix("StateUsed", "ValidateState", h.StateUsed(), usedState)
			h.SetStateUsed(usedState)
			rh := types.EmptyRootHash
			if len(receipts) > 0 {
				rh = types.DeriveSha(receipts, trie.NewStackTrie(nil))
			}
			f.fix("ReceiptHash", "ValidateState", h.ReceiptHash(), rh)
			h.SetReceiptHash(rh)
			root := statedb.IntermediateRoot(true)
			f.fix("EVMRoot", "ValidateState", h.EVMRoot(), root)
			h.SetEVMRoot(root)
			f.fix("QuaiStateSize", "ValidateState", h.QuaiStateSize(), statedb.GetQuaiTrieSize())
			h.SetQuaiStateSize(statedb.GetQuaiTrieSize())
			f.fix("UTXORoot", "ValidateState", h.UTXORoot(), ms.Hash())
			h.SetUTXORoot(ms.Hash())
			f.fix("EtxSetRoot", "ValidateState", h.EtxSetRoot(), statedb.ETXRoot())
			h.SetEtxSetRoot(statedb.ETXRoot())
			eh := types.EmptyRootHash
			if len(etxs) > 0 {
				eh = types.DeriveSha(types.Transactions(etxs), trie.NewStackTrie(nil))
			}
			f.fix("OutboundEtxHash", "ValidateBody + ValidateState (body list replaced too)", h.OutboundEtxHash(), eh)
			h.SetOutboundEtxHash(eh)
			cand.Body().SetOutboundEtxs(etxs)
			f.UsedGas, f.UsedState, f.SetSize, f.UTXORoot = usedGas, usedState, setSize, ms.Hash()
		}()
		if perr == nil {
			f.TwinErr = nil
			break
		}
		// Process itself compares two header fields with what it computed, before returning anything
		// (core/state_processor.go Process: "invalid avgTxFees used", "invalid totalFees used"); it discloses
		// its own value, which is what worker.GeneratePendingHeader would have set
		if v, ok := localOf(perr, "invalid avgTxFees used"); ok && h.AvgTxFees().Cmp(v) != 0 {
			f.fix("AvgTxFees", "state_processor.go Process", h.AvgTxFees(), v)
			h.SetAvgTxFees(v)
			continue
		}
		if v, ok := localOf(perr, "invalid totalFees used"); ok && h.TotalFees().Cmp(v) != 0 {
			f.fix("TotalFees", "state_processor.go Process", h.TotalFees(), v)
			h.SetTotalFees(v)
			continue
		}
		f.TwinErr = perr
		break
	}
	if f.TwinErr != nil && !o.Force {
		return f, fmt.Errorf("twin processor refuses the body: %w", f.TwinErr)
	}
	relink()
	lap("twin-process")
	order, err := n.Reseal(cand, m0.Order)
	if err != nil {
		return f, fmt.Errorf("reseal: %w", err)
	}
	lap("reseal")
	if f.TwinErr == nil && !onLive {
		// the complete verdict of the twin on the final block: Process + ValidateState
		func() {
			defer func() {
				if r := recover(); r != nil {
					f.TwinApplyErr = fmt.Errorf("twin Apply panicked: %v", r)
				}
			}()
			_, _, f.TwinApplyErr = proc.Apply(tdb.NewBatch(), cand)
		}()
		if f.TwinApplyErr != nil && !o.Force {
			return f, fmt.Errorf("twin Apply (Process + ValidateState) refuses the re-sealed block: %w", f.TwinApplyErr)
		}
	}
	lap("twin-apply")
	// per-level views: the dominant levels' bodies (manifests, interlinks) do not depend on the zone body;
	// they carry the same header and work object header
	m := &Mined{Order: order, Pending: m0.Pending}
	for lvl := 2; lvl >= order; lvl-- {
		var v *types.WorkObject
		if lvl == 2 {
			v = cand
		} else {
			if m0.Blocks[lvl] == nil {
				return f, fmt.Errorf("no level-%d view of the worker's block", lvl)
			}
			v = types.CopyWorkObject(m0.Blocks[lvl])
			v.SetWorkObjectHeader(types.CopyWorkObjectHeader(cand.WorkObjectHeader()))
			v.Body().SetHeader(types.CopyHeader(cand.Header()))
		}
		rt, data, err := WireRoundTrip(v, n.Nodes[lvl].Loc)
		if err != nil {
			return f, fmt.Errorf("wire round trip level %d: %w", lvl, err)
		}
		m.Blocks[lvl], m.Wire[lvl] = rt, data
	}
	zb := m.Blocks[2]
	m.Hash = zb.Hash()
	for lvl := 0; lvl < 3; lvl++ {
		m.Number[lvl] = zb.NumberU64(lvl)
		m.Parent[lvl] = zb.ParentHash(lvl)
	}
	f.Mined = m
	prevTips := n.Tips
	lap("wire")
	etxs, derr := n.Deliver(order, m.Blocks)
	m.AppendErr, m.Etxs, f.DeliverErr = derr, etxs, derr
	n.mu.Lock()
	n.Trace = append(n.Trace, m)
	n.mu.Unlock()
	lap("deliver")
	defer lap("execute")
	if derr == nil {
		heads := n.Heads()
		for lvl := order; lvl < 3; lvl++ {
			if b := n.Block(lvl, m.Hash); b != nil {
				heads[lvl] = b
			} else {
				heads[lvl] = m.Blocks[lvl]
			}
		}
		func() {
			defer func() {
				if r := recover(); r != nil {
					f.ExecErr = fmt.Errorf("live node panicked executing the block: %v", r)
				}
			}()
			_, f.ExecErr = n.BuildPending(heads, true)
		}()
		if f.ExecErr == nil {
			if cur := n.Zone().Core.CurrentHeader(); cur != nil && cur.Hash() == m.Hash {
				f.Accepted = true
				n.Tips = heads
			} else {
				f.ExecErr = errors.New("the zone did not make the block its current header")
			}
		}
	}
	if !f.Accepted {
		n.Tips = prevTips
		f.RestoreErr = n.Settle()
		if f.TwinErr == nil && f.TwinApplyErr == nil {
			return f, fmt.Errorf("the live hierarchy refuses a block its twin accepted with identical commitments: append: %v, execute: %v", f.DeliverErr, f.ExecErr)
		}
		return f, nil
	}
	if f.TwinErr == nil {
		if sz := rawdb.ReadUTXOSetSize(n.Zone().DB, m.Hash); sz != f.SetSize {
			return f, fmt.Errorf("live zone stored UTXO set size %d for the block, the twin computed %d", sz, f.SetSize)
		}
	}
	return f, nil
}

// ---------------------------------------------------------------- shapes of in-block dependent Qi spends

// Shapes of extra transactions (names are the coverage classes of the checks).
const (
	ShapeChain2            = "chained-spend"                   // tx2 spends an output of tx1
	ShapeChain3            = "chain-of-3"                      // tx3 spends tx2 spends tx1
	ShapeMixed             = "mixed-with-committed-input"      // tx2 spends an output of tx1 AND a committed output (two keys)
	ShapeDoubleSpend       = "double-spend-of-in-block-output" // tx2 and tx3 both spend tx1's output (invalid)
	ShapeSpendBeforeCreate = "spend-before-create"             // tx2 spends an output of tx1, tx1 comes later (invalid)
	// two transactions of the block spend the same COMMITTED output (invalid; the worker never assembles it either)
	ShapeDoubleSpendCommitted = "double-spend-of-committed-output"
)

// ShapeValid tells whether blocks with this shape must be accepted.
func ShapeValid(shape string) bool {
	return shape != ShapeDoubleSpend && shape != ShapeSpendBeforeCreate && shape != ShapeDoubleSpendCommitted
}

// ForeignTxs is a set of dependent Qi transactions built for one block.
type ForeignTxs struct {
	Shape string
	Txs   []*types.Transaction
	// Inputs: committed outputs consumed; Intermediate: outputs created and consumed inside the block;
	// Final: outputs of the transactions that stay unspent (Key set when a wallet key owns them)
	Inputs, Intermediate, Final []Utxo
	Prices                      []*big.Int
}

func (t *ForeignTxs) Describe() map[string]any {
	d := map[string]any{"shape": t.Shape}
	var txs, ins, mid []string
	for i, tx := range t.Txs {
		s := fmt.Sprintf("%x:", tx.Hash().Bytes()[:6])
		for _, in := range tx.TxIn() {
			s += fmt.Sprintf(" in %x:%d", in.PreviousOutPoint.TxHash.Bytes()[:6], in.PreviousOutPoint.Index)
		}
		for _, o := range tx.TxOut() {
			s += fmt.Sprintf(" out d%d", o.Denomination)
		}
		if i < len(t.Prices) && t.Prices[i] != nil {
			s += " price " + t.Prices[i].String()
		}
		txs = append(txs, s)
	}
	for _, u := range t.Inputs {
		ins = append(ins, fmt.Sprintf("%x:%d d%d", u.Hash.Bytes()[:6], u.Index, u.Denom))
	}
	for _, u := range t.Intermediate {
		mid = append(mid, fmt.Sprintf("%x:%d d%d", u.Hash.Bytes()[:6], u.Index, u.Denom))
	}
	d["txs"], d["committed_inputs"], d["created_and_spent_in_block"] = txs, ins, mid
	return d
}

func outOf(tx *types.Transaction, idx int, w *Wallet) Utxo {
	o := tx.TxOut()[idx]
	return Utxo{Hash: tx.Hash(), Index: uint16(idx), Denom: o.Denomination, Addr: append([]byte{}, o.Address...), Lock: big.NewInt(0), Key: w.QiKeyFor(o.Address)}
}

// freshAddrs returns k distinct wallet Qi addresses not in used (and marks them).
func (a *Activity) freshAddrs(used map[string]bool, k int) [][]byte {
	var out [][]byte
	perm := a.R.Perm(len(a.W.Qi))
	for _, i := range perm {
		if len(out) == k {
			break
		}
		ad := a.W.Qi[i].Addr.Bytes()
		if !used[string(ad)] {
			used[string(ad)] = true
			out = append(out, ad)
		}
	}
	if len(out) < k {
		return nil
	}
	return out
}

// spendTo builds a Qi tx spending ins into outputs of the given denominations at fresh wallet addresses.
func (a *Activity) spendTo(ins []Utxo, denoms ...uint8) (*types.Transaction, error) {
	used := map[string]bool{}
	for _, u := range ins {
		used[string(u.Addr)] = true
	}
	ads := a.freshAddrs(used, len(denoms))
	if ads == nil {
		return nil, errors.New("not enough free addresses")
	}
	var outs []QiOut
	for i, d := range denoms {
		outs = append(outs, QiOut{Denom: d, Addr: ads[i]})
	}
	return a.W.QiTx(ins, outs, nil)
}

// Spendable lists wallet outputs that a block built on top of base's parent may spend: committed, unlocked at
// base's height, of a denomination that is never trimmed, not consumed by base's own transactions and not
// handed to the pool recently. prefer are tried first (if they qualify), the rest in ascending denomination.
func (a *Activity) Spendable(base *types.WorkObject, prefer []Utxo) []Utxo {
	spent := map[string]bool{}
	for _, tx := range base.Transactions() {
		if tx.Type() == types.QiTxType {
			for _, in := range tx.TxIn() {
				spent[fmt.Sprintf("%x:%d", in.PreviousOutPoint.TxHash[:], in.PreviousOutPoint.Index)] = true
			}
		}
	}
	return a.spendable(base.NumberU64(common.ZONE_CTX), spent, prefer)
}

// SpendableNext is Spendable for the block after the current zone head, before the worker built it.
func (a *Activity) SpendableNext() []Utxo {
	return a.spendable(a.N.Heads()[2].NumberU64(2)+1, map[string]bool{}, nil)
}

func (a *Activity) spendable(height uint64, spent map[string]bool, prefer []Utxo) []Utxo {
	pref := map[string]int{}
	for i, u := range prefer {
		pref[opKey(u)] = i + 1
	}
	var first, rest []Utxo
	for _, u := range a.W.OwnedUTXOs(a.N) {
		if u.Lock != nil && u.Lock.Sign() > 0 && u.Lock.Uint64() > height {
			continue
		}
		if u.Denom <= types.MaxTrimDenomination || spent[opKey(u)] {
			continue
		}
		if pref[opKey(u)] > 0 {
			first = append(first, u)
			continue
		}
		if s, ok := a.inFlight[opKey(u)]; ok && a.step-s < 12 {
			continue
		}
		rest = append(rest, u)
	}
	sort.SliceStable(first, func(i, j int) bool { return pref[opKey(first[i])] < pref[opKey(first[j])] })
	sort.SliceStable(rest, func(i, j int) bool { return rest[i].Denom < rest[j].Denom })
	return append(first, rest...)
}

// PlanForeign builds the dependent transactions of a shape for a block on top of base's parent. db must hold
// the parent's state (the live zone database after the pending-header pipeline ran). The transactions come in
// the order in which they are to appear in the block; their processor gas prices are non-increasing and not
// below the block's base fee.
func (a *Activity) PlanForeign(base *types.WorkObject, shape string, prefer []Utxo) (*ForeignTxs, error) {
	cands := a.Spendable(base, prefer)
	if len(cands) == 0 {
		return nil, errors.New("no spendable wallet output")
	}
	var lastErr error = errors.New("no candidate fits")
	minFee := base.BaseFee()
	try := func(build func(pr *QiPricer) (*ForeignTxs, error)) *ForeignTxs {
		pr, err := a.N.NewQiPricer(base, a.N.Zone().DB)
		if err != nil {
			lastErr = err
			return nil
		}
		t, err := build(pr)
		if err != nil {
			lastErr = err
			return nil
		}
		t.Shape = shape
		var prev *big.Int
		for i, tx := range t.Txs {
			p, err := pr.Price(tx)
			if err != nil {
				lastErr = err
				return nil
			}
			pr.Note(tx)
			if p.Cmp(minFee) < 0 {
				lastErr = fmt.Errorf("tx %d: price %v below the base fee %v", i, p, minFee)
				return nil
			}
			if prev != nil && p.Cmp(prev) > 0 {
				lastErr = fmt.Errorf("tx %d: price %v above its predecessor's %v", i, p, prev)
				return nil
			}
			prev = p
			t.Prices = append(t.Prices, p)
		}
		return t
	}
	for ci, u := range cands {
		u := u
		D := u.Denom
		var t *ForeignTxs
		switch shape {
		case ShapeChain2, ShapeChain3:
			k := 2
			if shape == ShapeChain3 {
				k = 3
			}
			if int(D)-(k-1) <= int(types.MaxTrimDenomination) {
				continue
			}
			t = try(func(pr *QiPricer) (*ForeignTxs, error) {
				t := &ForeignTxs{Inputs: []Utxo{u}}
				in := u
				for i := 0; i < k; i++ {
					tx, err := a.spendTo([]Utxo{in}, in.Denom-1)
					if err != nil {
						return nil, err
					}
					t.Txs = append(t.Txs, tx)
					o := outOf(tx, 0, a.W)
					if i < k-1 {
						t.Intermediate = append(t.Intermediate, o)
					} else {
						t.Final = append(t.Final, o)
					}
					in = o
				}
				return t, nil
			})
		case ShapeMixed:
			if D-1 <= types.MaxTrimDenomination {
				continue
			}
			for cj, v := range cands {
				if cj == ci || string(v.Addr) == string(u.Addr) {
					continue
				}
				v := v
				t = try(func(pr *QiPricer) (*ForeignTxs, error) {
					tx1, err := a.spendTo([]Utxo{u}, D-1)
					if err != nil {
						return nil, err
					}
					o1 := outOf(tx1, 0, a.W)
					if string(o1.Addr) == string(v.Addr) {
						return nil, errors.New("address clash")
					}
					tx2, err := a.spendTo([]Utxo{o1, v}, o1.Denom-1, v.Denom-1)
					if err != nil {
						return nil, err
					}
					return &ForeignTxs{Txs: []*types.Transaction{tx1, tx2}, Inputs: []Utxo{u, v}, Intermediate: []Utxo{o1},
						Final: []Utxo{outOf(tx2, 0, a.W), outOf(tx2, 1, a.W)}}, nil
				})
				if t != nil {
					break
				}
			}
		case ShapeDoubleSpend:
			// tx1: u -> o1; tx3: o1 -> low (larger fee, so it is listed first); tx2: o1 -> o1.Denom-1
			if D-1 <= types.MaxTrimDenomination {
				continue
			}
			t = try(func(pr *QiPricer) (*ForeignTxs, error) {
				tx1, err := a.spendTo([]Utxo{u}, D-1)
				if err != nil {
					return nil, err
				}
				o1 := outOf(tx1, 0, a.W)
				tx3, err := a.spendTo([]Utxo{o1}, o1.Denom-2)
				if err != nil {
					return nil, err
				}
				tx2, err := a.spendTo([]Utxo{o1}, o1.Denom-1)
				if err != nil {
					return nil, err
				}
				return &ForeignTxs{Txs: []*types.Transaction{tx1, tx3, tx2}, Inputs: []Utxo{u}, Intermediate: []Utxo{o1}}, nil
			})
		case ShapeDoubleSpendCommitted:
			// both spend u; the one that leaves less (larger fee) is listed first
			if D-1 <= types.MaxTrimDenomination {
				continue
			}
			t = try(func(pr *QiPricer) (*ForeignTxs, error) {
				txHi, err := a.spendTo([]Utxo{u}, D-2)
				if err != nil {
					return nil, err
				}
				txLo, err := a.spendTo([]Utxo{u}, D-1)
				if err != nil {
					return nil, err
				}
				return &ForeignTxs{Txs: []*types.Transaction{txHi, txLo}, Inputs: []Utxo{u}}, nil
			})
		case ShapeSpendBeforeCreate:
			// tx1: u -> several outputs (cheap per gas); tx2: tx1's first output -> low (expensive per gas): the
			// price order the processor enforces puts tx2 BEFORE the transaction that creates its input
			if D-1 <= types.MaxTrimDenomination {
				continue
			}
			patterns := [][]uint8{{D - 1, D - 2}, {D - 1, D - 1}, {D - 1, D - 1, D - 1}, {D - 1, D - 1, D - 1, D - 1}}
		search:
			for _, pat := range patterns {
				sum := new(big.Int)
				for _, d := range pat {
					sum.Add(sum, types.Denominations[d])
				}
				if sum.Cmp(types.Denominations[D]) >= 0 {
					continue
				}
				for d2 := int(D) - 2; d2 >= 0; d2-- {
					pat, d2 := pat, uint8(d2)
					t = try(func(pr *QiPricer) (*ForeignTxs, error) {
						tx1, err := a.spendTo([]Utxo{u}, pat...)
						if err != nil {
							return nil, err
						}
						o1 := outOf(tx1, 0, a.W)
						tx2, err := a.spendTo([]Utxo{o1}, d2)
						if err != nil {
							return nil, err
						}
						// price of tx2 needs tx1's outputs
						pr.Note(tx1)
						return &ForeignTxs{Txs: []*types.Transaction{tx2, tx1}, Inputs: []Utxo{u}, Intermediate: []Utxo{o1}}, nil
					})
					if t != nil {
						break search
					}
				}
			}
		default:
			return nil, fmt.Errorf("unknown shape %q", shape)
		}
		if t != nil {
			return t, nil
		}
	}
	return nil, fmt.Errorf("shape %s: %w (%d candidates)", shape, lastErr, len(cands))
}

// StepForeign submits this step's ordinary traffic, lets the worker build its block and turns it into a foreign
// block carrying the dependent spends of the given shape. For the invalid shapes the block is delivered with
// Force (the node is expected to refuse it). The plan is nil when no transactions could be built.
func (a *Activity) StepForeign(o MineOpts, shape string, prefer []Utxo) (*Foreign, *ForeignTxs, error) {
	return a.StepForeignOpts(ForeignOpts{MineOpts: o}, shape, prefer)
}

// StepForeignOpts is StepForeign with the foreign miner's knobs (Force is set from the shape, Fill is on).
func (a *Activity) StepForeignOpts(fo ForeignOpts, shape string, prefer []Utxo) (*Foreign, *ForeignTxs, error) {
	a.Traffic()
	fo.Fill = true
	var plan *ForeignTxs
	fo.Force = !ShapeValid(shape)
	f, err := a.N.MineForeignOpts(fo, func(base *types.WorkObject) (types.Transactions, error) {
		p, err := a.PlanForeign(base, shape, prefer)
		if err != nil {
			return nil, err
		}
		plan = p
		return p.Txs, nil
	})
	if plan != nil {
		for _, u := range plan.Inputs {
			a.inFlight[opKey(u)] = a.step
		}
	}
	if err == nil && f != nil && f.Accepted {
		for _, tx := range f.Blocks[2].Transactions() {
			if tx.Type() == types.QiTxType {
				for i := range tx.TxOut() {
					a.created[fmt.Sprintf("%x:%d", tx.Hash().Bytes(), i)] = f.Number[2]
				}
			}
		}
	}
	return f, plan, err
}

// FundQi submits a Quai->Qi conversion of quai whole Quai from a funded wallet key to a wallet Qi key (the
// converted outputs appear after the ETX went through a prime block and unlock ConversionLockPeriod later).
func (a *Activity) FundQi(quai int64) error {
	head := a.N.Heads()[2]
	if head.NumberU64(2) < 2 {
		return errors.New("too early")
	}
	price := new(big.Int).Mul(head.BaseFee(), big.NewInt(4))
	if price.Sign() == 0 {
		price = big.NewInt(1e15)
	}
	from := a.W.Quai[1+a.R.Intn(len(a.W.Quai)-1)]
	if a.Owner != nil && from == a.Owner.Deployer && !a.ownerSent {
		from = a.W.Quai[1]
	}
	to := a.W.Qi[1+a.R.Intn(len(a.W.Qi)-1)].Addr
	val := new(big.Int).Mul(big.NewInt(1e18), big.NewInt(quai))
	tx, err := a.W.QuaiTx(from, a.W.NextNonce(from), &to, val, 400000, price, nil, nil)
	if err != nil {
		return err
	}
	if !a.submit("fund-qi", tx) {
		return errors.New(a.LastErr["fund-qi"])
	}
	return nil
}

// CountSpendable counts wallet outputs of at least minDenom that a block on top of the current zone head could
// spend (unlocked at the next height, not handed to the pool recently).
func (a *Activity) CountSpendable(minDenom uint8) int {
	head := a.N.Heads()[2]
	height := head.NumberU64(2) + 1
	k := 0
	for _, u := range a.W.OwnedUTXOs(a.N) {
		if u.Denom < minDenom || (u.Lock != nil && u.Lock.Sign() > 0 && u.Lock.Uint64() > height) {
			continue
		}
		if s, ok := a.inFlight[opKey(u)]; ok && a.step-s < 12 {
			continue
		}
		k++
	}
	return k
}

// ErrNotFunded: GrowQi mined its maximum of blocks without reaching the wanted number of spendable outputs.
var ErrNotFunded = errors.New("wallet not funded")

// GrowQi mines ordinary blocks (worker-built, with the activity's traffic plus large Quai->Qi conversions; a
// block is ground to prime order whenever five blocks passed without one, so that conversions and Qi coinbases
// come through) until at least
// minBlocks were mined and need wallet outputs of denomination >= minDenom are spendable, or maxBlocks were
// mined. each is called for every block after the zone executed it. It returns the number of blocks mined.
func (a *Activity) GrowQi(minBlocks, maxBlocks int, minDenom uint8, need int, each func(*Mined) error) (int, error) {
	i, sincePrime := 0, 0
	for ; i < maxBlocks; i++ {
		if i >= minBlocks && a.CountSpendable(minDenom) >= need {
			break
		}
		if a.N.Heads()[2].NumberU64(2) >= 2 && i%2 == 0 && a.Submitted["fund-qi"] < 24 {
			a.FundQi(int64(2e8) * int64(1+i%5))
		}
		want := -1
		if sincePrime >= 5 {
			want = 0 // (grinding a prime-order block right after another one is expensive: only after a gap)
		}
		m, err := a.Step(MineOpts{WantOrder: want})
		if err != nil {
			return i, err
		}
		sincePrime++
		if m.Order == 0 {
			sincePrime = 0
		}
		if err := a.N.Settle(); err != nil {
			return i + 1, fmt.Errorf("settle: %w", err)
		}
		if each != nil {
			if err := each(m); err != nil {
				return i + 1, err
			}
		}
	}
	if a.CountSpendable(minDenom) < need {
		return i, fmt.Errorf("%w: after %d blocks only %d spendable wallet outputs of denomination >= %d (wanted %d)", ErrNotFunded, i, a.CountSpendable(minDenom), minDenom, need)
	}
	return i, nil
}
