//go:build verif

package hnet

import (
	"math/rand"
	"testing"

	"github.com/dominant-strategies/go-quai/core/rawdb"
	"github.com/dominant-strategies/go-quai/core/types"
)

func TestActivity4(t *testing.T) {
	a, err := NewActivity(rand.New(rand.NewSource(2)), Options{})
	if err != nil {
		t.Fatal(err)
	}
	defer a.N.Stop()
	for i := 0; i < 14; i++ {
		m, err := a.Step(MineOpts{WantOrder: -1})
		if err != nil {
			t.Fatalf("block %d: %v", i, err)
		}
		a.N.Settle()
		b := m.Blocks[2]
		for _, e := range b.OutboundEtxs() {
			t.Logf("block %d order %d OUT body  (%x,%d) type %d hash %x to %v", m.Number[2], m.Order, e.OriginatingTxHash().Bytes()[:5], e.ETXIndex(), e.EtxType(), e.Hash().Bytes()[:5], *e.To().Location())
		}
		if p := rawdb.ReadPendingEtxs(a.N.Zone().DB, m.Hash); p != nil {
			t.Logf("block %d pendingEtxs in zone db: %d", m.Number[2], len(p.OutboundEtxs))
		}
		for _, e := range m.Etxs {
			t.Logf("block %d OUT append (%x,%d) type %d hash %x", m.Number[2], e.OriginatingTxHash().Bytes()[:5], e.ETXIndex(), e.EtxType(), e.Hash().Bytes()[:5])
		}
		for _, tx := range b.Transactions() {
			if tx.Type() == types.ExternalTxType {
				t.Logf("block %d IN  (%x,%d) type %d hash %x", m.Number[2], tx.OriginatingTxHash().Bytes()[:5], tx.ETXIndex(), tx.EtxType(), tx.Hash().Bytes()[:5])
			}
		}
		for _, e := range rawdb.ReadInboundEtxs(a.N.Zone().DB, m.Hash) {
			t.Logf("block %d INBOUND-LIST (%x,%d) type %d hash %x", m.Number[2], e.OriginatingTxHash().Bytes()[:5], e.ETXIndex(), e.EtxType(), e.Hash().Bytes()[:5])
		}
	}
}
