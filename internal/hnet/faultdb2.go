package hnet

// Additions for the deeper C11 stages (double faults, clean stop, real storage
// engines): arming a FaultCtl relative to "now", and moving database images
// between the memory backend and leveldb / pebble directories.

import (
	"fmt"
	"io"
	"os"
	"path/filepath"

	"github.com/dominant-strategies/go-quai/common"
	"github.com/dominant-strategies/go-quai/core/rawdb"
	"github.com/dominant-strategies/go-quai/ethdb"
	"github.com/dominant-strategies/go-quai/ethdb/memorydb"
	"github.com/dominant-strategies/go-quai/log"
)

// ArmAfter lets rel further write operations take effect, counted from now,
// and drops every later one (rel < 0: never crash). It returns the value of
// the global counter at the moment of arming. Used when the crash window
// opens only after a preparation phase whose writes are not crash points.
func (c *FaultCtl) ArmAfter(rel int64) int64 {
	c.mu.Lock()
	defer c.mu.Unlock()
	if rel < 0 {
		c.CrashAt = -1
	} else {
		c.CrashAt = c.count + rel
	}
	return c.count
}

// OpsCopy returns the recorded operation kinds so far.
func (c *FaultCtl) OpsCopy() []string {
	c.mu.Lock()
	defer c.mu.Unlock()
	return append([]string(nil), c.Ops...)
}

// DiskLevelDir is the directory hnet.New uses for a level of a disk backend.
func DiskLevelDir(backend, dir string, lvl int) string {
	if backend == "pebble" {
		return fmt.Sprintf("%s/p%d", dir, lvl)
	}
	return fmt.Sprintf("%s/l%d", dir, lvl)
}

// OpenDiskLevel opens one level's database directory with the production constructor.
func OpenDiskLevel(backend, dir string, lvl int, logger *log.Logger) (ethdb.Database, error) {
	switch backend {
	case "leveldb":
		return rawdb.NewLevelDBDatabase(DiskLevelDir(backend, dir, lvl), 16, 16, "", false, logger, Locs[lvl])
	case "pebble":
		return rawdb.NewPebbleDBDatabase(DiskLevelDir(backend, dir, lvl), 16, 16, "", false, logger, Locs[lvl])
	}
	return nil, fmt.Errorf("unknown disk backend %q", backend)
}

// OpenDisk opens the three level directories under dir. On error every
// database opened so far is closed again.
func OpenDisk(backend, dir string, logger *log.Logger) ([3]ethdb.Database, error) {
	var dbs [3]ethdb.Database
	for lvl := 0; lvl < 3; lvl++ {
		db, err := OpenDiskLevel(backend, dir, lvl, logger)
		if err != nil {
			for i := 0; i < lvl; i++ {
				dbs[i].Close()
			}
			return [3]ethdb.Database{}, fmt.Errorf("level %d: %w", lvl, err)
		}
		dbs[lvl] = db
	}
	return dbs, nil
}

// ExportMem writes every key/value of three memory images into fresh
// leveldb / pebble directories under dir (through the engine's batch path) and
// closes them: the result is what a node with that content left on disk.
func ExportMem(im [3]*memorydb.Database, backend, dir string, logger *log.Logger) error {
	for lvl := 0; lvl < 3; lvl++ {
		if err := os.MkdirAll(filepath.Dir(DiskLevelDir(backend, dir, lvl)), 0o755); err != nil {
			return err
		}
		db, err := OpenDiskLevel(backend, dir, lvl, logger)
		if err != nil {
			return err
		}
		b := db.NewBatch()
		it := im[lvl].NewIterator(nil, nil)
		for it.Next() {
			if err := b.Put(common.CopyBytes(it.Key()), common.CopyBytes(it.Value())); err != nil {
				it.Release()
				db.Close()
				return err
			}
			if b.ValueSize() > 1<<20 {
				if err := b.Write(); err != nil {
					it.Release()
					db.Close()
					return err
				}
				b.Reset()
			}
		}
		it.Release()
		if err := b.Write(); err != nil {
			db.Close()
			return err
		}
		if err := db.Close(); err != nil {
			return err
		}
	}
	return nil
}

// CopyDir copies a directory tree file by file (the databases under it may be
// open: what is copied is what a killed process leaves behind, provided nothing
// writes meanwhile). Files that disappear while copying are skipped.
func CopyDir(src, dst string) error {
	return filepath.Walk(src, func(p string, fi os.FileInfo, err error) error {
		if err != nil {
			if os.IsNotExist(err) {
				return nil
			}
			return err
		}
		rel, err := filepath.Rel(src, p)
		if err != nil {
			return err
		}
		target := filepath.Join(dst, rel)
		if fi.IsDir() {
			return os.MkdirAll(target, 0o755)
		}
		if !fi.Mode().IsRegular() {
			return nil
		}
		in, err := os.Open(p)
		if err != nil {
			if os.IsNotExist(err) {
				return nil
			}
			return err
		}
		defer in.Close()
		out, err := os.Create(target)
		if err != nil {
			return err
		}
		if _, err := io.Copy(out, in); err != nil {
			out.Close()
			return err
		}
		return out.Close()
	})
}
