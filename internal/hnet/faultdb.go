package hnet

import (
	"sync"

	"github.com/dominant-strategies/go-quai/ethdb"
)

// FaultCtl is the shared controller of a set of FaultDBs: one global counter
// of database write operations across all levels (a process crash stops all
// of them at the same instant). Unit of failure: a direct Put/Delete, or a
// whole batch.Write (atomic in leveldb/pebble; the memory backend gets the same
// semantics from the wrapper). After the crash point every write is dropped.
type FaultCtl struct {
	mu      sync.Mutex
	count   int64
	CrashAt int64 // number of write operations that take effect; <0 = never crash
	crashed bool
	// Ops records the kind and level of every counted operation (dry run)
	Ops []string
	Rec bool
}

func NewFaultCtl(crashAt int64) *FaultCtl { return &FaultCtl{CrashAt: crashAt} }

// allow reports whether the next write operation still takes effect.
func (c *FaultCtl) allow(kind string) bool {
	c.mu.Lock()
	defer c.mu.Unlock()
	if c.crashed {
		return false
	}
	if c.CrashAt >= 0 && c.count >= c.CrashAt {
		c.crashed = true
		return false
	}
	c.count++
	if c.Rec {
		c.Ops = append(c.Ops, kind)
	}
	return true
}

// Crash makes every later write a no-op (used before discarding cores).
func (c *FaultCtl) Crash() { c.mu.Lock(); c.crashed = true; c.mu.Unlock() }
func (c *FaultCtl) Crashed() bool {
	c.mu.Lock()
	defer c.mu.Unlock()
	return c.crashed
}
func (c *FaultCtl) Count() int64 { c.mu.Lock(); defer c.mu.Unlock(); return c.count }

type FaultDB struct {
	ethdb.Database
	ctl *FaultCtl
	lvl string
}

func NewFaultDB(db ethdb.Database, ctl *FaultCtl, lvl string) *FaultDB {
	return &FaultDB{Database: db, ctl: ctl, lvl: lvl}
}

func (f *FaultDB) Put(k, v []byte) error {
	if !f.ctl.allow(f.lvl + ":put:" + keyClass(k)) {
		return nil
	}
	return f.Database.Put(k, v)
}
func (f *FaultDB) Delete(k []byte) error {
	if !f.ctl.allow(f.lvl + ":delete:" + keyClass(k)) {
		return nil
	}
	return f.Database.Delete(k)
}
func (f *FaultDB) NewBatch() ethdb.Batch {
	return &faultBatch{Batch: f.Database.NewBatch(), f: f}
}

type faultBatch struct {
	ethdb.Batch
	f *FaultDB
	n int
}

func (b *faultBatch) Put(k, v []byte) error { b.n++; return b.Batch.Put(k, v) }
func (b *faultBatch) Delete(k []byte) error { b.n++; return b.Batch.Delete(k) }
func (b *faultBatch) Reset()                { b.n = 0; b.Batch.Reset() }
func (b *faultBatch) Write() error {
	if b.n == 0 {
		return b.Batch.Write()
	}
	if !b.f.ctl.allow(b.f.lvl + ":batch-write") {
		return nil
	}
	return b.Batch.Write()
}

// keyClass names the kind of key for the evidence (first letters of the schema prefix).
func keyClass(k []byte) string {
	n := 0
	for n < len(k) && n < 14 && ((k[n] >= 'a' && k[n] <= 'z') || (k[n] >= 'A' && k[n] <= 'Z') || k[n] == '-') {
		n++
	}
	if n == 0 {
		return "trie-node"
	}
	if len(k) == 32 {
		return "trie-node"
	}
	if n > 3 && len(k) > n { // prefix + hash
		n = 3
	}
	return string(k[:n])
}
