//go:build verif

package hnet

import (
	"math/rand"
	"testing"
)

func TestActivity3(t *testing.T) {
	a, err := NewActivity(rand.New(rand.NewSource(2)), Options{})
	if err != nil {
		t.Fatal(err)
	}
	defer a.N.Stop()
	a.ConvEvery = 2
	for i := 0; i < 50; i++ {
		if _, err := a.Step(MineOpts{WantOrder: -1}); err != nil {
			t.Fatalf("block %d: %v", i, err)
		}
		a.N.Settle()
	}
	dist := map[uint8]int{}
	locks := map[bool]int{}
	for _, u := range a.W.OwnedUTXOs(a.N) {
		dist[u.Denom]++
		locks[u.Lock != nil && u.Lock.Sign() > 0]++
	}
	t.Logf("denominations %v locked %v submitted %v refused %v %v", dist, locks, a.Submitted, a.Refused, a.LastErr)
}
