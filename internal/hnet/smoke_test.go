//go:build verif

package hnet

import (
	"testing"
	"time"
)

func TestSmoke(t *testing.T) {
	n, err := New(Options{})
	if err != nil {
		t.Fatal(err)
	}
	defer n.Stop()
	t0 := time.Now()
	orders := map[int]int{}
	for i := 0; i < 40; i++ {
		m, err := n.Mine(MineOpts{WantOrder: -1, Fill: true})
		if err != nil {
			t.Fatalf("block %d: %v", i, err)
		}
		orders[m.Order]++
		t.Logf("block %d order %d num %v txs %d etxs %d", i, m.Order, m.Number, len(m.Blocks[2].Transactions()), len(m.Etxs))
	}
	t.Logf("orders %v in %v", orders, time.Since(t0))
}
