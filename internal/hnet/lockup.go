//go:build verif

package hnet

import (
	"encoding/binary"
	"math/big"
	"math/rand"

	"github.com/dominant-strategies/go-quai/common"
	"github.com/dominant-strategies/go-quai/core/types"
	"github.com/dominant-strategies/go-quai/crypto"
)

// OwnerContract is a contract that forwards its calldata to the lockup
// precompile (so the precompile sees the contract as owner). Its address is
// known before the chain starts: a salt appended to the init code is ground
// until the plain CREATE address is an in-zone Quai address.
type OwnerContract struct {
	Addr     common.Address
	Deployer *QuaiKey
	Nonce    uint64
	InitCode []byte
}

// LockupPrecompile is the lockup precompile address of zone 0-0.
func LockupPrecompile() common.Address {
	b := make([]byte, 20)
	b[0] = ZoneLoc.BytePrefix()
	b[19] = 0x0a
	return common.BytesToAddress(b, ZoneLoc)
}

func ownerRuntime() []byte {
	la := LockupPrecompile().Bytes()
	var c []byte
	c = append(c, 0x36, 0x60, 0x00, 0x60, 0x00, 0x37) // calldatacopy(0,0,calldatasize)
	c = append(c, 0x60, 0x01, 0x60, 0x80)             // ret size 1, ret offset 0x80
	c = append(c, 0x36, 0x60, 0x00, 0x60, 0x00)       // in size = calldatasize, in offset 0, value 0
	c = append(c, 0x73)
	c = append(c, la...)
	c = append(c, 0x5a, 0xf1)                   // GAS CALL
	c = append(c, 0x60, 0x80, 0x53)             // mstore8(0x80, success)
	c = append(c, 0x60, 0x01, 0x60, 0x80, 0xf3) // return(0x80,1)
	return c
}

// NewOwnerContract prepares the owner contract deployed by the given key's nonce.
func NewOwnerContract(deployer *QuaiKey, nonce uint64) *OwnerContract {
	rt := ownerRuntime()
	head := []byte{0x60, byte(len(rt)), 0x80, 0x60, 0x0b, 0x60, 0x00, 0x39, 0x60, 0x00, 0xf3}
	base := append(append([]byte{}, head...), rt...)
	for salt := uint32(0); ; salt++ {
		code := append(append([]byte{}, base...), 0, 0, 0, 0)
		binary.BigEndian.PutUint32(code[len(code)-4:], salt)
		a := crypto.CreateAddress(deployer.Addr, nonce, code, ZoneLoc)
		if _, err := a.InternalAndQuaiAddress(); err == nil {
			return &OwnerContract{Addr: a, Deployer: deployer, Nonce: nonce, InitCode: code}
		}
	}
}

// DeployTx builds the creation transaction (the access list must name the address).
func (w *Wallet) DeployTx(oc *OwnerContract, gasPrice *big.Int) (*types.Transaction, error) {
	al := types.AccessList{{Address: oc.Addr}}
	return w.QuaiTx(oc.Deployer, oc.Nonce, nil, new(big.Int), 900000, gasPrice, oc.InitCode, al)
}

// GrindOwnShares grinds k work shares of the miner on the pending header wo
// (same coinbase and data as the block will have) and hands them to the zone
// through the production entry points; later pending headers include them as
// uncles, so one block pays the miner several coinbases.
func (n *Net) GrindOwnShares(wo *types.WorkObject, k int, r *rand.Rand) int {
	zc := n.Zone().Core
	hc := zc.Slice().HeaderChain()
	done := 0
	for i := 0; i < k; i++ {
		h := types.CopyWorkObjectHeader(wo.WorkObjectHeader())
		found := false
		nonce := r.Uint64()
		for tries := 0; tries < 5_000_000; tries++ {
			h.SetNonce(types.EncodeNonce(nonce + uint64(tries)))
			if hc.UncleWorkShareClassification(h) == types.Valid {
				found = true
				break
			}
		}
		if !found {
			continue
		}
		if _, isBlock, isShare, err := zc.ReceiveWorkShare(types.CopyWorkObjectHeader(h)); err != nil || isBlock || !isShare {
			continue
		}
		if err := zc.SendWorkShare(types.CopyWorkObjectHeader(h)); err != nil {
			continue
		}
		done++
	}
	return done
}
