//go:build verif

package hnet

import (
	"fmt"
	"math/big"
	"math/rand"

	"github.com/dominant-strategies/go-quai/common"
	"github.com/dominant-strategies/go-quai/core/types"
)

// Activity drives a Net with a wallet that produces mixed traffic: Quai
// transfers, Quai→Qi conversions, Qi spends (local transfers, Qi→Quai
// conversions, outputs to another zone), so that blocks carry Quai txs, Qi txs
// and inbound ETXs of every kind the single live slice can produce.
type Activity struct {
	N *Net
	W *Wallet
	R *rand.Rand
	// counters of what was submitted / refused by the pool
	Submitted map[string]int
	Refused   map[string]int
	LastErr   map[string]string
	// outpoints handed to the pool and not yet seen spent
	inFlight map[string]int // outpoint -> step at which it was used
	step     int
	// knobs
	QuaiPerStep int
	ConvEvery   int
	QiPerStep   int
	// DoubleSpend: also submit a second, conflicting spend of the same outpoint now and then
	DoubleSpend bool
	// Pending Qi txs submitted (hash -> tx) for monitors
	QiSent map[common.Hash]*types.Transaction
	// TrimRace: spend low-denomination outputs exactly in the block that trims them
	TrimRace bool
	created  map[string]uint64 // outpoint -> zone height of the block whose Qi tx created it
	// Owner: the miner pays its coinbases to this lockup owner contract (deployed by the first Traffic call);
	// Shares: own work shares ground on every pending header, so blocks carry several coinbases of the miner
	Owner       *OwnerContract
	Shares      int
	ownerSent   bool
	SharesFound int
}

// NewActivity creates a wallet (nQuai, nQi keys), funds the Quai keys at
// genesis and starts a Net whose miner coinbases are wallet keys.
func NewActivity(r *rand.Rand, opts Options) (*Activity, error) {
	return newActivity(r, opts, 0, 0, false)
}

// NewActivityLockup is NewActivity with the miner's Quai coinbases paid into
// lockup records (lockup byte lockByte) held by an owner contract, and shares
// own work shares per block.
func NewActivityLockup(r *rand.Rand, opts Options, lockByte uint8, shares int) (*Activity, error) {
	return newActivity(r, opts, lockByte, shares, true)
}

func newActivity(r *rand.Rand, opts Options, lockByte uint8, shares int, owner bool) (*Activity, error) {
	w := NewWallet(r, 4, 10)
	var oc *OwnerContract
	if owner {
		oc = NewOwnerContract(w.Quai[3], 0)
		opts.LockupContract = &oc.Addr
		opts.CoinbaseLockup = lockByte
	}
	fund := new(big.Int).Mul(big.NewInt(1e18), big.NewInt(1e11))
	opts.GenAllocs = w.GenAllocs(fund)
	if opts.QuaiCoinbase.Equal(common.Address{}) {
		opts.QuaiCoinbase = w.Quai[0].Addr
	}
	if opts.QiCoinbase.Equal(common.Address{}) {
		opts.QiCoinbase = w.Qi[0].Addr
	}
	n, err := New(opts)
	if err != nil {
		return nil, err
	}
	return &Activity{N: n, W: w, R: r, Submitted: map[string]int{}, Refused: map[string]int{}, LastErr: map[string]string{},
		inFlight: map[string]int{}, QuaiPerStep: 2, ConvEvery: 4, QiPerStep: 2, QiSent: map[common.Hash]*types.Transaction{}, created: map[string]uint64{},
		Owner: oc, Shares: shares}, nil
}

func (a *Activity) submit(kind string, tx *types.Transaction) bool {
	err := a.N.Zone().Core.TxPool().AddLocal(tx)
	if err != nil {
		a.Refused[kind]++
		a.LastErr[kind] = err.Error()
		return false
	}
	a.Submitted[kind]++
	return true
}

func opKey(u Utxo) string { return fmt.Sprintf("%x:%d", u.Hash[:], u.Index) }

// ExternalQiAddr is a Qi-ledger address of zone 0-1 (not run by the harness).
func ExternalQiAddr(tag byte) []byte {
	b := make([]byte, 20)
	b[0], b[1] = 0x01, 0x80|tag&0x0f
	for i := 2; i < 20; i++ {
		b[i] = tag
	}
	return b
}

// Traffic submits this step's transactions to the zone's pool.
func (a *Activity) Traffic() {
	a.step++
	n, w, r := a.N, a.W, a.R
	head := n.Heads()[2]
	zoneNum := head.NumberU64(2)
	if zoneNum < 2 {
		return
	}
	price := new(big.Int).Mul(head.BaseFee(), big.NewInt(int64(3+r.Intn(3))))
	if price.Sign() == 0 {
		price = big.NewInt(1e15)
	}
	st, err := n.ZoneStateAt(head)
	if err == nil {
		for _, k := range w.Quai {
			if ia, e := k.Addr.InternalAndQuaiAddress(); e == nil {
				// keep the wallet nonce at least at the state nonce (after reorgs it can go backwards: then reuse)
				if sn := st.GetNonce(ia); sn > w.nonces[k.Addr.Bytes20()] || a.step%7 == 0 {
					w.SyncNonce(k, sn+uint64(pendingCount(n, ia)))
				}
			}
		}
	}
	if a.Owner != nil && !a.ownerSent {
		// first transaction of the deployer key (nonce 0)
		if tx, err := w.DeployTx(a.Owner, price); err == nil && a.submit("deploy-owner", tx) {
			a.ownerSent = true
			w.SyncNonce(a.Owner.Deployer, a.Owner.Nonce+1)
		}
	}
	for i := 0; i < a.QuaiPerStep; i++ {
		from := w.Quai[1+r.Intn(len(w.Quai)-1)]
		to := w.Quai[r.Intn(len(w.Quai))].Addr
		val := big.NewInt(int64(1 + r.Intn(1_000_000)))
		tx, err := w.QuaiTx(from, w.NextNonce(from), &to, val, 21000, price, nil, nil)
		if err == nil {
			a.submit("quai-transfer", tx)
		}
	}
	if a.ConvEvery > 0 && a.step%a.ConvEvery == 0 {
		from := w.Quai[1+r.Intn(len(w.Quai)-1)]
		to := w.Qi[1+r.Intn(len(w.Qi)-1)].Addr
		val := new(big.Int).Mul(big.NewInt(1e18), big.NewInt(int64(20000+r.Intn(2000000))))
		tx, err := w.QuaiTx(from, w.NextNonce(from), &to, val, 200000, price, nil, nil)
		if err == nil {
			a.submit("quai-to-qi", tx)
		}
	}
	// Qi spends of matured outputs
	owned := w.OwnedUTXOs(n)
	var usable []Utxo
	for _, u := range owned {
		if u.Lock != nil && u.Lock.Sign() > 0 && u.Lock.Uint64() > zoneNum+1 {
			continue
		}
		if s, ok := a.inFlight[opKey(u)]; ok && a.step-s < 12 {
			continue
		}
		// ordinary traffic only spends denominations that are never trimmed, so it
		// cannot meet an output's trim block by accident (TrimRace does that on purpose)
		if u.Denom > types.MaxTrimDenomination {
			usable = append(usable, u)
		}
	}
	r.Shuffle(len(usable), func(i, j int) { usable[i], usable[j] = usable[j], usable[i] })
	if a.TrimRace {
		// outputs of Qi transactions (lock 0) of a trimmable denomination whose trim block is the next one
		for _, u := range owned {
			h, ok := a.created[opKey(u)]
			depth, trimmable := types.TrimDepths[u.Denom]
			if !ok || !trimmable || u.Denom < 3 || (u.Lock != nil && u.Lock.Sign() != 0) {
				continue
			}
			if _, busy := a.inFlight[opKey(u)]; busy {
				continue
			}
			// the pending header built now is mined as block zoneNum+1 or, because Settle caches it, zoneNum+2
			if zoneNum+1 == h+depth || zoneNum+2 == h+depth {
				kind := "qi-trim-race"
				if tx, err := a.buildQiSpend([]Utxo{u}, &kind); err == nil {
					kind = "qi-trim-race"
					if a.submit(kind, tx) {
						a.QiSent[tx.Hash()] = tx
						a.inFlight[opKey(u)] = a.step
					}
				}
			}
		}
	}
	for i := 0; i < a.QiPerStep && len(usable) > 0; i++ {
		nIn := 1
		if len(usable) >= 2 && r.Intn(3) == 0 {
			nIn = 2
		}
		ins := usable[:nIn]
		usable = usable[nIn:]
		kind := "qi-transfer"
		tx, err := a.buildQiSpend(ins, &kind)
		if err != nil {
			a.Refused["qi-build"]++
			a.LastErr["qi-build"] = err.Error()
			continue
		}
		if a.submit(kind, tx) {
			a.QiSent[tx.Hash()] = tx
			for _, u := range ins {
				a.inFlight[opKey(u)] = a.step
			}
			if a.DoubleSpend && r.Intn(3) == 0 {
				k2 := "qi-transfer"
				if tx2, err := a.buildQiSpend(ins[:1], &k2); err == nil && tx2.Hash() != tx.Hash() {
					if a.submit("qi-double-spend", tx2) {
						a.QiSent[tx2.Hash()] = tx2
					}
				}
			}
		}
	}
	n.Zone().Core.TxPool().VerifQuiesce()
}

func pendingCount(n *Net, ia common.InternalAddress) int {
	p, _ := n.Zone().Core.TxPool().ContentFrom(ia)
	return len(p)
}

// buildQiSpend spends ins into outputs of lower denominations owned by other
// wallet keys (no address reuse), leaving a fee.
func (a *Activity) buildQiSpend(ins []Utxo, kind *string) (*types.Transaction, error) {
	w, r := a.W, a.R
	used := map[string]bool{}
	for _, u := range ins {
		used[string(u.Addr)] = true
	}
	pickAddr := func() []byte {
		for try := 0; try < 50; try++ {
			k := w.Qi[r.Intn(len(w.Qi))]
			if !used[string(k.Addr.Bytes())] {
				used[string(k.Addr.Bytes())] = true
				return k.Addr.Bytes()
			}
		}
		return nil
	}
	minD := ins[0].Denom
	for _, u := range ins {
		if u.Denom < minD {
			minD = u.Denom
		}
	}
	var outs []QiOut
	var data []byte
	nOut := 1 + r.Intn(2)
	switch x := r.Intn(10); {
	case x == 0 && minD >= 6:
		// Qi -> Quai conversion: one output to an in-zone Quai address, data = slip(2) | refund Qi address(20)
		*kind = "qi-to-quai"
		refund := pickAddr()
		if refund == nil {
			return nil, fmt.Errorf("no free address")
		}
		data = append([]byte{byte(r.Intn(0x23)), byte(r.Intn(256))}, refund...)
		outs = append(outs, QiOut{Denom: minD - 1, Addr: w.Quai[1+r.Intn(len(w.Quai)-1)].Addr.Bytes()})
	case x == 1:
		*kind = "qi-external"
		outs = append(outs, QiOut{Denom: minD - 1, Addr: ExternalQiAddr(byte(1 + r.Intn(14)))})
	default:
		for i := 0; i < nOut; i++ {
			ad := pickAddr()
			if ad == nil {
				break
			}
			d := minD - 1
			if i > 0 && d > 0 {
				d--
			}
			outs = append(outs, QiOut{Denom: d, Addr: ad})
		}
	}
	if len(outs) == 0 {
		return nil, fmt.Errorf("no outputs")
	}
	return w.QiTx(ins, outs, data)
}

// Step submits traffic and mines one block.
func (a *Activity) Step(o MineOpts) (*Mined, error) {
	a.Traffic()
	o.Fill = true
	var m *Mined
	var err error
	if a.Shares > 0 && !o.NoAppend {
		heads := a.N.Heads()
		if o.Heads != nil {
			heads = *o.Heads
		}
		var wo *types.WorkObject
		if wo, err = a.N.BuildPending(heads, true); err == nil && wo != nil {
			if wo.NumberU64(2) >= 2 {
				a.SharesFound += a.N.GrindOwnShares(wo, a.Shares, a.R)
			}
			if _, err = a.N.Seal(wo, o.WantOrder, o.MaxOrder); err == nil {
				m, err = a.N.Submit(wo)
			}
		} else if err == nil {
			err = fmt.Errorf("nil pending header")
		}
	} else {
		m, err = a.N.Mine(o)
	}
	if err == nil && m != nil && m.Blocks[2] != nil {
		for _, tx := range m.Blocks[2].Transactions() {
			if tx.Type() == types.QiTxType {
				for i := range tx.TxOut() {
					a.created[fmt.Sprintf("%x:%d", tx.Hash().Bytes(), i)] = m.Number[2]
				}
			}
		}
	}
	return m, err
}
