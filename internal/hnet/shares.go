//go:build verif

package hnet

import (
	"errors"
	"fmt"
	"math/big"
	"math/rand"

	"github.com/dominant-strategies/go-quai/core/types"
)

// GrindShares grinds k work shares (PoW at the work-share threshold, below the
// block target) on the pending header wo and hands each one to the zone through
// the production entry points of a locally found share (ReceiveWorkShare, then
// SendWorkShare = worker.AddWorkShare). Pending headers built afterwards on
// the same branch include them as uncles of the zone body. It returns the
// share headers the node took.
func (n *Net) GrindShares(wo *types.WorkObject, k int, r *rand.Rand) []*types.WorkObjectHeader {
	zc := n.Zone().Core
	hc := zc.Slice().HeaderChain()
	var out []*types.WorkObjectHeader
	for i := 0; i < k; i++ {
		h := types.CopyWorkObjectHeader(wo.WorkObjectHeader())
		found := false
		nonce := r.Uint64()
		for tries := 0; tries < 5_000_000; tries++ {
			h.SetNonce(types.EncodeNonce(nonce + uint64(tries)))
			if hc.UncleWorkShareClassification(h) == types.Valid {
				found = true
				break
			}
		}
		if !found {
			continue
		}
		if _, isBlock, isShare, err := zc.ReceiveWorkShare(types.CopyWorkObjectHeader(h)); err != nil || isBlock || !isShare {
			continue
		}
		if err := zc.SendWorkShare(types.CopyWorkObjectHeader(h)); err != nil {
			continue
		}
		out = append(out, h)
	}
	return out
}

// SealBounded is Seal with a bound: it grinds nonces until the header is a
// valid block of order wantOrder (-1 = any); after maxSeals valid seals of
// another order it keeps the last valid seal (a wanted order can be infeasible
// on the given parents, e.g. prime directly after prime). The order is the one
// the zone's CalcOrder reports for the sealed header.
func (n *Net) SealBounded(wo *types.WorkObject, wantOrder, maxSeals int, r *rand.Rand) (int, error) {
	if wo.Difficulty() == nil || wo.Difficulty().Sign() <= 0 {
		return 0, errors.New("non-positive difficulty")
	}
	target := new(big.Int).Div(big2e256, wo.Difficulty())
	zc := n.Zone().Core
	seals := 0
	nonce := r.Uint64()
	for tries := 0; tries < 200_000_000; tries++ {
		nonce++
		wo.WorkObjectHeader().SetNonce(types.EncodeNonce(nonce))
		h, err := n.Engine.ComputePowHash(wo.WorkObjectHeader())
		if err != nil {
			return 0, err
		}
		if new(big.Int).SetBytes(h.Bytes()).Cmp(target) > 0 {
			continue
		}
		_, order, err := zc.CalcOrder(wo)
		if err != nil {
			return 0, fmt.Errorf("CalcOrder: %w", err)
		}
		seals++
		if wantOrder < 0 || order == wantOrder || seals >= maxSeals {
			return order, nil
		}
	}
	return 0, errors.New("no valid seal found")
}

// MineWithShares is one mining step in which k work shares are ground on the
// pending header before it is sealed (they are included by later blocks of the
// branch): pending headers on heads -> shares -> bounded seal -> Submit.
func (n *Net) MineWithShares(heads [3]*types.WorkObject, k, wantOrder, maxSeals int, r *rand.Rand) (*Mined, []*types.WorkObjectHeader, error) {
	wo, err := n.BuildPending(heads, true)
	if err != nil {
		return nil, nil, err
	}
	if wo == nil {
		return nil, nil, errors.New("nil pending header")
	}
	var shares []*types.WorkObjectHeader
	if k > 0 && wo.NumberU64(2) >= 2 {
		shares = n.GrindShares(wo, k, r)
	}
	if _, err := n.SealBounded(wo, wantOrder, maxSeals, r); err != nil {
		return nil, shares, err
	}
	m, err := n.Submit(wo)
	return m, shares, err
}
