package evmx

import (
	"fmt"
	"math/big"
	"strings"

	"github.com/dominant-strategies/go-quai/common"
	"github.com/dominant-strategies/go-quai/core/rawdb"
	"github.com/dominant-strategies/go-quai/core/types"
	"github.com/dominant-strategies/go-quai/core/vm"
	"github.com/dominant-strategies/go-quai/params"
	"github.com/dominant-strategies/go-quai/rlp"
	"github.com/holiman/uint256"
)

type Finding struct {
	Sig    string
	Detail string
}

// Obs is what an oracle reports for one execution.
type Obs struct {
	Findings []Finding
	Classes  []string // coverage classes in which the oracle evaluated something
}

func (o *Obs) bad(sig, f string, a ...any) {
	o.Findings = append(o.Findings, Finding{sig, fmt.Sprintf(f, a...)})
}
func (o *Obs) class(c string) { o.Classes = append(o.Classes, c) }

func regimeName(ptn uint64) string {
	switch {
	case ptn < params.ControllerKickInBlock:
		return "pre-kickin"
	case ptn < params.KawPowForkBlock:
		return "post-kickin"
	case ptn < params.KawPowForkBlock+params.KQuaiChangeHoldInterval:
		return "kawpow-hold"
	case ptn < params.ShaEquivalentDifficultyForkBlock:
		return "post-kawpow"
	case ptn < params.SelfDestructRefundForkBlock:
		return "post-shaequiv"
	default:
		return "post-sdrefund"
	}
}

func inScope(a common.Address) bool { return common.IsInChainScope(a.Bytes(), Loc) }

func addrArg(x *uint256.Int) common.Address { return common.Bytes20ToAddress(x.Bytes20(), Loc) }

// kindOf classifies a recorded op as one of the off-chain send operations.
func kindOf(ex *Exec, r *OpRec) string {
	switch r.Op {
	case vm.ETX:
		return "ETX"
	case vm.CONVERT:
		return "CONVERT"
	case vm.CALL:
		to := addrArg(&r.Args[1])
		if to.Equal(Lockup) {
			switch r.Args[4].Uint64() { // inSize
			case 53:
				return "LOCKUP-CLAIM"
			case 60:
				return "LOCKUP-UNWRAP"
			}
			return ""
		}
		if _, isPre := vm.PrecompiledContracts[to.Bytes20()]; isPre {
			return ""
		}
		if _, err := to.InternalAndQuaiAddress(); err != nil {
			return "CALL-EXT"
		}
	}
	return ""
}

// Succeeded: did the op report success? (status word 1 on a correctly shaped stack)
func (r *OpRec) pops() int { return interesting[r.Op] }
func (r *OpRec) stackOK() bool {
	return r.Done && r.StackAfter == r.StackBefore-r.pops()+1
}
func (r *OpRec) status() bool { return r.stackOK() && !r.Result.IsZero() }

// OracleC05: off-chain sends are all-or-nothing at the origin.
func OracleC05(ex *Exec) *Obs {
	o := &Obs{}
	if ex.Panic != nil {
		o.bad(panicSig(ex), "%v at %s (last traced op before it: %s)", ex.Panic, ex.PanicAt, ex.T.LastOp)
		return o
	}
	reg := regimeName(ex.Case.PTN)
	var expected []*types.Transaction
	// a plain transfer to an out-of-scope address at depth 0 has no opcode record
	topExt := false
	if ex.Case.to != nil {
		if _, err := ex.Case.to.InternalAndQuaiAddress(); err != nil && !ex.Case.to.Equal(Lockup) {
			topExt = true
		}
	}
	unwrapsBy := map[common.AddressBytes]int{}
	for _, r := range ex.T.Ops {
		k := kindOf(ex, r)
		if k == "" {
			continue
		}
		if !r.Done {
			o.class(k + ":frame-ended-before-result:" + reg)
			continue
		}
		if !r.stackOK() {
			branch := "other"
			if k == "ETX" && !ex.Case.Eligible {
				branch = "ineligible-destination"
			}
			o.bad("stack-height:"+k+":"+branch, "%s at pc %d depth %d: stack %d -> %d, expected %d (status word missing)", k, r.PC, r.Depth, r.StackBefore, r.StackAfter, r.StackBefore-r.pops()+1)
		}
		debit := new(big.Int).Sub(r.BalBefore, r.BalAfter)
		newEtx := r.EtxAfter - r.EtxBefore
		ok := r.status()
		// expected debit and carried value by kind
		var wantDebit, wantValue *big.Int
		switch k {
		case "ETX":
			fee := new(big.Int).Add(r.Args[4].ToBig(), r.Args[5].ToBig())
			fee.Mul(fee, r.Args[3].ToBig())
			wantValue = r.Args[2].ToBig()
			wantDebit = new(big.Int).Add(wantValue, fee)
		case "CONVERT":
			fee := new(big.Int).Mul(ex.EVM.GasPrice, r.Args[3].ToBig())
			wantValue = r.Args[2].ToBig()
			wantDebit = new(big.Int).Add(wantValue, fee)
		case "CALL-EXT":
			wantValue = r.Args[2].ToBig()
			wantDebit = wantValue
		case "LOCKUP-CLAIM", "LOCKUP-UNWRAP":
			wantDebit = new(big.Int) // paid out of the lockup / wrapped-Qi ledger, not the caller's balance
		}
		if ok {
			o.class(k + ":success:" + reg)
			if k == "LOCKUP-UNWRAP" {
				if unwrapsBy[r.Self.Bytes20()]++; unwrapsBy[r.Self.Bytes20()] == 2 {
					o.class("LOCKUP-UNWRAP:second-success-by-one-owner-in-one-transaction")
				}
			}
			if newEtx != 1 {
				o.bad("success-without-single-etx:"+k, "%s reported success but %d outbound ETXs were recorded", k, newEtx)
			} else {
				if wantValue != nil && r.NewEtx.Value().Cmp(wantValue) != 0 {
					o.bad("etx-value-differs:"+k, "ETX carries %s, stated value %s", r.NewEtx.Value(), wantValue)
				}
				if int(r.NewEtx.ETXIndex()) != r.EtxBefore {
					o.bad("etx-index-not-fresh:"+k, "index %d, cache length before %d", r.NewEtx.ETXIndex(), r.EtxBefore)
				}
				if !ex.P.RevertedAt(r.Seq) {
					expected = append(expected, r.NewEtx)
				}
			}
			// lockup precompile: the value comes out of the ledger entry the call names
			if r.LedgerBefore != nil && r.LedgerAfter != nil && newEtx == 1 {
				taken := new(big.Int).Sub(r.LedgerBefore, r.LedgerAfter)
				if taken.Cmp(r.NewEtx.Value()) != 0 {
					o.bad("ledger-debit-differs-from-etx-value:"+k, "%s success: ledger entry went %s -> %s, ETX carries %s", k, r.LedgerBefore, r.LedgerAfter, r.NewEtx.Value())
				}
				if k == "LOCKUP-CLAIM" && r.LedgerAfter.Sign() != 0 {
					o.bad("claimed-record-not-removed", "claim success but the record still holds %s", r.LedgerAfter)
				}
			}
			if debit.Cmp(wantDebit) != 0 {
				// before SelfDestructRefundForkBlock the fee arithmetic is unchecked 256-bit: say so in the signature
				why := "other"
				if wantDebit.BitLen() > 256 && new(big.Int).And(wantDebit, mask256).Cmp(debit) == 0 {
					why = "uint256-wraparound"
				}
				era := "pre-sdrefund-fork"
				if ex.Case.PTN >= params.SelfDestructRefundForkBlock {
					era = "post-sdrefund-fork"
				}
				o.bad("success-with-wrong-debit:"+k+":"+why+":"+era, "%s success: debited %s, stated value+fee %s", k, debit, wantDebit)
			}
		} else {
			branch := failBranch(ex, r, k)
			o.class(k + ":failure:" + branch + ":" + reg)
			if newEtx != 0 {
				o.bad("failure-with-etx:"+k+":"+branch, "%s reported failure but %d ETX recorded", k, newEtx)
			}
			if r.LedgerBefore != nil && r.LedgerAfter != nil && r.LedgerBefore.Cmp(r.LedgerAfter) != 0 {
				o.bad("ledger-debit-without-etx:"+k, "%s reported failure but the ledger entry went %s -> %s", k, r.LedgerBefore, r.LedgerAfter)
			}
			if debit.Sign() != 0 {
				o.bad("debit-without-etx:"+k+":"+postDebitBranch(ex, r, k), "%s reported failure (status 0) at pc %d but the contract was debited %s and no ETX exists", k, r.PC, debit)
			}
		}
	}
	// block-level clause at transaction granularity: the outbound set of the
	// transaction is exactly the ETXs of its successful, non-reverted operations, in order
	if ex.Res != nil && ex.HardErr == nil {
		got := ex.Res.Etxs
		if ex.Res.Err != nil {
			if len(got) != 0 {
				why := ""
				if ex.Res.Err == vm.ErrCodeStoreOutOfGas {
					why = ":creation-code-store-out-of-gas" // the creation frame was never reverted
				}
				o.bad("failed-tx-emits-etx"+why, "top-level failure (%v) but %d ETXs returned", ex.Res.Err, len(got))
			}
			o.class("outbound-set:failed-tx")
			if topExt && !ex.Case.InboundETX && ex.After[Sender.Bytes20()] != nil {
				// a refused top-level transfer to another chain: the sender pays for gas, nothing else
				loss := new(big.Int).Sub(ex.PayerBefore, ex.After[Sender.Bytes20()])
				gas := new(big.Int).Mul(new(big.Int).SetUint64(ex.Res.UsedGas), ex.Case.price)
				br := "dest-eligible"
				if !ex.Case.Eligible {
					br = "dest-ineligible"
				}
				if loss.Cmp(gas) != 0 {
					o.bad("debit-without-etx:TOP-EXT:"+br, "top-level transfer of %s to an out-of-scope address failed (%v), no ETX was recorded, but the sender lost %s beyond gas", ex.Case.value, ex.Res.Err, new(big.Int).Sub(loss, gas))
				}
				if ex.Case.value.Sign() > 0 {
					o.class("TOP-EXT:refused-with-value:" + br)
				}
			}
		} else if !topExt {
			match := len(got) == len(expected)
			for i := 0; match && i < len(got); i++ {
				match = got[i].Hash() == expected[i].Hash()
			}
			if !match {
				o.bad("outbound-set-differs", "transaction returned %d ETXs, successful non-reverted operations recorded %d", len(got), len(expected))
			}
			for i, e := range got {
				if int(e.ETXIndex()) != i {
					o.bad("outbound-index-not-sequential", "ETX %d has index %d", i, e.ETXIndex())
				}
			}
			o.class(fmt.Sprintf("outbound-set:n=%d", min(len(got), 3)))
		} else {
			// top-level transfer out of scope: success <=> exactly one ETX with the message value and the sender debited value (+gas)
			if len(got) != 1 {
				o.bad("top-level-ext-success-without-single-etx", "%d ETXs", len(got))
			} else if got[0].Value().Cmp(ex.Case.value) != 0 {
				o.bad("etx-value-differs:TOP-EXT", "ETX carries %s, message value %s", got[0].Value(), ex.Case.value)
			}
			if !ex.Case.InboundETX && ex.After[Sender.Bytes20()] != nil {
				loss := new(big.Int).Sub(ex.PayerBefore, ex.After[Sender.Bytes20()])
				want := new(big.Int).Mul(new(big.Int).SetUint64(ex.Res.UsedGas), ex.Case.price)
				want.Add(want, ex.Case.value)
				if loss.Cmp(want) != 0 {
					o.bad("debit-differs-from-etx-value:TOP-EXT", "sender lost %s, gas + stated value is %s", loss, want)
				}
			}
			o.class("outbound-set:top-level-ext")
		}
	}
	return o
}

var mask256 = new(big.Int).Sub(new(big.Int).Lsh(big.NewInt(1), 256), big.NewInt(1))

// postDebitBranch names the refusal that can still happen after the sender was debited.
func postDebitBranch(ex *Exec, r *OpRec, k string) string {
	if k == "ETX" {
		if r.AuxLen > 0 {
			var al types.AccessList
			if r.Aux == nil || rlp.DecodeBytes(r.Aux, &al) != nil {
				return "accesslist-decode"
			}
		}
		if !ex.Case.Eligible {
			return "ineligible-destination"
		}
	}
	return "other"
}

func failBranch(ex *Exec, r *OpRec, k string) string {
	switch k {
	case "ETX":
		to := addrArg(&r.Args[1])
		if inScope(to) {
			return "in-scope-target"
		}
		total := new(big.Int).Add(r.Args[4].ToBig(), r.Args[5].ToBig())
		total.Mul(total, r.Args[3].ToBig())
		total.Add(total, r.Args[2].ToBig())
		if total.BitLen() > 256 {
			return "overflow"
		}
		if !r.Args[3].IsUint64() {
			return "gas-limit-over-uint64"
		}
		if r.Args[3].Uint64() < params.TxGas {
			return "gas-limit-below-txgas"
		}
		if total.Sign() == 0 || total.Cmp(r.BalBefore) > 0 {
			return "insufficient-balance-or-zero"
		}
		if r.AuxLen > 0 {
			var al types.AccessList
			if r.Aux == nil || rlp.DecodeBytes(r.Aux, &al) != nil {
				return "accesslist-decode"
			}
		}
		if !ex.Case.Eligible {
			return "ineligible-destination"
		}
		return "other"
	case "CONVERT":
		to := addrArg(&r.Args[1])
		if !inScope(to) || !to.IsInQiLedgerScope() {
			return "bad-target"
		}
		if r.Args[2].ToBig().Cmp(params.MinQuaiConversionAmount) < 0 {
			return "below-min-amount"
		}
		switch regimeName(ex.Case.PTN) {
		case "pre-kickin":
			return "before-kickin"
		case "kawpow-hold":
			return "hold-interval"
		}
		if ex.Case.PTN >= params.ShaEquivalentDifficultyForkBlock && ex.Case.PTN < params.ShaEquivalentDifficultyForkBlock+params.KQuaiChangeHoldInterval {
			return "hold-interval"
		}
		return "balance-gas-or-overflow"
	case "CALL-EXT":
		if !ex.Case.Eligible {
			return "ineligible-or-other"
		}
		return "rule-refused"
	}
	return "refused"
}

// OracleC02: executing a transaction never creates Quai.
func OracleC02(ex *Exec) *Obs {
	o := &Obs{}
	if ex.Panic != nil {
		o.bad(panicSig(ex), "%v at %s (last traced op before it: %s)", ex.Panic, ex.PanicAt, ex.T.LastOp)
		return o
	}
	reg := regimeName(ex.Case.PTN)
	for _, s := range ex.P.Negative {
		o.bad("negative-balance", "%s", s)
	}
	if ex.HardErr != nil || ex.Res == nil {
		// consensus-invalid message: the caller discards the state
		o.class("hard-error")
		return o
	}
	price := ex.Case.price
	if ex.Case.InboundETX {
		price = new(big.Int) // nobody pays gas for an inbound ETX at the destination
	}
	gasCost := new(big.Int).Mul(new(big.Int).SetUint64(ex.Res.UsedGas), price)
	if ex.Res.UsedGas > ex.Case.Gas {
		o.bad("gas-used-above-limit", "used %d limit %d", ex.Res.UsedGas, ex.Case.Gas)
	}
	failed := ex.Res.Err != nil
	// the failure reason is part of the signature: a failed creation whose frame was never
	// reverted (code deposit out of gas) is one specific call site
	why := ""
	if failed && ex.Res.Err == vm.ErrCodeStoreOutOfGas {
		why = ":creation-code-store-out-of-gas"
	}
	// protocol-defined debits and credits, from the tracer's view of successful non-reverted operations
	debits, refunds := new(big.Int), new(big.Int)
	wrapCarried, wrapDebits := new(big.Int), new(big.Int)
	exact := true
	c05 := OracleC05(ex)
	if len(c05.Findings) > 0 {
		exact = false // do not cascade a C05 defect into C02's equality
	}
	for _, r := range ex.T.Ops {
		if ex.P.RevertedAt(r.Seq) || failed {
			continue
		}
		switch k := kindOf(ex, r); k {
		case "ETX", "CONVERT", "CALL-EXT":
			if r.status() && r.EtxAfter == r.EtxBefore+1 {
				debits.Add(debits, new(big.Int).Sub(r.BalBefore, r.BalAfter))
				// the stated amount, independently: value + prepaid fee
				var want *big.Int
				switch k {
				case "ETX":
					want = new(big.Int).Add(r.Args[4].ToBig(), r.Args[5].ToBig())
					want.Mul(want, r.Args[3].ToBig())
					want.Add(want, r.Args[2].ToBig())
				case "CONVERT":
					want = new(big.Int).Mul(ex.EVM.GasPrice, r.Args[3].ToBig())
					want.Add(want, r.Args[2].ToBig())
				default:
					want = r.Args[2].ToBig()
				}
				if d := new(big.Int).Sub(r.BalBefore, r.BalAfter); want.Cmp(d) != 0 {
					exact = false
					if v := r.Args[2].ToBig(); v.Cmp(d) > 0 {
						// the operation itself carried more away than it debited (C05's wrong-debit finding seen from C02)
						wrapCarried.Add(wrapCarried, v)
						wrapDebits.Add(wrapDebits, d)
						fork := "post-sdrefund-fork"
						if ex.Case.PTN < params.SelfDestructRefundForkBlock {
							fork = "pre-sdrefund-fork"
						}
						o.bad("etx-value-without-debit:"+k+":uint256-wraparound:"+fork, "%s with value %s debited only %s and reported success", k, v, d)
					}
				}
			}
		}
		if r.Op == vm.SELFDESTRUCT && r.HadSuicided && r.BalBefore != nil && r.BalBefore.Sign() > 0 {
			o.class("selfdestruct-again-after-being-paid-again")
		}
		if r.Op == vm.SELFDESTRUCT && r.FrameEnded && r.FrameErr == nil {
			if ex.Case.PTN < params.SelfDestructRefundForkBlock || !r.HadSuicided {
				refunds.Add(refunds, ex.Refund)
			}
			if b := addrArg(&r.Args[0]); b.Equal(r.Self) {
				exact = false // funds sent to the account that is being destroyed are burned
			}
		}
	}
	if !failed && ex.Case.to != nil {
		if _, err := ex.Case.to.InternalAndQuaiAddress(); err != nil && len(ex.Res.Etxs) > 0 {
			debits.Add(debits, ex.Case.value) // top-level transfer out of scope
		}
	}
	sumB, sumA := Sum(ex.Before), new(big.Int)
	for a, v := range ex.After {
		if _, ok := ex.Before[a]; !ok {
			ex.Before[a] = new(big.Int)
		}
		sumA.Add(sumA, v)
	}
	expected := new(big.Int).Sub(sumB, gasCost)
	expected.Sub(expected, debits)
	expected.Add(expected, refunds)
	if ex.Case.InboundETX && !failed {
		expected.Add(expected, ex.Case.value) // the inbound transfer's own value
	}
	cls := "success"
	if failed {
		cls = "failed"
	}
	// value carried away by the ETXs the transaction actually returned must have been debited from
	// some balance (lockup-funded ETX kinds draw on the lockup ledger, not on balances)
	if !failed {
		carried := new(big.Int)
		for _, etx := range ex.Res.Etxs {
			if t := etx.EtxType(); t == types.DefaultType || t == types.ConversionType {
				carried.Add(carried, etx.Value())
			}
		}
		carried.Sub(carried, wrapCarried)
		if carried.Cmp(new(big.Int).Sub(debits, wrapDebits)) > 0 {
			o.bad("etx-value-without-debit", "returned ETXs carry %s away, balances were debited %s for emitted ETXs", carried, debits)
		}
	}
	if sumA.Cmp(expected) > 0 {
		o.bad("value-created"+why, "sum of balances after %s > before %s - gas %s - etx debits %s + rent refunds %s (excess %s)", sumA, sumB, gasCost, debits, refunds, new(big.Int).Sub(sumA, expected))
	} else if exact && sumA.Cmp(expected) != 0 {
		o.bad("value-destroyed"+why, "sum of balances after %s != before %s - gas %s - etx debits %s + rent refunds %s (missing %s)", sumA, sumB, gasCost, debits, refunds, new(big.Int).Sub(expected, sumA))
	}
	for a, v := range ex.After {
		if v.Sign() < 0 {
			o.bad("negative-balance", "%x has %s", a[:], v)
		}
	}
	if ex.Case.InboundETX {
		if failed {
			for a, v := range ex.After {
				if v.Cmp(ex.Before[a]) != 0 {
					o.bad("failed-inbound-etx-changed-balance", "inbound ETX failed (%v) but %x went from %s to %s", ex.Res.Err, a[:], ex.Before[a], v)
				}
			}
		}
		o.class(fmt.Sprintf("inbound-etx:%s:%s", cls, reg))
		return o
	}
	// the payer's charge
	payerDelta := new(big.Int).Sub(ex.PayerBefore, ex.After[Sender.Bytes20()])
	sent := new(big.Int)
	if !failed {
		sent = ex.Case.value
	}
	charge := new(big.Int).Sub(payerDelta, sent)
	// the failure reason is part of the signature: a failed creation whose frame was never
	// reverted (code deposit out of gas) is one specific call site
	if charge.Cmp(gasCost) != 0 {
		o.bad("payer-charge-differs"+why, "payer lost %s beyond the value sent; gasUsed*price = %s", charge, gasCost)
	}
	limitCost := new(big.Int).Mul(new(big.Int).SetUint64(ex.Case.Gas), price)
	if charge.Cmp(limitCost) > 0 {
		o.bad("payer-charge-above-limit"+why, "charge %s > gasLimit*price %s", charge, limitCost)
	}
	if failed {
		for a, v := range ex.After {
			if a == Sender.Bytes20() {
				continue
			}
			if v.Cmp(ex.Before[a]) != 0 {
				o.bad("failed-tx-changed-balance"+why, "transaction failed (%v) but %x went from %s to %s", ex.Res.Err, a[:], ex.Before[a], v)
			}
		}
	}
	o.class(fmt.Sprintf("%s:%s:etx=%v:selfdestruct=%v:create=%v", cls, reg, debits.Sign() > 0, refunds.Sign() > 0, ex.Case.to == nil))
	return o
}

// OracleC12: every RevertToSnapshot restored the digest taken at Snapshot.
func OracleC12(ex *Exec) *Obs {
	o := &Obs{}
	if ex.Panic != nil {
		o.bad(panicSig(ex), "%v at %s (last traced op before it: %s)", ex.Panic, ex.PanicAt, ex.T.LastOp)
		return o
	}
	reg := regimeName(ex.Case.PTN)
	for _, mm := range ex.P.Mismatches {
		// name the kind of trace left behind, not the address
		kind := "other"
		if len(mm.Diff) > 0 {
			kind = diffKind(mm.Diff[0])
		}
		where := "inner-frame"
		if mm.TopLevel {
			where = "failed-transaction"
		}
		if strings.HasPrefix(mm.Phase, "no-revert:") {
			// a frame that reported failure was never reverted at all
			for _, d := range mm.Diff {
				if contains(d, ":exist:") {
					kind = "created-account-kept" // whatever else the frame did is kept with it
				}
			}
			o.bad("failed-frame-not-reverted:"+where+":"+strings.TrimPrefix(mm.Phase, "no-revert:")+":"+kind, "snapshot %d: %v", mm.SnapID, mm.Diff)
			continue
		}
		o.bad("revert-leaves-trace:"+where+":"+kind, "snapshot %d: %v", mm.SnapID, mm.Diff)
	}
	if ex.P.FailedNoRevert > 0 {
		o.class("failed-frame-without-revert:" + reg)
	}
	if ex.P.Reverts > 0 {
		kinds := map[string]bool{}
		for _, r := range ex.T.Ops {
			if ex.P.RevertedAt(r.Seq) {
				kinds[r.Op.String()] = true
				if k := kindOf(ex, r); (k == "LOCKUP-CLAIM" || k == "LOCKUP-UNWRAP") && r.status() {
					kinds["successful-"+k] = true
				}
			}
		}
		if len(kinds) == 0 {
			o.class("reverted-frame:plain:" + reg)
		}
		for k := range kinds {
			o.class("reverted-frame-containing:" + k + ":" + reg)
		}
	}
	return o
}

func diffKind(d string) string {
	for _, k := range []string{"lockup", "etxcache", "coinbasesDeleted", "coinbaseDeletedHashes", "balance", "nonce", "codehash", "size", "suicided", "tslot", "alslot", "slot", "wrapped", "exist", "state:al", "refund", "logs", "triesize"} {
		if contains(d, k) {
			return k
		}
	}
	return "other"
}

func contains(s, sub string) bool {
	for i := 0; i+len(sub) <= len(s); i++ {
		if s[i:i+len(sub)] == sub {
			return true
		}
	}
	return false
}

// OracleC15b: interpreter memory only grows through paid expansion.
func OracleC15b(ex *Exec) *Obs {
	o := &Obs{}
	if ex.Panic != nil {
		o.bad(panicSig(ex), "%v at %s (last traced op before it: %s)", ex.Panic, ex.PanicAt, ex.T.LastOp)
		return o
	}
	seen := map[string]bool{}
	for _, v := range ex.T.MemViolations {
		sig := "unpaid-memory:" + v.Op.String()
		if seen[sig] {
			continue
		}
		seen[sig] = true
		o.bad(sig, "frame %d depth %d pc %d: memory %d bytes needs %d gas, frame had spent %d", v.Frame, v.Depth, v.PC, v.MemLen, v.Needed, v.GasUsed)
	}
	for op, n := range ex.T.MemOpsSeen {
		if n > 0 {
			o.class("mem-grew-at:" + op.String())
		}
	}
	return o
}

// LockupVisible reads a seeded lockup record as the EVM's batch sees it.
func (ex *Exec) LockupVisible(i int) (*big.Int, uint32, uint16) {
	l := ex.Case.Lockups[i]
	b, u, e, _ := rawdb.ReadCoinbaseLockup(ex.DB, ex.Batch, ContractAddr(l.Owner), Miner, l.Byte, l.Epoch)
	return b, u, e
}

func panicSig(ex *Exec) string {
	msg := fmt.Sprint(ex.Panic)
	kind := "other"
	for _, k := range []string{"len out of range", "index out of range", "nil pointer", "slice bounds", "negative", "overflow"} {
		if contains(msg, k) {
			kind = k
			break
		}
	}
	return "evm-panic:" + ex.PanicAt + ":" + strings.ReplaceAll(kind, " ", "-")
}

// OracleC20Origin: the origin side of a Quai->Qi conversion. Every conversion ETX a transaction returns
// must be backed by exactly one successful, non-reverted conversion operation that debited its origin
// account the stated amount: the converted amount leaves the origin ledger exactly once, never zero times.
func OracleC20Origin(ex *Exec) *Obs {
	o := &Obs{}
	if ex.Panic != nil || ex.HardErr != nil || ex.Res == nil {
		return o
	}
	reg := regimeName(ex.Case.PTN)
	carried, n := new(big.Int), 0
	for _, etx := range ex.Res.Etxs {
		if etx.EtxType() == types.ConversionType {
			if etx.Value().BitLen() > 255 && ex.Case.PTN < params.SelfDestructRefundForkBlock {
				continue // the pre-fork 256-bit wrap-around of opConvert / opETX is a listed C05 / C02 finding
			}
			carried.Add(carried, etx.Value())
			n++
		}
	}
	failed := ex.Res.Err != nil
	if failed && ex.Res.Err != vm.ErrCodeStoreOutOfGas { // (that call site is a listed C05 / C02 finding)
		if n > 0 {
			o.bad("failed-transaction-returns-conversion", "transaction failed (%v) but returns %d conversion ETXs carrying %s", ex.Res.Err, n, carried)
		}
		return o
	}
	backed, ops := new(big.Int), 0
	for _, r := range ex.T.Ops {
		k := kindOf(ex, r)
		if k != "CONVERT" && k != "ETX" && k != "CALL-EXT" {
			continue
		}
		if !r.Done || !r.status() || r.NewEtx == nil || r.NewEtx.EtxType() != types.ConversionType || ex.P.RevertedAt(r.Seq) {
			continue
		}
		debit := new(big.Int).Sub(r.BalBefore, r.BalAfter)
		if debit.Cmp(r.NewEtx.Value()) < 0 {
			if v := r.NewEtx.Value(); v.BitLen() > 255 && ex.Case.PTN < params.SelfDestructRefundForkBlock {
				continue // the pre-fork 256-bit wrap-around of opConvert is a listed C05 / C02 finding
			}
			o.bad("conversion-debits-less-than-it-converts:"+k, "%s converted %s, the origin account was debited %s", k, r.NewEtx.Value(), debit)
			continue
		}
		backed.Add(backed, r.NewEtx.Value())
		ops++
	}
	// a top-level transfer to a Qi address of this zone is a conversion at depth 0
	if ex.Case.to != nil && !failed {
		if _, err := ex.Case.to.InternalAndQiAddress(); err == nil && n > 0 {
			if ex.Case.InboundETX {
				// an inbound cross-chain transfer to a Qi address: the conversion is funded by the inbound value itself
				backed.Add(backed, ex.Case.value)
				ops++
			} else if ex.After[Sender.Bytes20()] != nil {
				loss := new(big.Int).Sub(ex.PayerBefore, ex.After[Sender.Bytes20()])
				gas := new(big.Int).Mul(new(big.Int).SetUint64(ex.Res.UsedGas), ex.Case.price)
				if new(big.Int).Sub(loss, gas).Cmp(ex.Case.value) == 0 {
					backed.Add(backed, ex.Case.value)
					ops++
				}
			}
		}
	}
	if carried.Cmp(backed) > 0 {
		o.bad("conversion-leaves-zone-without-origin-debit", "the transaction returns %d conversion ETXs carrying %s; successful, non-reverted conversion operations debited their origin %s (%d operations)", n, carried, backed, ops)
	}
	if n > 0 {
		o.class("conversion-emitted:origin-debit-checked:" + reg)
		if ex.P.Reverts > 0 {
			o.class("conversion-emitted:transaction-with-reverted-frames")
		}
	}
	return o
}
