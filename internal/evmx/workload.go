package evmx

import (
	"fmt"
	"os"

	"github.com/dominant-strategies/go-quai/log"

	"verif/internal/mon"
)

// RunWorkload generates n cases from the check's PRNG stream, executes each on
// the real EVM and feeds every execution to oracle. Violations carry the whole
// case (codes, plan, message) as witness.
func RunWorkload(m *mon.M, stream string, n int, o GenOpts, oracle func(*Exec) *Obs) {
	logger := log.NewLogger("nodelogs/evmx.log", "error", 100)
	// opETX & co. log every refused operation on log.Global at error level; keep it off stdout
	log.Global.SetOutput(devNull())
	r := m.Rand(stream)
	for i := 0; i < n; i++ {
		c := GenCase(r, i, o)
		ex := Run(c, logger)
		obs := oracle(ex)
		if len(obs.Classes) == 0 && len(obs.Findings) == 0 {
			m.Trivial()
		}
		for _, cl := range obs.Classes {
			m.Eval(cl, fmt.Sprintf("%s/%d", stream, i))
		}
		for _, f := range obs.Findings {
			m.Violation(f.Sig, f.Detail, c)
		}
		if i < 2 {
			m.Sample(map[string]any{"case": c, "steps": ex.T.Steps, "ops_recorded": len(ex.T.Ops), "snapshots": ex.P.Snapshots, "reverts": ex.P.Reverts,
				"result_err": fmt.Sprint(resErr(ex)), "etxs": nEtx(ex)})
		}
		m.AddExtra("evm_steps", int64(ex.T.Steps))
		m.AddExtra("snapshots_observed", int64(ex.P.Snapshots))
		m.AddExtra("reverts_observed", int64(ex.P.Reverts))
		m.AddExtra("ops_recorded", int64(len(ex.T.Ops)))
	}
}

func resErr(ex *Exec) any {
	if ex.HardErr != nil {
		return "hard: " + ex.HardErr.Error()
	}
	if ex.Res != nil && ex.Res.Err != nil {
		return ex.Res.Err.Error()
	}
	return nil
}
func nEtx(ex *Exec) int {
	if ex.Res == nil {
		return 0
	}
	return len(ex.Res.Etxs)
}

func devNull() *os.File {
	f, _ := os.OpenFile(os.DevNull, os.O_WRONLY, 0)
	return f
}
