// Package evmx drives the real EVM (vm.NewEVM + core.ApplyMessage) with
// generated, structured programs and observes every execution through three
// interposed interfaces: vm.Tracer (opcodes, stack operands, memory, gas),
// vm.StateDB (snapshots, reverts, balance changes) and the ethdb.Batch the EVM
// stages lockup-ledger edits in. It is shared by the C02, C05, C12 and C15(b)
// checks; each of them evaluates its own oracle over the same Exec record.
package evmx

import (
	"encoding/binary"
	"fmt"
	"math/big"
	"math/rand"
	"runtime/debug"
	"strings"

	"github.com/dominant-strategies/go-quai/common"
	"github.com/dominant-strategies/go-quai/core"
	"github.com/dominant-strategies/go-quai/core/rawdb"
	"github.com/dominant-strategies/go-quai/core/state"
	"github.com/dominant-strategies/go-quai/core/types"
	"github.com/dominant-strategies/go-quai/core/vm"
	"github.com/dominant-strategies/go-quai/crypto"
	"github.com/dominant-strategies/go-quai/ethdb"
	"github.com/dominant-strategies/go-quai/log"
	"github.com/dominant-strategies/go-quai/params"
)

var Loc = common.Location{0, 0}

func init() {
	vm.InitializePrecompiles(Loc)
	Lockup = vm.LockupContractAddresses[[2]byte{0, 0}]
}

// ---------------------------------------------------------------- addresses

func mkAddr(b0, b1, tag byte) common.Address {
	b := make([]byte, 20)
	b[0], b[1] = b0, b1
	for i := 2; i < 19; i++ {
		b[i] = 0xa0 | (tag & 0x0f)
	}
	b[19] = tag
	return common.BytesToAddress(b, Loc)
}

var (
	Sender   = mkAddr(0x00, 0x01, 0x51) // EOA that pays for the transaction
	EOA2     = mkAddr(0x00, 0x02, 0x52) // EOA with funds, never a sender
	FreshEOA = mkAddr(0x00, 0x03, 0x53) // does not exist in the pre-state
	Coinbase = mkAddr(0x00, 0x04, 0x54)
	Miner    = mkAddr(0x00, 0x05, 0x55) // beneficiary miner of seeded lockups (Quai ledger)
	// out of scope / other ledger targets
	ExtZone   = mkAddr(0x01, 0x01, 0x61) // zone 0-1, Quai ledger
	ExtRegion = mkAddr(0x10, 0x01, 0x62) // region 1, Quai ledger
	QiLocal   = mkAddr(0x00, 0x81, 0x63) // this zone, Qi ledger  (conversion target)
	QiForeign = mkAddr(0x01, 0x81, 0x64) // other zone, Qi ledger
	Lockup    common.Address             // set in init, after the precompile table exists
)

// Contracts of the universe: C[i] has generated code.
const NContracts = 6

func ContractAddr(i int) common.Address { return mkAddr(0x00, 0x10+byte(i), 0x70+byte(i)) }

func Precompile(i int) common.Address {
	b := make([]byte, 20)
	b[19] = byte(i)
	return common.BytesToAddress(b, Loc)
}

// Slots is the storage key universe.
var Slots = []common.Hash{common.BigToHash(big.NewInt(0)), common.BigToHash(big.NewInt(1)), common.BigToHash(big.NewInt(2)), common.BigToHash(big.NewInt(7))}

func internal(a common.Address) (common.InternalAddress, bool) {
	i, err := a.InternalAndQuaiAddress()
	return i, err == nil
}

// ---------------------------------------------------------------- assembler

type Asm struct{ B []byte }

func (a *Asm) Op(ops ...vm.OpCode) *Asm {
	for _, o := range ops {
		a.B = append(a.B, byte(o))
	}
	return a
}
func (a *Asm) PushBytes(b []byte) *Asm {
	for len(b) > 1 && b[0] == 0 {
		b = b[1:]
	}
	if len(b) == 0 {
		b = []byte{0}
	}
	if len(b) > 32 {
		b = b[len(b)-32:]
	}
	a.B = append(a.B, byte(vm.PUSH1)+byte(len(b)-1))
	a.B = append(a.B, b...)
	return a
}
func (a *Asm) Push(v uint64) *Asm      { return a.PushBytes(new(big.Int).SetUint64(v).Bytes()) }
func (a *Asm) PushBig(v *big.Int) *Asm { return a.PushBytes(v.Bytes()) }
func (a *Asm) PushAddr(x common.Address) *Asm {
	a.B = append(a.B, byte(vm.PUSH20))
	a.B = append(a.B, x.Bytes()...)
	return a
}
func (a *Asm) Raw(b []byte) *Asm { a.B = append(a.B, b...); return a }

// MStoreBytes writes b into memory at off (32-byte chunks via PUSH32/MSTORE).
func (a *Asm) MStoreBytes(off uint64, b []byte) *Asm {
	for i := 0; i < len(b); i += 32 {
		chunk := make([]byte, 32)
		copy(chunk, b[i:])
		a.B = append(a.B, byte(vm.PUSH32))
		a.B = append(a.B, chunk...)
		a.Push(off + uint64(i)).Op(vm.MSTORE)
	}
	return a
}

// ---------------------------------------------------------------- case description

type Action struct {
	Kind string   `json:"kind"`
	Args []string `json:"args,omitempty"`
}

type Case struct {
	ID       int               `json:"id"`
	PTN      uint64            `json:"prime_terminus_number"`
	BlockNum uint64            `json:"block_number"`
	Eligible bool              `json:"dest_slice_eligible"`
	Codes    map[string]string `json:"codes"` // contract index -> hex code
	Plan     map[string][]Action
	Balances map[string]string `json:"balances"`
	To       string            `json:"to"` // "" = creation
	Value    string            `json:"value"`
	Gas      uint64            `json:"gas"`
	GasPrice string            `json:"gas_price"`
	Data     string            `json:"data"`
	Access   string            `json:"access_list"` // all | none | partial
	Lockups  []LockupSeed      `json:"lockups"`
	Commit   bool              `json:"committed_prestate"`
	// InboundETX: the message is an inbound cross-chain transaction (from the zero
	// address, value placed there beforehand, no gas purchase) as core.ApplyTransaction runs it
	InboundETX bool `json:"inbound_etx"`
	// Predicted: addresses a simulation of the case created; they were added to the access list (with all slots)
	Predicted []string `json:"access_list_predicted_creations,omitempty"`
	predicted bool

	codes   [NContracts][]byte
	to      *common.Address
	value   *big.Int
	price   *big.Int
	data    []byte
	bal     map[common.AddressBytes]*big.Int
	access  types.AccessList
	baseFee *big.Int
}

type LockupSeed struct {
	Owner   int    `json:"owner_contract"`
	Byte    byte   `json:"lockup_byte"`
	Epoch   uint32 `json:"epoch"`
	Balance string `json:"balance"`
	Unlock  uint32 `json:"unlock_height"`
	Elems   uint16 `json:"elements"`
}

// Regimes: prime terminus numbers on both sides of the forks the EVM reads.
func Regimes() []uint64 {
	return []uint64{
		10,                                  // before controller kick-in
		params.ControllerKickInBlock + 1000, // conversions allowed
		params.KawPowForkBlock + 10,         // kawpow hold interval (conversions refused)
		params.SingularityForkBlock + 10,
		params.ShaEquivalentDifficultyForkBlock + params.KQuaiChangeHoldInterval + 10, // lockup-call revert rule on
		params.SelfDestructRefundForkBlock + 10,                                       // checked arithmetic in ETX/CONVERT, single refund
	}
}

// ---------------------------------------------------------------- generator

type GenOpts struct {
	// Focus biases the generator: "etx" more cross-chain ops, "revert" more
	// failing frames, "mem" memory-heavy operands, "" balanced.
	Focus string
}

var bigSizes = []uint64{0, 1, 31, 32, 33, 1 << 10, 1 << 16, 1 << 20, 1 << 22, 1 << 26, 1<<32 - 1, 1<<63 - 1, 1<<64 - 1}

type gen struct {
	r     *rand.Rand
	o     GenOpts
	c     *Case
	depth int
}

func (g *gen) pick(n int) int { return g.r.Intn(n) }
func (g *gen) chance(p int) bool {
	return g.r.Intn(100) < p
}

func (g *gen) target(from int) (common.Address, string) {
	if (g.o.Focus == "etx" && g.chance(22)) || (g.o.Focus == "revert" && g.chance(10)) || (g.o.Focus == "lockup" && g.chance(60)) {
		return Lockup, "Lockup"
	}
	switch x := g.pick(100); {
	case x < 45:
		i := g.pick(NContracts)
		return ContractAddr(i), fmt.Sprintf("C%d", i)
	case x < 55:
		return EOA2, "EOA2"
	case x < 62:
		return FreshEOA, "FreshEOA"
	case x < 70:
		i := 1 + g.pick(9)
		return Precompile(i), fmt.Sprintf("precompile%d", i)
	case x < 78:
		return ExtZone, "ExtZone"
	case x < 83:
		return ExtRegion, "ExtRegion"
	case x < 90:
		return QiLocal, "QiLocal"
	case x < 93:
		return QiForeign, "QiForeign"
	case x < 97:
		return Lockup, "Lockup"
	default:
		return ContractAddr(from), "self"
	}
}

func (g *gen) smallVal() *big.Int {
	switch g.pick(8) {
	case 0:
		return big.NewInt(0)
	case 1:
		return big.NewInt(1)
	case 2:
		return new(big.Int).Set(params.MinQuaiConversionAmount)
	case 3:
		return new(big.Int).Sub(params.MinQuaiConversionAmount, big.NewInt(1))
	case 4:
		return new(big.Int).Lsh(big.NewInt(1), 200) // more than anyone has
	case 5:
		return new(big.Int).Sub(new(big.Int).Lsh(big.NewInt(1), 256), big.NewInt(1))
	default:
		return new(big.Int).Mul(big.NewInt(int64(1+g.pick(50))), params.MinQuaiConversionAmount)
	}
}

func (g *gen) gasArg() uint64 {
	switch g.pick(7) {
	case 0:
		return 0
	case 1:
		return params.TxGas - 1
	case 2:
		return params.TxGas
	case 3:
		return params.ETXGas + params.TxGas
	case 4:
		return 1<<64 - 1
	default:
		return uint64(30000 + g.pick(300000))
	}
}

func (g *gen) memArg() uint64 {
	if g.o.Focus == "mem" && g.chance(60) {
		return bigSizes[g.pick(len(bigSizes))]
	}
	if g.o.Focus != "mem" && g.chance(4) {
		// moderately large but payable windows; the unbounded ones belong to the "mem" focus
		return []uint64{1 << 10, 1 << 12, 4095, 1 << 14}[g.pick(4)]
	}
	return uint64(g.pick(4)) * 32
}

// etxMemArg: ETX memory operands. The opcode's expansion is not charged (a
// listed finding), so windows of 64 MiB / 4 GiB would really be allocated on
// every execution; they are left out, the sizes that overflow the allocator
// (2^63-1, 2^64-1) and everything up to 4 MiB are kept.
func (g *gen) etxMemArg() uint64 {
	for {
		v := g.memArg()
		if v > 1<<22 && v < 1<<62 {
			continue
		}
		return v
	}
}

// bigRuntime: sizes of the runtime code returned by constructors that are meant to fail at the code deposit.
var bigRuntime = []uint64{3000, 12000, uint64(params.MaxCodeSize), uint64(params.MaxCodeSize) + 1}

// emit one action into contract idx's code.
func (g *gen) action(a *Asm, idx int) Action {
	w := g.pick(100)
	etxBias, revBias := 0, 0
	if g.o.Focus == "etx" {
		etxBias = 25
	}
	if g.o.Focus == "revert" {
		revBias = 10
	}
	_ = revBias
	if g.o.Focus == "revert" && idx < NContracts/2 && g.chance(30) {
		// call one of the "send, then fail" libraries with ample gas and ignore the result
		op := []vm.OpCode{vm.CALL, vm.CALLCODE, vm.DELEGATECALL}[g.pick(3)]
		lib := NContracts/2 + g.pick(NContracts-NContracts/2)
		a.Push(0).Push(0).Push(0).Push(0)
		if op != vm.DELEGATECALL {
			a.Push(0)
		}
		a.PushAddr(ContractAddr(lib)).Push(600000).Op(op, vm.POP)
		return Action{op.String(), []string{fmt.Sprintf("C%d", lib), "0", "600000", "0", "0", "0", "0", "pop"}}
	}
	if g.chance(8) {
		// the same contract is called two or three times in a row, each time with value: an account that
		// self-destructs is paid again afterwards and self-destructs again within one transaction
		t := g.pick(NContracts)
		n := 2 + g.pick(2)
		val := big.NewInt(int64(1 + g.pick(1000)))
		if g.chance(30) {
			val = new(big.Int).Set(params.MinQuaiConversionAmount)
		}
		for i := 0; i < n; i++ {
			a.Push(0).Push(0).Push(0).Push(0).PushBig(val).PushAddr(ContractAddr(t)).Push(300000).Op(vm.CALL, vm.POP)
		}
		return Action{"CALL-REPEATED", []string{fmt.Sprintf("C%d", t), val.String(), "300000", fmt.Sprint(n)}}
	}
	switch {
	case w < 14:
		k, v := Slots[g.pick(len(Slots))], uint64(g.pick(3))
		a.Push(v).PushBytes(k.Bytes()).Op(vm.SSTORE)
		return Action{"SSTORE", []string{k.Big().String(), fmt.Sprint(v)}}
	case w < 18:
		k, v := Slots[g.pick(len(Slots))], uint64(g.pick(3))
		a.Push(v).PushBytes(k.Bytes()).Op(vm.TSTORE)
		return Action{"TSTORE", []string{k.Big().String(), fmt.Sprint(v)}}
	case w < 22:
		off, sz := g.memArg(), g.memArg()
		a.Push(uint64(g.pick(1000))).Push(sz).Push(off).Op(vm.LOG1)
		return Action{"LOG1", []string{fmt.Sprint(off), fmt.Sprint(sz)}}
	case w < 26:
		k := Slots[g.pick(len(Slots))]
		a.PushBytes(k.Bytes()).Op(vm.SLOAD, vm.POP)
		return Action{"SLOAD", []string{k.Big().String()}}
	case w < 30:
		off := g.memArg()
		a.Push(uint64(g.pick(256))).Push(off).Op(vm.MSTORE)
		return Action{"MSTORE", []string{fmt.Sprint(off)}}
	case w < 58-etxBias:
		ops := []vm.OpCode{vm.CALL, vm.CALL, vm.CALL, vm.CALLCODE, vm.DELEGATECALL, vm.STATICCALL}
		op := ops[g.pick(len(ops))]
		to, name := g.target(idx)
		val := g.smallVal()
		if g.chance(60) {
			val = big.NewInt(int64(g.pick(3)))
		}
		gas := g.gasArg()
		inOff, inSz, outOff, outSz := g.memArg(), g.memArg(), g.memArg(), g.memArg()
		if to.Equal(Lockup) && g.chance(85) {
			// a well-formed lockup-precompile call: claim (53 bytes) or unwrap (60 bytes)
			in := g.lockupInput(idx)
			a.MStoreBytes(0, in)
			inOff, inSz = 0, uint64(len(in))
			if gas < 200000 {
				gas = 400000
			}
			if g.chance(90) {
				val = big.NewInt(0)
			}
		}
		if to.Equal(Lockup) && inSz == 60 && op == vm.CALL && g.chance(65) {
			// the same unwrap once more before the recorded one: the second starts from the balance the first left
			a.Push(0).Push(0).Push(60).Push(0).Push(0).PushAddr(Lockup).Push(gas).Op(vm.CALL, vm.POP)
		}
		a.Push(outSz).Push(outOff).Push(inSz).Push(inOff)
		if op == vm.CALL || op == vm.CALLCODE {
			a.PushBig(val)
		}
		a.PushAddr(to).Push(gas).Op(op)
		follow := "pop"
		if g.chance(20) {
			// if the call failed, revert this frame:
			//   ISZERO PUSH2 revertAt JUMPI PUSH2 contAt JUMP JUMPDEST PUSH0 PUSH0 REVERT JUMPDEST
			follow = "revert-if-failed"
			a.Op(vm.ISZERO)
			here := len(a.B)
			revertAt := here + 8
			contAt := here + 12
			a.B = append(a.B, byte(vm.PUSH2), byte(revertAt>>8), byte(revertAt))
			a.Op(vm.JUMPI)
			a.B = append(a.B, byte(vm.PUSH2), byte(contAt>>8), byte(contAt))
			a.Op(vm.JUMP)
			a.Op(vm.JUMPDEST, vm.PUSH0, vm.PUSH0, vm.REVERT)
			a.Op(vm.JUMPDEST)
		} else {
			a.Op(vm.POP)
		}
		return Action{op.String(), []string{name, val.String(), fmt.Sprint(gas), fmt.Sprint(inOff), fmt.Sprint(inSz), fmt.Sprint(outOff), fmt.Sprint(outSz), follow}}
	case w < 70:
		// ETX: pops temp, addr, value, etxGasLimit, gasTipCap, gasFeeCap, inOffset, inSize, accessListOffset, accessListSize
		to, name := g.target(idx)
		if g.chance(70) {
			if g.chance(70) {
				to, name = ExtZone, "ExtZone"
			} else {
				to, name = ExtRegion, "ExtRegion"
			}
		}
		val := g.smallVal()
		gasLim := g.gasArg()
		tip, cap := uint64(g.pick(3)), uint64(g.pick(5))
		if g.chance(5) {
			tip = 1<<64 - 1
		}
		inOff, inSz := g.etxMemArg(), g.etxMemArg()
		alOff, alSz := uint64(0), uint64(0)
		alKind := "empty"
		switch g.pick(6) {
		case 0: // valid rlp access list written to memory
			al := types.AccessList{{Address: ExtZone, StorageKeys: []common.Hash{Slots[1]}}}
			enc := rlpAccessList(al)
			a.MStoreBytes(512, enc)
			alOff, alSz, alKind = 512, uint64(len(enc)), "valid"
		case 1: // garbage
			a.MStoreBytes(512, []byte{0xff, 0xfe, 0x01, 0x02, 0x03})
			alOff, alSz, alKind = 512, 5, "malformed"
		case 2: // truncated list header
			a.MStoreBytes(512, []byte{0xf8, 0x80})
			alOff, alSz, alKind = 512, 2, "truncated"
		case 3:
			alOff, alSz, alKind = g.etxMemArg(), g.etxMemArg(), "random-window"
		}
		a.Push(alSz).Push(alOff).Push(inSz).Push(inOff).Push(cap).Push(tip).Push(gasLim).PushBig(val).PushAddr(to).Push(0).Op(vm.ETX, vm.POP)
		return Action{"ETX", []string{name, val.String(), fmt.Sprint(gasLim), fmt.Sprint(tip), fmt.Sprint(cap), fmt.Sprint(inOff), fmt.Sprint(inSz), alKind, fmt.Sprint(alOff), fmt.Sprint(alSz)}}
	case w < 78:
		// CONVERT: pops temp, addr, value, etxGasLimit
		to, name := QiLocal, "QiLocal"
		if g.chance(20) {
			to, name = g.target(idx)
		}
		val := g.smallVal()
		gasLim := g.gasArg()
		a.Push(gasLim).PushBig(val).PushAddr(to).Push(0).Op(vm.CONVERT, vm.POP)
		return Action{"CONVERT", []string{name, val.String(), fmt.Sprint(gasLim)}}
	case w < 84:
		// CREATE / CREATE2 with init code that stores and returns a 1-byte runtime (STOP)
		init := new(Asm)
		if g.chance(50) {
			init.Push(uint64(1 + g.pick(3))).PushBytes(Slots[g.pick(len(Slots))].Bytes()).Op(vm.SSTORE)
		}
		switch g.pick(7) {
		case 0:
			init.Op(vm.PUSH0, vm.PUSH0, vm.REVERT)
		case 1:
			init.Raw([]byte{0xfe})
		case 2, 3:
			// returns a large (all-zero) runtime: the code deposit costs 200 gas per byte, so the
			// creation fails at the very end, after the constructor ran (code-store out of gas),
			// or because the runtime exceeds the size limit
			init.Push(bigRuntime[g.pick(len(bigRuntime))]).Push(0).Op(vm.RETURN)
		default:
			init.Push(0).Push(0).Op(vm.MSTORE8).Push(1).Push(0).Op(vm.RETURN)
		}
		a.MStoreBytes(1024, init.B)
		val := big.NewInt(int64(g.pick(3)))
		if g.chance(50) {
			salt := int64(g.pick(1 << 20))
			if g.chance(70) {
				// CREATE2 does not grind: pick a salt whose address is an in-zone Quai address (when this contract is the creator)
				h := crypto.Keccak256(init.B)
				for i := 0; i < 20000; i++ {
					var s32 [32]byte
					binary.BigEndian.PutUint64(s32[24:], uint64(salt))
					if _, err := crypto.CreateAddress2(ContractAddr(idx), s32, h, Loc).InternalAndQuaiAddress(); err == nil {
						break
					}
					salt++
				}
			}
			a.PushBig(big.NewInt(salt)). // salt
									Push(uint64(len(init.B))).Push(1024).PushBig(val).Op(vm.CREATE2, vm.POP)
			return Action{"CREATE2", []string{val.String(), fmt.Sprint(len(init.B))}}
		}
		a.Push(uint64(len(init.B))).Push(1024).PushBig(val).Op(vm.CREATE, vm.POP)
		return Action{"CREATE", []string{val.String(), fmt.Sprint(len(init.B))}}
	case w < 87:
		to, name := g.target(idx)
		a.PushAddr(to).Op(vm.BALANCE, vm.POP)
		return Action{"BALANCE", []string{name}}
	case w < 90:
		// memory touching ops with arbitrary operands
		type mop struct {
			op   vm.OpCode
			npre int
		}
		choices := []mop{{vm.SHA3, 2}, {vm.CALLDATACOPY, 3}, {vm.CODECOPY, 3}, {vm.RETURNDATACOPY, 3}, {vm.MLOAD, 1}, {vm.MSTORE8, 2}, {vm.MCOPY, 3}}
		c := choices[g.pick(len(choices))]
		args := []string{}
		for i := 0; i < c.npre; i++ {
			v := g.memArg()
			if c.op == vm.RETURNDATACOPY && i == 1 {
				v = 0
			}
			a.Push(v)
			args = append(args, fmt.Sprint(v))
		}
		a.Op(c.op)
		if c.op == vm.SHA3 || c.op == vm.MLOAD {
			a.Op(vm.POP)
		}
		return Action{c.op.String(), args}
	default:
		return Action{"NOP", nil}
	}
}

func (g *gen) lockupInput(idx int) []byte {
	claimP := 70
	if g.o.Focus == "etx" || g.o.Focus == "lockup" {
		claimP = 40 // more unwraps in the send-focused workloads
	}
	if g.chance(claimP) && len(g.c.Lockups) > 0 {
		// claim: miner(20) to(20) lockupByte(1) epoch(4) etxGasLimit(8) = 53 bytes
		l := g.c.Lockups[g.pick(len(g.c.Lockups))]
		for _, own := range g.c.Lockups {
			if own.Owner == idx && g.chance(85) {
				l = own // only the owning contract can claim
				break
			}
		}
		in := make([]byte, 53)
		copy(in[0:20], Miner.Bytes())
		to := EOA2
		if g.chance(15) {
			to = QiLocal // ledger mismatch
		}
		copy(in[20:40], to.Bytes())
		in[40] = l.Byte
		ep := l.Epoch
		if g.chance(10) {
			ep += 50 // not below the latest epoch
		}
		in[41], in[42], in[43], in[44] = byte(ep>>24), byte(ep>>16), byte(ep>>8), byte(ep)
		gl := uint64(21000)
		if g.chance(10) {
			gl = 1 << 40
		}
		for i := 0; i < 8; i++ {
			in[45+i] = byte(gl >> (8 * (7 - i)))
		}
		return in
	}
	// unwrap: 60 bytes (exact layout is read by UnwrapQi; operands random but shaped)
	in := make([]byte, 60)
	copy(in[0:20], QiLocal.Bytes())
	if g.chance(10) {
		copy(in[0:20], EOA2.Bytes()) // not a Qi address
	}
	v := uint64(g.pick(1500))
	if g.chance(10) {
		v = 1 << 40 // more than is wrapped
	}
	for i := 0; i < 8; i++ {
		in[44+i] = byte(v >> (8 * (7 - i)))
	}
	gl := uint64(21000)
	for i := 0; i < 8; i++ {
		in[52+i] = byte(gl >> (8 * (7 - i)))
	}
	return in
}

func (g *gen) contract(idx int) ([]byte, []Action) {
	a := new(Asm)
	var plan []Action
	if g.o.Focus == "revert" && idx >= NContracts/2 && g.chance(45) {
		// a "library" that performs a well-formed send and then fails: whoever CALLs or
		// DELEGATECALLs it must not keep the send
		kind := g.pick(3)
		switch kind {
		case 0:
			a.Push(0).Push(0).Push(0).Push(0).Push(1).Push(0).Push(params.TxGas).Push(uint64(1000+g.pick(1000))).PushAddr(ExtZone).Push(0).Op(vm.ETX, vm.POP)
			plan = append(plan, Action{"ETX", []string{"ExtZone", "small", "21000", "0", "1", "0", "0", "empty", "0", "0"}})
		case 1:
			a.Push(params.TxGas).PushBig(params.MinQuaiConversionAmount).PushAddr(QiLocal).Push(0).Op(vm.CONVERT, vm.POP)
			plan = append(plan, Action{"CONVERT", []string{"QiLocal", "min", "21000"}})
		default:
			in := g.lockupInput(idx)
			a.MStoreBytes(0, in)
			a.Push(0).Push(0).Push(uint64(len(in))).Push(0).Push(0).PushAddr(Lockup).Push(400000).Op(vm.CALL, vm.POP)
			plan = append(plan, Action{"CALL", []string{"Lockup", "0", "400000", "0", fmt.Sprint(len(in)), "0", "0", "pop"}})
		}
		if g.chance(70) {
			a.Op(vm.PUSH0, vm.PUSH0, vm.REVERT)
			plan = append(plan, Action{"REVERT", nil})
		} else {
			a.Raw([]byte{0xfe})
			plan = append(plan, Action{"INVALID", nil})
		}
		return a.B, plan
	}
	if g.chance(14) {
		// a contract whose only purpose is to destroy itself (possibly after one more action)
		if g.chance(40) {
			plan = append(plan, g.action(a, idx))
		}
		to, name := g.target(idx)
		a.PushAddr(to).Op(vm.SELFDESTRUCT)
		plan = append(plan, Action{"SELFDESTRUCT", []string{name}})
		return a.B, plan
	}
	n := 1 + g.pick(6)
	for i := 0; i < n; i++ {
		plan = append(plan, g.action(a, idx))
	}
	// ending
	e := g.pick(100)
	rev := 12
	if g.o.Focus == "revert" {
		rev = 35
	}
	switch {
	case e < rev:
		a.Op(vm.PUSH0, vm.PUSH0, vm.REVERT)
		plan = append(plan, Action{"REVERT", nil})
	case e < rev+6:
		a.Raw([]byte{0xfe})
		plan = append(plan, Action{"INVALID", nil})
	case e < rev+10:
		// out of gas: tight loop
		at := len(a.B)
		a.Op(vm.JUMPDEST)
		a.B = append(a.B, byte(vm.PUSH2), byte(at>>8), byte(at))
		a.Op(vm.JUMP)
		plan = append(plan, Action{"LOOP", nil})
	case e < rev+16:
		to, name := g.target(idx)
		a.PushAddr(to).Op(vm.SELFDESTRUCT)
		plan = append(plan, Action{"SELFDESTRUCT", []string{name}})
	case e < rev+20:
		a.Push(g.memArg()).Push(g.memArg()).Op(vm.RETURN)
		plan = append(plan, Action{"RETURN", nil})
	default:
		a.Op(vm.STOP)
		plan = append(plan, Action{"STOP", nil})
	}
	if g.chance(30) {
		// dead bytes behind the program that the jump-destination analysis still scans: padding to every
		// alignment of the code length modulo 8, ending in a PUSHn whose data is cut short by the end of the code
		a.Op(vm.STOP)
		want := g.pick(8) // len(code) % 8 after the tail
		short := 0        // data bytes of the final push that are present (0 = the opcode is the last byte)
		if g.chance(40) {
			short = g.pick(4)
		}
		for (len(a.B)+1+short)%8 != want {
			a.Op(vm.JUMPDEST)
		}
		pushOp := byte(vm.PUSH1) + byte(g.pick(32))
		if g.chance(50) {
			pushOp = byte(vm.PUSH32)
		}
		a.B = append(a.B, pushOp)
		for i := 0; i < short; i++ {
			a.B = append(a.B, 0x5b)
		}
		plan = append(plan, Action{"TAIL", []string{fmt.Sprintf("len%%8=%d", len(a.B)%8), fmt.Sprintf("push%d", int(pushOp)-int(vm.PUSH1)+1), fmt.Sprintf("data-bytes-present=%d", short)}})
	}
	return a.B, plan
}

// GenCase builds one execution case from the PRNG.
func GenCase(r *rand.Rand, id int, o GenOpts) *Case {
	c := &Case{ID: id, Codes: map[string]string{}, Plan: map[string][]Action{}, Balances: map[string]string{}, bal: map[common.AddressBytes]*big.Int{}}
	g := &gen{r: r, o: o, c: c}
	regs := Regimes()
	c.PTN = regs[g.pick(len(regs))]
	c.BlockNum = 120000 + uint64(g.pick(100000)) // at least two complete coinbase epochs
	c.Eligible = !g.chance(20)
	c.baseFee = big.NewInt(int64(1 + g.pick(5)))
	c.Commit = g.chance(50)
	// seeded lockup records owned by contracts
	for i := 0; i < 2+g.pick(4); i++ {
		l := LockupSeed{Owner: g.pick(NContracts), Byte: byte(1 + g.pick(3)), Epoch: uint32(1 + g.pick(2)),
			Balance: new(big.Int).Mul(big.NewInt(int64(1+g.pick(9))), big.NewInt(1e15)).String(), Elems: uint16(1 + g.pick(3))}
		if g.chance(75) {
			l.Unlock = uint32(c.BlockNum) - uint32(g.pick(500)) - 1
		} else {
			l.Unlock = uint32(c.BlockNum) + uint32(1+g.pick(500))
		}
		c.Lockups = append(c.Lockups, l)
	}
	for i := 0; i < NContracts; i++ {
		code, plan := g.contract(i)
		c.codes[i] = code
		c.Codes[fmt.Sprintf("C%d", i)] = fmt.Sprintf("%x", code)
		c.Plan[fmt.Sprintf("C%d", i)] = plan
	}
	rich := new(big.Int).Mul(big.NewInt(1e18), big.NewInt(1000))
	c.bal[Sender.Bytes20()] = new(big.Int).Set(rich)
	c.bal[EOA2.Bytes20()] = big.NewInt(int64(g.pick(1000)))
	for i := 0; i < NContracts; i++ {
		switch g.pick(4) {
		case 0:
			c.bal[ContractAddr(i).Bytes20()] = big.NewInt(0)
		case 1:
			c.bal[ContractAddr(i).Bytes20()] = big.NewInt(int64(g.pick(5)))
		default:
			c.bal[ContractAddr(i).Bytes20()] = new(big.Int).Mul(big.NewInt(int64(1+g.pick(100))), params.MinQuaiConversionAmount)
		}
	}
	for a, b := range c.bal {
		c.Balances[common.BytesToAddress(a[:], Loc).Hex()] = b.String()
	}
	// message
	c.price = new(big.Int).Add(c.baseFee, big.NewInt(int64(g.pick(3))))
	c.GasPrice = c.price.String()
	extTop := false
	switch x := g.pick(100); {
	case x < 8:
		c.to = nil // creation: init code = code of a generated contract followed by nothing
		code, plan := g.contract(0)
		if g.chance(35) {
			// constructor with effects that returns a large runtime: fails at the code deposit
			ctor := new(Asm)
			plan = nil
			for i := 0; i < 1+g.pick(4); i++ {
				plan = append(plan, g.action(ctor, 0))
			}
			n := bigRuntime[g.pick(len(bigRuntime))]
			ctor.Push(n).Push(0).Op(vm.RETURN)
			plan = append(plan, Action{"RETURN", []string{"0", fmt.Sprint(n)}})
			code = ctor.B
		}
		c.data = code
		c.Plan["init"] = plan
	case x < 14:
		t := EOA2
		c.to = &t
	case x < 22:
		t := ExtZone // plain transfer out of scope -> CreateETX at depth 0
		if g.chance(30) {
			t = ExtRegion
		}
		c.to = &t
		extTop = true
	case x < 25:
		t := QiLocal
		c.to = &t
	default:
		t := ContractAddr(g.pick(NContracts))
		if o.Focus == "revert" && g.chance(70) {
			t = ContractAddr(g.pick(NContracts / 2)) // a caller of the failing libraries
		}
		c.to = &t
	}
	if c.to != nil {
		c.To = c.to.Hex()
	}
	c.InboundETX = c.to != nil && g.chance(12)
	c.value = big.NewInt(0)
	if g.chance(40) {
		c.value = new(big.Int).Mul(big.NewInt(int64(1+g.pick(10))), params.MinQuaiConversionAmount)
	}
	if extTop {
		// top-level sends to another chain: mostly with value, often to a destination that is not eligible
		if g.chance(60) && c.value.Sign() == 0 {
			c.value = new(big.Int).Mul(big.NewInt(int64(1+g.pick(10))), params.MinQuaiConversionAmount)
		}
		if g.chance(30) {
			c.Eligible = false
		}
	}
	c.Value = c.value.String()
	switch g.pick(10) {
	case 0:
		c.Gas = params.TxGas
	case 1:
		c.Gas = params.TxGas + uint64(g.pick(30000))
	default:
		c.Gas = 200000 + uint64(g.pick(3000000))
		if o.Focus == "revert" {
			c.Gas += 1500000
		}
	}
	c.Data = fmt.Sprintf("%x", c.data)
	switch x := g.pick(10); {
	case x < 7:
		c.Access = "all"
		for _, a := range AllAddrs() {
			c.access = append(c.access, types.AccessTuple{Address: a, StorageKeys: Slots})
		}
	case x < 9:
		c.Access = "partial"
		for i, a := range AllAddrs() {
			if i%2 == 0 {
				c.access = append(c.access, types.AccessTuple{Address: a, StorageKeys: Slots[:2]})
			}
		}
	default:
		c.Access = "none"
	}
	if o.Focus == "tails" {
		tailCase(c, id)
	}
	return c
}

// TailCases is the size of the enumerated family of Focus "tails".
const TailCases = 8 * 32 * 4 * 2

// tailCase turns c into case id of an enumerated family (no PRNG): the message calls C0, whose code is
//
//	PUSH1 dest; JUMP | PUSH1 1; PUSH1 dest; JUMPI        (the jump makes the interpreter analyse the code)
//	JUMPDEST; STOP; padding ...; PUSHn [k of its n data bytes]
//
// for every code length modulo 8, every PUSH1..PUSH32 as the last instruction and 0..3 of its data bytes
// present: the jump-destination analysis has to cope with push data that runs past the end of the code.
func tailCase(c *Case, id int) {
	id %= TailCases
	mod8, n, present, jumpi := id%8, 1+(id/8)%32, (id/256)%4, (id/1024)%2 == 1
	if present >= n {
		present = n - 1
	}
	a := new(Asm)
	if jumpi {
		a.Push(1).Push(5).Op(vm.JUMPI) // 60 01 60 05 57 -> JUMPDEST at 5
	} else {
		a.Push(3).Op(vm.JUMP) // 60 03 56 -> JUMPDEST at 3
	}
	a.Op(vm.JUMPDEST, vm.STOP)
	for (len(a.B)+1+present)%8 != mod8 {
		a.Op(vm.STOP)
	}
	a.B = append(a.B, byte(vm.PUSH1)+byte(n-1))
	for i := 0; i < present; i++ {
		a.B = append(a.B, 0x5b)
	}
	c.codes[0] = a.B
	c.Codes["C0"] = fmt.Sprintf("%x", a.B)
	c.Plan["C0"] = []Action{{"TAIL-ENUM", []string{fmt.Sprintf("len%%8=%d", mod8), fmt.Sprintf("push%d", n), fmt.Sprintf("data-bytes-present=%d", present), fmt.Sprintf("jumpi=%v", jumpi)}}}
	t := ContractAddr(0)
	c.to, c.To = &t, t.Hex()
	c.InboundETX = false
	c.value, c.Value = big.NewInt(0), "0"
	c.data, c.Data = nil, ""
	c.Gas = 2000000 // above the intrinsic gas of the largest access list
}

// AllAddrs is the enumerable account universe (plus whatever an execution creates).
func AllAddrs() []common.Address {
	out := []common.Address{Sender, EOA2, FreshEOA, Coinbase, Miner, ExtZone, ExtRegion, QiLocal, QiForeign, Lockup, common.ZeroAddress(Loc)}
	for i := 0; i < NContracts; i++ {
		out = append(out, ContractAddr(i))
	}
	for i := 1; i <= 9; i++ {
		out = append(out, Precompile(i))
	}
	return out
}

// ---------------------------------------------------------------- message

type Msg struct {
	from     common.Address
	to       *common.Address
	nonce    uint64
	value    *big.Int
	gas      uint64
	price    *big.Int
	data     []byte
	al       types.AccessList
	hash     common.Hash
	isETX    bool
	etxSendr common.Address
}

func (m *Msg) From() common.Address         { return m.from }
func (m *Msg) To() *common.Address          { return m.to }
func (m *Msg) GasPrice() *big.Int           { return m.price }
func (m *Msg) Gas() uint64                  { return m.gas }
func (m *Msg) Value() *big.Int              { return m.value }
func (m *Msg) Nonce() uint64                { return m.nonce }
func (m *Msg) IsETX() bool                  { return m.isETX }
func (m *Msg) Data() []byte                 { return m.data }
func (m *Msg) AccessList() types.AccessList { return m.al }
func (m *Msg) ETXSender() common.Address    { return m.etxSendr }
func (m *Msg) Type() byte                   { return types.QuaiTxType }
func (m *Msg) Hash() common.Hash            { return m.hash }

// ---------------------------------------------------------------- execution record

type Exec struct {
	Case    *Case
	Res     *core.ExecutionResult
	HardErr error // consensus-level error from ApplyMessage
	Panic   any
	PanicAt string // innermost /repo function on the panicking stack
	T       *TracerMon
	P       *StateProxy
	EVM     *vm.EVM
	State   *state.StateDB
	DB      ethdb.Database
	Batch   ethdb.Batch
	// balances of every known address before / after
	Before, After map[common.AddressBytes]*big.Int
	PayerBefore   *big.Int
	Refund        *big.Int // state-rent refund amount for this block context
	Logger        *log.Logger
}

var (
	sharedDB    ethdb.Database
	sharedSDB   state.Database
	sharedEtxDB state.Database
)

// Run executes the case on a fresh state. Contract creation demands that the
// address about to be created is in the transaction's access list; a wallet
// obtains it by simulating the transaction first. Run does the same: when the
// case can create contracts it is first executed with access-list enforcement
// off, the addresses that run created are added to the access list, and the
// case is then executed for real (enforcement on, monitored).
func Run(c *Case, logger *log.Logger) *Exec {
	if c.Access != "none" && !c.predicted && c.creates() {
		c.predicted = true
		dry := runOnce(c, logger, true)
		seen := map[common.AddressBytes]bool{}
		for _, t := range c.access {
			seen[t.Address.Bytes20()] = true
		}
		for _, a := range dry.P.Created {
			if !seen[a.Bytes20()] {
				seen[a.Bytes20()] = true
				c.access = append(c.access, types.AccessTuple{Address: a, StorageKeys: Slots})
				c.Predicted = append(c.Predicted, a.Hex())
			}
		}
	}
	return runOnce(c, logger, false)
}

// creates reports whether the case's programs contain a creation.
func (c *Case) creates() bool {
	if c.to == nil {
		return true
	}
	for _, plan := range c.Plan {
		for _, a := range plan {
			if a.Kind == "CREATE" || a.Kind == "CREATE2" {
				return true
			}
		}
	}
	return false
}

func runOnce(c *Case, logger *log.Logger, bypassAccessList bool) *Exec {
	ex := &Exec{Case: c, Logger: logger}
	// one database and one state.Database (64 MB code cache each) per process;
	// states are content-addressed so cases do not interfere, lockup records are
	// removed again after the run
	if sharedDB == nil {
		sharedDB, _ = newLocDB(logger)
		sharedSDB = state.NewDatabase(sharedDB)
		sharedEtxDB = state.NewDatabase(sharedDB)
	}
	mem, sdb := sharedDB, sharedSDB
	ex.DB = mem
	st, err := state.New(types.EmptyRootHash, types.EmptyRootHash, big.NewInt(0), sdb, sharedEtxDB, nil, Loc, logger)
	if err != nil {
		panic(err)
	}
	for a, b := range c.bal {
		if ia, ok := internal(common.BytesToAddress(a[:], Loc)); ok {
			st.AddBalance(ia, b)
		}
	}
	for i := 0; i < NContracts; i++ {
		ia, _ := internal(ContractAddr(i))
		st.SetCode(ia, c.codes[i])
		st.SetNonce(ia, 1)
	}
	if li, ok := internal(Lockup); ok {
		for i := 0; i < NContracts; i++ {
			if (c.ID+i)%2 == 0 {
				oi, _ := internal(ContractAddr(i))
				st.SetState(li, common.BytesToHash(oi[:]), common.BigToHash(big.NewInt(int64(1000*(i+1)))))
			}
		}
		st.SetNonce(li, 1)
	}
	if c.Commit {
		root, err := st.Commit(true)
		if err != nil {
			panic(err)
		}
		etxRoot, _ := st.CommitEtxs()
		st, err = state.New(root, etxRoot, st.GetQuaiTrieSize(), sdb, sharedEtxDB, nil, Loc, logger)
		if err != nil {
			panic(err)
		}
	} else {
		st.Finalize(true)
	}
	ex.State = st
	// lockup records live in the database; the EVM edits them through a batch
	for _, l := range c.Lockups {
		bal, _ := new(big.Int).SetString(l.Balance, 10)
		rawdb.WriteCoinbaseLockup(mem, ContractAddr(l.Owner), Miner, l.Byte, l.Epoch, bal, l.Unlock, l.Elems, common.Zero)
	}
	batch := mem.NewBatch()
	batch.SetPending(true)
	ex.Batch = batch

	quaiStateSize := big.NewInt(int64(1000 + c.ID%50000))
	bctx := vm.BlockContext{
		CanTransfer:         core.CanTransfer,
		Transfer:            core.Transfer,
		GetHash:             func(n uint64) common.Hash { return common.BigToHash(new(big.Int).SetUint64(n)) },
		CheckIfEtxEligible:  func(common.Hash, common.Location) bool { return c.Eligible },
		PrimaryCoinbase:     Coinbase,
		GasLimit:            30000000,
		BlockNumber:         new(big.Int).SetUint64(c.BlockNum),
		Time:                big.NewInt(1700000000),
		Difficulty:          big.NewInt(1000000),
		BaseFee:             new(big.Int).Set(c.baseFee),
		QuaiStateSize:       quaiStateSize,
		PrimeTerminusNumber: c.PTN,
	}
	ex.Refund = new(big.Int).Mul(bctx.BaseFee, new(big.Int).SetUint64(params.CallNewAccountGas(quaiStateSize)))
	msg := &Msg{from: Sender, to: c.to, value: c.value, gas: c.Gas, price: c.price, data: c.data, al: c.access,
		hash: common.BigToHash(big.NewInt(int64(c.ID) + 1)), nonce: 0}
	zero := common.ZeroInternal(Loc)
	var prevZero *big.Int
	if c.InboundETX {
		// what core.ApplyTransaction does around an ExternalTx: park the value on the zero address
		msg.from, msg.isETX, msg.etxSendr, msg.price = common.ZeroAddress(Loc), true, ExtZone, new(big.Int)
		if msg.gas > bctx.GasLimit/params.MinimumEtxGasDivisor {
			msg.gas = bctx.GasLimit / params.MinimumEtxGasDivisor
		}
		prevZero = new(big.Int).Set(st.GetBalance(zero))
		st.SetBalance(zero, new(big.Int).Set(c.value))
	}
	ex.T = newTracer(ex)
	ex.P = newProxy(ex, st)
	ex.P.bypassAccessList = bypassAccessList
	cfg := params.ChainConfig{ChainID: big.NewInt(1337), Location: Loc}
	evm := vm.NewEVM(bctx, core.NewEVMTxContext(msg), ex.P, &cfg, vm.Config{Debug: true, Tracer: ex.T}, batch)
	ex.EVM = evm
	ex.Before = ex.balances()
	if c.InboundETX {
		ex.Before[common.AddressBytes(zero)] = new(big.Int).Set(prevZero) // the parked value is the inbound credit, not part of "before"
	}
	ex.PayerBefore = new(big.Int).Set(ex.Before[Sender.Bytes20()])
	func() {
		defer func() {
			if r := recover(); r != nil {
				ex.Panic = r
				ex.PanicAt = topRepoFrame(string(debug.Stack()))
			}
		}()
		gp := new(types.GasPool).AddGas(bctx.GasLimit)
		ex.Res, ex.HardErr = core.ApplyMessage(evm, msg, gp)
	}()
	// core.applyTransaction restores lockup records staged for deletion when the
	// transaction failed; do the same before the last (top-level) comparison
	if ex.Res != nil && ex.Res.Failed() {
		evm.UndoCoinbasesDeleted()
	}
	if c.InboundETX {
		st.SetBalance(zero, prevZero) // as ApplyTransaction: a failed ETX's value is gone, residue too
	}
	ex.P.flush()
	ex.T.Close(nil)
	ex.After = ex.balances()
	for _, l := range c.Lockups {
		mem.Delete(rawdb.CoinbaseLockupKey(ContractAddr(l.Owner), Miner, l.Byte, l.Epoch))
	}
	return ex
}

func (ex *Exec) known() []common.Address {
	seen := map[common.AddressBytes]bool{}
	var out []common.Address
	add := func(a common.Address) {
		if !seen[a.Bytes20()] {
			seen[a.Bytes20()] = true
			out = append(out, a)
		}
	}
	for _, a := range AllAddrs() {
		add(a)
	}
	// addresses the simulation created are in the access list from the start: known from the start
	for _, t := range ex.Case.access {
		add(t.Address)
	}
	if ex.P != nil {
		for _, a := range ex.P.touchedList() {
			add(a)
		}
	}
	return out
}

func (ex *Exec) balances() map[common.AddressBytes]*big.Int {
	m := map[common.AddressBytes]*big.Int{}
	for _, a := range ex.known() {
		if ia, ok := internal(a); ok {
			m[a.Bytes20()] = new(big.Int).Set(ex.State.GetBalance(ia))
		}
	}
	return m
}

func Sum(m map[common.AddressBytes]*big.Int) *big.Int {
	s := new(big.Int)
	for _, v := range m {
		s.Add(s, v)
	}
	return s
}

func topRepoFrame(stack string) string {
	lines := strings.Split(stack, "\n")
	for i := 0; i+1 < len(lines); i++ {
		// a frame of the repository under test, wherever it is checked out (/repo, or a scratch copy in calibration runs)
		if strings.HasPrefix(lines[i], "github.com/dominant-strategies/go-quai/") && strings.HasPrefix(lines[i+1], "\t") {
			fn := lines[i]
			if k := strings.LastIndex(fn, "("); k > 0 {
				fn = fn[:k]
			}
			fn = strings.TrimPrefix(fn, "github.com/dominant-strategies/go-quai/")
			return fn
		}
	}
	return "unknown"
}
