package evmx

import (
	"bytes"
	"crypto/sha256"
	"encoding/binary"
	"fmt"
	"math/big"
	"sort"
	"strings"
	"time"

	"github.com/dominant-strategies/go-quai/common"
	"github.com/dominant-strategies/go-quai/core/rawdb"
	"github.com/dominant-strategies/go-quai/core/state"
	"github.com/dominant-strategies/go-quai/core/types"
	"github.com/dominant-strategies/go-quai/core/vm"
	"github.com/dominant-strategies/go-quai/ethdb"
	"github.com/dominant-strategies/go-quai/ethdb/memorydb"
	"github.com/dominant-strategies/go-quai/log"
	"github.com/dominant-strategies/go-quai/params"
	"github.com/dominant-strategies/go-quai/rlp"
	"github.com/holiman/uint256"
)

type locMem struct {
	*memorydb.Database
}

func (d *locMem) Location() common.Location { return Loc }

func newLocDB(logger *log.Logger) (ethdb.Database, *memorydb.Database) {
	m := memorydb.New(logger)
	return rawdb.NewDatabase(&locMem{m}), m
}

func rlpAccessList(al types.AccessList) []byte {
	b, err := rlp.EncodeToBytes(al)
	if err != nil {
		panic(err)
	}
	return b
}

// ---------------------------------------------------------------- tracer

// OpRec is one observed execution of an operation the oracles care about.
type OpRec struct {
	Seq         int
	Depth       int
	Frame       int
	Op          vm.OpCode
	PC          uint64
	Self        common.Address
	Args        []uint256.Int // top of stack first
	StackBefore int
	BalBefore   *big.Int
	EtxBefore   int
	HadSuicided bool
	ReadOnly    bool
	Aux         []byte // ETX: the access-list window of memory; lockup call: the input bytes
	AuxLen      uint64
	// lockup precompile calls: the ledger entry the call names, before and after
	LedgerBefore, LedgerAfter *big.Int
	// filled at the next step of the same frame
	Done       bool
	StackAfter int
	Result     uint256.Int
	BalAfter   *big.Int
	EtxAfter   int
	NewEtx     *types.Transaction
	// the frame ended (error / halt) before another step was seen
	FrameEnded bool
	FrameErr   error
}

type frame struct {
	id       int
	contract *vm.Contract
	depth    int
	startGas uint64
	maxMem   int
	pending  *OpRec
}

type MemObs struct {
	Frame   int
	Depth   int
	Op      vm.OpCode
	PC      uint64
	MemLen  int
	GasUsed uint64 // frame gas consumed up to and including this op's charge
	Needed  uint64 // memory gas for MemLen
}

type TracerMon struct {
	ex      *Exec
	seq     *int
	frames  []*frame
	nframes int
	Ops     []*OpRec
	// MemViolations: steps where the frame's memory is bigger than its gas spend pays for
	MemViolations []MemObs
	MaxMem        int
	Steps         int
	OpsSeen       map[vm.OpCode]int
	MemOpsSeen    map[vm.OpCode]int // ops whose step grew memory
	LastOp        vm.OpCode
}

func newTracer(ex *Exec) *TracerMon {
	return &TracerMon{ex: ex, OpsSeen: map[vm.OpCode]int{}, MemOpsSeen: map[vm.OpCode]int{}}
}

func memGas(lenBytes int) uint64 {
	w := uint64(lenBytes+31) / 32
	return w*params.MemoryGas + w*w/params.QuadCoeffDiv
}

var interesting = map[vm.OpCode]int{ // op -> number of stack operands to record
	vm.ETX: 10, vm.CONVERT: 4, vm.CALL: 7, vm.CALLCODE: 7, vm.DELEGATECALL: 6, vm.STATICCALL: 6,
	vm.SELFDESTRUCT: 1, vm.CREATE: 3, vm.CREATE2: 4,
}

func (t *TracerMon) CaptureStart(env *vm.EVM, from common.Address, to common.Address, create bool, input []byte, gas uint64, value *big.Int) {
}
func (t *TracerMon) CaptureEnd(output []byte, gasUsed uint64, d time.Duration, err error) {
	if err != nil {
		// the outermost Call / Create reports failure: whatever it did must be gone by now
		t.ex.P.failedWithoutRevert(0, true, "transaction")
	}
}
func (t *TracerMon) CaptureFault(env *vm.EVM, pc uint64, op vm.OpCode, gas, cost uint64, scope *vm.ScopeContext, depth int, err error) {
	t.closeFramesAbove(depth-1, err)
}

func (t *TracerMon) closeFramesAbove(depth int, err error) {
	for len(t.frames) > 0 && t.frames[len(t.frames)-1].depth > depth {
		f := t.frames[len(t.frames)-1]
		if f.pending != nil {
			f.pending.FrameEnded, f.pending.FrameErr = true, err
			f.pending = nil
		}
		t.frames = t.frames[:len(t.frames)-1]
	}
}

func (t *TracerMon) selfBalance(a common.Address) *big.Int {
	if ia, ok := internal(a); ok {
		return new(big.Int).Set(t.ex.State.GetBalance(ia))
	}
	return new(big.Int)
}

func etxLen(env *vm.EVM) (int, *types.Transaction) {
	env.ETXCacheLock.RLock()
	defer env.ETXCacheLock.RUnlock()
	n := len(env.ETXCache)
	if n == 0 {
		return 0, nil
	}
	return n, env.ETXCache[n-1]
}

func (t *TracerMon) CaptureState(env *vm.EVM, pc uint64, op vm.OpCode, gas, cost uint64, scope *vm.ScopeContext, rData []byte, depth int, err error, loc common.Location) {
	t.ex.P.flush()
	t.Steps++
	t.OpsSeen[op]++
	t.LastOp = op
	// frame bookkeeping
	t.closeFramesAbove(depth, nil)
	var f *frame
	if n := len(t.frames); n > 0 && t.frames[n-1].depth == depth && t.frames[n-1].contract == scope.Contract {
		f = t.frames[n-1]
	} else {
		if n > 0 && t.frames[n-1].depth == depth { // sibling frame at the same depth
			t.closeFramesAbove(depth-1, nil)
		}
		t.nframes++
		f = &frame{id: t.nframes, contract: scope.Contract, depth: depth, startGas: gas}
		t.frames = append(t.frames, f)
	}
	if err != nil {
		// the op failed before executing (out of gas, stack, ...): the frame ends
		if f.pending != nil {
			t.finish(env, f, scope)
		}
		return
	}
	// complete the previous interesting op of this frame
	if f.pending != nil {
		t.finish(env, f, scope)
	}
	// memory accounting: everything this frame's memory holds must have been paid by this frame
	ml := scope.Memory.Len()
	if ml > f.maxMem {
		t.MemOpsSeen[op]++
		f.maxMem = ml
		if ml > t.MaxMem {
			t.MaxMem = ml
		}
		used := f.startGas - scope.Contract.Gas
		if need := memGas(ml); need > used {
			t.MemViolations = append(t.MemViolations, MemObs{Frame: f.id, Depth: depth, Op: op, PC: pc, MemLen: ml, GasUsed: used, Needed: need})
		}
	}
	n, ok := interesting[op]
	if !ok {
		return
	}
	data := scope.Stack.Data()
	if len(data) < n {
		return
	}
	rec := &OpRec{Seq: t.ex.P.tick(), Depth: depth, Frame: f.id, Op: op, PC: pc, Self: scope.Contract.Address(), StackBefore: len(data)}
	for i := 0; i < n; i++ {
		rec.Args = append(rec.Args, data[len(data)-1-i])
	}
	rec.BalBefore = t.selfBalance(rec.Self)
	rec.EtxBefore, _ = etxLen(env)
	if ia, ok := internal(rec.Self); ok {
		rec.HadSuicided = t.ex.State.HasSuicided(ia)
	}
	if op == vm.ETX {
		off, sz := rec.Args[8], rec.Args[9]
		if sz.IsUint64() {
			rec.AuxLen = sz.Uint64()
		} else {
			rec.AuxLen = 1 << 62
		}
		if off.IsUint64() && sz.IsUint64() && sz.Uint64() > 0 && sz.Uint64() <= 8192 && off.Uint64()+sz.Uint64() <= uint64(scope.Memory.Len()) {
			rec.Aux = common.CopyBytes(scope.Memory.Data()[off.Uint64() : off.Uint64()+sz.Uint64()])
		}
	}
	if op == vm.CALL && addrEq(&rec.Args[1], Lockup) {
		off, sz := rec.Args[3], rec.Args[4]
		if off.IsUint64() && sz.IsUint64() && (sz.Uint64() == 53 || sz.Uint64() == 60) && off.Uint64()+sz.Uint64() <= uint64(scope.Memory.Len()) {
			rec.Aux = common.CopyBytes(scope.Memory.Data()[off.Uint64() : off.Uint64()+sz.Uint64()])
			rec.LedgerBefore = t.ledgerEntry(rec)
		}
	}
	t.Ops = append(t.Ops, rec)
	f.pending = rec
}

func addrEq(x *uint256.Int, a common.Address) bool {
	b := x.Bytes20()
	return string(b[:]) == string(a.Bytes())
}

// ledgerEntry reads what a lockup-precompile call is about: the coinbase-lockup
// record balance (claim) or the caller's wrapped-Qi balance (unwrap), as the EVM
// sees it through its batch / state.
func (t *TracerMon) ledgerEntry(rec *OpRec) *big.Int {
	switch len(rec.Aux) {
	case 53:
		miner := common.BytesToAddress(rec.Aux[0:20], Loc)
		epoch := uint32(rec.Aux[41])<<24 | uint32(rec.Aux[42])<<16 | uint32(rec.Aux[43])<<8 | uint32(rec.Aux[44])
		bal, _, _, _ := rawdb.ReadCoinbaseLockup(t.ex.DB, t.ex.Batch, rec.Self, miner, rec.Aux[40], epoch)
		return new(big.Int).Set(bal)
	case 60:
		li, ok1 := internal(Lockup)
		oi, ok2 := internal(rec.Self)
		if ok1 && ok2 {
			return t.ex.State.GetState(li, common.BytesToHash(oi[:])).Big()
		}
	}
	return nil
}

// Close marks every still-open frame as ended (called when execution is over).
func (t *TracerMon) Close(err error) { t.closeFramesAbove(-1, err) }

func (t *TracerMon) finish(env *vm.EVM, f *frame, scope *vm.ScopeContext) {
	rec := f.pending
	f.pending = nil
	data := scope.Stack.Data()
	rec.Done = true
	rec.StackAfter = len(data)
	if len(data) > 0 {
		rec.Result = data[len(data)-1]
	}
	rec.BalAfter = t.selfBalance(rec.Self)
	var last *types.Transaction
	rec.EtxAfter, last = etxLen(env)
	if rec.EtxAfter > rec.EtxBefore {
		rec.NewEtx = last
	}
	if rec.LedgerBefore != nil {
		rec.LedgerAfter = t.ledgerEntry(rec)
	}
	switch rec.Op {
	case vm.CALL, vm.CALLCODE, vm.DELEGATECALL, vm.STATICCALL, vm.CREATE, vm.CREATE2:
		// the frame entered by this operation reported failure (status word 0) to its caller
		if rec.stackOK() && rec.Result.IsZero() {
			t.ex.P.failedWithoutRevert(rec.Seq, false, rec.Op.String())
		}
	}
}

// ---------------------------------------------------------------- state proxy

type snapRec struct {
	id       int
	seq      int
	digest   [32]byte
	evmDig   [32]byte
	detail   map[string]string
	reverted bool
	revSeq   int
}

type DigestMismatch struct {
	TopLevel bool // the snapshot taken by the outermost Call/Create of the transaction
	SnapID   int
	Diff     []string
	Phase    string // "state" at RevertToSnapshot, "evm" for ETX cache / lockup ledger (checked after the EVM finished its own revert)
}

// StateProxy implements vm.StateDB by delegating to the real *state.StateDB.
type StateProxy struct {
	*state.StateDB
	ex         *Exec
	seq        int
	snaps      map[int]*snapRec
	order      []*snapRec
	touched    map[common.AddressBytes]bool
	Mismatches []DigestMismatch
	Negative   []string
	pendingEvm *snapRec
	Snapshots  int
	Reverts    int
	// Created: every address handed to CreateAccount; bypassAccessList: simulation run (see Run)
	Created          []common.Address
	bypassAccessList bool
	// FailedNoRevert: frames that reported failure although their entry snapshot was never reverted to
	FailedNoRevert int
	// DigestOn: the full-state digest is expensive; the C12 check turns it on
	DigestOn bool
}

func newProxy(ex *Exec, st *state.StateDB) *StateProxy {
	return &StateProxy{StateDB: st, ex: ex, snaps: map[int]*snapRec{}, touched: map[common.AddressBytes]bool{}, DigestOn: DigestDefault}
}

// DigestDefault decides whether new proxies compute snapshot digests.
var DigestDefault = true

func (p *StateProxy) tick() int { p.seq++; return p.seq }

func (p *StateProxy) touch(a common.InternalAddress) {
	p.touched[common.AddressBytes(a)] = true
}
func (p *StateProxy) touchedList() []common.Address {
	var out []common.Address
	for a := range p.touched {
		out = append(out, common.BytesToAddress(a[:], Loc))
	}
	sort.Slice(out, func(i, j int) bool { return bytes.Compare(out[i].Bytes(), out[j].Bytes()) < 0 })
	return out
}

// PrepareAccessList: keep production enforcement although a tracer is attached
// (the real implementation bypasses access-list checks when debug is set).
func (p *StateProxy) PrepareAccessList(sender common.Address, dest *common.Address, precompiles []common.Address, list types.AccessList, debug bool) {
	p.StateDB.PrepareAccessList(sender, dest, precompiles, list, p.bypassAccessList)
}

func (p *StateProxy) CreateAccount(a common.InternalAddress) {
	p.flush()
	p.touch(a)
	p.Created = append(p.Created, common.BytesToAddress(a[:], Loc))
	p.StateDB.CreateAccount(a)
}
func (p *StateProxy) AddBalance(a common.InternalAddress, v *big.Int) {
	p.flush()
	p.touch(a)
	p.StateDB.AddBalance(a, v)
}
func (p *StateProxy) SubBalance(a common.InternalAddress, v *big.Int) {
	p.flush()
	p.touch(a)
	p.StateDB.SubBalance(a, v)
	if b := p.StateDB.GetBalance(a); b.Sign() < 0 {
		p.Negative = append(p.Negative, fmt.Sprintf("%x balance %s after SubBalance(%s)", a[:], b, v))
	}
}

func (p *StateProxy) Snapshot() int {
	p.flush()
	id := p.StateDB.Snapshot()
	p.Snapshots++
	r := &snapRec{id: id, seq: p.tick()}
	if p.DigestOn {
		r.digest, r.detail = p.stateDigest()
		r.evmDig = p.evmDigest(r.detail)
	}
	p.snaps[id] = r
	p.order = append(p.order, r)
	return id
}

func (p *StateProxy) RevertToSnapshot(id int) {
	p.flush()
	p.StateDB.RevertToSnapshot(id)
	p.Reverts++
	r := p.snaps[id]
	if r == nil {
		return
	}
	r.reverted, r.revSeq = true, p.tick()
	if !p.DigestOn {
		return
	}
	_, detail := p.stateDigest()
	if diff := diffDetail(r.detail, detail, "state:"); len(diff) > 0 {
		p.Mismatches = append(p.Mismatches, DigestMismatch{SnapID: id, TopLevel: r == p.order[0], Phase: "state", Diff: diff})
	}
	// The EVM truncates its ETX cache and restores its lockup bookkeeping right
	// after this call returns; check those at the next observable point.
	p.pendingEvm = r
}

// failedWithoutRevert is called when a frame is seen to have ended in failure
// (status word 0 pushed to its caller, or an error returned by the outermost
// Call / Create). If the frame took a snapshot on entry and that snapshot was
// never reverted to, the state now must still equal the state at the snapshot.
// afterSeq: sequence number of the operation that entered the frame (the frame's
// snapshot is the first one taken after it); top: the outermost frame.
func (p *StateProxy) failedWithoutRevert(afterSeq int, top bool, what string) {
	var r *snapRec
	if top {
		if len(p.order) > 0 {
			r = p.order[0]
		}
	} else {
		for _, s := range p.order {
			if s.seq > afterSeq {
				r = s
				break
			}
		}
	}
	if r == nil || r.reverted {
		return
	}
	p.FailedNoRevert++
	if !p.DigestOn {
		return
	}
	_, detail := p.stateDigest()
	diff := diffDetail(r.detail, detail, "state:")
	evm := map[string]string{}
	if p.ex.EVM != nil && p.evmDigest(evm) != r.evmDig {
		diff = append(diff, diffDetail(r.detail, evm, "evm:")...)
	}
	if len(diff) > 0 {
		p.Mismatches = append(p.Mismatches, DigestMismatch{SnapID: r.id, TopLevel: r == p.order[0], Phase: "no-revert:" + what, Diff: diff})
	}
}

// flush evaluates a deferred EVM-level comparison.
func (p *StateProxy) flush() {
	if p.pendingEvm == nil || p.ex.EVM == nil {
		return
	}
	r := p.pendingEvm
	p.pendingEvm = nil
	detail := map[string]string{}
	d := p.evmDigest(detail)
	if d != r.evmDig {
		p.Mismatches = append(p.Mismatches, DigestMismatch{SnapID: r.id, TopLevel: r == p.order[0], Phase: "evm", Diff: diffDetail(r.detail, detail, "evm:")})
	}
}

func diffDetail(a, b map[string]string, prefix string) []string {
	var out []string
	keys := map[string]bool{}
	for k := range a {
		keys[k] = true
	}
	for k := range b {
		keys[k] = true
	}
	// accounts the digest did not know at snapshot time (first touched inside the
	// frame): after the revert they must not exist; their other fields are not comparable
	addrOf := func(k string) string {
		if !strings.HasPrefix(k, "state:0x") {
			return ""
		}
		rest := k[len("state:"):]
		if i := strings.IndexByte(rest, ':'); i > 0 {
			return rest[:i]
		}
		return ""
	}
	knownAtSnap := map[string]bool{}
	for k := range a {
		if ad := addrOf(k); ad != "" {
			knownAtSnap[ad] = true
		}
	}
	for k := range keys {
		if len(k) < len(prefix) || k[:len(prefix)] != prefix {
			continue
		}
		if ad := addrOf(k); ad != "" && !knownAtSnap[ad] {
			if strings.HasSuffix(k, ":exist") && b[k] != "false" {
				out = append(out, fmt.Sprintf("%s: account first touched inside the frame still exists after the revert (%q)", k, b[k]))
			}
			continue
		}
		if strings.HasPrefix(k, "state:al:") {
			if _, ok := a[k]; !ok {
				if b[k] != "false" {
					out = append(out, fmt.Sprintf("%s: address first seen inside the frame is still in the access list after the revert", k))
				}
				continue
			}
		}
		if a[k] != b[k] {
			out = append(out, fmt.Sprintf("%s: at-snapshot=%q after-revert=%q", k, a[k], b[k]))
		}
	}
	sort.Strings(out)
	return out
}

// stateDigest hashes every observable of the account state for the universe
// and every address touched so far.
func (p *StateProxy) stateDigest() ([32]byte, map[string]string) {
	st := p.StateDB
	detail := map[string]string{}
	addrs := p.ex.known()
	for _, a := range addrs {
		ia, ok := internal(a)
		if !ok {
			continue
		}
		k := "state:" + a.Hex() + ":"
		detail[k+"exist"] = fmt.Sprint(st.Exist(ia))
		if !st.Exist(ia) {
			continue
		}
		detail[k+"balance"] = st.GetBalance(ia).String()
		detail[k+"nonce"] = fmt.Sprint(st.GetNonce(ia))
		detail[k+"codehash"] = st.GetCodeHash(ia).Hex()
		detail[k+"size"] = st.GetSize(ia).String()
		detail[k+"suicided"] = fmt.Sprint(st.HasSuicided(ia))
		for _, s := range Slots {
			detail[k+"slot"+s.Big().String()] = st.GetState(ia, s).Hex()
			detail[k+"tslot"+s.Big().String()] = st.GetTransientState(ia, s).Hex()
			_, slotOk := st.SlotInAccessList(a.Bytes20(), s)
			detail[k+"alslot"+s.Big().String()] = fmt.Sprint(slotOk)
		}
		// wrapped-Qi ledger lives in the lockup contract's storage, keyed by owner contract
		if a.Equal(Lockup) {
			for i := 0; i < NContracts; i++ {
				oi, _ := internal(ContractAddr(i))
				detail[k+fmt.Sprintf("wrapped:C%d", i)] = st.GetState(ia, common.BytesToHash(oi[:])).Hex()
			}
		}
	}
	for _, a := range addrs {
		detail["state:al:"+a.Hex()] = fmt.Sprint(st.AddressInAccessList(a.Bytes20()))
	}
	detail["state:refund"] = fmt.Sprint(st.GetRefund())
	detail["state:logs"] = fmt.Sprint(len(st.Logs()))
	detail["state:triesize"] = st.GetQuaiTrieSize().String()
	return hashDetail(detail, "state:"), detail
}

// evmDigest: pending outbound ETXs and the coinbase-lockup ledger as visible
// through the EVM's batch.
func (p *StateProxy) evmDigest(detail map[string]string) [32]byte {
	if p.ex.EVM == nil {
		return [32]byte{}
	}
	evm := p.ex.EVM
	evm.ETXCacheLock.RLock()
	detail["evm:etxcache"] = fmt.Sprint(len(evm.ETXCache))
	detail["evm:coinbasesDeleted"] = fmt.Sprint(len(evm.CoinbasesDeleted))
	detail["evm:coinbaseDeletedHashes"] = fmt.Sprint(len(evm.CoinbaseDeletedHashes))
	evm.ETXCacheLock.RUnlock()
	for i, l := range p.ex.Case.Lockups {
		bal, unlock, elems, _ := rawdb.ReadCoinbaseLockup(p.ex.DB, p.ex.Batch, ContractAddr(l.Owner), Miner, l.Byte, l.Epoch)
		detail[fmt.Sprintf("evm:lockup%d(owner=C%d,byte=%d,epoch=%d)", i, l.Owner, l.Byte, l.Epoch)] = fmt.Sprintf("%s/%d/%d", bal, unlock, elems)
	}
	return hashDetail(detail, "evm:")
}

func hashDetail(d map[string]string, prefix string) [32]byte {
	keys := make([]string, 0, len(d))
	for k := range d {
		if len(k) >= len(prefix) && k[:len(prefix)] == prefix {
			keys = append(keys, k)
		}
	}
	sort.Strings(keys)
	h := sha256.New()
	var l [4]byte
	for _, k := range keys {
		binary.BigEndian.PutUint32(l[:], uint32(len(k)))
		h.Write(l[:])
		h.Write([]byte(k))
		binary.BigEndian.PutUint32(l[:], uint32(len(d[k])))
		h.Write(l[:])
		h.Write([]byte(d[k]))
	}
	var out [32]byte
	copy(out[:], h.Sum(nil))
	return out
}

// RevertedAt reports whether an event with sequence number seq lies inside a
// snapshot interval that was later reverted.
func (p *StateProxy) RevertedAt(seq int) bool {
	for _, r := range p.order {
		if r.reverted && r.seq < seq && seq < r.revSeq {
			return true
		}
	}
	return false
}
