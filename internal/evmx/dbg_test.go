//go:build verif

package evmx

import (
	"fmt"
	"math/rand"
	"testing"

	"github.com/dominant-strategies/go-quai/log"
)

func TestDbg(t *testing.T) {
	logger := log.NewLogger("nodelogs/x.log", "error", 100)
	r := rand.New(rand.NewSource(5))
	cnt := map[string]int{}
	for i := 0; i < 3000; i++ {
		c := GenCase(r, i, GenOpts{})
		ex := Run(c, logger)
		for _, op := range ex.T.Ops {
			k := kindOf(ex, op)
			key := fmt.Sprintf("%s/%s/done=%v/st=%v", op.Op, k, op.Done, op.status())
			if op.FrameEnded && op.FrameErr != nil {
				key += "/" + op.FrameErr.Error()
			}
			cnt[key]++
		}
	}
	for k, v := range cnt {
		t.Log(k, v)
	}
}
